#!/usr/bin/env python3
"""merge_changed.py <ws>: copy every file that differs between /tmp/<ws>/verif and its base commit into /verif (3-way merge for
text files changed on both sides); lists what it did. Skips build output, work/, replays/, evidence/, MANIFEST.json."""
import os, subprocess, sys, re, filecmp, shutil
w = sys.argv[1]
src = f"/tmp/{w}/verif"
base = open(f"{src}/.base").read().strip()
skip = re.compile(r"^(work|harness/target[^/]*|harness-tokio/target|lean/\.lake|replays|evidence|\.git|seeded|refactors)/|__pycache__|^MANIFEST.json$|^\.base$|Cargo.lock$|Generated/Tables.lean$")
def git_show(rev, path):
    p = subprocess.run(["git", "-C", "/verif", "show", f"{rev}:{path}"], stdout=subprocess.PIPE, stderr=subprocess.DEVNULL)
    return p.stdout if p.returncode == 0 else None
for root, dirs, files in os.walk(src):
    rel_root = os.path.relpath(root, src)
    for f in files:
        rel = os.path.normpath(os.path.join(rel_root, f))
        if skip.search(rel + ("/" if False else "")) or skip.search(rel):
            continue
        sp = os.path.join(src, rel); dp = os.path.join("/verif", rel)
        b = git_show(base, rel)
        cur = open(sp, "rb").read()
        if b is not None and b == cur:
            continue                      # unchanged by the agent
        if not os.path.exists(dp):
            os.makedirs(os.path.dirname(dp), exist_ok=True); shutil.copy(sp, dp); print("NEW     ", rel); continue
        mine = open(dp, "rb").read()
        if mine == cur:
            continue
        if b is None or mine == b:
            shutil.copy(sp, dp); print("COPIED  ", rel); continue
        # changed on both sides: 3-way merge
        open("/tmp/_base", "wb").write(b)
        p = subprocess.run(["git", "merge-file", "-p", dp, "/tmp/_base", sp], stdout=subprocess.PIPE)
        if p.returncode == 0:
            open(dp, "wb").write(p.stdout); print("MERGED  ", rel)
        else:
            print("CONFLICT", rel, "(left untouched)")
