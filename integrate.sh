#!/bin/bash
# integrate.sh <ws>: list what a scratch workspace changed relative to /verif, and its repo commits.
ws=/tmp/$1
echo "== repo commits on ws-$1 not on main:"
git -C /repo log --format='%h %s' main..ws-$1 2>/dev/null || git -C $ws/repo log --format='%h %s' -8
echo "== files new/changed in $ws/verif:"
cd $ws/verif && find . -type f \( -path ./work -o -path ./harness/target -o -path ./lean/.lake -o -path ./replays -o -path './.git' \) -prune -o -type f -print | grep -v -E '^./(work|harness/target|lean/.lake|replays|evidence|\.git)/|__pycache__' | while read f; do
  if [ ! -f /verif/$f ]; then echo "NEW  $f"; elif ! cmp -s $f /verif/$f; then echo "MOD  $f"; fi
done
