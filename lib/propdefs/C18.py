"""C18 configuration for ./check (see lib/props.py). Percent-encoding and Base64 halves; the SHA-1 and
HTTP-date halves add their modules to `modules` when merged."""

CFG = {
    "modules": ["HumphreyModel.Props.C18Percent", "HumphreyModel.Props.C18Base64"],
    "rule": "inputs fed to humphrey::percent::{percent_encode, percent_decode} and to humphrey-ws "
            "util::base64::{encode, decode} (through humphrey_ws::verif) and to the Lean models. Percent: every "
            "byte and byte pair (encode, and decode of the encoding), decode of every %X / %XY over ASCII, all "
            "strings <=4 over {%,0,9,a,F,g,+,space,e-acute}, random byte strings and random texts with good and "
            "damaged escapes. Base64: every 1- and 2-byte input, 3-byte groups (quick: every value of each byte "
            "x 40 random completions + 150k random; thorough: all 2^24 judged in Rust against a bit-level "
            "reference, disagreements and a 1/128 sample through Lean), lengths 0..64, decode of every encoding "
            "produced, decode of all 4-symbol groups over {A,B,a,z,0,9,+,/,=,*,space} alone / after / before a "
            "full group, all shorter strings over it, all strings <=9 over {A,=,/}, every ASCII byte in every "
            "group position, random full-alphabet groups, damaged encodings (truncated, '=' or foreign or "
            "non-ASCII character inserted/substituted, symbol removed). Non-trivial: percent input with a "
            "non-alphanumeric byte / text with '%'; Base64 non-empty input. Distinct = distinct case line.",
    "exhaustive": True,
    "violation_text": "the implementation's output differs from RFC 3986 section 2.1/2.3 (percent) or RFC 4648 "
                      "section 4 (Base64) on this input: wrong encoding, a decoder that does not invert the "
                      "encoder, malformed input accepted, or a panic",
    "trusted_base": ["Spec/Percent.lean: unreserved set by ranges, upper-case hex table, relation Denotes",
                     "Spec/Base64.lean: bit-level RFC 4648 section 4 (bits of the input regrouped by 6 / by 8, "
                     "Table 1, '=' padding) and the predicate Shape",
                     "Model/Base64.lean writes the Rust shifts and masks as div/mod arithmetic on naturals; the "
                     "encoder indices and the decoder accumulation are proved equal to the shift/mask forms "
                     "(groupIndices_eq_shift_mask, decoded_or_eq_add), u32::to_be_bytes is read as base-256 digits "
                     "(tied to the code by the correspondence run)"],
    "assumptions": ["decoder inputs are valid UTF-8 (Rust &str); the models are defined on all byte strings"],
    "design_ref": "6.18",
    "level_text": "Percent: encode_eq_spec (encoder = RFC 3986 layout), decode_encode, decode_iff_denotes (decode s = "
                  "some b exactly when s is literals and well-formed %XX escapes denoting b), "
                  "decode_rejects_bad_escape. Base64: encode_eq_rfc4648 (encoder = bit-level RFC 4648), "
                  "decode_encode, decode_ok_iff (Ok(b) exactly on well-shaped text, b = bit-level decoding; hence "
                  "decode_ok_implies_shape, decode_eq_spec, decode_err_iff), decode_never_panics. All for every "
                  "input, no length bound; models tied to the code by the differential run.",
    "level_note": "Trusted: Lean kernel, the two Spec files, the harness. Theorems are about the models; the Rust "
                  "loops are covered by the correspondence run (exhaustive small scopes + random).",
    "timeout": {"quick": 300, "thorough": 3000},
}
