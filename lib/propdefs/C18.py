"""C18 configuration for ./check (see lib/props.py): percent-encoding, Base64, SHA-1, HTTP dates."""

CFG = {'assumptions': ['decoder inputs are valid UTF-8 (Rust &str); the models are defined on all byte strings',
                 'SHA-1 messages shorter than 2^61 bytes (len*8 fits usize; RFC 3174 itself requires < 2^64 bits)',
                 'timestamps 0 ..= 253402300799 (1970-01-01T00:00:00 .. 9999-12-31T23:59:59), as in the property'],
 'design_ref': '6.18',
 'exhaustive': True,
 'level_note': 'Trusted: Lean kernel, the two Spec files, the harness. Theorems are about the models; the Rust loops '
               'are covered by the correspondence run (exhaustive small scopes + random). Trusted: Lean kernel, the '
               'two Spec files, the harness. Theorems are about the models; the Rust loops are covered by the '
               'correspondence run.',
 'level_text': 'Percent: encode_eq_spec (encoder = RFC 3986 layout), decode_encode, decode_iff_denotes (decode s = '
               'some b exactly when s is literals and well-formed %XX escapes denoting b), decode_rejects_bad_escape. '
               'Base64: encode_eq_rfc4648 (encoder = bit-level RFC 4648), decode_encode, decode_ok_iff (Ok(b) exactly '
               'on well-shaped text, b = bit-level decoding; hence decode_ok_implies_shape, decode_eq_spec, '
               'decode_err_iff), decode_never_panics. All for every input, no length bound; models tied to the code by '
               'the differential run.  ||  date_correct: for every timestamp of 1970..9999 the model of date.rs does '
               'not panic and yields a valid Gregorian date in 1970..9999 whose days-from-civil and time of day give '
               'back the timestamp, with the right weekday; imf_fixdate_format / date_to_string_correct: to_string is '
               'the 29-character IMF-fixdate of those fields. sha1_eq_rfc3174: for every message below 2^61 bytes the '
               'model of sha1.rs equals the RFC 3174 digest (pad_eq_rfc3174: bit-level padding of section 4; '
               'schedule_eq_rfc3174: the in-place 80-word array is W(t); compress_eq_rfc3174: the round loop is the '
               'A..E recurrence with f(t), K(t)); sha1_length. RFC test vectors are examples of both model and spec. '
               'Models tied to the code by the day-by-day and all-lengths differential run.',
 'modules': ['HumphreyModel.Props.C18Percent',
             'HumphreyModel.Props.C18Base64',
             'HumphreyModel.Props.C18Date',
             'HumphreyModel.Props.C18Sha1',
             'HumphreyModel.Props.C18Fast'],
 'rule': 'PERCENT + BASE64: inputs fed to humphrey::percent::{percent_encode, percent_decode} and to humphrey-ws '
         'util::base64::{encode, decode} (through humphrey_ws::verif) and to the Lean models. Percent: every byte and '
         'byte pair (encode, and decode of the encoding), decode of every %X / %XY over ASCII, all strings <=4 over '
         '{%,0,9,a,F,g,+,space,e-acute}, random byte strings and random texts with good and damaged escapes. Base64: '
         'every 1- and 2-byte input, 3-byte groups (quick: every value of each byte x 40 random completions + 150k '
         'random; thorough: all 2^24 judged in Rust against a bit-level reference, disagreements and a 1/128 sample '
         'through Lean), lengths 0..64, decode of every encoding produced, decode of all 4-symbol groups over '
         '{A,B,a,z,0,9,+,/,=,*,space} alone / after / before a full group, all shorter strings over it, all strings '
         '<=9 over {A,=,/}, every ASCII byte in every group position, random full-alphabet groups, damaged encodings '
         "(truncated, '=' or foreign or non-ASCII character inserted/substituted, symbol removed). Non-trivial: "
         "percent input with a non-alphanumeric byte / text with '%'; Base64 non-empty input. Distinct = distinct case "
         'line.  ||  SHA-1 + DATES: SHA-1: humphrey_ws SHA1Hash::hash on every message length 0..=1100 (every padding '
         '/ block-boundary case) x {zeros, 0xff, 0x80, counting, 2 random}, the RFC 3174 vectors, random messages up '
         'to 64 KiB (quick) / 1 MiB (thorough), against the Lean model (proved equal to RFC 3174). Dates: '
         'DateTime::from + to_string at 00:00:00 and 23:59:59 of every day 1970-01-01..=9999-12-31 (thorough; quick: '
         'every day of 1970..=2400, every 5th day afterwards, and Jan 1 / Feb 28 / Feb 29 / Mar 1 / Dec 31 of every '
         'year), every second of selected days (4 quick / 40 thorough: leap days, year and century boundaries, the '
         '2000-03-01 anchor, 9999-12-31), random timestamps in range; each output is compared with the Lean model AND '
         'judged by Spec/Date.lean (valid date, days-from-civil equation, weekday, IMF-fixdate string) on the '
         "implementation's own fields; a Rust civil-from-days reference judges it a third time (histogram key "
         'date:DIFFERS-FROM-RUST-REFERENCE). Out-of-range timestamps (negative, >= year 10000, i64 extremes) are '
         'model-correspondence only. Non-trivial = every SHA-1 case and every in-range date case; distinct = distinct '
         'case line.  ||  LENGTH SWEEPS (all codecs, through the entry points the code uses): lengths L = every 0..300 and, '
         'for every P in {512, 1024, 2048, 4096, 8192, 16384, 65536, 1 MiB}, every P-72..P+72 (quick tier at 1 MiB: '
         'P-72..P+72 for the direct SHA-1 digests, P-8..P+8 for everything else; thorough: all). Lengths 0..300 run as '
         'ordinary hex case lines: Base64 and percent encode + decode-of-the-encoding of zeros / 0xff / counting / '
         'random bytes of every length; Base64 decode of L random symbols alone and followed by each tail shape (QQ==, '
         'QUI=, Qf==, QUJ=), and (L <= 136 quick, <= 300 thorough) with one = or * at EVERY position; percent decode '
         "of a text of every length with one escape (%4A, %e9, damaged %4g) at EVERY position. Above 300 the input is "
         'a compact description expanded identically by harness and driver (x<hex> literal, <n>*<hex> cyclic pattern, '
         '<n>r<seed> splitmix64 bytes, <n>b<seed> random Base64 symbols, <n>c<start> counting bytes; functions '
         'sha1g, wsacc, b64g_enc, b64g_dec, pctg_enc, pctg_dec) and long outputs are compared as #<len>:<FNV-1a 64>. '
         'SHA-1 of every such length: directly (random + one of zeros / 0xff / 0x80 / counting; thorough: all five) '
         'AND through the public websocket_handler closure called on an upgrade request whose Sec-WebSocket-Key has '
         'L-36 characters (hashed message = key + GUID has L bytes; also keys of 0..300 characters), output = all bytes '
         'written to a scripted socket = the 101 response with Sec-WebSocket-Accept = base64(sha1(key+GUID)) + the '
         'Close frame of the dropped stream. Base64 / percent encode of L random bytes + one of zeros / 0xff / '
         "counting / 'a~' (thorough: all). Base64 decode of L random symbols (valid iff L % 4 == 0), of L-4 symbols + "
         'each tail shape (QUJD, QUI=, QQ==, Qf==; quick: 2 rotating), and with one = or * at positions {0,1,2,3, L/2, '
         'L-8, L-5..L-1} (quick: 2 rotating). Percent decode of periodic texts of length L with periods 3, 4, 5, 7, '
         '17, 65 (one escape per period, so an escape starts at every offset modulo 4, 16, 64 and the text is cut '
         'inside its last escape for 2 of every <period> consecutive lengths), shifted by 0..2 literal bytes (quick: 3 '
         'rotating periods, 1 at 1 MiB), of random literals with %4A at the start and %4a / cut %4 / cut % / %zz at '
         'the very end (quick: 1 rotating), and of L literals; in the quick tier the 1 MiB neighbourhood gets one variant '
         'of each kind. Dates have no length; the analogous sweep is timestamps +-72 around every '
         'power of two 2^0..2^62 (both signs) and every power of ten 10^0..10^18 (judged inside 1970..9999, model '
         'correspondence outside). Large inputs run through accumulator forms of the list codecs (Model/CodecTR.lean), '
         'proved equal to the models for every input (Props/C18Fast.lean).',
 'technique': 'Lean 4 theorems: encoders = RFC specs, decoder inverses, SHA-1 = RFC 3174, date = proleptic Gregorian '
              'calendar; all-lengths / every-day differential correspondence',
 'timeout': {'quick': 300, 'thorough': 3000},
 'trusted_base': ['Spec/Percent.lean: unreserved set by ranges, upper-case hex table, relation Denotes',
                  'Spec/Base64.lean: bit-level RFC 4648 section 4 (bits of the input regrouped by 6 / by 8, Table 1, '
                  "'=' padding) and the predicate Shape",
                  'Model/Base64.lean writes the Rust shifts and masks as div/mod arithmetic on naturals; the encoder '
                  'indices and the decoder accumulation are proved equal to the shift/mask forms '
                  '(groupIndices_eq_shift_mask, decoded_or_eq_add), u32::to_be_bytes is read as base-256 digits (tied '
                  'to the code by the correspondence run)',
                  'Spec/Date.lean: leap rule, month lengths, daysFromCivil (year recurrence proved), weekday = '
                  '(4+days) mod 7, IMF-fixdate layout',
                  'Spec/Sha1.lean: RFC 3174 sections 4, 5, 6.1 as functions of t (padZeros proved minimal)',
                  'Driver/C18Gen.lean + harness Seg: both expand a compact input description to the same bytes (a '
                  'disagreement shows as a difference, never hides one); FNV-1a 64 + length stand for outputs longer '
                  'than 64 bytes',
                  'std: u32::from_be_bytes / to_be_bytes / rotate_left / wrapping_add, format! width and zero flags '
                  '(modelled by their documented meaning)'],
 'violation_text': 'a home-grown primitive disagrees with its RFC on this input'}
