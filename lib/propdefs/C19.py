"""C19 configuration for ./check (see lib/props.py)."""

CFG = {
    "modules": ["HumphreyModel.Props.C19"],
    "rule": "in-process cases `bl`: a configuration TEXT (blacklist file + mode, cache size/time, one route of each type) is "
            "loaded by the real parse_conf + Config::from_tree into an AppState; a client socket BOUND to the chosen source "
            "address (127.0.0.1, 127.0.0.5, 127.9.8.7, 127.255.255.254, ::1) connects to a loopback listener; the accepted "
            "stream goes through the real connection condition (verif_verify_connection); the generated request bytes are "
            "written by the client and parsed from the accepted stream by the real Request::from_stream with the stream's "
            "own peer_addr(); the configured route is dispatched as inner_request_handler does to file_handler / "
            "directory_handler / proxy_handler / redirect_handler. Observation: (admitted?, status, FNV-1a-64 of the body, "
            "Location, did the proxy's upstream see a request). The proxy upstream is a loopback listener thread inside the "
            "harness answering `HTTP/1.1 200 OK\\r\\nContent-Length: 2\\r\\n\\r\\nok` (not a closed port). The cache is "
            "primed through AppState.cache with an entry different from the file (fresh or stale under the clock hook) so "
            "that a cached answer is distinguishable. Complete product: mode {block,forbidden} x 6 list kinds (empty, the "
            "client only, other IPv4, other IPv4+IPv6 incl. all other peers, client among IPv4/IPv6 entries, client last of "
            "65) x 5 peers x 7 (route,uri) x cache {off, on-empty, on-entry-fresh, on-entry-stale} x 12 X-Forwarded-For "
            "shapes (absent, unlisted, listed, listed first / last / middle, invalid entries, empty, random), then random "
            "lists/requests with every comma spacing (spaces, tabs, U+00A0), alternative IPv6 spellings of listed "
            "addresses, header-name case, unread fields (X-Real-IP, Forwarded), a second X-Forwarded-For field. "
            "LONG CHAINS (own block): X-Forwarded-For values of 1..5, 15..18, 31..34, 63..66, 100, 128, 129, 256, 257, 1000, 1024 entries "
            "(thorough: 49 lengths up to 4096) of distinct unlisted IPv4/IPv6 addresses with ONE listed address at the far left, the "
            "far right, the middle, and on both sides of every power of two (4..4096), of 10, 100, 1000 counted from either end; "
            "with no listed address (served); with both ends listed; with and without unparsable entries, with plain and varied "
            "spacing/spelling; modes, peers, routes, cache states and lists rotating, the peer unlisted (listed in 1 of 16). "
            "End-to-end cases `bl_e2e` (incl. chains of 17, 100, 1000 entries with the listed address first or deep inside): the real `humphrey` binary (repo/target/release/humphrey, when built) started "
            "from a generated configuration file on a free port, clients bound to chosen sources observing bytes/EOF. "
            "Non-trivial = non-empty list and (listed peer or an X-Forwarded-For field); distinct = distinct case line.",
    "exhaustive": True,
    "violation_text": "a client whose own address or a forwarded address is on the blacklist was not refused as the property "
                      "demands (closed in block mode / 403), or a client with no listed address was refused; the reason "
                      "names the clause",
    "trusted_base": ["Spec/Blacklist.lean: Holds (four clauses on mode, list, peer, forwarded addresses, observation)",
                     "IpAddr::from_str is an input of the model (oracle column computed by std itself); IpAddr equality = "
                     "equality of canonical text",
                     "Model/Http.lean parseRequest/Address.fromHeaders (tied to request.rs/address.rs by C02 and again here)",
                     "Model/Cache.lean get/set (tied to cache.rs by C16 and again here through the primed entries)",
                     "what lies behind the checks (file contents, try_find_path, upstream answer) enters the model as the "
                     "generator's expectation `fresh`"],
    "assumptions": ["the forwarded addresses of a request are the entries of its FIRST X-Forwarded-For field (the one "
                    "Address::from_headers reads); a second field of that name is ignored by the code and by the model",
                    "the server is reached over plain TCP on the address family of the listed entries (an IPv4 client seen "
                    "through a dual-stack socket as ::ffff:a.b.c.d is a different IpAddr from a.b.c.d)",
                    "never_content_to_listed's clause 'unlisted clients are served' assumes Cache::get does not panic "
                    "(clock not gone backwards, C16); listed_never_content has no such hypothesis"],
    "design_ref": "6.19",
    "level_text": "never_content_to_listed / listed_never_content: for EVERY list, mode, peer, header list, IpAddr parser, route "
                  "of each of the four types and cache state, the model of verify_connection + Address::from_headers + the "
                  "handlers' blacklist test + cache check lets a client observe exactly what the specification predicate "
                  "demands (closed / 403 / 403 / content); the check precedes the cache; every parsable forwarded entry counts, "
                  "with any spacing. The model is the repaired code (D25) and is tied to it by the complete small product above "
                  "plus random cases; any disagreement in which a listed party sees content is a failing input.",
    "level_note": "Trusted: Lean kernel, Spec/Blacklist.lean, the harness. The theorem is about the model; the Rust handlers "
                  "themselves are covered by the correspondence run (in-process and, when the binary is built, end to end).",
    "technique": "Lean 4 proof of the decision logic (case analysis over the composed model) + differential correspondence "
                 "(real sockets with chosen source addresses, real request parser, real handlers, real binary)",
    "timeout": {"quick": 300, "thorough": 3000},
}
