"""C16 configuration for ./check (see lib/props.py)."""

CFG = {
    "modules": ["HumphreyModel.Props.C16"],
    "rule": "one case = one whole operation sequence on a fresh cache, run on humphrey_server's Cache (clock hook VERIF_NOW) "
            "and replayed on the Lean model; compared: the result of every op, the size counter and the key order of the "
            "deque after every op, and (cache_seq) a lookup of every key ever stored after every op. "
            "cache_seq: exhaustive store sequences over 3 keys x 2 hosts x 3 sizes for small limits (lengths per tier: see "
            "generator_notes.exhaustive_block), random sequences up to 2000 ops over 16 routes x 2 hosts, limits 0..64 KiB, "
            "time limits {0,1,60}, non-decreasing clocks with jumps past the time limit (1 in 25 sequences has one oversize "
            "store, 1 in 25 one backwards clock step: the panics outside the hypotheses). cache_log: 1..8 threads through "
            "AppState.cache (RwLock), every op logged with a sequence number taken under the lock; the log is replayed "
            "sequentially. cache_serve: file_handler/directory_handler with a cache-enabled AppState on files rewritten "
            "between requests. Non-trivial = at least two stores and at least one eviction, overwrite or stale lookup "
            "(cache_log: >= 2 threads); distinct = distinct case line (hash set).",
    "exhaustive": True,
    "violation_text": "the cache's observable behaviour violates C16 on this operation sequence: a lookup returned something "
                      "other than nothing / the latest store for that (route, host) within the time limit, or a fitting item "
                      "was not retrievable right after being stored, or the retrievable total exceeded the limit, or the "
                      "code panicked although every store fitted the limit and the clock had not gone backwards",
    "trusted_base": ["Spec/Cache.lean: histories, the abstract map absRun (proved equal to lastSet), Allowed, SubMap",
                     "all cache accesses of the server go through one RwLock (get under read(), set under write()), so a "
                     "concurrent history is a sequential one; the harness orders its log by sequence numbers taken under the lock",
                     "the clock hook: VERIF_NOW replaces SystemTime::now() in get/set (cfg(humphrey_verif) only)",
                     "Driver/C16.lean: replay bookkeeping and the runtime judge of the implementation's output"],
    "assumptions": ["byte counts and clock values stay below 2^64 (usize/u64 modelled by Nat)",
                    "overflow checks on (harness build): with a clock that went backwards `time - cache_time` panics; without "
                    "overflow checks it wraps and the lookup answers None - the theorems that need it state the clock hypothesis",
                    "handler level: the file system returns what was last written; MIME type derived by MimeType::from_extension"],
    "design_ref": "6.16",
    "level_text": "for every history of set/get of any length over any keys (Reachable = ran from the empty cache without panic): "
                  "inv_size, inv_bound, inv_unique_keys; get_latest_or_none and refinement (retrievable map is a sub-map of "
                  "'last set per key'), get_fresh, get_allowed; set_never_panics / history_never_panics under |v| <= limit and "
                  "a non-decreasing clock, with set_panics_beyond_limit and the clock counterexample outside them; "
                  "get_after_set; retrievable_total_le_limit over any duplicate-free key list; handler level "
                  "serve_never_panics, serve_hit_is_latest, serve_miss_stores_contents.",
    "level_note": "Trusted: Lean kernel, the abstract-map spec, the harness and the RwLock linearisation argument. The theorems "
                  "are about the model; cache.rs/static.rs are tied to it by the correspondence run (state compared after "
                  "every operation).",
    "timeout": {"quick": 300, "thorough": 7200},
}
