"""C12 configuration for ./check (see lib/props.py)."""

CFG = {
    "modules": ["HumphreyModel.Props.C12"],
    "rule": "app: the REAL AsyncWebsocketApp::new_unlinked_with_config(state, handler_threads)"
            ".with_polling_interval(..).with_shutdown(..) [+ .with_heartbeat(..)] with connect / message / "
            "disconnect handlers that log into a shared Vec and reply or broadcast through AsyncStream (message "
            "handler: first payload byte mod 8 = echo / broadcast / both / two echoes / echo after 1 ms / nothing; "
            "connect handler: greet, broadcast, both or nothing; disconnect handler: broadcast or nothing), run on "
            "a helper thread in a child process under a 4 s watchdog, with the H4 tracer installed. 1..8 scripted "
            "clients (the C11 scripted socket with a per-client peer address, handed to the app through "
            "connect_hook()): scripts over text/binary messages (payload 0..300 bytes; one frame or 2..4 fragments, "
            "optionally with a client Ping and a pause between fragments; several messages available in one poll "
            "interval), moments at which nothing has arrived, Ping, Pong, and an ending by Close (with/without "
            "status), abrupt EOF, a frame with a reserved opcode, or a frame cut short; clients connect one by one "
            "with 0..3 ms delays or all at once, a few never; an AsyncSender on the harness thread unicasts (also to "
            "nobody's address) and broadcasts between the connects; handler pools of 1..8 threads (one third with "
            "1), poll interval none/0/0.1/0.5/1/2/3-6/10 ms; one third of the runs with a heartbeat (interval "
            "1..3 ms, timeout 10..25 ms; live scripted clients answer Pings; clients at EOF time out; the run "
            "waits for that or not); the run ends with the shutdown signal once the scripts are consumed and two "
            "quiet iterations have passed. 10 directed scenarios for the situations the property text singles "
            "out (shutdown first; unicast queued for a client that closes in the same iteration; broadcast from a "
            "connect handler while later clients of the batch are not yet inserted; messages already available "
            "from a stream admitted in this iteration; Err other than Close; timeout; shutdown with handlers "
            "queued; 8x8 without sleeping). real: the internal Humphrey app on a free loopback port "
            "(new_with_config(..).with_address(..)), 1..4 reference TCP clients in the harness doing the HTTP "
            "upgrade, sending masked text frames, reading greeting and echoes, all but the last closing. "
            "Non-trivial = at least one connect dispatch; distinct = distinct (scenario, logs).",
    "exhaustive": False,
    "violation_text": "the asynchronous WebSocket app did not do what C12 demands in this scenario: a connect / "
                      "message / disconnect handler dispatched not exactly once or out of per-client order, a "
                      "dispatch, send or ping for a client after its disconnect, a unicast that reached anybody "
                      "but its connected addressee, a broadcast that missed a connected client or reached one "
                      "twice, frames on a client's socket that differ from the sends decided by the loop, handlers "
                      "executed that differ from the handlers dispatched (or, with one handler thread, executed in "
                      "another order), messages dispatched that differ from what the client's script sent, or run() "
                      "not returning after the shutdown signal (WEDGED)",
    "trusted_base": ["Spec/WsApp.lean: executed, received, admitted, closings, liveAtFlush, ConnectOnceBeforeMessages, "
                     "MessagesOnceInOrder, DisconnectOnceThenSilence, UnicastOk, BroadcastOk, ExitsLast",
                     "the H4 log (humphrey_ws::verif::app_event): every event is reported by the thread running "
                     "run(), after the observation it records and before the action it announces, under one global "
                     "mutex with a sequence counter; the harness folds iterations that saw and did nothing into a "
                     "repeat count",
                     "harness/src/c12.rs: the scripted socket (C11's Mock with an address and optional Pong replies), "
                     "its client frame encoder, the handlers' execution log, the reference TCP client",
                     "the handler pool dequeues in FIFO order and runs each submitted call exactly once (C08: "
                     "fifo_dequeue, exactly_once); std::sync::mpsc channels are FIFO",
                     "Model/WsFrame.lean messageToFrame (C10) for the bytes of a send"],
    "assumptions": ["a blocking read inside an unfinished fragmented message stalls the iteration (recv_nonblocking "
                    "blocks after the first frame, C11): the model takes every receive result as given and cannot "
                    "exhibit the stall; with the scripted socket the stall has zero duration",
                    "socket timing, the heartbeat clock and the moment at which channel messages become visible are "
                    "inputs of the model (IterInput), not modelled behaviour",
                    "the execution order of queued handler calls with more than one handler thread is not determined "
                    "by the app and not demanded (dispatch order is); with one thread the harness checks that "
                    "execution order = dispatch order",
                    "DistinctPeers: no peer address is used twice in one run (an insert on a present key replaces and "
                    "drops the old stream without a disconnect dispatch; the driver reports such a log as `na`)",
                    "all three handlers are registered; writes to a stream succeed or fail silently (`.ok()`), a "
                    "failed write is found as Err/timeout in a later iteration; streams whose peer_addr() fails "
                    "are dropped before admission (not modelled)",
                    "InputsOk: the streams polled in an iteration are exactly the keys of the table, each once, and "
                    "every inner loop ends with its first None/Err - guaranteed by construction "
                    "(self.streams.keys()) and checked by the driver on every logged iteration"],
    "design_ref": "6.12",
    "level_text": "for ANY list of iterations with ANY inputs consistent with the table (RunOk) and distinct peers, "
                  "over the model stepLoop/runLoop of AsyncWebsocketApp::run: connect_once_before_messages (one "
                  "dispatchConnect per admitted client, before every dispatchMessage of it; none for others), "
                  "message_once_in_order (the dispatched messages of a client = its received messages, in order, each "
                  "once; needs no address hypothesis), disconnect_once_then_silence (a client is found closed / "
                  "broken / timed out at most once, then exactly one dispatchDisconnect and afterwards no dispatch, "
                  "send or ping for it), unicast_only_addressee and broadcast_each_connected_once (for any table and "
                  "any iteration: the effects of flushing that message are one sendTo of the message's frame to the "
                  "addressee iff connected at that moment / exactly one per connected client and nobody else), "
                  "run_decomposes (a run's trace is the concatenation of its iterations' traces from the tables "
                  "reached, which have no address twice), shutdown_returns (the loop is left at the first iteration "
                  "that sees the flag: trace of the earlier iterations ++ [exit], the only exit, phase exited), "
                  "no_panic (get_mut(..).unwrap() never fails). The model is tied to async_app.rs by replaying the "
                  "per-iteration inputs of the H4 log through stepLoop and comparing the effects iteration by "
                  "iteration; the implementation's trace is also judged directly by the Spec predicates together "
                  "with the sockets' frames, the handlers' execution log and the clients' scripts.",
    "level_note": "Proof of the loop; partial for socket timing (the logs show only the interleavings the OS "
                  "produced). Trusted: Lean kernel, Spec/WsApp.lean, the H4 hook's placement, the harness. Dispatch = "
                  "submission to the FIFO handler pool (C08). No defect was found in async_app.rs.",
    "technique": "normal form of an iteration (poll effects ++ connect dispatches ++ flush, table = filter + insert) "
                 "proved equal to the line-for-line model under InputsOk; induction over the list of iterations with "
                 "a per-client invariant (not yet admitted / connected / gone); replay of real event logs through "
                 "the executable model",
    "timeout": {"quick": 200, "thorough": 3000},
}
