"""C17 configuration for ./check (see lib/props.py)."""

CFG = {
    "modules": ["HumphreyModel.Props.C17"],
    "rule": "one case = one whole operation sequence (length <=60, 1..5 users, with / without pepper, default / "
            "refresh lifetimes from {3600,0,5,50,7,100,u64::MAX}) against the real AuthProvider<Vec<User>> with the "
            "VERIF_NOW clock and the closure registered by with_auth_route: ops over {create_user, remove_user, "
            "verify(right / wrong / other user's password, unknown uid), exists, create_session, "
            "create_session_with_lifetime(0 / short / long / overflowing), refresh_session, invalidate_session, "
            "invalidate_user_session, get_uid_by_token, auth-route request with / without / with stale or unknown "
            "cookie, clock advance (incl. exactly onto / one before the latest expiry)}. After every step: exists for "
            "every uid and get_uid_by_token for every token ever issued. Real uids / tokens are renamed to indices by "
            "first appearance; their format (64 lower-case hex / UUID v4) and distinctness are checked in the harness "
            "(#fmt=). Class A: users made by create_user (<=3 creates, <=5 Argon2 calls per sequence); class B: a "
            "pre-created pool of users cloned into the provider. 16 directed sequences and 9 direct checks of the hash "
            "contract's pepper clause on the real Argon2. Non-trivial = at least one session issued and one "
            "token-taking operation; distinct = distinct case line.",
    "exhaustive": False,
    "violation_text": "the outputs of the real AuthProvider / auth route over this operation sequence differ from the "
                      "abstract specification (token map + password map): see the first differing step",
    "trusted_base": ["Spec/Auth.lean: the abstract state Token -> Option (Uid x Expiry), Uid -> Option Password and its step",
                     "Argon2 satisfies HashScheme.Lawful (verify (hash p salt pep) p' pep' <-> p = p' and pep = pep'); "
                     "exercised, not proved",
                     "OsRng / Uuid::new_v4 never repeat a value (hypothesis Fresh); distinctness is checked per run",
                     "the harness's renaming of random uids / tokens to indices"],
    "assumptions": ["Fresh: every drawn uid / token differs from all drawn before",
                    "now + lifetime does not overflow u64 in a build without overflow checks (the model panics there, "
                    "as the harness build does)",
                    "single-threaded use of one AuthProvider (it is behind a Mutex in with_auth_route)"],
    "design_ref": "6.17",
    "level_text": "refinement: every AuthProvider operation of the model (line-by-line from lib.rs / database.rs / "
                  "session.rs / app.rs) simulates the abstract token / password maps with equal outputs, for operation "
                  "sequences of any length over any number of users and any clock, under Fresh and the hash contract; "
                  "the named corollaries follow. The model is tied to the code by a differential run over whole "
                  "operation sequences judged by the spec.",
    "level_note": "Trusted: Lean kernel, Spec/Auth.lean, Argon2's contract, the randomness source (Fresh), the harness. "
                  "The theorems are about the model; the Rust code is covered by the correspondence run.",
    "timeout": {"quick": 600, "thorough": 7200},
}
