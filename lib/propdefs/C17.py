"""C17 configuration for ./check (see lib/props.py)."""

CFG = {
    "modules": ["HumphreyModel.Props.C17"],
    "rule": "one case = one whole operation sequence (length <=60, 1..5 users, with / without pepper, default / "
            "refresh lifetimes from {3600,0,5,50,7,100,u64::MAX}) against the real AuthProvider<Vec<User>> with the "
            "VERIF_NOW clock and the closure registered by with_auth_route: ops over {create_user, remove_user, "
            "verify(right / wrong / other user's password, unknown uid), exists, create_session, "
            "create_session_with_lifetime(0 / short / long / overflowing), refresh_session, invalidate_session, "
            "invalidate_user_session, get_uid_by_token, auth-route request with / without / with stale or unknown "
            "cookie, clock advance (incl. exactly onto / one before the latest expiry)}. After every step: exists for "
            "every uid and get_uid_by_token for every token ever issued. Real uids / tokens are renamed to indices by "
            "first appearance; their format (64 lower-case hex / UUID v4) and distinctness are checked in the harness "
            "(#fmt=). Class A: users made by create_user (<=3 creates, <=5 Argon2 calls per sequence); class B: a "
            "pre-created pool of users cloned into the provider. 16 directed sequences and 9 direct checks of the hash "
            "contract's pepper clause on the real Argon2. "
            "SECRETS DIMENSION. Passwords are carried in the case line itself (x + hex of the bytes handed to the real "
            "code; the model compares the fields). Class P (password pairs, through create_user / verify of the provider, "
            "with and without pepper): for a base password x of every listed BYTE length -- quick: ASCII 0,1,8,16,32,55,"
            "56,64,72,100,127,128,129,255,256,257,1000,4096,10000; multi-byte (1..4-byte characters, ending inside a "
            "multi-byte character) 3,9,17,33,56,57,65,73,74,128..131,256..258,1000,4097; with embedded NUL bytes 1,4,8,16,"
            "64,128,129,256,1000; thorough: every length 0..136 (0..140 multi-byte, 1..70 NUL) and the neighbourhoods of "
            "192,256,384,512,768,1024,2048,4096,8192,16384,65536 plus 10000 and 32768, plus 400 random (family, "
            "length, position) bases -- and every near-miss q of x (only the last / first / middle / one random "
            "character changed [for a multi-byte character only the LAST byte of its encoding changes, so a byte cut "
            "falls inside the character], proper prefix, proper suffix, first half, x+char, x+NUL, x+space, char+x, "
            "case of one letter, cut at the first NUL, NUL->space, NULs removed, NFD spelling; thorough also x+x, "
            "space+x, x+multi-byte char, all letters case-swapped): forward = create a user with x, verify(x) must "
            "succeed, verify(q) must fail for every q (1 create, 1+|q| verifies); reverse = a user created with q "
            "(quick: last-char / proper-prefix / x+char / cut-at-NUL; thorough: 8 variants) must verify q and refuse x. "
            "Random sequences draw 1/4 of the created passwords from these families; 1/3 of their verifies on an existing "
            "user try a near-miss of the right password. Class H (pepper as a secret, User::create / verify directly, "
            "function hashc): pepper of 1,8,16,32,64,72,128,129,256,257,1000,4096 random bytes (thorough: 1..140 and "
            "the neighbourhoods of 256,512,1024,4096, 10000) against last / first / middle byte changed, one byte "
            "shorter at either end, +NUL, +byte, no pepper, and a wrong password under the right pepper. Classes T / U "
            "(near-misses of REAL tokens / uids, index 10000+1000*b+c = derive_secret(real value b, code c); checked in "
            "the harness to differ from every real value): every position's character replaced, every proper prefix "
            "(incl. empty), every position upper-cased, value+0 / +NUL / +space / +LF / +TAB / space+value / doubled / "
            "all upper-case / first character dropped / 0+value, on get_uid_by_token, the auth-route cookie (no "
            "whitespace / control variants there: the cookie parser trims), refresh_session, invalidate_session "
            "(tokens) and exists, verify with the owner's right password, remove_user, create_session(_with_lifetime), "
            "invalidate_user_session (uids); the real token / user must be untouched afterwards (observed after every "
            "step). The random sequences take half of their unknown tokens / uids from these near-misses. "
            "LENGTH DIMENSION of the same secrets, classes TL / UL (index 1000000000+100000000*b+2000000*kind+n = "
            "derive_len(real value b, kind, n); no hashing involved): the real token / uid EXTENDED by n characters at "
            "the back and at the front, for every n in 1..300 (thorough 1..1100) and every n within 2 of P and of P-len "
            "(total length within 2 of P) for P in {512,1024,2048,4096,8192,16384,32768,65536} plus 2^17 and 2^20 (quick: "
            "P and P-len only), with five fillers each (the digit 0 repeated; the secret's own adjacent character repeated; "
            "the secret itself repeated cyclically; pseudo-random hex digits; the two-byte character e-acute, i.e. 2n "
            "bytes [not for n >= 100000]); TRUNCATED by every n in 1..len at the back (proper prefixes) and at the front "
            "(proper suffixes); its last / first n characters OVERWRITTEN (same length); ROTATED by every n -- each on "
            "get_uid_by_token, the auth-route cookie, refresh_session, invalidate_session (tokens: 416 sequences of 40 "
            "such calls in the quick tier) and on exists, verify with the owner's right password, remove_user, "
            "create_session(_with_lifetime), invalidate_user_session (uids: 606 sequences), the real session / user "
            "observed untouched after every step and the short session expiring on time at the end. A sixth of the "
            "unknown tokens / uids of the random sequences are such length near-misses (n from the list, a multiple of "
            "256, or random up to 70000). "
            "Non-trivial = at least one session issued and one token-taking operation, or (class P) a user created and "
            "a different password refused; distinct = distinct case line.",
    "exhaustive": False,
    "violation_text": "the outputs of the real AuthProvider / auth route over this operation sequence differ from the "
                      "abstract specification (token map + password map): see the first differing step",
    "trusted_base": ["Spec/Auth.lean: the abstract state Token -> Option (Uid x Expiry), Uid -> Option Password and its step",
                     "Argon2 satisfies HashScheme.Lawful (verify (hash p salt pep) p' pep' <-> p = p' and pep = pep'); "
                     "exercised, not proved",
                     "OsRng / Uuid::new_v4 never repeat a value (hypothesis Fresh); distinctness is checked per run",
                     "the harness's renaming of random uids / tokens to indices; derive_secret (near-misses of real uids / "
                     "tokens differ from every real one: checked per step, reported in #fmt=)",
                     "passwords / peppers in a case line are the bytes handed to the real code (hex is injective)"],
    "assumptions": ["Fresh: every drawn uid / token differs from all drawn before",
                    "now + lifetime does not overflow u64 in a build without overflow checks (the model panics there, "
                    "as the harness build does)",
                    "single-threaded use of one AuthProvider (it is behind a Mutex in with_auth_route)"],
    "design_ref": "6.17",
    "level_text": "refinement: every AuthProvider operation of the model (line-by-line from lib.rs / database.rs / "
                  "session.rs / app.rs) simulates the abstract token / password maps with equal outputs, for operation "
                  "sequences of any length over any number of users and any clock, under Fresh and the hash contract; "
                  "the named corollaries follow. The model is tied to the code by a differential run over whole "
                  "operation sequences judged by the spec.",
    "level_note": "Trusted: Lean kernel, Spec/Auth.lean, Argon2's contract, the randomness source (Fresh), the harness. "
                  "The theorems are about the model; the Rust code is covered by the correspondence run.",
    "timeout": {"quick": 600, "thorough": 7200},
}
