"""C13 configuration for ./check (see lib/props.py)."""

CFG = {
    "modules": ["HumphreyModel.Props.C13", "HumphreyModel.Props.C13Recognise"],
    "rule": "json_parse: a text fed to humphrey_json::Value::parse, to the Lean model of parser.rs and to the independent "
            "RFC 8259 acceptor `recognise` (Spec/Json.lean); outputs compared as canonical value renderings "
            "(Z/T/F, n+16 hex digits of f64::to_bits, s+hex(UTF-8)+'.', [..], {s.. value ..}; a prefix code, hence "
            "injective, independent of float formatting) or ERR. Blocks: (1) EXHAUSTIVE all strings of <=5 symbols "
            "over the 16-symbol token alphabet { } [ ] , : \" \\ 0 1 - . e true null space (1 118 481 texts); "
            "(2) EXHAUSTIVE all strings of <=7 characters over {+,-,.,0,1,9,e,E} (2 396 745); (3) ~140 fixed probes "
            "(NaN/inf/+1/01/.5/5./1e, missing comma, \\u+041, short \\u, surrogate pairings, raw control characters, "
            "BOM, empty input, depth 255/256/257/300/400, rounding boundaries 2^53+1, 2^-1075, f64::MAX); "
            "(4) 20 000 documents generated from the RFC grammar (spine depth up to 300, every escape form, upper and "
            "lower case hex, surrogate pairs, whitespace at every ws position, duplicate keys, long mantissas, extreme "
            "exponents; every fifth document with ill-formed strings/numbers) and 1-2 single-edit mutants of each "
            "(delete/replace/swap/insert from a 28-symbol edit alphabet). json_ser / json_rt: 12 000 generated Values "
            "over all six variants (strings over all of Unicode incl. NUL, controls, U+007F, U+2028, U+FFFF, astral; "
            "numbers over the finite f64 range incl. -0, subnormals, integers beyond 2^53, powers of two and their "
            "predecessors), serialised compact and with a random indent 0..8 (every 16th value with all of 0..8), plus "
            "chains of depth 10..400; json_rt parses the implementation's text back. num_show: 30 000 finite f64 bit "
            "patterns: Display text and from_str(Display).to_bits(). Numbers: the model keeps a number as the normal "
            "form of its lexeme (sign, mantissa without trailing zeros, power of ten); the driver rounds that exact "
            "decimal to binary64 (nearest-even, overflow to inf) with exact naturals and compares with to_bits; for "
            "json_ser the harness passes `bits=Display text` per distinct number and the driver checks that the text "
            "is an RFC number lexeme, rounds back to bits (parse(show n) = n) and is in the model's positional normal "
            "form (decShow(decParse t) = t) before serialising with the model. Non-trivial = parse cases that are "
            "accepted or have >= 2 characters, every ser/rt/num case; distinct = distinct case line.",
    "exhaustive": True,
    "violation_text": "Value::parse accepts a text that is not RFC 8259 JSON, or rejects one that is (nested <= 256, no "
                      "unpaired-surrogate escape), or serialize/serialize_pretty emits text that is not RFC 8259 or "
                      "does not parse back to the value",
    "trusted_base": [
        "Spec/Json.lean: NumberLexeme, StrBody, J/JsonText (transcription of RFC 8259 sections 2-7), LawfulCodec, depthOf",
        "Spec/Json.lean `recognise`: independent recursive-descent acceptor used as the run-time spec verdict "
        "(tied to the model and the implementation by three-way agreement on every case, not by proof)",
        "Driver/C13.lean decToBits: round-to-nearest-even of an exact decimal to binary64 (checked against "
        "f64::from_str on every number met in the run)",
        "Rust str::chars / Lean String.fromUTF8? agree on UTF-8 decoding (driver only)",
    ],
    "assumptions": [
        "input is valid UTF-8 (Rust &str); a leading BOM is not whitespace (RFC 8259 section 8.1 lets a parser reject it)",
        "codec laws, hypotheses of the theorems, tested not proved: f64::from_str is defined on every RFC number lexeme "
        "and depends only on the denoted real and the sign (possibly returning +-inf); Display of a finite f64 is an "
        "RFC number lexeme in positional notation; from_str(Display(x)) = x bit for bit",
        "values given to the serialiser have finite numbers (NaN/inf print as `NaN`/`inf`, outside the property) and, "
        "for the round trip, nesting depth <= 256",
        "texts containing an escape that denotes an unpaired surrogate may be accepted or rejected (the code rejects them)",
        "nesting beyond 400 and stack exhaustion belong to C03",
    ],
    "design_ref": "6.13",
    "level_text": "parse_iff_json_text: for every string and value, the model of Value::parse returns the value exactly "
                  "when the string is an RFC 8259 text (no unpaired-surrogate escape) nested <= 256 that denotes it "
                  "(parse_sound + parse_complete, any length, all of Unicode, any lawful number codec); "
                  "members_in_document_order / first_member_first; serialize_is_json and serialize_pretty_is_json (any "
                  "indent) for all values with finite numbers; roundtrip and roundtrip_pretty for all such values of "
                  "depth <= 256; number_check_iff_rfc. The model is tied to parser.rs/serialize.rs by two exhaustive "
                  "small scopes plus grammar-directed documents, mutants and generated values, each case also judged by "
                  "an independent RFC acceptor. Props/C13Recognise.lean closes two former trust gaps: "
                  "recognise_depth_iff_json_text (the executable acceptor that judges the implementation accepts exactly "
                  "the grammar, with the exact depth) and decCodec_lawful (the driver's number codec satisfies the three "
                  "codec laws on its normal forms; DecFin is exactly the range of decParse).",
    "level_note": "Trusted: Lean kernel, the RFC transcription in Spec/Json.lean, the harness and driver. The theorems "
                  "are about the model; f64 parsing/printing enters only through the three codec laws, which the run "
                  "tests against Rust (decCodec is finer than f64: that f64::from_str/Display is itself a lawful codec "
                  "remains tested, not proved). Texts flagged as containing an unpaired surrogate escape have no grammar "
                  "in the spec; model and Rust both reject them (parse_none_of_recognise).",
    "timeout": {"quick": 300, "thorough": 3000},
}
