"""C14 configuration for ./check (see lib/props.py)."""


def known_matcher(d):
    # Representation limits of Value::Number(f64) / Value::Null. The driver gives these two reasons only when the
    # generated value holds an integer that `as f64` changes (resp. a Some(None) of an Option<Option<_>>) AND the
    # implementation's whole output (JSON and returned value) is what the model of the generated code predicts;
    # any other deviation of a round trip keeps the reason `roundtrip` / `shape` and is reported.
    if d["line"].startswith("c14_ty\t"):
        if d["spec"] == "bad:int-beyond-2^53":
            return "int-beyond-2^53"
        if d["spec"] == "bad:nested-option-some-none":
            return "nested-option-some-none"
    return None


CFG = {
    "modules": ["HumphreyModel.Props.C14"],
    "rule": "The cases are PROGRAMS: per batch the harness writes a scratch crate (work/c14_gen, path dependency on the "
            "working tree's humphrey-json with the derive feature) of 90 program files, each declaring 1..6 top-level "
            "types (named struct 1..8 fields via derive, via json_map!, tuple struct 1..6 fields via derive and via "
            "json_map! with `0 => \"key\"`, enum 1..8 unit variants) over field types {bool, u8..u64, usize, i8..i64, "
            "f32, f64, String, Option<T>, Vec<T>, earlier types of the same program, inline nested structs/enums}, half "
            "of the keys / variant names renamed (#[rename] or the json_map! string) to strings with spaces, quotes, "
            "backslashes, NUL, control characters, non-ASCII, astral characters, JSON syntax, other fields' default "
            "names, Rust keywords (a derive field or variant is then declared as r#keyword without rename), and (1 type in 25) a "
            "deliberately duplicated key; 2 random values per type (integers biased to "
            "type bounds and to 2^53-1, 2^53, 2^53+1, 2^63, 2^64-1; f32/f64 over all non-NaN bit patterns incl. -0, "
            "subnormals, inf; strings over all of Unicode; Option 30% None) and 1 foreign JSON value per type "
            "(missing / extra / duplicate / reordered members, wrong array length, non-object, numbers outside the "
            "target type, fractional, negative, inf, NaN); plus 12 files x 40 json! literals generated from the "
            "documented grammar (null / array / object / string literal / ~35 forms of embedded Rust expressions in every "
            "position, keys as literals or expressions, trailing commas, nesting to depth 6 with forced chains) and, "
            "one in six, variants outside the grammar that the munchers accept (surplus commas, missing comma after "
            "null or a group). The crate is built with cargo build --offline --release and run; every case function "
            "runs under catch_unwind and prints canonical renderings (JSON: Z/T/F, n+f64 bits, s+hex+., [..], {..}; "
            "typed values likewise with integers in decimal). c14_ty: to_json(v) and from_json(to_json(v)) against "
            "toJson/fromJson of the model, shapeOk and the from_to hypotheses; c14_from: from_json(json) against fromJson; "
            "c14_lit: the literal's value against expandJson (model of the munchers) and, for literals of the grammar, "
            "against Lit.value (what the spelled JSON text denotes). An item that does not compile is a case with output "
            "COMPILE-ERROR (attributed through the source lines rustc names, the rest is rebuilt). Quick: 2 batches, "
            "thorough: 32. Fixed probes in batch 0: json!([null, 1, 2]), json!(null), json!(), json!({}), a struct with "
            "u64 = 2^53+1 and Option<Option<u8>> = Some(None). Non-trivial = every case; distinct = distinct case line.",
    "exhaustive": False,
    "violation_text": "a generated program shows that to_json/from_json does not return the value it was given, or the JSON "
                      "does not have the documented shape, or a json! literal does not evaluate to the value its JSON text "
                      "denotes, or generated code that the documentation says should compile does not",
    "known_matcher": known_matcher,
    "trusted_base": [
        "Spec/JsonTyped.lean: Lit / Lit.tok / Lit.spell / Lit.value (grammar of json! literals and the text they spell), "
        "shapeOk, KeysDistinct, NoNestedOpt, Representable; Spec/Json.lean (RFC 8259, C13) for the meaning of the text",
        "Model/JsonTyped.lean Num: an f64 described by provenance (integer / widened f32 / bits); the casts "
        "(integer -> f64 nearest-even, f64 -> integer truncating and saturating, f32 <-> f64) are IEEE/Rust semantics "
        "assumed by the model and exercised by every c14_ty / c14_from case",
        "Tok.expr: an embedded Rust expression enters the model as the value Value::from gives it (the harness's table of "
        "expression forms); the `expr` fragment parser and can_begin_expr are rustc's",
        "the generator of the scratch crate, its Canon trait (canonical rendering of typed values) and rustc/cargo",
    ],
    "assumptions": [
        "keys of one struct / variant names of one enum are pairwise distinct (otherwise get / match take the first: "
        "duplicate_key_lost, duplicate_variant_lost); generated on purpose in 1 type of 25 and then only compared with the model",
        "no f32/f64 NaN in typed values (NaN != NaN, and Rust does not fix NaN payloads across casts)",
        "usize is 64 bits; u128/i128/isize are not generated",
        "generic structs and enums with data are outside the generated universe",
        "proc-macro token handling (syn/quote) is covered by compilation and correspondence only",
    ],
    "design_ref": "6.14",
    "level_text": "json_macro_value / json_macro_eq_parse: for EVERY literal of the documented grammar (any size and nesting, "
                  "null, strings, embedded expressions in every position, literal or expression keys, trailing commas) the "
                  "model of the three token munchers - one match alternative per macro_rules! arm, in arm order - evaluates "
                  "the literal's token tree to the value that Value::parse (C13 model, any lawful number codec) returns for "
                  "the JSON text the literal spells. from_to: for every type of the universe and every value of it, "
                  "from_json(to_json(v)) = Ok(v) when keys are distinct, no Option<Option<_>> occurs and every integer is an "
                  "f64 (in particular |i| <= 2^53), by induction on the type; each hypothesis is shown necessary by a proved "
                  "counterexample (u64_beyond_2_53_lost, some_none_lost, duplicate_key_lost, duplicate_variant_lost). "
                  "shape_named / shape_tuple / shape_enum / shape_ok: documented shapes; to_json_named_derive / "
                  "to_json_named_json_map / to_json_enum_macro: the token trees the generators write go through the munchers "
                  "to exactly that JSON. The model is tied to the code by generated programs compiled against the working tree.",
    "level_note": "Trusted: Lean kernel, Spec/JsonTyped.lean, the harness (program generator, canonical printing), rustc. The "
                  "theorems are about the model of the generated code; the proc-macro crate itself is covered by compiling "
                  "and running what it generates. Known findings (representation limits of Value): integers that are not "
                  "f64 values, Some(None) of Option<Option<_>>. Repaired: the json! array arm for null dropped the rest.",
    "technique": "Lean 4 proof over a model of the macro arms and of the generated code + differential correspondence over "
                 "generated, compiled and executed Rust programs",
    "timeout": {"quick": 600, "thorough": 6000},
}
