"""C05 configuration for ./check (see lib/props.py)."""

CFG = {
    "modules": ["HumphreyModel.Props.C05"],
    "rule": "pairs (pattern, text) fed to humphrey::krauss::wildcard_match and to the Lean model; "
            "exhaustive block: all patterns <=6 over {*,a,b} x all texts <=8 over {a,b}, the same one size "
            "smaller over {*,e-acute,emoji}, patterns/texts over {*,a} with * as text character; random pairs "
            "built from repeated units (self-overlapping literals). Non-trivial = pattern has >=1 '*' and >=1 "
            "literal; distinct = distinct case line (hash set).",
    "exhaustive": True,
    "violation_text": "wildcard_match(pattern, text) differs from the glob relation (proved equal to the model)",
    "trusted_base": ["Spec/Glob.lean: the 4-rule relation Glob and `subst` (proved equivalent to each other)",
                     "Rust str::chars / Lean String.fromUTF8? agree on UTF-8 decoding (driver only)"],
    "assumptions": ["pattern and text are valid UTF-8 (Rust &str)"],
    "design_ref": "6.5",
    "level_text": "wildcard_match_iff_glob: for every pattern and text (any length, any Unicode scalar) the model of "
                  "krauss.rs answers true exactly when the text is the pattern with each * replaced by some string; "
                  "the model is tied to the code by an exhaustive small-scope plus biased-random differential run, in "
                  "which any disagreement is a failing input because the model is proved equal to the spec.",
    "level_note": "Trusted: Lean kernel, the 4-rule Glob relation (proved equivalent to substitution), the harness. "
                  "The theorem is about the model; the loop of krauss.rs itself is covered by the correspondence run.",
}

