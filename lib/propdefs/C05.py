"""C05 configuration for ./check (see lib/props.py)."""

CFG = {
    "modules": ["HumphreyModel.Props.C05"],
    "rule": "pairs (pattern, text) fed to humphrey::krauss::wildcard_match and to the Lean model; "
            "exhaustive block: all patterns <=6 over {*,a,b} x all texts <=8 over {a,b}, the same one size "
            "smaller over {*,e-acute,emoji}, patterns/texts over {*,a} with * as text character; random pairs "
            "built from repeated units (self-overlapping literals). LONG pairs (`globr`/`router` cases, run-length "
            "encoded in the case line as `R<count>*<hex>` segments that harness and Lean driver expand identically), "
            "every one through wildcard_match AND String::route_matches: (1) a wildcard absorbs a run of N characters "
            "(N over 100, 128, 255-257, 1000, 1024, 4096, 8192, 10^4, 65535-65537, 10^5, 262144, 10^6, 2^20-1..2^20+1, "
            "2*10^6, 2^21+1; thorough also 2^22+1, 10^7, 2^24+1) of units a / e-acute / emoji / ab / /x / * with literal "
            "context before, after, around and in the middle (also adjacent wildcards and two wildcards sharing the run), "
            "each with near misses (other last character, suffix cut, other first character); (2) a self-overlapping "
            "literal u^k v after a wildcard against u^n v, u^n, u^n w with k over 1..100000 and k*n over 10^4, 65537, 10^5, "
            "10^6, 2^20+1, 3*10^6, 10^7, 2^24+1 (thorough: up to 3*10^8 steps), ASCII, two-byte, four-byte and periodic "
            "units; (3) many wildcards: 17, 64, 100, 128, 255-257, 1000, 1024, 4096, 65536 (thorough: 10^5, 10^6) stars, "
            "separated by literals or adjacent, each absorbing something / nothing, one item too few / too many; (4) long "
            "literal patterns (the same N sweep) without a wildcard or with one at an end / in the middle, equal texts and "
            "texts one unit shorter / longer / differing in one character; (5) random run-length compositions (pattern "
            "derived from the text segment by segment; 3000 quick / 60000 thorough); in all about 8000 long pairs quick, 67000 thorough. Non-trivial = pattern has >=1 '*' "
            "and >=1 literal; distinct = distinct case line (hash set).",
    "exhaustive": True,
    "violation_text": "wildcard_match(pattern, text) differs from the glob relation (proved equal to the model)",
    "trusted_base": ["Spec/Glob.lean: the 4-rule relation Glob and `subst` (proved equivalent to each other)",
                     "Rust str::chars / Lean String.fromUTF8? agree on UTF-8 decoding (driver only)"],
    "assumptions": ["pattern and text are valid UTF-8 (Rust &str)"],
    "design_ref": "6.5",
    "level_text": "wildcard_match_iff_glob: for every pattern and text (any length, any Unicode scalar) the model of "
                  "krauss.rs answers true exactly when the text is the pattern with each * replaced by some string; "
                  "the model is tied to the code by an exhaustive small-scope plus biased-random differential run, in "
                  "which any disagreement is a failing input because the model is proved equal to the spec.",
    "level_note": "Trusted: Lean kernel, the 4-rule Glob relation (proved equivalent to substitution), the harness. "
                  "The theorem is about the model; the loop of krauss.rs itself is covered by the correspondence run.",
}

