"""C04 configuration for ./check (see lib/props.py)."""
from importlib import util as _u
import os as _os

_spec = _u.spec_from_file_location("C01", _os.path.join(_os.path.dirname(__file__), "C01.py"))
_c01 = _u.module_from_spec(_spec)
_spec.loader.exec_module(_c01)

CFG = {
    "modules": ["HumphreyModel.Props.C04", "HumphreyModel.Props.C04Ws"],
    "rule": "1200 (thorough 20000) generated applications with 0..4 host sub-apps x 0..6 routes and 0..2 WebSocket routes each plus the default "
            "sub-app, patterns from a pool of literals, prefixes, suffixes, infixes, multiple/adjacent '*', empty, "
            "non-ASCII, with shadowing (repeated patterns); every handler answers with its own id; 14 requests per "
            "application over Host {absent, exact, wildcard-matching, with port, other case, non-matching} x paths "
            "{matching several, one or no routes; with and without query} incl. WebSocket upgrades, each through the real "
            "client_handler. LARGE applications: 100 / 257 / 1000 (thorough: 100, 128, 255-257, 1000, 1024, 4096) host "
            "sub-apps with the matching host first / last / in the middle / absent, the same counts and positions for the "
            "routes of the matching sub-app, of the default sub-app and for WebSocket routes, optionally a later route / a "
            "later host that matches too (must not be chosen); 14 requests per application (24 applications quick, 64 thorough) incl. requests aimed at filler "
            "hosts and routes at random indices and one past the end. LONG values: Host values, paths, queries and route / "
            "host patterns of 100, 255-257, 1000, 1024, 4096, 8192, 8193, 65536 bytes (thorough: up to 1 MiB), absorbed by "
            "a wildcard, equal to a literal pattern, or differing from it in the last character; ASCII and two-byte units. "
            "A quarter of the large and half of the long applications (up to 8 KiB) also run on the tokio runtime. Judged by Spec.checkConn (the response is the one the FIRST matching route of the FIRST "
            "matching host returns, else default, else 404) and compared with the model. Non-trivial = application "
            "has at least one host sub-app; distinct = distinct case line.",
    "exhaustive": False,
    "violation_text": "a request was not handled by the route the routing rule selects",
    "known_matcher": _c01.known_matcher,
    "trusted_base": ["Spec: FirstSuch over the glob relation (Props/C04.lean), glob relation of C05",
                     "the id-returning handlers and scripted socket of the harness"],
    "assumptions": ["patterns and Host values are valid UTF-8", "tokio runtime: every 8th generated application is also served by the real tokio App::run on a loopback port (HTTP requests only; bytes seen by the client compared with the model)"],
    "extra_harness": ["harness-tokio"],
    "design_ref": "6.4",
    "level_text": "getHandler_some_iff: for every application (any number of sub-apps and routes), Host and path, the model's "
                  "handler choice is exactly 'first matching route of the first matching host, else first matching "
                  "default route', stated over the glob RELATION (C05) rather than the matcher; unmatched => 404; the "
                  "routed path never contains the query. Props/C04Ws.lean: wsHandler_some_iff / wsHandler_none_iff give the "
                  "same exact characterisation for WebSocket routes (first matching ws route of the first matching host, "
                  "else of the default sub-app); upgrade_dispatch: an upgrade request is handed to exactly that handler, "
                  "an unrouted upgrade writes nothing and closes; parsed_request_uri_has_no_query for the whole request "
                  "parser on any source.",
    "level_note": "Trusted: Lean kernel; Model/Route.lean tied to app.rs get_handler/call_websocket_handler by the run.",
    "technique": "Lean 4 theorem over List.find? and the proved glob matcher + differential correspondence",
}
