"""C07 configuration for ./check (see lib/props.py)."""


def known_matcher(d):
    # The only surplus in the serialised message is one CRLF after a non-empty body (pinned by the test suite).
    if d["line"].startswith("resp_ser\t") and d["spec"] == "bad:crlf-after-body":
        return "crlf-after-body"
    return None


CFG = {
    "modules": ["HumphreyModel.Props.C07", "HumphreyModel.Props.C07Roundtrip"],
    "rule": "resp_parse: responses generated from an AST (every StatusCode, any reason phrase, 0..40 headers from a "
            "small per-response name pool incl. repeated Set-Cookie, bodies 0..64 KiB) framed with Content-Length, "
            "chunked (EVERY division of bodies of 0..6 bytes into chunks; random divisions above; hex sizes in upper, "
            "lower case and with a leading zero) or without body, each delivered whole / at random cuts / one byte per "
            "read, compared with the model and with the denotation of the AST. resp_ser: responses built through "
            "the public API (every status, headers, all 256 Set-Cookie attribute combinations, with and without "
            "Content-Length) serialised, judged by the independent strict recogniser Spec.checkSerialization, then "
            "parsed back. client: redirect chains of 0..5 hops over {301,302,307} with relative and absolute Location (with and without query), followed or not, against a scripted origin server on 127.0.0.1:80; final response and the request lines seen are compared. Non-trivial = every case (each has a status line, framing and at least the generated "
            "fields); distinct = distinct case line.",
    "exhaustive": True,
    "violation_text": "the response parser did not return what was sent, or the serialiser's bytes are not a valid "
                      "HTTP message for the response",
    "known_matcher": known_matcher,
    "trusted_base": ["Spec/HttpMsg.lean (strict message recogniser) and Spec/Status.lean (registered reason phrases)",
                     "std BufReader modelled by Model/IO.lean; u16/usize parsing modelled in Model/Bytes.lean",
                     "Generated/Tables.lean is produced by running StatusCode::try_from over all 65 536 codes"],
    "assumptions": ["reads never return 0 bytes before end of stream",
                    "the HTTP client's socket handling (connect, DNS, one connection per hop) is not modelled: the network is a "
                    "parameter of clientSend; the client cases need 127.0.0.1:80 (the URL parser cannot express another port) "
                    "and are skipped, with a note in the evidence, when it cannot be bound"],
    "design_ref": "6.7",
    "level_text": "Table theorems re-checked against the running code on every run (status round trip, injectivity, "
                  "registered reason phrases, header-name spelling round trip); response_parse_segmentation_independent "
                  "for every byte stream and framing (simulation proof); set_cookie_attributes for every attribute "
                  "subset. Props/C07Roundtrip.lean: parseMsg_serialize_wf / serialize_valid_partial (for every well-formed "
                  "response the serialised bytes are accepted by the independent strict recogniser as exactly that response; "
                  "= none for empty bodies; for non-empty bodies exactly the recorded CRLF pad remains — serialize_valid_false "
                  "proves the unrestricted statement false); parse_serialize (+ every read segmentation) for responses with "
                  "the added Content-Length or no body; parse_serialize_close_delimited; chunked_decode: every division of a "
                  "body into non-empty chunks, any valid hex spelling of the sizes, Transfer-Encoding at any position, parses "
                  "to the plain body with its Content-Length, under every read segmentation. client_follows_redirects: for a "
                  "redirect chain of ANY length the model of ClientRequest::send makes exactly the chain's requests and returns "
                  "the final response; no_follow_returns_first.",
    "level_note": "Trusted: Lean kernel; Model/Response.lean tied to response.rs/status.rs/cookie.rs by the differential run. "
                  "Known finding: CRLF appended after a non-empty body (test-pinned).",
    "technique": "Lean 4 table theorems over regenerated tables + simulation proof + differential correspondence with a strict recogniser",
}
