"""C10 configuration for ./check (see lib/props.py)."""

CFG = {
    "modules": ["HumphreyModel.Props.C10"],
    "rule": "WebSocket frames through humphrey_ws::verif (Frame encode = From<Frame> for Vec<u8>, decode = "
            "Frame::from_stream over a scripted reader whose every read returns at most the next chunk) and through "
            "the Lean model. enc: all 192 combinations FIN x RSV1-3 x 6 opcodes x mask{off,on with arbitrary key} x "
            "payload lengths {0,1,2,5,124,125,126,127,128} in full, lengths {65534,65535,65536,65537} and random "
            "lengths (quick: 16 combinations per large length, random up to 100 KiB; thorough: all 192 per large length "
            "for enc / single-read rt / last-byte trunc with the split variants on every fourth, random up to 1 MiB) "
            "with arbitrary payload bytes; "
            "encoder cases whose length field differs from payload.len() (the struct allows it; values up to 2^64-1). "
            "rt: decode(split(encode f)) under every split point and byte-by-byte for tiny frames, every split point "
            "of the header region plus random segmentations for longer ones. trunc: decode of every proper prefix "
            "(tiny frames) / header-region, last-byte and random prefixes (longer frames). dec: all 256 x 256 two-byte "
            "headers followed by a complete and by a truncated remainder under random segmentation, reads that "
            "return 0. Claimed payload lengths are capped at 16 MiB in this generator; headers claiming up to 2^64-1 bytes "
            "(the allocation defect repaired by aa4c57e) are C03's cases, run in a worker process. opc: Opcode::try_from on all 256 "
            "values. msg: Message::new/new_binary(..).to_frame() for payload lengths {0,1,2,3,124..128,200,4096,65534..65537} "
            "(ASCII, multi-byte, random, ASCII ending in 0xff); msg rx.<opcode>.<sizes>: to_frame() of a message RECEIVED by "
            "WebsocketStream::recv over a scripted socket from masked client frames written by the harness's own encoder "
            "(the only way to obtain a message whose text flag is set although the payload is not UTF-8), observed as "
            "is_text(), text().is_some() and the bytes of to_frame(): received as text and as binary, payload lengths the "
            "same plus {4,6,7,10,100,255,256,257,1000,1024} (thorough: also 4095, 4097, 8192 ... 262144, 1 MiB; quick leaves out "
            "65537), payloads ASCII / whole multi-byte characters / the same character stream cut at the length / "
            "random bytes / ASCII with one Latin-1 letter / whole characters with a lead byte at the end, in one frame and "
            "fragmented (after the first byte, in the middle, before the last byte, into three, with an empty fragment; "
            "above 300 bytes: whole, after the first byte, in the middle). Non-trivial = every enc/rt/trunc/msg case and every "
            "dec case with a valid opcode; distinct = distinct case line (hash set).",
    "exhaustive": True,
    "violation_text": "frame encoder/decoder output differs from what RFC 6455 section 5.2/5.3 (Spec/WsFrame.lean) "
                      "demands for this input: layout of the encoded frame, frame returned by decoding an encoded "
                      "frame under the given split, ReadError on a truncated frame, InvalidOpcode on a reserved opcode, "
                      "Message::to_frame of a built or received message = one unmasked FIN frame whose opcode is the message's "
                      "type (its text flag), whatever the payload bytes are",
    "trusted_base": ["Spec/WsFrame.lean: rfc6455Layout (octets of RFC 6455 section 5.2, masking of section 5.3)",
                     "harness Script reader = model readExact (read returns at most the next chunk; 0 = end of stream)",
                     "Rust std::str::from_utf8 / Lean String.fromUTF8? agree (driver only, Message::new text flag)"],
    "assumptions": ["usize is 64 bits (length as usize is the identity)",
                    "every read of the stream returns at least one byte unless the stream has ended (theorems about "
                    "segmentation); claimed payload lengths <= 16 MiB in the correspondence run",
                    "frames given to the encoder carry length = payload.len() < 2^64 (the layout theorems); other "
                    "length fields are covered by the correspondence run only"],
    "design_ref": "6.10",
    "level_text": "encode_eq_layout: for every frame the model of From<Frame> for Vec<u8> equals rfc6455Layout (RFC 6455 "
                  "5.2 octets, minimal length form, payload XOR key when masked). decode_encode(_tail): for every "
                  "frame with length = payload.len() < 2^64, every split of its encoding into non-empty reads and any "
                  "following bytes, the model of Frame::from_stream returns that frame with the unmasked payload and "
                  "leaves exactly the following bytes unread; the three length classes are case splits of the proof. "
                  "decode_chunking_independent: frame/error, unread bytes and allocation size depend only on the "
                  "concatenated bytes. decode_truncated: every proper prefix gives ReadError. "
                  "reserved_opcode_rejected: opcode nibbles 3-7, B-F give InvalidOpcode whatever follows. "
                  "to_frame_unmasked_single: Message::to_frame is FIN=1, RSV=0, text/binary, unmasked, minimal length. "
                  "The model is tied to the code by the differential run; the spec predicate is evaluated on the "
                  "implementation's own output (layout for enc/msg, the original frame for rt, ReadError for trunc, "
                  "InvalidOpcode for reserved headers).",
    "level_note": "Trusted: Lean kernel, Spec/WsFrame.lean (hand-written from RFC 6455 5.2/5.3, checked against the RFC's "
                  "5.7 examples), the harness and its scripted reader. Theorems are about the model; read_exact is "
                  "modelled as the default std implementation over a reader whose reads return at most the next chunk. "
                  "The opcode table is checked by running Opcode::try_from on all 256 values (opc cases) rather than by "
                  "a generated table. Header length claims above 16 MiB are excluded from the run (C03: allocation "
                  "before read); the model records that allocation in DecodeResult.alloc.",
    "technique": "structural induction on the read script (readExact_flat), simulation between streams delivering the same "
                 "bytes (decodeWith_sim), finite case analysis of header octets by kernel evaluation (decide), omega for "
                 "big-endian length arithmetic",
    "timeout": {"quick": 120, "thorough": 3000},
}
