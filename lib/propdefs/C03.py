"""C03 configuration for ./check (see lib/props.py)."""

CFG = {
    "modules": ["HumphreyModel.Props.C03", "HumphreyModel.Props.C03Bounds"],
    "rule": "five parsers (Request::from_stream, Response::from_stream, WebSocket Frame::from_stream, Value::parse, "
            "parse_conf), each case executed in a WORKER PROCESS with a 2 GiB address-space limit, a 4 s watchdog and a "
            "counting global allocator. Inputs: every string of up to 4 (thorough: 5) tokens over a 12-token "
            "protocol alphabet per parser (request, response, frame); every prefix of every seed message; per-position "
            "mutants (CR/LF/colon/space removed or doubled, 2-, 3- and 4-byte UTF-8, invalid UTF-8 and NUL inserted at "
            "every offset, random byte flips); length fields (Content-Length, chunk sizes, status code, 16- and 64-bit "
            "frame lengths) replaced by boundary and huge values up to 2^64 and beyond; nesting of JSON arrays/objects "
            "and of config sections up to 1 000 000 / 100 000 deep; very long strings and numbers; random bytes "
            "biased towards protocol bytes; each delivered whole and (up to 600 bytes) one byte per read. The WebSocket "
            "MESSAGE decoder (Message::from_stream / from_stream_nonblocking behind WebsocketStream) additionally runs "
            "sessions (C11's runner and judge): control frames of every small length, unfinished fragments, every "
            "truncation point, and C11's large-scale family (lib/propdefs/C11.py): floods of 1 000 / 20 000 / 200 000 "
            "(thorough up to 1 000 000) Pings or Pongs before, inside, after a message and with nothing after, messages of "
            "up to 10 000 (20 000) fragments, up to 10 000 (20 000) messages on one connection, payloads at the "
            "125/126/65 535/65 536 boundaries and up to 1 MiB (4 MiB), each session in a worker process on a thread "
            "with Rust's default 2 MiB stack and a 30 s watchdog. Observed "
            "per case: value / error / panic / process abort / no answer, and peak allocation against the bound "
            "512 KiB + 32 x input length. Compared with the class the Lean model predicts. Non-trivial = every case; "
            "distinct = distinct case line.",
    "exhaustive": True,
    "violation_text": "a parser panicked, aborted the process, did not answer, or allocated beyond a constant multiple of the input",
    "trusted_base": ["the worker protocol and counting allocator of the harness (alloc.rs, worker.rs)",
                     "stack depth and allocator behaviour are observed on the real code only; the theorems bound depth "
                     "and buffered bytes in the model"],
    "assumptions": ["Value::parse and parse_conf take &str: inputs that are not UTF-8 cannot reach them (counted as notutf8)",
                    "the WebSocket MESSAGE loop (fragment accumulation, ping/close handling) is run as C11 sessions (value/abort/hang "
                    "observed in a worker process; peak allocation is not measured for sessions)"],
    "design_ref": "6.3",
    "level_text": "request_parser_never_panics and response_parser_never_panics for EVERY byte source and input (the models "
                  "keep Rust's panic sites explicit); request_body_le_supplied: a parsed body plus the unread rest fits in "
                  "the bytes supplied, whatever Content-Length claims, and a claimed length beyond the input is an error; "
                  "Props/C03Bounds.lean: the same for responses in all three framings (response_body_le_supplied, "
                  "chunked_body_le_supplied, close_delimited_body_le_supplied, any segmentation), for the total size of "
                  "parsed header names and values of requests and responses (headers_le_supplied, "
                  "response_headers_le_supplied) and for WebSocket frames (frame_payload_le_supplied, "
                  "frame_alloc_le_supplied: a frame claiming 2^64-1 bytes is a read error); "
                  "the WebSocket decoder is total with truncation = read error (C10), the configuration parser never "
                  "panics (C15), the JSON parser's nesting is bounded by the depth limit (C13). Termination is Lean's "
                  "own totality check of the models (fuel bounded by input length). Real stack/heap behaviour is "
                  "observed by the worker-process run, not proved.",
    "level_note": "Trusted: Lean kernel; the five models tied to the code by the densest correspondence run of the suite "
                  "(a missed panic site in a model is the main risk: every class is compared per case).",
    "technique": "Lean 4 panic-freedom and buffer-bound theorems over models with explicit panic outcomes + worker-process differential run",
}
