"""C15 configuration for ./check (see lib/props.py)."""

CFG = {
    "modules": ["HumphreyModel.Props.C15", "HumphreyModel.Props.C15Config"],
    "rule": "configuration files rendered from a generating model (every key optional; 0..8 routes per host of every "
            "type with 1..3 comma-separated patterns, proxy target lists, balancer mode; 0..4 hosts; cache size in each "
            "unit up to the i64 boundary) with random indentation, separators, comments, blank lines, key order, CRLF and "
            "include splitting to depth 3; their single-fault mutants (missing brace, missing value, bad number, bad enum "
            "value, unknown unit, unterminated quote, route without target, missing include file, one odd character "
            "inserted at every position of a file); hand-written probes of the value grammar, of nesting/include depth "
            "and of every character below U+3100 through trim/clean_up. Each file goes through parse_conf + "
            "Config::from_tree and through the Lean model; trees, configurations and (file, line, kind) of errors are "
            "compared as text. For valid files the harness also compares with the generating model's own reading. "
            "Non-trivial = every case; distinct = distinct case line (hash set).",
    "exhaustive": False,
    "violation_text": "parse_conf/Config::from_tree answer differently from the model of the (repaired) parser: the file "
                      "is accepted with another meaning, rejected at another place, or the parser panicked",
    "trusted_base": ["Spec/Conf.lean: tree-level rendering (renderTree, Layout, Deco.ok) and WFTree; the configuration-level "
                     "generating model lives in the harness generator (harness/src/c15.rs: GCfg, expected)",
                     "file reads (include, blacklist file) are a parameter of the model: a map from path to contents",
                     "IpAddr::from_str is modelled for dotted-quad IPv4 only"],
    "assumptions": ["configuration text and included files are valid UTF-8 or reported unreadable (Rust read_to_string)",
                    "features `tls` and `plugins` are off (the default build)"],
    "design_ref": "6.15",
    "level_text": "parse_tree_roundtrip_lines / layout_irrelevant: every well-formed tree (any depth <= 128, any keys, strings, "
                  "i64 numbers, booleans, hosts, routes), written with any layout (filler lines, indentation, blanks, "
                  "comments, K/M/G spelling), is read back as itself by the model of parse_conf (text level: "
                  "parse_tree_roundtrip_partial, under the hypothesis that rendered lines contain no newline); parse_size "
                  "is exact below 2^63, rejects overflow and unknown units; a missing value, an unterminated quote, an "
                  "unknown unit and a missing closing brace after any absorbed prefix of a file are rejected at exactly "
                  "that (file, line); conf_never_panics: no text, file name or file system makes the model of the "
                  "repaired parser panic; from_tree accepts only valid enum/number values (acceptance conditions) and "
                  "rejects routes without target / with a bad balancer mode. Props/C15Config.lean: parse_tree_roundtrip at "
                  "TEXT level without the line-cleanliness hypothesis; load_render and load_config_roundtrip — for every "
                  "well-formed generating model Cfg (every Config field, every route kind, hosts, optional keys) and "
                  "every layout, Config::load of the rendered text is Cfg.normalise (omitted keys at the from_tree "
                  "defaults, hosts and routes in file order), also through one level of includes and a blacklist "
                  "file; fromTree_never_panics / load_never_panics; direct rejection theorems for each validated key "
                  "(port, threads incl. 0, timeout, blacklist file/mode, log level/console, cache size/time, balancer "
                  "mode, route without target) at whole-configuration level. Generating-model restrictions (fixed key "
                  "order and spelling, includes one level deep, IPv4 blacklists) are listed in the file header; the "
                  "differential run covers the rest.",
    "level_note": "Trusted: Lean kernel, Spec/Conf.lean, the harness. The theorems are about the model.",
    "timeout": {"quick": 600, "thorough": 6000},
}
