"""C09 configuration for ./check (see lib/props.py)."""

CFG = {
    "modules": ["HumphreyModel.Props.C09", "HumphreyModel.Props.C09Trunc"],
    "rule": "proxy_request (500 ms budget) and the server's proxy_handler against scripted loopback upstreams on real "
            "sockets: valid responses of 9 status codes x {Content-Length, chunked in random chunkings, close-delimited} "
            "sent whole, in two segments with a pause, or complete-then-silent; valid responses cut at byte offsets "
            "(every offset in the thorough tier, every third plus the last four in quick) then closed, or cut and "
            "then silent; garbage, malformed status line / header / length / chunk size; connection refused; "
            "accept-then-silence; accept-then-close; one byte per 50 ms; silence then a late partial response then silence; route patterns with and without wildcard "
            "for prefix stripping. Observed: the response returned, the exact bytes the upstream received, and wall "
            "time against budget + 300 ms. LoadBalancer::select_target for round-robin and random over 1..4 targets "
            "from 1, 2, 4, 8 threads, logged in lock order. Non-trivial = every proxy case, load-balancer cases with "
            ">= 2 targets; distinct = distinct case line.",
    "exhaustive": False,
    "violation_text": "the proxy did not return the upstream's valid response / 502, or relayed a different request, "
                      "or exceeded its time budget, or the load balancer left strict rotation / its target set",
    "trusted_base": ["the scripted upstream threads of the harness and its wall-clock measurement",
                     "Mutex: selections are logged while the balancer's lock is held, so the log is a linearisation"],
    "assumptions": ["wall-clock behaviour (deadline enforcement, connect_timeout, kernel buffering) is observed, not proved",
                    "pauses in the scripts are far below (20 ms), at 200-400 ms (late data inside the budget) or far above (>= 1.5 s) the 500 ms budget",
                    "proxy_handler's own budget is the fixed 5 s of the code; only non-stalling scripts go through it"],
    "design_ref": "6.9",
    "level_text": "proxy_answers: for every upstream behaviour the model of proxy_request returns either the fixed 502 or "
                  "exactly the response the (panic-free, segmentation-independent) response parser read; refused / "
                  "accept-then-silence / anything invalid or cut short => 502; a complete valid response (self-delimiting, "
                  "or close-delimited then closed) is returned unchanged; close-delimited then stall => 502; "
                  "relay_adds_only_xff; stripPrefix_drop; round_robin_strict (k-th pick = targets[(i+k) mod n] for all "
                  "k, n) and random_in_set. Props/C09Trunc.lean: cut_at_any_offset_502 and chunked_cut_at_any_offset_502 — EVERY "
                  "proper prefix of every well-formed Content-Length or chunked response (cut in the status line, a "
                  "field line, the blank line, the body, a size line, chunk data, the CRLF after it, the last chunk), "
                  "delivered in any segmentation and followed by close or silence, yields the 502; cut_in_pad_is_complete "
                  "shows the offset bound exact. Timing is observed by the run, not modelled.",
    "level_note": "Trusted: Lean kernel; Model/Proxy.lean tied to proxy.rs (both crates) by real-socket runs.",
    "technique": "Lean 4 decision-logic theorems over an upstream-behaviour model + real-socket differential run with timing",
}
