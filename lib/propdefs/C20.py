"""C20 configuration for ./check (see lib/props.py)."""

CFG = {
    "modules": ["HumphreyModel.Props.C20"],
    "extra_harness": ["harness-tokio"],
    "rule": "scenarios `rt|ip|threads|timeout_ms|deny|mode|k|kinds|seed` run on the REAL App::run with a shutdown "
            "receiver (threaded, binary hv) / cancellation token (tokio, binary hvt from harness-tokio), each batch in a "
            "CHILD PROCESS, on 127.0.0.1, 0.0.0.0, [::] and [::1] with a free port per scenario (found by binding port "
            "0); 0..16 client connections (large states: up to 5 008), one letter each: J just accepted (nothing sent), K idle keep-alive (one "
            "request answered, open), H half-sent request, S/L handler running short (30 ms) / long (350 ms), W "
            "response being written (2 MiB body, client not reading), O WebSocket open; a..o PIPELINED keep-alive "
            "connections (letter = a + 5*first + count index): 2, 3, 4, 5 or 64 complete requests written with one "
            "write before anything is read, the first one /short (30 ms), /long (350 ms) or /gate (the handler runs "
            "until the harness opens a gate, which it does after run has returned: the signal always lands while "
            "it runs), the others /n/<i> (answered at once, body = URI) or /ns/<i> (after 30 ms), seed-chosen; all "
            "but the last carry Connection: Keep-Alive, the last one by the seed; in half of the pipelines one "
            "seed-chosen follower carries a padding header of 100 / 1 000 / 4 096 / 8 192 / 9 000 bytes (the "
            "pipeline does or does not fit the server's 8 KiB read buffer); pools of 1..8 threads "
            "including fully occupied ones (more holding connections than threads, in-flight requests queued behind "
            "them); optional 120/150 ms connection timeout; optional connection condition that refuses every fourth "
            "connection; signal mode B before the first connection, M after the first k connections (the rest connect "
            "afterwards), C from a second thread concurrently with the connects, A after all connections are placed. "
            "Fixed block (every address x every mode, every state alone with a free and with an occupied pool, "
            "saturated pools; per runtime 28 pipelined scenarios: each of the 12 kinds with 2..5 requests alone, "
            "each first handler behind a connection that holds the only worker, each first handler with 64 "
            "requests, 4 mixes with several pipelines among the other states (more pipelines than threads), "
            "modes M / C / B with pipelines before, concurrently with and after the signal, one with a 150 ms "
            "connection timeout, one with the refusing condition) plus seed-chosen scenarios (quick 160 threaded + "
            "60 tokio, thorough 3 000 each; every connection is a pipelined one with probability 1/5, one in eight "
            "of those with 64 requests). A pipelined client is owed ALL its responses iff its connection had been "
            "dealt with by the accept loop, every byte of its requests had been written AND acknowledged by the "
            "server's kernel (SIOCOUTQ = 0) and a 10 ms grace had passed when the signal was sent (the harness "
            "waits for exactly that before it sends the signal in modes A, M, Q); such clients are in the case's "
            "must list. All connections are read only AFTER run has returned (deadline 4 s + 2 ms per connection + "
            "the nominal handler times of the scenario), each until it has every response it is owed; client code "
            "C = all n responses complete, bodies in the order of the requests, nothing after them but the idle "
            "connection's 408; M = at least one but not all, each complete, connection closed; P = a truncated "
            "response, a body out of order or stray bytes; Z / T as below. LARGE STATES (signal mode Q, both runtimes, every tier): "
            "pools of 1, 2 and 8 threads with EVERY worker held by a connection that does not finish (seed-chosen "
            "J / H / O / K, no connection timeout; k = pool size, these are placed one by one) and 200 and 1 100 "
            "further connections (thorough tier: also 5 000, and 12 seed-chosen scenarios per runtime with pools of "
            "1..8 and 17..3 000 further connections, a third of them within 128*threads -2..+140) that are accepted "
            "and queued behind them (tokio: spawned and idle) when the signal is sent: silent, idle keep-alive and "
            "half-sent ones with four complete requests (S S S W) and two pipelined connections (2..5 requests) at "
            "seed-chosen places and one S as the very last "
            "(dispatched before the signal: must be answered completely after run has returned and the holders "
            "have let go), so that any bound on queued work up to a few thousand is crossed. These connections "
            "are made in a burst that stays at most 48 ahead of the accept loop (the listen backlog is never the "
            "limit); the signal is sent when the loop has dealt with all of them; if the loop does not move for "
            "2.5 s although connections are waiting, the remaining clients are not connected (listed with the "
            "refused ones) and the signal is sent at once. Both ends of every connection live in the child: the "
            "children are started through sh with the soft descriptor limit raised to 16384 (or the hard limit), "
            "the connection counts are capped at (limit - 256) / 2 (evidence: generator_notes.descriptor_limit); "
            "the deadlines for in-flight responses and worker exits grow by 2 ms per connection. If run returns "
            "before the port is in LISTEN (the port found by binding port 0 was taken in between) the scenario is "
            "started again on another port (5 times, then NO-BIND). Measured: time from sending the signal to the return of run "
            "(> 3 s = WEDGED, the child is abandoned), re-binding the same address immediately after the return, and "
            "per in-flight client (S, L, W) whether the response is complete (status line .. Content-Length bytes = C), "
            "truncated (P), absent with the connection closed (Z) or absent with the connection open (T). With the "
            "tracers installed (H3 pool events + AppEvent) the event log of the accept / signal / stop / drop path and "
            "of the workers is replayed through Model/Shutdown.lean by the Lean driver (a rejected event = model and "
            "code disagree); the summary is compared with the model's end state (returned, port closed, workers "
            "exited, which in-flight clients were dispatched and finished) and judged by Spec/Shutdown.lean "
            "(Summary.ok: not wedged, port free, no P, no T, every client whose complete request(s) had been dispatched "
            "before the signal was sent has a complete response (a pipelined one: all of them, M is not enough), "
            "all workers exited). A probe connection made when "
            "the pool's Drop begins shows that the listener is already closed. Non-trivial = at least one "
            "connection; distinct = distinct (scenario, event log).",
    "exhaustive": False,
    "violation_text": "App::run did not do what C20 demands in this scenario: run was not back 3 s after the signal "
                      "(WEDGED), the port could not be bound again, an in-flight response was truncated or never came, "
                      "a request dispatched before the signal (also: pipelined behind the one being handled) was not answered "
                      "completely, or workers were left behind",
    "trusted_base": ["Spec/Shutdown.lean: Ev, Precedes, FlagBeforeWakeup, End.shutDown, End.nothingLost, Summary.ok",
                     "Proofs/Shutdown.lean: evOf / endOf (the view of the model in the spec's vocabulary)",
                     "the C08 pool model and its theorems (drop_never_blocks, terminal_all_done, exactly_once, measure) "
                     "are used, not re-proved",
                     "modelled, not verified: the loop-back connect reaches the listener while it is open; the kernel "
                     "frees the port when the listener is dropped; FIFO order of the kernel's accept queue (the replay "
                     "reorders entries whose connects were concurrent); AtomicBool SeqCst; JoinHandle::join; the order in "
                     "which a closure's captures are dropped (listener before pool: observed on every run by the probe); "
                     "tokio's select!, CancellationToken and task survival after run returns (the harness keeps the "
                     "runtime alive)",
                     "the event log is a linearisation of the run (sends/stores logged before, receives/loads after the "
                     "real operation; the flag store lies between two log entries and the replay places it)"],
    "assumptions": ["the connection condition returns on every connection (hypothesis hc of accept_iteration_never_blocks, "
                    "run_returns, tokio_run_returns; an example shows run_returns is false without it)",
                    "the App was given a shutdown receiver / token and bind succeeded (otherwise run returns early or never)",
                    "scheduler: an enabled step is eventually taken (needed only to read termination as liveness)",
                    "the process is still there when queued tasks get their turn: run does not wait for them "
                    "(queued_tasks_survive_drop says they are not dropped, nothing more)",
                    "the loop-back connect() returns (accepted or refused). OBSERVED (about 1-2 % of the scenarios in which "
                    "the loop breaks on a CLIENT connection while the caller's wake-up connect is in flight, under load): "
                    "the listener is closed while the SYN is being processed, the kernel drops it silently, and the "
                    "blocking connect() fails only after the 1 s SYN retransmission: run then returns about 1.0 s after "
                    "the signal instead of < 10 ms. Inside the 3 s bound, not a violation; the evidence records the "
                    "slowest return of every run (generator_notes.slowest_return_after_signal_ms)",
                    "connections that accept() had not yet returned when the flag became visible, and the one in the "
                    "accept thread's hands at that moment, are closed unserved: they are not 'requests received before "
                    "the signal' (stated as an example in Props/C20.lean; the harness sees them as Z)"],
    "design_ref": "6.20",
    "level_text": "for every execution of the transition system Model/Shutdown.lean (caller thread, accept thread, "
                  "kernel accept queue, arrivals and signal at any time, the C08 pool embedded with all its "
                  "interleavings, any pool size, any number of connections in any state): flag_before_wakeup, "
                  "wakeup_sees_flag, serves_until_signal, accept_loop_exits (|queue|+1 plus arrivals before the store), "
                  "accept_loop_exits_flag_visible (at most 1 accept and 1 execute once the flag is stored), "
                  "accept_iteration_never_blocks, measure_decreases / executions_finite, run_returns (every state "
                  "without an enabled step: run returned, listener dropped, pool stopped and dropped, every dispatched "
                  "task finished or panicked, every worker exited), no_truncation_by_shutdown (frame property of the "
                  "shutdown path), queued_tasks_survive_drop; tokio loop: tokio_serves_until_cancel, "
                  "tokio_measure_decreases, tokio_run_returns. The model is tied to the code by trace acceptance of "
                  "real event logs from both runtimes.",
    "level_note": "Proof of the protocol; partial for OS behaviour and wall-clock time (the harness measures them: "
                  "slowest return after the signal is in the evidence). Trusted: Lean kernel, Spec/Shutdown.lean, the C08 "
                  "model, the std / kernel / tokio primitives as modelled, the hooks' linearisation argument, the harness.",
    "technique": "Lean 4 inductive invariant + ranking function over a labelled transition system that embeds the C08 "
                 "pool system; trace acceptance of real event logs; black-box measurement of latency, re-bind and "
                 "client bytes in child processes",
    "timeout": {"quick": 300, "thorough": 7200},
}
