"""C02 configuration for ./check (see lib/props.py)."""

CFG = {
    "modules": ["HumphreyModel.Props.C02", "HumphreyModel.Props.C02Faithful"],
    "rule": "requests generated from an AST (5 methods, origin-form target with optional query, 0..60 headers drawn "
            "from a small per-request name pool so that names repeat and interleave, random name case, optional "
            "whitespace after the colon, non-ASCII values, one Cookie and one X-Forwarded-For header with valid and "
            "invalid entries and every comma spacing, Content-Length bodies 0..64 KiB) rendered to bytes together "
            "with the request the AST denotes (computed without the parser); each delivered whole, one byte per "
            "read, every n bytes, at random cuts, and at every single split point for a share of the short ones; "
            "SWEEPS (one dimension at a time well above small, everything else drawn as usual, every request through BOTH parsers): "
            "Content-Length bodies of 65536, 65537, 131073, 262144, 262145, 300017, 524289, 1048576, 1048577 bytes (thorough: 29 sizes "
            "from 65535 to 4 MiB+17; beyond the 64 KiB the property names, as a size sweep) as a pseudo-random pattern written "
            "`Z<len>.<seed>` in the case line, read whole, in 1460..16384-byte and 64 KiB..1 MiB pieces, cut exactly at / one byte "
            "around the end of the head, head plus part of the body then the rest, random cuts (quick: two of these seven per size); "
            "64, 65, 100, 128, 129, 255, 256, 257, 500, 1000 field lines (thorough: 26 counts up to 2048) with names from a small pool "
            "(many same-named, interleaved), all the same name, or all distinct (quick: 500 and 1000 under one read plan); 5..1000 cookies in the Cookie field (thorough 1..4096); "
            "X-Forwarded-For chains of 1..5, 15..18, 31..34, 64, 65, 100, 128, 256, 257, 1000 entries (thorough 1..4096) of DISTINCT IPv4 "
            "and IPv6 addresses (so origin, order and number of proxies are all visible), with and without unparsable entries in between; "
            "plus hand-written corner cases. Per case the implementation's parse, its re-serialisation and the "
            "re-parse are compared with the Lean model and with the denotation. Non-trivial = at least two header "
            "fields; distinct = distinct case line.",
    "exhaustive": False,
    "violation_text": "a well-formed request did not parse to the request its bytes denote, or did not survive "
                      "serialise-then-parse",
    "trusted_base": ["std::io::BufReader/read_until/read_exact are modelled by Model/IO.lean (Reader)",
                     "IpAddr::from_str is an input of the model (oracle column computed by std itself)",
                     "str::from_utf8 is modelled by Bytes.utf8Valid, usize::from_str by Bytes.parseUsize (both exercised by the run)"],
    "assumptions": ["reads never return 0 bytes before end of stream", "header names reach the code through HeaderType::from(&str)"],
    "extra_harness": ["harness-tokio"],
    "design_ref": "6.2",
    "level_text": "parse_segmentation_independent: for EVERY byte stream and any two segmentations the model of "
                  "Request::from_stream returns the same request/error/panic and leaves the same bytes unread "
                  "(proved by a simulation between the chunked BufReader model and the flat stream); lookup is "
                  "case-insensitive; X-Forwarded-For rule proved. parse_render: every request generated from the "
                  "well-formed-request AST (Spec/HttpReq.lean) parses, under every chunking, to exactly the request it "
                  "denotes and consumes exactly its bytes; get_all_parsed (values and relative order of same-named fields); "
                  "sorted_getAll (the stable sort keeps per-name order); roundtrip / parse_serialize_parse: serialising ANY "
                  "request the parser returned and parsing again yields an equal request (same method, target, version, "
                  "body, per-name value sequences, address, cookies), with no well-formedness hypothesis. The correspondence "
                  "run additionally judges every case against an independent denotation.",
    "level_note": "Trusted: Lean kernel; Model/Http.lean + Model/IO.lean tied to request.rs/headers.rs/address.rs by the "
                  "differential run: both the threaded parser and (cases req_parse_tokio, through the second harness binary hvt) the tokio twin.",
    "technique": "Lean 4 simulation proof (chunked reader vs flat stream) + differential correspondence with independent denotation",
}
