"""C06 configuration for ./check (see lib/props.py)."""

CFG = {
    "modules": ["HumphreyModel.Props.C06"],
    "extra_harness": ["harness-tokio"],
    "rule": "(the async twins of serve_dir / serve_as_file_path in humphrey --features tokio are asked every question too, "
            "through the hvt co-process: cases serve_dir_tokio / serve_as_file_path_tokio, same model, same spec) "
            "one case = one request to one handler (humphrey::handlers::serve_dir, serve_as_file_path, humphrey-server "
            "static::directory_handler, file_handler; called in-process) against one generated directory tree built under "
            "verif/work/c06_<pid>/ and removed afterwards; the same tree is sent to the Lean model inside the case line. "
            "Trees: nested directories to depth 4; index.html / index.htm present, absent, both, or being directories; "
            "extension-less, multi-dot, leading-dot, trailing-dot names; names with space, tab, newline, '%', '?', '#', "
            "';', ':', backslash, '*', non-ASCII and non-UTF-8 bytes, names that look like escapes ('%2e%2e', '%41.txt') "
            "or contain '..'; canaries next to the served directory (outer/canary.txt), in a sibling whose name extends "
            "the directory's (outer/served-x/), and one level further up (canary2.txt). Requests: every object of every "
            "tree under five spellings (literal, per-segment percent-encoded, fully encoded incl. %2F, lower-case escapes, "
            "random mixed-case partial encoding), with repeated leading slash, with and without trailing slash; all pairs "
            "(special, special) and (special, name) over the segment alphabet {., .., ..., empty, %2e%2e, %2E., .%2e, %2f, "
            "%5c, %00, %252e, %c0%ae, %e0%80%ae, NUL, C:, %3a, %, %zz, %25, fullwidth dots, *, absolute path of the "
            "canary, ...}; every spelling of '..' x every canary x five prefixes; random compositions to depth 5 under "
            "raw / per-segment-encoded / mixed / fully-encoded spellings; URIs shorter than the route prefix. Route "
            "patterns /static/*, /*, /s*, *, /static/ (no wildcard), one with a non-ASCII prefix, one with two wildcards; "
            "seven spellings of the directory text (trailing slashes, ./, ../, //). Observation: status, Location, "
            "Content-Type, body length and FNV-1a hash, canary-seen flag. Non-trivial = answered 200/301 or built from at "
            "least one special segment; distinct = distinct case line.",
    "exhaustive": True,
    "violation_text": "a static handler returned bytes of a file outside its directory (canary seen, or a 200 body that is "
                      "no file of the directory), did not return a file inside it intact with the Content-Type of its "
                      "extension when requested by its proper path, broke the 301 / index.html / index.htm / 404 rule, or "
                      "panicked on a URI that matches its route pattern",
    "trusted_base": ["Spec/Fs.lean: Descends (going downward only), subtree, Inside, HasExt, ServedIntact, indexOf",
                     "Model/Fs.lean: the world (Node: files and directories, no symbolic links) and the POSIX path walk "
                     "(step/walk: '' and '.' stay, '..' = parent and the root is its own parent, a component with NUL "
                     "fails, every step needs a directory) standing in for metadata/canonicalize/File::open; tied to the "
                     "real file system by the correspondence run",
                     "the MIME table and Path::extension are modelled by hand (mimeFromExtension, nameExtension) and "
                     "compared on every 200 answer of the correspondence run (every extension of mime.rs occurs in the trees)",
                     "Percent.decode (C18: proved exact w.r.t. RFC 3986) and Glob.wildcardMatch (C05: proved = glob relation)"],
    "assumptions": ["no symbolic links, hard-link tricks, mount points or bind mounts inside or above the served directory",
                    "case-sensitive file system with byte-string names (Linux); no Windows drive, UNC or alternate-stream "
                    "syntax (the ':' rejection of try_find_path is modelled, only its 'rejects' direction is used)",
                    "the tree does not change between metadata() and File::open(); every file is readable (permissions are "
                    "not modelled); names and paths stay below NAME_MAX / PATH_MAX",
                    "the current directory and '/' are both the world root: the harness passes the directory relative to the "
                    "generated world, and '..' at the world root stays there",
                    "file names that are not valid UTF-8 cannot be served by serve_dir / directory routes (String::from_utf8) "
                    "nor requested through a Rust String; they are outside the completeness theorems",
                    "server handlers: cache disabled (size_limit 0) and peer not blacklisted (C16 / C19 cover those paths); "
                    "file_handler opens the operator-configured file and panics when it is missing (modelled, not judged: "
                    "the property speaks of directory routes)"],
    "design_ref": "6.6",
    "level_text": "For ALL worlds, directory texts and request texts (dot-segments, single/double/mixed-case/overlong "
                  "percent-encodings, repeated slashes, NUL, backslashes, absolute components are just values of the "
                  "quantified request): try_find_path_confined, serve_dir_confined, directory_handler_confined, "
                  "serve_as_file_path_confined (repaired handler; the old escape is the proved witness "
                  "serveAsFilePathUnchecked_escapes) - whatever is served is a regular file whose canonical path extends the "
                  "directory's (outside_never_served). serve_dir_complete / directory_handler_complete (+ _encoded: "
                  "route ++ percent_encode(path), via Percent.decode_encode) and serve_as_file_path_complete: every file inside "
                  "whose path has no '..', no ':' and is UTF-8 is returned intact with the MIME type of its extension, for "
                  "every spelling that decodes to its path. dir_redirect_and_index (+ directory_handler_...): 301 to the slash "
                  "form; index.html, else index.htm, else 404. directory_handler_never_panics(_on_matched): no panic on a URI "
                  "matching the route pattern (from C05's wildcard_match_iff_glob).",
    "level_note": "Proof over the path model; partial w.r.t. real file-system semantics (symlinks, case folding, Windows "
                  "syntax, permissions and races are assumptions). The model is tied to the code and to the real file system "
                  "by the differential run on generated trees.",
    "timeout": {"quick": 300, "thorough": 3000},
}
