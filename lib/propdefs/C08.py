"""C08 configuration for ./check (see lib/props.py)."""

CFG = {
    "modules": ["HumphreyModel.Props.C08"],
    "rule": "lifecycle scripts over {S start, e/p/b execute (returning / panicking / waiting on a barrier of N), "
            "w wait until everything submitted so far has run, T stop, D drop}, execute only after start, N in 1..4, "
            "run on the REAL ThreadPool on real threads in child processes with the H3 tracer installed and "
            "seed-chosen yields / 0-200 us sleeps at the hook points; exhaustive block: N 1..4 x 0..6 executes x every "
            "panicking subset x with/without stop, plus never-started pools; random block adds settle points, barrier "
            "tasks and stop positions. Each run has a 2 s watchdog (WEDGED). The event log of each run is replayed "
            "through the Lean transition system (a rejected event = model/implementation disagreement); the "
            "end-of-run summary (per-task run counters, workers exited, caller returned, barrier reached) is compared "
            "with the model's end state and judged by the spec. Non-trivial = started pool with >=1 task; distinct = "
            "distinct (script, event log).",
    "exhaustive": True,
    "violation_text": "the pool did not do what C08 demands on this lifecycle script: the caller never came back from "
                      "drop (WEDGED), a task ran not exactly once, not every worker exited after drop, or N tasks "
                      "could not run at the same time",
    "trusted_base": ["Spec/Pool.lean: View, ExactlyOnce, AtMostN, Fifo, AllDone, Summary.ok",
                     "std::sync::mpsc FIFO/blocking semantics, Mutex, unwinding running Drop, JoinHandle::join are "
                     "modelled, not verified",
                     "the H3 event log is a linearisation of the run (acquisitions logged after, releases/sends/"
                     "spawns before the real operation, under one global mutex)"],
    "assumptions": ["one thread owns the pool (start/execute/stop/drop are sequential); start is called at most once",
                    "scheduler: an enabled step is eventually taken (needed only to read termination as liveness)",
                    "the recovery thread is detached, not ended: it stays blocked on its channel for the life of the "
                    "process (as after stop() in the original code)"],
    "design_ref": "6.8",
    "level_text": "for every interleaving of caller, N workers and the recovery thread, any N>=1, any number of tasks "
                  "and any panicking subset (inductive invariant over the reachable states of the transition system "
                  "Model/Pool.lean): exactly_once, at_most_N_running, N_can_run, panic_isolated, fifo_dequeue; every "
                  "step other than submit decreases a measure (termination); terminal_all_done; drop_never_blocks; "
                  "drop_without_stop_deadlocks_unrepaired for the code before the repair. The model is tied to the "
                  "code by trace acceptance of real event logs.",
    "level_note": "Proof of the protocol; partial for OS-level liveness (the logs show only the schedules the OS and "
                  "the perturbation produced). Trusted: Lean kernel, Spec/Pool.lean, the std primitives' semantics as "
                  "modelled, the hook's linearisation argument, the harness.",
    "technique": "Lean 4 inductive invariant + ranking function over a labelled transition system; trace acceptance "
                 "of real-thread event logs",
    "timeout": {"quick": 240, "thorough": 3000},
}
