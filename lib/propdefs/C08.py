"""C08 configuration for ./check (see lib/props.py)."""

CFG = {
    "modules": ["HumphreyModel.Props.C08", "HumphreyModel.Props.C08Restart"],
    "rule": "lifecycle scripts over {S start, e/p/b execute (returning / panicking / waiting on a barrier of N), "
            "h/x execute a HELD task (blocks until the caller opens the gate with o, then returns / panics: a task still "
            "running when the pool is stopped, started again or dropped), w wait until everything submitted so far has "
            "run, W = w and every panic begun so far has been answered by a replacement worker, T stop, D drop}, execute "
            "only after start; a task letter may carry a repeat count (e1000). Run on the REAL ThreadPool on real "
            "threads in child processes with the H3 tracer installed and seed-chosen yields / 0-200 us sleeps at the "
            "hook points. Single-run blocks (as before): exhaustive N 1..4 x 0..6 executes x every panicking subset x "
            "with/without stop, never-started pools, monitor x panic payload block, 20 000 (thorough 200 000) random "
            "scripts with settle points, barrier tasks and stop positions. RESTART blocks (the pool started more than "
            "once): R1 every pair of bodies over {e,p} of length 0..2 around one T S, first run settled (w/W) or not, with "
            "/ without a final stop, N 1..3 (798 scripts); R2 tasks of the first run still held or queued behind a held "
            "task across T S / S S (started twice without stop) / T T S, released before, during or after the second "
            "run's work (quick tasks, panics, a barrier group of N) or only after drop, drop with and without a final "
            "stop (5 832); R3 2,3,4,5,8,10,30,100 (thorough also 300, 1000) runs of the same kind each, among them a "
            "held task of every run that panics only after the next start (468; thorough 540); R4 4 000 (thorough 60 000) "
            "random scripts of 1..6 runs over all letters incl. monitors, all panic payloads, barrier groups in later "
            "runs. LARGE blocks: every worker held and c = 1..20, 31..33, 63..65 tasks queued behind (208); for N in "
            "{1,2,4} (thorough {1,2,3,4,8,16}) and c in {100,128,255,256,257,1000,1024} (thorough also 512, 2048, 4096, "
            "8192, 10 000): c quick tasks with drop / stop+drop / settle / barrier of N afterwards, mixed with c/4 panics, "
            "c tasks queued behind N held workers then released / dropped / stopped, c tasks across a restart, c PANICS "
            "(then a barrier of N), c panics in each of two runs (294; thorough 960); very large: 4 096, 10 000, 65 536, "
            "100 000 tasks (thorough up to 262 144, 1 000 000, 1 048 576); wide pools N in {5,8,16,64} (thorough "
            "{5,6,8,16,32,64,128}): all workers busy / panicking / held, barrier of N, also in the run after a restart "
            "and after held tasks of the first run panic (24; thorough 42). Every wait is a QUIESCENCE timeout (what is "
            "waited for has not happened and no pool event has been reported for 1.2-2 s; WEDGED = the caller is not back "
            "and nothing has moved for 2 s), so long scripts are not cut off and a deadlock costs 2 s; a run during which "
            "the machine starved the child process (heartbeat thread delayed > 250 ms, or > 25 % of the run) is repeated "
            "alone. A verdict that rests on time (WEDGED, a wait given up, workers not exited yet, child died) is "
            "CONFIRMED by running the script again on its own, up to 3 times: the first repetition that fails again is "
            "reported; one that does not fail again in 3 undisturbed runs is put down to the machine and listed in the "
            "evidence (time_dependent_verdicts_rerun); after two confirmed failures the rest is reported unconfirmed. "
            "A task run twice or a rejected log is reported as it is. For scripts inside the model (at most one start, at most one stop, <= 5 000 tasks) the event log is "
            "replayed through the Lean transition system (a rejected event = model/implementation disagreement) and the "
            "end-of-run summary (per-task run counters, workers exited, caller returned, barrier reached, settle reached) "
            "is compared with the model's end state and judged by the spec. Scripts OUTSIDE the model (more than one "
            "start or stop: the transition system and its theorems describe ONE run; worker ids are reused by every run) "
            "carry no model comparison and are judged by the executable spec alone on the IMPLEMENTATION's summary and "
            "log: every task run exactly once (counters and log), every panic unwound one worker which reported itself "
            "and was replaced exactly once, N workers exited per start, drop returned, every barrier group of N was "
            "reached, every W was reached. Above 5 000 tasks the log is not kept (summary alone). Non-trivial = started "
            "pool with >=1 task; distinct = distinct (script, event log).",
    "exhaustive": True,
    "violation_text": "the pool did not do what C08 demands on this lifecycle script: the caller never came back "
                      "(WEDGED), a task ran not exactly once, not every worker of every run exited after drop, N tasks "
                      "could not run at the same time, or a panic was never answered by a replacement worker "
                      "(settle=timeout)",
    "trusted_base": ["Spec/Pool.lean: View, ExactlyOnce, AtMostN, Fifo, AllDone, Summary.ok, LogCounts.ok",
                     "std::sync::mpsc FIFO/blocking semantics, Mutex, unwinding running Drop, JoinHandle::join are "
                     "modelled, not verified",
                     "the H3 event log is a linearisation of the run (acquisitions logged after, releases/sends/"
                     "spawns before the real operation, under one global mutex)"],
    "assumptions": ["one thread owns the pool (start/execute/stop/drop are sequential)",
                    "THEOREMS about panic recovery, N_can_run and drop_never_blocks are for one run (Model/Pool.lean). Scripts "
                    "that start the pool again are covered by the several-runs system Model/PoolRestart.lean (start-again = the "
                    "old run retired to the end state of Drop, per-run panicking sets) and the theorems of Props/C08Restart.lean; "
                    "that system is tied to the code through the shared `step` (trace acceptance of one-run logs) and by reading "
                    "`ThreadPool::start` for `retire`; restart logs themselves are judged by the executable spec predicates",
                    "scheduler: an enabled step is eventually taken (needed only to read termination as liveness)",
                    "the recovery thread is detached, not ended: it stays blocked on its channel for the life of the "
                    "process (as after stop() in the original code)"],
    "design_ref": "6.8",
    "level_text": "for every interleaving of caller, N workers and the recovery thread, any N>=1, any number of tasks "
                  "and any panicking subset (inductive invariant over the reachable states of the transition system "
                  "Model/Pool.lean): exactly_once, at_most_N_running, N_can_run, panic_isolated, fifo_dequeue; every "
                  "step other than submit decreases a measure (termination); terminal_all_done; drop_never_blocks; "
                  "drop_without_stop_deadlocks_unrepaired for the code before the repair. The model is tied to the "
                  "code by trace acceptance of real event logs. Lifecycle scripts that start the pool again (any number of times, "
                  "with or without stop in between) are covered by Model/PoolRestart.lean (every earlier run goes on next to the "
                  "current one) and Props/C08Restart.lean: restart_exactly_once, restart_at_most_N, restart_fifo for EVERY run in "
                  "every reachable state, restart_never_blocks, retired_step_decreases (left-over threads take finitely many "
                  "steps), retired_all_done (a quiescent earlier run has run every task and all its workers have exited). Not "
                  "proved for retired runs: the return to N usable workers (one-run theorem only). Restart logs are not replayed "
                  "through the model (worker ids are reused): they are judged by the executable spec predicates (testing level).",
    "level_note": "Proof of the protocol; partial for OS-level liveness (the logs show only the schedules the OS and "
                  "the perturbation produced). Trusted: Lean kernel, Spec/Pool.lean, the std primitives' semantics as "
                  "modelled, the hook's linearisation argument, the harness.",
    "technique": "Lean 4 inductive invariant + ranking function over a labelled transition system; trace acceptance "
                 "of real-thread event logs",
    "timeout": {"quick": 240, "thorough": 3000},
}
