"""C11 configuration for ./check (see lib/props.py)."""

CFG = {
    "modules": ["HumphreyModel.Props.C11"],
    "rule": "hs: the public websocket_handler(..) closure on a Request built through the public API, over a scripted "
            "socket (humphrey::stream::Stream::Mock); the wrapped handler notes that it was called and lets the "
            "WebsocketStream go out of scope. Keys: the RFC's example, the empty key, every printable ASCII character as "
            "a one-character key and inside a 24-character key, every key length 0..140 (SHA-1 block boundaries of key + "
            "GUID), random printable keys up to 5000 characters, printable non-ASCII, genuine Base64 nonces; header name "
            "in four spellings; two key headers; other handshake headers present or not; key absent. "
            "sess: WebsocketStream::new(Stream::Mock(..)) driven by a client script = list of frames (fin, rsv, opcode, "
            "mask, key, payload) serialised by the harness's own RFC 6455 client encoder, of which `keep` bytes arrive; "
            "delivery = segment sizes and NotYet moments (a non-blocking read there gets WouldBlock, a blocking read "
            "waits); ops = recv / recv_nonblocking / ping / send chosen while the real stream runs (blocking only, "
            "non-blocking only, mixed; a handler that stops at the first error or tries up to twice more; early server "
            "drop), then the stream is dropped; every write call is recorded separately. "
            "Small scope, complete: every script of 0..3 frames over a 10-frame alphabet (text/binary/continuation with "
            "and without FIN, empty and non-empty Ping, Pong, Close with and without status) x {recv, recv_nonblocking} "
            "delivered whole (and byte-wise up to 2 frames), a NotYet before every byte position, every truncation "
            "point (up to 2 frames), byte-wise with a NotYet between all bytes (2 frames). "
            "Random: scripts of 1..12 frames: messages in 1..5 fragments (payload 0..70 KiB incl. 125/126/127, "
            "65535/65536 boundaries) with Ping/Pong between fragments, stand-alone Ping/Pong, repeated data opcode on a "
            "later fragment, leading continuation, unmasked client frames, RSV bits, arbitrary masking keys; ending by "
            "client Close (with/without status, frames after it), by server drop, by EOF at a frame boundary or at an "
            "arbitrary byte / inside a header, extended length or key; deliveries whole, byte-wise, split inside every "
            "2-byte header, inside extended lengths and keys, frame by frame, at random field cuts, at random cuts, "
            "with NotYet moments at the start, at field cuts, at the end and anywhere. "
            "Large scale (sizes, counts and histories well above small; each session in a WORKER PROCESS on a thread with "
            "Rust's default 2 MiB stack, 30 s watchdog, so that a process abort or a hang is an observation; scripts, "
            "deliveries, ops and outputs in run-length form `<count>*<group>`, payloads `g<len>s<seed>`, messages above "
            "100 000 bytes shown as length + FNV-1a): floods of n identical Ping or Pong frames, n = 1 000 / 20 000 / 200 000 "
            "(thorough: also 100, 128, 255-257, 1 024, 4 096, 8 192, 12 000, 50 000, 65 536, 100 000, 1 000 000), masked and "
            "unmasked, empty / 1-7 byte / 125-byte payload, placed before a message, between its two fragments, "
            "alternating with its fragments (n <= 20 000), after a message, before a Close and with nothing after, "
            "received by recv and by recv_nonblocking, delivered whole, frame by frame, in 4 096- and 1 460-byte segments and "
            "byte-wise, now and then with the last byte missing; messages of 100 / 1 000 / 10 000 fragments (thorough: also "
            "128, 255-257, 1 024, 4 096, 8 192, 20 000) with 1-byte, empty, 3-byte and 300-byte fragments; 100 / 1 000 / "
            "10 000 (thorough: also 128, 255-257, 1 024, 4 096, 8 192, 20 000) messages on ONE connection (same message, two "
            "kinds, message+Ping, Pong+message, two-fragment messages, then Close or EOF) read by n+2 recv / "
            "recv_nonblocking / alternating calls, whole or message by message with a pause after each, and echoed "
            "(recv, send, ping alternating on the same stream object); data payloads of 125, 126, 127, 65 535, 65 536, "
            "65 537, 100 000, 100 001, 262 144 bytes and 1 MiB (thorough: also 128, 255-257, 1 000, 1 024, 4 095-4 097, 8 192 ... "
            "524 288, 1 MiB + 1, 2 MiB, 3 000 000, 4 MiB) masked and unmasked, as a single frame, as first fragment with a Ping "
            "behind it, as last fragment, delivered whole and in 1 460 / 4 096 / 8 192 / 65 536-byte segments, and several "
            "64 KiB - 1 MiB messages in a row (quick tier: the 10 000-message count with the shapes `same message` and "
            "`message+Ping` only, payloads of 262 144 bytes and more whole and in 4 096-byte segments only). Not covered at this scale: more than 20 000 messages or fragments per "
            "connection (the model's fuel computation is linear in the bytes left per call), payloads above 4 MiB. "
            "Non-trivial = every hs case and "
            "every sess case with at least one frame; distinct = distinct case line.",
    "exhaustive": True,
    "violation_text": "the WebSocket endpoint does not do what RFC 6455 demands on this input: handshake response "
                      "(101, Upgrade, Connection, Sec-WebSocket-Accept = Base64(SHA-1(key + GUID))) or upgrade without "
                      "a key; bytes written that are not well-formed unmasked frames; a message returned by "
                      "recv/recv_nonblocking that is not the one the client's frames denote; a Ping not answered by a "
                      "Pong with the same payload; a Close not answered or not reported as ConnectionClosed; no Close "
                      "frame when the stream is dropped; `nothing yet` from recv_nonblocking although a frame has "
                      "started to arrive (or a result although nothing has); the process running the session aborted "
                      "(e.g. stack overflow) or did not answer within the watchdog",
    "trusted_base": ["Spec/WsMsg.lean (messages, replies, framesOf = decoder for the server's output, Client.recv = one "
                     "call at frame level with the delivery as byte positions) and Spec/WsFrame.lean (rfc6455Layout)",
                     "Spec/Base64.lean (RFC 4648) and the plain FIPS 180-1 SHA-1 in Driver/C11.lean, which judge the "
                     "Sec-WebSocket-Accept value of the implementation",
                     "harness/src/c11.rs: the scripted socket (Mock: Data/NotYet events, EOF at the end of the script, "
                     "WouldBlock only in non-blocking mode, one log entry per write call) = the model's Ev script; the "
                     "harness's own client frame encoder; the run-length / generated-payload / hashed forms of the case "
                     "line (expanded identically by c11.rs and Driver/C11.lean) and the worker-process protocol (worker.rs)",
                     "Model/WsMsg.lean: the compiled code of readExactEv, recvLoop and recvLoopNb is replaced by functions "
                     "PROVED equal to them (@[csimp] readExactEv_eq_fast, recvLoop_eq_fast, recvLoopNb_eq_fast; axioms "
                     "propext, Quot.sound only), so that 200 000-frame scripts run in linear time",
                     "Generated/Tables.lean (status phrase and header spelling) is produced by running the code"],
    "assumptions": ["writes succeed (WebsocketError::WriteError is not modelled)",
                    "a read returns at least one byte unless the peer is gone (theorems about deliveries); usize is 64 bits",
                    "client frames carry length field = payload length < 2^64 (ClientScript); claimed lengths of "
                    "garbage input are C03's subject (allocation before read) and are not generated here",
                    "SHA-1 is a parameter of the model's handshake (Model/Sha1.lean is a separate slice); the "
                    "correspondence run instantiates it with an executable SHA-1 in the driver"],
    "design_ref": "6.11",
    "level_text": "handshake_accept: with a Sec-WebSocket-Key header the response is exactly `HTTP/1.1 101 Switching "
                  "Protocols`, Connection: Upgrade, Upgrade: websocket, sec-websocket-accept: RFC 4648 Base64 of "
                  "sha1(key ++ GUID), empty body (C18 encode_eq_rfc4648; phrase and spellings from the regenerated "
                  "tables); no_key_no_upgrade. outbound_is_frames: for ANY inbound bytes and any sequence of "
                  "recv/recv_nonblocking/send/ping calls followed by the drop, the outbound log grows by rfc6455Layout "
                  "of frames with FIN, no RSV, no mask, length = payload length, one write per frame. For every client "
                  "script (any number of well-formed frames, any opcodes, masks, keys, payload sizes), every "
                  "segmentation, every placement of pauses and every abrupt ending: recv_delivers_messages (repeated "
                  "recv returns Spec.messages, then ConnectionClosed iff the script has a Close, else ReadError), "
                  "ping_answered_by_pong_same_payload, close_answered_and_reported, drop_sends_close(_in_session), "
                  "recv_delivery_independent. For any inbound script: blocking_nonblocking_agree (a non-blocking "
                  "result other than `nothing yet` is the blocking result with the same connection afterwards; "
                  "`nothing yet` loses nothing), none_only_if_nothing_started (only complete Ping/Pong frames were "
                  "consumed and no byte was available at the point reached), recv_fuel_suffices. The model is tied "
                  "to message.rs/stream.rs/handler.rs/frame.rs by the differential run; the implementation's output "
                  "is also judged directly by the frame-level specification (Spec.Client.recv, framesOf).",
    "level_note": "Trusted: Lean kernel, Spec/WsMsg.lean + Spec/WsFrame.lean + Spec/Base64.lean, the harness with its "
                  "scripted socket and client encoder, the driver's SHA-1. Theorems are about the model; frames are "
                  "read with C10's generic decoder (decodeWith) over the event script, and the C10 lemmas "
                  "decodeWith_sim / decodeFlat_take_encode carry the segmentation independence. Repaired: D6 (replies "
                  "written as bare payload, 9932f59) and D7 (one-byte non-blocking header read, 04c371b).",
    "technique": "simulation between the event script and its flat byte string (C10 Sim), induction on the client's "
                 "frame list for the receive loop, strong induction on the script for the handler loop, induction on "
                 "fuel for blocking/non-blocking agreement, kernel evaluation (decide) of table lookups and examples",
    "timeout": {"quick": 120, "thorough": 3000},
}
