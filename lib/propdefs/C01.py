"""C01 configuration for ./check (see lib/props.py)."""


def known_matcher(d):
    # every clause of the property holds except that a CRLF follows each non-empty body (test-pinned serialiser)
    if d["line"].startswith("conn\t") and d["spec"] == "bad:crlf-after-body":
        return "crlf-after-body"
    return None


CFG = {
    "modules": ["HumphreyModel.Props.C01", "HumphreyModel.Props.C01Spec", "HumphreyModel.Props.C01Stream"],
    "rule": "connections against the real client_handler (hook verif_client_handler) on a scripted socket: sequences of "
            "1..6 requests over {GET,POST,PUT,DELETE,OPTIONS} x {routed, unrouted, CORS-configured, body-echoing, "
            "empty-body, panicking handler, host-specific} x Connection {keep-alive in any case, close, absent} x "
            "{HTTP/1.0, HTTP/1.1} x {well-formed, no version, unknown method, header without colon, bad length}; each "
            "delivered one request per segment, all in ONE segment, one byte per segment, at random cuts, at every "
            "single split point (short streams), and with an idle gap past the timeout before/between/after requests; "
            "WebSocket upgrade requests. LARGE DIMENSIONS (own block, case lines in compact form: `d<hex>*<n>` = a segment repeated, "
            "`Y<n>.<hex>` = a block of bytes repeated, `Z<len>.<seed>` = a pseudo-random pattern, `b…` bytewise, `s<k>:…` k-byte "
            "segments; equal consecutive responses come back run-length encoded `e*n`): (1) long keep-alive sessions of 99..101, "
            "127..129, 255..257, 300, 511..513, 1000, 1023..1025, 2049 requests on ONE connection (thorough: 63..8193, 39 lengths, "
            "3 variants each up to 1100), built of 1..3 blocks of identical well-formed keep-alive requests (8 kinds: routed, "
            "404, OPTIONS, echo with body, HTTP/1.0, host-specific, CORS) followed by nothing / a closing request / a request "
            "without Connection / a malformed one / a panicking handler; each delivered one request per segment, all in ONE segment, "
            "in fixed-size segments (7..65536 bytes), bytewise (up to 300 requests, thorough 1100), and with a configured timeout "
            "and an idle gap after the session or after its first block; (2) 4 (thorough 40) sessions of 100..400 VARIED well-formed "
            "keep-alive requests, per request / coalesced / random cuts / fixed-size segments; (3) one request with a Content-Length "
            "body of 65536, 65537, 262144, 262145, 300017, 1048577 bytes (thorough: 18 sizes from 65535 to 4 MiB+1) followed by a "
            "second request, to small-answer targets and (up to 64 KiB+1, thorough ~300 KB) the echoing route: one segment, "
            "head|body|next, 1460..262144-byte segments, segments straddling head/body and body/next, a pause inside the body "
            "with the timeout armed; (4) a request of 64, 100, 128, 257, 1000 (thorough: 31..2048) field lines, distinct or all "
            "same-named, inside a session. A share of (1)-(4) (sessions of 101, 257, 1025 requests; thorough up to 4097; every "
            "second body size; the coalesced form of (4)) also runs against the tokio runtime on a real socket, where byte streams above 8 KiB are compared by length and FNV-1a hash. Observed: every write (Date normalised after checking it is a well-formed "
            "IMF-fixdate within 5 s), the requests handed to handlers, the WebSocket hand-off, panic. Compared with "
            "the Lean model byte for byte and judged by Spec.checkConn. Non-trivial = at least two requests on the "
            "connection; distinct = distinct case line.",
    "exhaustive": False,
    "violation_text": "the bytes the server wrote violate a clause of C01 (see spec_verdict for which)",
    "known_matcher": known_matcher,
    "trusted_base": ["Spec/Conn.lean (checkConn) and Spec/HttpMsg.lean (strict message recogniser)",
                     "the scripted socket (harness MockConn): reads return the scripted chunks, an idle event is a WouldBlock when a timeout is armed",
                     "DateTime::now is observed only as 'well-formed and recent'"],
    "assumptions": ["handlers set no Content-Length/Connection/Date/Server themselves (targets of the quantifier)",
                    "tokio runtime: a share of the connections (no timeout/idle/upgrade cases) is repeated against the real tokio App::run on a loopback port through the second harness binary hvt; only the bytes a client sees are compared there (no dispatch log, no scripted segmentation: the kernel may coalesce writes, which the segmentation-independence theorem makes harmless); the client there reads while it writes, and only what the server sent BEFORE the client closed its sending direction (300 ms of silence after the last byte; repeated with 2 s and 8 s when something arrives only after the close) counts as sent",
                    "cross-connection isolation of a handler panic is C08's theorem (panic_isolated), not shown here"],
    "extra_harness": ["harness-tokio"],
    "design_ref": "6.1",
    "level_text": "serve_segmentation_independent: for EVERY client byte stream and any two segmentations the model of the "
                  "connection loop writes the same responses, dispatches the same requests and ends the same way "
                  "(simulation proof over the buffered-reader model); per-step theorems for 408, 400, disconnect, handler "
                  "panic, keep-alive iff; completed_response_headers. serve_meets_spec (Props/C01Spec.lean): for EVERY client stream, "
                  "segmentation and idle pattern, every application whose handlers are well-behaved (CfgOk: known status, "
                  "well-formed headers, no Content-Length/CORS headers of their own) the model's written bytes pass the "
                  "executable spec checkConn — all branches: 408, 400, disconnect, upgrade, OPTIONS, unrouted 404, handler "
                  "response, handler panic, keep-alive continuation and close — up to the recorded CRLF pad; the only extra "
                  "hypothesis is NoBareCR (no bare CR in an echoed version / Connection value: the real parser accepts and "
                  "echoes it, outside the property's quantifier); Props/C01Stream.lean discharges it from a condition on the "
                  "BYTE STREAM: serve_meets_spec_clean_stream (no CR followed by a non-LF byte anywhere) and "
                  "serve_meets_spec_clean_heads (the condition only on the heads of the requests the loop really frames, "
                  "bodies arbitrary), and bare_cr_stream_violates_spec proves the hypothesis necessary (`GET / A\\rB`). The same checkConn judges the IMPLEMENTATION's output in "
                  "every correspondence case.",
    "level_note": "Trusted: Lean kernel; Model/Conn.lean tied to app.rs by byte-exact comparison of everything written. "
                  "Known finding: CRLF after a non-empty body (shared with C07).",
    "technique": "Lean 4 simulation proof + per-step lemmas; executable spec evaluated on the implementation's output",
}
