#!/usr/bin/env python3
"""Writes /verif/MANIFEST.json from lib/props.py (single source of truth for claimed properties)."""
import json, os, sys
ROOT = os.path.dirname(os.path.dirname(os.path.abspath(__file__)))
sys.path.insert(0, os.path.join(ROOT, "lib"))
from props import PROPS, NOT_APPLICABLE, HOOK_COMMITS

checks = []
for pid in sorted(PROPS):
    c = PROPS[pid]
    checks.append({
        "property_id": pid,
        "quick_cmd": f"./check {pid} --tier quick",
        "thorough_cmd": f"./check {pid} --tier thorough",
        "evidence_file": f"/verif/evidence/{pid}.json",
        "replay_cmd_template": f"./check {pid} --replay {{path}}",
        "engine": "lean-proof+correspondence",
        "level_claimed": {"category": "proof", "text": c["level_text"], "design_ref": c.get("design_ref", "")},
        "level_note": c["level_note"],
        "technique": c.get("technique", "Lean 4 theorems about a hand-written model; model tied to the code by a differential correspondence run"),
    })
m = {
    "version": 1,
    "setup_cmd": "./check --setup",
    "hooks": {
        "guard": "--cfg humphrey_verif",
        "enable": "RUSTFLAGS='--cfg humphrey_verif' (set in /verif/harness/.cargo/config.toml; the harness builds /repo's crates as path dependencies)",
        "baseline_off_cmd": "/verif/baseline_off.sh",
        "source_commits": HOOK_COMMITS,
        "add_only": True,
    },
    "engines": [{
        "name": "lean-proof+correspondence", "path": "/verif/check",
        "serves_properties": sorted(PROPS),
        "kind_free_text": "Lean 4 model + theorems (lake build, axiom audit) and a Rust harness that runs the real code and "
                          "pipes the same cases to the compiled Lean driver",
    }],
    "checks": checks,
    "not_applicable": [{"property_id": k, "reason": v} for k, v in sorted(NOT_APPLICABLE.items())],
    "notes": "See DESIGN.md. Properties not yet listed under checks are listed under not_applicable with the reason "
             "'not built yet' until their model, theorems and correspondence exist.",
}
json.dump(m, open(os.path.join(ROOT, "MANIFEST.json"), "w"), indent=1)
print("wrote MANIFEST.json with", len(checks), "checks")
