"""Per-property configuration for ./check. One file per property in lib/propdefs/Cxx.py defining CFG with:
  modules        Lean modules holding the property's theorems (everything else is helper material)
  rule           how cases are generated and what counts as distinct / non-trivial
  exhaustive     True when part of the run enumerates a finite scope completely
  violation_text what a spec=bad case means
  trusted_base, assumptions, design_ref, level_text, level_note, technique
  known_matcher  optional function(diff) -> key of a `finding:` line in known_findings.txt, or None
  extra_harness  optional list of additional harness crates (directories next to `harness/`) to build first
  timeout        optional {"quick": s, "thorough": s} for the harness run
"""
import importlib.util, os, glob

PROPS = {}
_here = os.path.join(os.path.dirname(os.path.abspath(__file__)), "propdefs")
for _p in sorted(glob.glob(os.path.join(_here, "C*.py"))):
    _spec = importlib.util.spec_from_file_location(os.path.basename(_p)[:-3], _p)
    _m = importlib.util.module_from_spec(_spec)
    _spec.loader.exec_module(_m)
    PROPS[os.path.basename(_p)[:-3]] = _m.CFG

# Properties not claimed (yet), with the reason.
NOT_APPLICABLE = {}
for _i in range(1, 21):
    _id = "C%02d" % _i
    if _id not in PROPS:
        NOT_APPLICABLE[_id] = ("not built yet: model, theorems and correspondence check are planned in DESIGN.md "
                               "section 6 but do not exist, so nothing is claimed")

# /repo commits that add cfg(humphrey_verif)-guarded hooks.
HOOK_COMMITS = [
    "2420990 verif hook: humphrey_ws::verif re-exports frames, SHA-1 and Base64",
    "3d998c4 verif hook: scripted Stream::Mock variant and verif_client_handler",
    "4dd7ca9 verif hook: HeaderType::verif_category exposes the private sort category",
    "276de69 verif hook: App::verif_default_subapp exposes the registered routes",
    "e940eba verif hook: thread pool event tracer (thread::verif)",
    "f2bf293 verif hook: async WebSocket app event tracer (humphrey_ws::verif::app_event)",
    "f5dee11 verif hook: App::run event tracer (thread::verif::AppEvent) in app.rs and tokio/app.rs",
    "bcab896 verif hook: clock override for the file cache and sessions, cache constructor/state access, verify_connection export",
]
