#!/usr/bin/env python3
"""Prints the markdown table of DESIGN.md section 11 from /verif/seeded/*/meta.json."""
import json, glob, os, re
rows = []
for f in sorted(glob.glob(os.path.join(os.path.dirname(os.path.dirname(os.path.abspath(__file__))), "seeded", "*", "meta.json"))):
    m = json.load(open(f)); r = m["what_was_run"]
    notes = m.get("notes_excerpt", "")
    summary = m.get("summary", "")
    res = []
    for p, c in r["checks"].items():
        if c["exit"] == 1:
            k = c.get("replay_kind") or "violation"
            sv = c.get("spec_verdict") or ""
            nf = " (no-failing-input-found)" if c["violation"] and "no-failing-input-found" in c["violation"][0] else ""
            res.append(f"**{p}**: {k} {sv}{nf}".strip())
        else:
            res.append(f"{p}: not caught")
    rows.append((m["id"], summary, "yes" if r.get("confirmed") else "NO", "; ".join(res)))
print("| seed | what the change does / what it needs | confirmed (suite 99, demo fails with / passes without) | checks run against it |")
print("|---|---|---|---|")
for r in rows:
    print("| " + " | ".join(r) + " |")
