import HumphreyModel.Model.Glob
import HumphreyModel.Spec.Glob
import HumphreyModel.Props.C05
import HumphreyModel.Props.C02
import HumphreyModel.Driver.C02
import HumphreyModel.Driver.C05
