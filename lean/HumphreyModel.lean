import HumphreyModel.Model.Glob
