import HumphreyModel.Driver.Util
import HumphreyModel.Driver.C01
import HumphreyModel.Driver.C02
import HumphreyModel.Driver.C03
import HumphreyModel.Driver.C05
import HumphreyModel.Driver.C07
import HumphreyModel.Driver.C09
import HumphreyModel.Driver.C18a
import HumphreyModel.Driver.C18b
import HumphreyModel.Driver.C17
import HumphreyModel.Driver.C16
import HumphreyModel.Driver.C10
import HumphreyModel.Driver.C15
import HumphreyModel.Driver.C08
import HumphreyModel.Driver.C13
import HumphreyModel.Driver.C19
import HumphreyModel.Driver.C11
import HumphreyModel.Driver.C14
import HumphreyModel.Driver.C20
import HumphreyModel.Driver.C06
import HumphreyModel.Driver.C12

/-!
Line-protocol driver. Each input line: `fn <TAB> arg… <TAB> impl-output`.
Reply per line: `=` when the model's output equals the implementation's and the spec verdict
on the implementation's output is not "bad"; otherwise `D <TAB> model-output <TAB> spec`.
One `dispatch` per property lives in `HumphreyModel/Driver/Cxx.lean`.
-/
open Humphrey Humphrey.Driver

def dispatchers : List (String → List String → String → Option Verdict) :=
  [ C01.dispatch, C02.dispatch, C03.dispatch, C05.dispatch, C07.dispatch, C09.dispatch, C18a.dispatch, C18b.dispatch, C17.dispatch, C16.dispatch, C10.dispatch, C15.dispatch, C08.dispatch, C13.dispatch, C19.dispatch, C11.dispatch, C14.dispatch, C20.dispatch, C06.dispatch, C12.dispatch ]

def dispatch (fn : String) (args : List String) (impl : String) : Verdict :=
  match dispatchers.findSome? (fun d => d fn args impl) with
  | some v => v
  | none => { model := "UNKNOWN-FN" }

def processLine (line : String) : String :=
  let fields := line.splitOn "\t"
  match fields with
  | [] => "D\tEMPTY\tna"
  | fn :: rest =>
    match rest.reverse with
    | [] => "D\tNOIMPL\tna"
    | impl :: revArgs =>
      let v := dispatch fn revArgs.reverse impl
      let specBad := v.spec == some false
      if v.model == impl && !specBad then "="
      else
        let s := match v.spec with
          | none => "na" | some true => "ok"
          | some false => if v.reason.isEmpty then "bad" else "bad:" ++ v.reason
        s!"D\t{v.model}\t{s}"

partial def loop (hin : IO.FS.Stream) (hout : IO.FS.Stream) : IO Unit := do
  let line ← hin.getLine
  if line.isEmpty then return ()
  let line := if line.endsWith "\n" then (line.dropEnd 1).toString else line
  hout.putStrLn (processLine line)
  loop hin hout

def main : IO Unit := do
  let hin ← IO.getStdin
  let hout ← IO.getStdout
  loop hin hout
  hout.flush
