import HumphreyModel.Driver.Util
import HumphreyModel.Model.Glob

/-!
Line-protocol driver. Each input line: `fn <TAB> arg… <TAB> impl-output`.
Reply per line: `=` when the model's output equals the implementation's and the spec verdict
on the implementation's output is not "bad"; otherwise `D <TAB> model-output <TAB> spec`.
-/
open Humphrey Humphrey.Driver

/-- Result of one case: the model's canonical output and, where a decidable spec predicate is
available, its verdict on the *implementation's* output (`none` = not judged here). -/
structure Verdict where
  model : String
  spec : Option Bool := none

def dispatch (fn : String) (args : List String) (impl : String) : Verdict :=
  match fn, args with
  | "glob", [p, t] =>
    match (unhex p).bind utf8?, (unhex t).bind utf8? with
    | some p, some t =>
      let m := boolStr (Glob.wildcardMatch p.toList t.toList)
      -- `wildcard_match_iff_glob` makes the model the spec: any other answer violates C05
      { model := m, spec := some (impl == m) }
    | _, _ => { model := "BADARGS" }
  | _, _ => { model := "UNKNOWN-FN" }

def processLine (line : String) : String :=
  let fields := line.splitOn "\t"
  match fields with
  | [] => "D\tEMPTY\tna"
  | fn :: rest =>
    match rest.reverse with
    | [] => "D\tNOIMPL\tna"
    | impl :: revArgs =>
      let v := dispatch fn revArgs.reverse impl
      let specBad := v.spec == some false
      if v.model == impl && !specBad then "="
      else
        let s := match v.spec with | none => "na" | some true => "ok" | some false => "bad"
        s!"D\t{v.model}\t{s}"

partial def loop (hin : IO.FS.Stream) (hout : IO.FS.Stream) : IO Unit := do
  let line ← hin.getLine
  if line.isEmpty then return ()
  let line := if line.endsWith "\n" then (line.dropEnd 1).toString else line
  hout.putStrLn (processLine line)
  loop hin hout

def main : IO Unit := do
  let hin ← IO.getStdin
  let hout ← IO.getStdout
  loop hin hout
  hout.flush
