/-!
# Model of `humphrey-json`: `parser.rs` and `serialize.rs` (import-free, executable)

`Value::parse` is a recursive-descent parser over `Peekable<Chars>`; the model runs over
`List Char` (Rust `char` = Lean `Char` = Unicode scalar value). Line/column bookkeeping and
the *kind* of a `ParseError` are not observed by property C13 and are left out: every `Err`
is `none`.

Numbers. `Value::Number` holds an `f64` obtained with `f64::from_str` and printed with
`Display`. Both are parameters of the model: `NumCodec N` carries `parse` (`from_str`) and
`show` (`to_string`). The theorems of C13 are stated for an arbitrary codec satisfying three
laws (`LawfulCodec` in `Spec/Json.lean`); the correspondence run checks those laws against
Rust and uses the executable instance `decCodec` below.

Loops. `parse_array` / `parse_object` push onto a `Vec`; the model returns the list of the
elements parsed *from here on* (so `array.is_empty()` becomes the flag `first`/`empty`).
The mutual recursion takes fuel; `parse` supplies `2 * length + 2`, which is never
exhausted (each call either consumes a character or is followed by one that does).
-/
namespace Humphrey.Json

/-- `humphrey_json::Value`; object members are an ordered `Vec<(String, Value)>`. -/
inductive Value (N : Type) where
  | null : Value N
  | bool (b : Bool) : Value N
  | number (n : N) : Value N
  | string (s : List Char) : Value N
  | array (xs : List (Value N)) : Value N
  | object (ms : List (List Char × Value N)) : Value N

/-- `f64::from_str` and `<f64 as Display>::fmt`, abstractly. -/
structure NumCodec (N : Type) where
  parse : List Char → Option N
  «show» : N → List Char

/-- `const MAX_DEPTH: usize = 256;` -/
def maxDepth : Nat := 256

/-! ## parser.rs -/

/-- `is_whitespace` -/
def isWhitespace (c : Char) : Bool := c = ' ' || c = '\t' || c = '\n' || c = '\r'

/-- `is_literal` -/
def isLiteral (c : Char) : Bool := !isWhitespace c && c != ',' && c != '}' && c != ']'

/-- `flush_whitespace` -/
def flushWhitespace (s : List Char) : List Char := s.dropWhile isWhitespace

def isDigit (c : Char) : Bool := '0' ≤ c && c ≤ '9'
def isDigit19 (c : Char) : Bool := '1' ≤ c && c ≤ '9'

/-- `while peek is ASCII digit { next }` -/
def dropDigits (s : List Char) : List Char := s.dropWhile isDigit

/-- `is_json_number`, integer part: `0` or `[1-9][0-9]*`; returns what follows. -/
def numInt : List Char → Option (List Char)
  | [] => none
  | c :: r => if c = '0' then some r else if isDigit19 c then some (dropDigits r) else none

/-- optional `.` followed by at least one digit -/
def numFrac : List Char → Option (List Char)
  | [] => some []
  | c :: r =>
    if c = '.' then
      match r with
      | [] => none
      | d :: r' => if isDigit d then some (dropDigits r') else none
    else some (c :: r)

/-- optional `e`/`E`, optional sign, at least one digit -/
def numExp : List Char → Option (List Char)
  | [] => some []
  | c :: r =>
    if c = 'e' || c = 'E' then
      let r := match r with
        | s :: r' => if s = '+' || s = '-' then r' else s :: r'
        | [] => []
      match r with
      | [] => none
      | d :: r' => if isDigit d then some (dropDigits r') else none
    else some (c :: r)

/-- `is_json_number` (added by the repair of the number defect): the token is exactly
`-? int frac? exp?`. -/
def isNumberLexeme (s : List Char) : Bool :=
  let s := match s with
    | c :: r => if c = '-' then r else c :: r
    | [] => []
  match numInt s with
  | none => false
  | some s =>
    match numFrac s with
    | none => false
    | some s =>
      match numExp s with
      | none => false
      | some s => s.isEmpty

/-- `parse_literal`: the token is `c` plus everything up to the next whitespace `,` `}` `]`. -/
def parseLiteral {N : Type} (C : NumCodec N) (c : Char) (s : List Char) : Option (Value N × List Char) :=
  let tok := c :: s.takeWhile isLiteral
  let rest := s.dropWhile isLiteral
  if tok = ['n', 'u', 'l', 'l'] then some (.null, rest)
  else if tok = ['t', 'r', 'u', 'e'] then some (.bool true, rest)
  else if tok = ['f', 'a', 'l', 's', 'e'] then some (.bool false, rest)
  else if isNumberLexeme tok then
    match C.parse tok with
    | some n => some (.number n, rest)
    | none => none
  else none

/-- value of one ASCII hex digit (`char::is_ascii_hexdigit` + `from_str_radix(_, 16)`) -/
def hexVal (c : Char) : Option Nat :=
  if '0' ≤ c ∧ c ≤ '9' then some (c.toNat - 48)
  else if 'a' ≤ c ∧ c ≤ 'f' then some (c.toNat - 87)
  else if 'A' ≤ c ∧ c ≤ 'F' then some (c.toNat - 55)
  else none

/-- `[next()?, next()?, next()?, next()?]` collected and read as a `u16` in base 16. -/
def hex4 : List Char → Option (Nat × List Char)
  | a :: b :: c :: d :: rest =>
    match hexVal a, hexVal b, hexVal c, hexVal d with
    | some a, some b, some c, some d => some (((a * 16 + b) * 16 + c) * 16 + d, rest)
    | _, _, _, _ => none
  | _ => none

/-- The one-character arms of `if backslash { match c … }` in `parse_string`. -/
def simpleEscape (c : Char) : Option Char :=
  if c = '"' then some '"'
  else if c = '\\' then some '\\'
  else if c = '/' then some '/'
  else if c = 'b' then some (Char.ofNat 0x08)
  else if c = 'f' then some (Char.ofNat 0x0c)
  else if c = 'n' then some (Char.ofNat 0x0a)
  else if c = 'r' then some (Char.ofNat 0x0d)
  else if c = 't' then some (Char.ofNat 0x09)
  else none

/-- second half of a surrogate pair: `\uXXXX` with `XXXX` a low surrogate (`code` is the first
half); `char::decode_utf16([code, code_2])`. -/
def parseLowSurrogate (code : Nat) : List Char → Option (Char × List Char)
  | b :: u :: rest =>
    if b = '\\' ∧ u = 'u' then
      match hex4 rest with
      | none => none
      | some (code2, rest) =>
        if code ≤ 0xDBFF ∧ 0xDC00 ≤ code2 ∧ code2 ≤ 0xDFFF then
          some (Char.ofNat (0x10000 + (code - 0xD800) * 0x400 + (code2 - 0xDC00)), rest)
        else none
    else none
  | _ => none

/-- The `'u' => …` arm, input positioned after `\u`. -/
def parseUnicodeEscape (s : List Char) : Option (Char × List Char) :=
  match hex4 s with
  | none => none
  | some (code, rest) =>
    -- `char::from_u32(code)` is `Some` unless `code` is a surrogate
    if code < 0xD800 ∨ 0xDFFF < code then some (Char.ofNat code, rest)
    else parseLowSurrogate code rest

/-- The `if backslash { match c … }` arm of `parse_string`, input positioned after the `\`. -/
def parseEscape : List Char → Option (Char × List Char)
  | [] => none
  | c :: rest =>
    if c = 'u' then parseUnicodeEscape rest
    else
      match simpleEscape c with
      | some x => some (x, rest)
      | none => none

theorem hex4_length {s r : List Char} {n : Nat} (h : hex4 s = some (n, r)) : r.length + 4 = s.length := by
  match s, h with
  | a :: b :: c :: d :: rest, h =>
    simp only [hex4] at h
    split at h
    · simp only [Option.some.injEq, Prod.mk.injEq] at h; simp [← h.2]
    · simp at h

theorem parseLowSurrogate_length {code : Nat} {s r : List Char} {c : Char}
    (h : parseLowSurrogate code s = some (c, r)) : r.length < s.length := by
  match s, h with
  | b :: u :: rest, h =>
    simp only [parseLowSurrogate] at h
    split at h
    · split at h
      · simp at h
      · rename_i h1
        have := hex4_length h1
        split at h
        · simp only [Option.some.injEq, Prod.mk.injEq] at h
          rw [← h.2]; simp only [List.length_cons]; omega
        · simp at h
    · simp at h

theorem parseUnicodeEscape_length {s r : List Char} {c : Char}
    (h : parseUnicodeEscape s = some (c, r)) : r.length < s.length := by
  simp only [parseUnicodeEscape] at h
  split at h
  · simp at h
  · rename_i h1
    have := hex4_length h1
    split at h
    · simp only [Option.some.injEq, Prod.mk.injEq] at h
      rw [← h.2]; omega
    · have := parseLowSurrogate_length h; omega

theorem parseEscape_length {s r : List Char} {c : Char} (h : parseEscape s = some (c, r)) :
    r.length < s.length := by
  cases s with
  | nil => simp [parseEscape] at h
  | cons x rest =>
    simp only [parseEscape] at h
    split at h
    · have := parseUnicodeEscape_length h; simp only [List.length_cons]; omega
    · split at h
      · simp only [Option.some.injEq, Prod.mk.injEq] at h
        rw [← h.2]; simp
      · simp at h

/-- unescaped characters: `0x20..=0x21 | 0x23..=0x5b | 0x5d..=0x10ffff` -/
def isUnescaped (c : Char) : Bool :=
  let n := c.toNat
  (0x20 ≤ n && n ≤ 0x21) || (0x23 ≤ n && n ≤ 0x5b) || (0x5d ≤ n && n ≤ 0x10ffff)

set_option linter.unusedVariables false in
/-- `parse_string`, input positioned after the opening quote; returns the string and the
input after the closing quote. -/
def parseString : List Char → Option (List Char × List Char)
  | [] => none
  | c :: rest =>
    if c = '\\' then
      match h : parseEscape rest with
      | none => none
      | some (x, rest') =>
        match parseString rest' with
        | none => none
        | some (str, r) => some (x :: str, r)
    else if c = '"' then some ([], rest)
    else if isUnescaped c then
      match parseString rest with
      | none => none
      | some (str, r) => some (c :: str, r)
    else none
termination_by s => s.length
decreasing_by
  · have := parseEscape_length h; simp only [List.length_cons]; omega
  · simp

mutual
/-- `parse_value` -/
def parseValue {N : Type} (C : NumCodec N) : Nat → Nat → List Char → Option (Value N × List Char)
  | 0, _, _ => none
  | fuel + 1, depth, s =>
    match flushWhitespace s with
    | [] => none
    | c :: rest =>
      if c = '"' then
        match parseString rest with
        | none => none
        | some (str, r) => some (.string str, r)
      else if c = '[' then
        -- `inc_depth`
        if depth = maxDepth then none
        else
          match parseArrayLoop C fuel (depth + 1) true rest with
          | none => none
          | some (xs, r) => some (.array xs, r)
      else if c = '{' then
        if depth = maxDepth then none
        else
          match parseObjectLoop C fuel (depth + 1) true false rest with
          | none => none
          | some (ms, r) => some (.object ms, r)
      else parseLiteral C c rest

/-- The `loop` of `parse_array` including the final `self.next()?` that consumes `]`.
`first` = `array.is_empty()`. -/
def parseArrayLoop {N : Type} (C : NumCodec N) : Nat → Nat → Bool → List Char → Option (List (Value N) × List Char)
  | 0, _, _, _ => none
  | fuel + 1, depth, first, s =>
    match flushWhitespace s with
    | [] => none
    | c :: rest =>
      if c = ']' then (if first then some ([], rest) else none)
      else
        match parseValue C fuel depth (c :: rest) with
        | none => none
        | some (v, s1) =>
          match flushWhitespace s1 with
          | [] => none
          | c1 :: rest1 =>
            if c1 = ',' then
              match parseArrayLoop C fuel depth false rest1 with
              | none => none
              | some (vs, r) => some (v :: vs, r)
            else if c1 = ']' then some ([v], rest1)
            else none

/-- The `loop` of `parse_object` including the final `self.next()?` that consumes `}`.
`empty` = `object.is_empty()`, `tc` = `trailing_comma`. -/
def parseObjectLoop {N : Type} (C : NumCodec N) : Nat → Nat → Bool → Bool → List Char →
    Option (List (List Char × Value N) × List Char)
  | 0, _, _, _, _ => none
  | fuel + 1, depth, empty, tc, s =>
    match flushWhitespace s with
    | [] => none
    | c :: rest =>
      if c = '}' then (if tc then none else some ([], rest))
      else if c = ',' then
        if tc then none
        else if empty then none
        else parseObjectLoop C fuel depth empty true rest
      else
        -- a member must be the first one or follow a comma (repair of the missing-comma defect)
        if !empty && !tc then none
        else if c ≠ '"' then none
        else
          match parseString rest with
          | none => none
          | some (key, s1) =>
            match flushWhitespace s1 with
            | [] => none
            | sep :: s2 =>
              if sep ≠ ':' then none
              else
                match parseValue C fuel depth (flushWhitespace s2) with
                | none => none
                | some (v, s3) =>
                  match parseObjectLoop C fuel depth false false s3 with
                  | none => none
                  | some (ms, r) => some ((key, v) :: ms, r)
end

/-- `Value::parse`: `parse_value` then `expect_eof`. -/
def parse {N : Type} (C : NumCodec N) (s : List Char) : Option (Value N) :=
  match parseValue C (2 * s.length + 2) 0 s with
  | none => none
  | some (v, rest) => if (flushWhitespace rest).isEmpty then some v else none

/-! ## serialize.rs -/

def hexDigit (n : Nat) : Char := if n < 10 then Char.ofNat (48 + n) else Char.ofNat (87 + n)

/-- `{:04x}` of a value below `0x10000` -/
def hex4Digits (n : Nat) : List Char :=
  [hexDigit (n / 4096 % 16), hexDigit (n / 256 % 16), hexDigit (n / 16 % 16), hexDigit (n % 16)]

/-- One iteration of the `for c in s.chars()` loop of `string_to_string`. The last arm of the
Rust `match` (`b => …`) is reached only by control characters without a short escape, all
below `0x10000`; its `else` branch (UTF-16 pair) is dead code because `0x5d..=0x10ffff`
is matched before it. Non-ASCII characters are emitted as they are. -/
def escapeChar (c : Char) : List Char :=
  let n := c.toNat
  if n = 0x22 then ['\\', '"']
  else if n = 0x5c then ['\\', '\\']
  else if n = 0x2f then ['\\', '/']
  else if n = 0x08 then ['\\', 'b']
  else if n = 0x0c then ['\\', 'f']
  else if n = 0x0a then ['\\', 'n']
  else if n = 0x0d then ['\\', 'r']
  else if n = 0x09 then ['\\', 't']
  else if isUnescaped c then [c]
  else '\\' :: 'u' :: hex4Digits n

def escapeString : List Char → List Char
  | [] => []
  | c :: cs => escapeChar c ++ escapeString cs

/-- `string_to_string` -/
def stringToString (s : List Char) : List Char := '"' :: (escapeString s ++ ['"'])

def spaces (n : Nat) : List Char := List.replicate n ' '

mutual
/-- `Value::serialize` (`array_to_string` / `object_to_string` with `indent = None`). The Rust
fold appends `item + ","` for every item and pops the last comma; here the comma is placed
before every item but the first. -/
def serialize {N : Type} (C : NumCodec N) : Value N → List Char
  | .null => ['n', 'u', 'l', 'l']
  | .bool true => ['t', 'r', 'u', 'e']
  | .bool false => ['f', 'a', 'l', 's', 'e']
  | .number n => C.show n
  | .string s => stringToString s
  | .array xs => '[' :: (serializeItems C xs ++ [']'])
  | .object ms => '{' :: (serializeMembers C ms ++ ['}'])

def serializeItems {N : Type} (C : NumCodec N) : List (Value N) → List Char
  | [] => []
  | x :: rest =>
    serialize C x ++ (match rest with
      | [] => []
      | _ :: _ => ',' :: serializeItems C rest)

def serializeMembers {N : Type} (C : NumCodec N) : List (List Char × Value N) → List Char
  | [] => []
  | (k, v) :: rest =>
    stringToString k ++ ':' :: (serialize C v ++ (match rest with
      | [] => []
      | _ :: _ => ',' :: serializeMembers C rest))
end

mutual
/-- `serialize_pretty_indent(indent, indent_size)` -/
def serializePrettyIndent {N : Type} (C : NumCodec N) (indentSize : Nat) : Value N → Nat → List Char
  | .null, _ => ['n', 'u', 'l', 'l']
  | .bool true, _ => ['t', 'r', 'u', 'e']
  | .bool false, _ => ['f', 'a', 'l', 's', 'e']
  | .number n, _ => C.show n
  | .string s, _ => stringToString s
  | .array [], _ => ['[', ']']
  | .array (x :: xs), indent =>
    '[' :: (prettyItems C indentSize (x :: xs) (indent + indentSize) ++ '\n' :: (spaces indent ++ [']']))
  | .object [], _ => ['{', '}']
  | .object (m :: ms), indent =>
    '{' :: (prettyMembers C indentSize (m :: ms) (indent + indentSize) ++ '\n' :: (spaces indent ++ ['}']))

/-- items, each on its own line at indentation `ind` -/
def prettyItems {N : Type} (C : NumCodec N) (indentSize : Nat) : List (Value N) → Nat → List Char
  | [], _ => []
  | x :: rest, ind =>
    '\n' :: (spaces ind ++ (serializePrettyIndent C indentSize x ind ++ (match rest with
      | [] => []
      | _ :: _ => ',' :: prettyItems C indentSize rest ind)))

def prettyMembers {N : Type} (C : NumCodec N) (indentSize : Nat) : List (List Char × Value N) → Nat → List Char
  | [], _ => []
  | (k, v) :: rest, ind =>
    '\n' :: (spaces ind ++ (stringToString k ++ ':' :: ' ' :: (serializePrettyIndent C indentSize v ind ++
      (match rest with
      | [] => []
      | _ :: _ => ',' :: prettyMembers C indentSize rest ind))))
end

/-- `Value::serialize_pretty(indent)` -/
def serializePretty {N : Type} (C : NumCodec N) (indentSize : Nat) (v : Value N) : List Char :=
  serializePrettyIndent C indentSize v 0

/-! ## Executable number codec for the driver

A number is kept as its lexeme in normal form: sign, decimal mantissa without trailing zeros,
power of ten. Two lexemes with the same normal form denote the same real number (and the same
sign of zero), which is all `f64::from_str` depends on. -/

structure DecNum where
  neg : Bool
  mant : Nat
  exp : Int
deriving DecidableEq, Repr

def digitsVal (ds : List Char) : Nat := ds.foldl (fun a c => a * 10 + (c.toNat - 48)) 0

/-- strip trailing decimal zeros of the mantissa into the exponent -/
def DecNum.normalize (neg : Bool) : Nat → Nat → Int → DecNum
  | 0, m, e => ⟨neg, m, e⟩
  | fuel + 1, m, e =>
    if m = 0 then ⟨neg, 0, 0⟩
    else if m % 10 = 0 then DecNum.normalize neg fuel (m / 10) (e + 1)
    else ⟨neg, m, e⟩

/-- Reads `-? int frac? exp?` (only called on tokens accepted by `isNumberLexeme`). -/
def decParse (s : List Char) : Option DecNum :=
  if !isNumberLexeme s then none else
  let (neg, s) := match s with
    | c :: r => if c = '-' then (true, r) else (false, c :: r)
    | [] => (false, [])
  let ip := s.takeWhile isDigit
  let s := s.dropWhile isDigit
  let (fp, s) := match s with
    | c :: r => if c = '.' then (r.takeWhile isDigit, r.dropWhile isDigit) else ([], c :: r)
    | [] => ([], [])
  let e : Int := match s with
    | _ :: r =>
      match r with
      | sg :: r' =>
        if sg = '-' then - (digitsVal r' : Int)
        else if sg = '+' then (digitsVal r' : Int) else (digitsVal (sg :: r') : Int)
      | [] => 0
    | [] => 0
  let m := digitsVal (ip ++ fp)
  some (DecNum.normalize neg (ip.length + fp.length + 1) m (e - fp.length))

def natDigits (n : Nat) : List Char := (Nat.toDigits 10 n)

/-- positional notation without exponent, the way `f64`'s `Display` prints -/
def decShow (d : DecNum) : List Char :=
  let ds := natDigits d.mant
  let body :=
    if d.exp ≥ 0 then
      (if d.mant = 0 then ds else ds ++ List.replicate d.exp.toNat '0')
    else
      let k := (-d.exp).toNat
      if ds.length > k then ds.take (ds.length - k) ++ '.' :: ds.drop (ds.length - k)
      else '0' :: '.' :: (List.replicate (k - ds.length) '0' ++ ds)
  if d.neg then '-' :: body else body

def decCodec : NumCodec DecNum := ⟨decParse, decShow⟩

end Humphrey.Json
