import HumphreyModel.Model.Conn
/-
Model of `humphrey/src/http/proxy.rs` (`proxy_request`), `humphrey-server/src/server/proxy.rs`
(`proxy_handler`, `LoadBalancer::select_target`) and `rand.rs` (`Lcg`, `Choose`), after the
repairs: the whole upstream exchange is bounded by the timeout; truncated or malformed upstream
responses are errors; close-delimited bodies are read to the end.
-/
namespace Humphrey.Http
open Humphrey Humphrey.Bytes

/-- How the upstream's transmission ends within the proxy's time budget. -/
inductive UpEnd
  | closed      -- the upstream closes the connection
  | silent      -- nothing more arrives before the deadline (stall, or a trickle that is too slow)
deriving DecidableEq, Repr

/-- What the upstream does, as far as the proxy can see before its deadline. -/
inductive Upstream
  | refused
  | accepted (delivered : List Bytes) (ending : UpEnd)

/-- `Response::empty(BadGateway).with_bytes("<html><body><h1>502 Bad Gateway</h1></body></html>")`. -/
def badGateway : Response :=
  ⟨http11, 502, [],
   [60, 104, 116, 109, 108, 62, 60, 98, 111, 100, 121, 62, 60, 104, 49, 62, 53, 48, 50, 32, 66, 97, 100, 32,
    71, 97, 116, 101, 119, 97, 121, 60, 47, 104, 49, 62, 60, 47, 98, 111, 100, 121, 62, 60, 47, 104, 116,
    109, 108, 62]⟩

/-- The bytes written to the upstream: the client's request with one `X-Forwarded-For` field carrying
the client's (origin) address appended. -/
def forwardedBytes (req : Request) : Bytes :=
  serializeRequest { req with headers := req.headers ++ [⟨hXff, req.address.origin⟩] }

/-- A response whose end is marked only by the upstream closing the connection. -/
def closeDelimited (r : Response) : Bool :=
  (r.headers.get hContentLength).isNone && !noBodyStatus r.status

/-- `proxy_request`: the upstream's response when a complete valid one arrives in time, otherwise
the fixed 502 response. Reading a self-delimiting response needs nothing after its last byte; a
close-delimited one needs the close. -/
def proxyRequest (up : Upstream) : Response :=
  match up with
  | .refused => badGateway
  | .accepted delivered ending =>
    match parseResponse IO.readerSource (⟨[], delivered⟩ : IO.Reader) with
    | .ok (r, _) =>
      -- with a silent ending the parser was still waiting if it had to read to a point the data
      -- does not reach; for self-delimiting framings `parseResponse` succeeding means it was reached
      if ending = .silent ∧ closeDelimited r then badGateway else r
    | _ => badGateway

/-- Prefix stripping of `proxy_handler` / `directory_handler`: one character of the URI is removed
for every pattern character before the first `*` (`String::remove(0)`; `none` = panic on an empty
string), then a leading `/` is restored. -/
def stripPrefix (pattern uri : List Char) : Option (List Char) :=
  match pattern with
  | [] => some uri
  | c :: ps =>
    if c = '*' then some uri
    else match uri with
      | [] => none
      | _ :: us => stripPrefix ps us

def restoreSlash (uri : List Char) : List Char :=
  match uri with
  | '/' :: _ => uri
  | _ => '/' :: uri

/-! ## Load balancer -/

structure Lcg where
  modulus : Nat
  multiplier : Nat
  increment : Nat
  seed : Nat
deriving Repr

/-- `Iterator::next` for `Lcg` (`usize` arithmetic does not overflow for the parameters in use). -/
def Lcg.next (l : Lcg) : Nat × Lcg :=
  let v := (l.multiplier * l.seed + l.increment) % l.modulus
  (v % 4294967296, { l with seed := v })

inductive LbMode | roundRobin | random
deriving DecidableEq, Repr

structure LoadBalancer (τ : Type) where
  targets : List τ
  mode : LbMode
  index : Nat
  lcg : Lcg

/-- `LoadBalancer::select_target` (`none` = index out of bounds / empty target list: a panic). -/
def LoadBalancer.select {τ : Type} (lb : LoadBalancer τ) : Option (τ × LoadBalancer τ) :=
  match lb.mode with
  | .roundRobin =>
    match lb.targets[lb.index]? with
    | none => none
    | some t =>
      let i := lb.index + 1
      some (t, { lb with index := if i = lb.targets.length then 0 else i })
  | .random =>
    if lb.targets.isEmpty then none
    else
      let (v, l') := lb.lcg.next
      match lb.targets[v % lb.targets.length]? with
      | none => none
      | some t => some (t, { lb with lcg := l' })

/-- `k` successive selections. -/
def LoadBalancer.selectN {τ : Type} : Nat → LoadBalancer τ → Option (List τ × LoadBalancer τ)
  | 0, lb => some ([], lb)
  | k + 1, lb =>
    match lb.select with
    | none => none
    | some (t, lb') =>
      match selectN k lb' with
      | none => none
      | some (ts, lb'') => some (t :: ts, lb'')

end Humphrey.Http
