import HumphreyModel.Model.WsFrame

/-
Model of the polling loop of `humphrey-ws/src/async_app.rs` (`AsyncWebsocketApp::run`), one iteration as
a pure function of what the iteration observes.

What an iteration observes (`IterInput`) is everything the loop reads from outside itself:
* the shutdown receiver (`shutdown`);
* the heartbeat clock: `willPing` (`last_ping.elapsed() >= interval`, `false` without a heartbeat) and, per
  stream, `timedOut` (`last_pong.elapsed() >= timeout`, `false` without a heartbeat);
* per known stream, in the key order of `self.streams.keys()` of that iteration, what the successive
  `recv_nonblocking` calls of the inner loop returned, up to and including the first `None`/`Err`
  (the endpoint itself is `Model/WsMsg.lean`, C11);
* what `incoming_streams.try_iter()` yields (peer addresses, channel order);
* what `outgoing_messages.try_iter()` yields (channel order); for a broadcast also the order in which
  `self.streams.values_mut()` visits the table at that moment (a property of the hash map, not of the loop).

The state is the key set of `self.streams` (one entry per address; insertion order is kept only to have a
list) and whether the loop is still running. A "dispatch" is the submission of the handler call to the
handler pool (`thread_pool.execute`), which is FIFO (C08).

The three handlers are `Option`s (`on_connect`, `on_message`, `on_disconnect`), fixed before the loop starts:
`Handlers` says which of them are registered. For an unregistered handler the code does everything else the
same and only skips the `thread_pool.execute(..)`: the model yields no dispatch effect and the same state
change. `self.streams.remove(&addr)` drops the stream (its socket is closed): that is the effect `drop`, which
does not depend on any handler.

`self.streams.get_mut(&addr).unwrap()` panics when the address is not in the table; the model keeps that
(`Effect.panic`, the loop is left). It cannot happen for the key lists the code produces (`no_panic`).
-/
namespace Humphrey.WsApp
open Humphrey.WsFrame

/-- A peer address (`SocketAddr`), abstractly. -/
abbrev Addr := Nat

/-- `Message { payload, text }`. -/
structure Msg where
  text : Bool
  payload : Bytes
  deriving DecidableEq, Repr

/-- `Message::to_frame`: what `send` / `send_raw(&frame)` write. -/
def frameOf (m : Msg) : Bytes := messageToFrame m.text m.payload

/-- `Restion<Message, WebsocketError>` as the loop looks at it. -/
inductive Recv
  | msg (m : Msg)
  | err
  | none
  deriving DecidableEq, Repr

/-- `OutgoingMessage`; `order` = the visiting order of `self.streams.values_mut()` when it is flushed. -/
inductive Out
  | unicast (a : Addr) (m : Msg)
  | broadcast (m : Msg) (order : List Addr)
  deriving DecidableEq, Repr

/-- One stream's share of an iteration. -/
structure Poll where
  addr : Addr
  results : List Recv
  timedOut : Bool := false
  deriving DecidableEq, Repr

structure IterInput where
  shutdown : Bool := false
  willPing : Bool := false
  polls : List Poll := []
  incoming : List Addr := []
  outgoing : List Out := []
  deriving DecidableEq, Repr

/-- Which of the optional handlers are registered (`self.on_connect` / `on_message` / `on_disconnect` is `Some`). -/
structure Handlers where
  connect : Bool := true
  message : Bool := true
  disconnect : Bool := true
  deriving DecidableEq, Repr

inductive Effect
  | dispatchConnect (a : Addr)
  | dispatchMessage (a : Addr) (m : Msg)
  | dispatchDisconnect (a : Addr)
  | sendTo (a : Addr) (bytes : Bytes)
  | ping (a : Addr)
  /-- `self.streams.remove(&a)`: the entry leaves the table and the stream is dropped -/
  | drop (a : Addr)
  | exit
  | panic
  deriving DecidableEq, Repr

inductive Phase
  | running | exited | panicked
  deriving DecidableEq, Repr

structure AppState where
  /-- the keys of `self.streams` -/
  streams : List Addr := []
  phase : Phase := .running
  deriving DecidableEq, Repr

/-- `self.streams.remove(&a)`. -/
def remove (st : List Addr) (a : Addr) : List Addr := st.filter (· != a)

/-- `self.streams.insert(a, ..)`: a present key keeps its place (the old stream is replaced and dropped). -/
def insert (st : List Addr) (a : Addr) : List Addr := if a ∈ st then st else st ++ [a]

/-- `if let Some(handler) = &message_handler { … execute … }`. -/
def onMessage (h : Handlers) (a : Addr) (m : Msg) : List Effect :=
  if h.message then [.dispatchMessage a m] else []

/-- `if let Some(handler) = &disconnect_handler { … execute … }` followed by `self.streams.remove(&addr)`
(the removal is outside the `if let`). -/
def onGone (h : Handlers) (a : Addr) : List Effect :=
  (if h.disconnect then [.dispatchDisconnect a] else []) ++ [.drop a]

/-- `if let Some(handler) = &connect_handler { … execute … }` for one incoming stream. -/
def onConnect (h : Handlers) (a : Addr) : List Effect :=
  if h.connect then [.dispatchConnect a] else []

/-- The inner loop `'inner` on the stream of `a`: the dispatches (and the removal), and whether the stream
was removed. A list that ends without `None`/`Err` stands for a `None` at its end. -/
def drain (h : Handlers) (a : Addr) : List Recv → List Effect × Bool
  | [] => ([], false)
  | .msg m :: rs => let r := drain h a rs; (onMessage h a m ++ r.1, r.2)
  | .err :: _ => (onGone h a, true)
  | .none :: _ => ([], false)

/-- The body of `for addr in keys` for a stream that is in the table. -/
def pollOne (h : Handlers) (willPing : Bool) (st : List Addr) (p : Poll) : List Addr × List Effect :=
  let r := drain h p.addr p.results
  if r.2 then (remove st p.addr, r.1)
  else if p.timedOut then (remove st p.addr, r.1 ++ onGone h p.addr)
  else if willPing then (st, r.1 ++ [.ping p.addr])
  else (st, r.1)

/-- `for addr in keys { … }`; `none` = `get_mut(&addr).unwrap()` panicked. -/
def pollAll (h : Handlers) (willPing : Bool) : List Addr → List Poll → Option (List Addr) × List Effect
  | st, [] => (some st, [])
  | st, p :: ps =>
    if p.addr ∈ st then
      let r := pollOne h willPing st p
      let r' := pollAll h willPing r.1 ps
      (r'.1, r.2 ++ r'.2)
    else (none, [.panic])

/-- `for (addr, stream) in self.incoming_streams.try_iter()…`: the table afterwards. -/
def admitAll (st : List Addr) (incoming : List Addr) : List Addr := incoming.foldl insert st

/-- Is `order` a visiting order of the table `st`? -/
def okOrder (st order : List Addr) : Bool :=
  decide order.Nodup && order.all (· ∈ st) && st.all (· ∈ order)

/-- `self.streams.values_mut()`: the table in the order named by the input (or in the model's own order when
the input names none). -/
def recipients (st order : List Addr) : List Addr := if okOrder st order then order else st

/-- One outgoing message at flush time. -/
def deliver (st : List Addr) : Out → List Effect
  | .unicast a m => if a ∈ st then [.sendTo a (frameOf m)] else []
  | .broadcast m order => (recipients st order).map (.sendTo · (frameOf m))

/-- `for message in self.outgoing_messages.try_iter() { … }`. -/
def flush (st : List Addr) (outgoing : List Out) : List Effect := outgoing.flatMap (deliver st)

/-- One iteration of `loop { … }` of an app with the handlers `h`. -/
def stepLoop (h : Handlers) (s : AppState) (i : IterInput) : AppState × List Effect :=
  if i.shutdown then ({ s with phase := .exited }, [.exit])
  else
    match pollAll h i.willPing s.streams i.polls with
    | (none, e) => ({ s with phase := .panicked }, e)
    | (some st, e) =>
      let st' := admitAll st i.incoming
      ({ streams := st', phase := .running },
       e ++ i.incoming.flatMap (onConnect h) ++ flush st' i.outgoing)

/-- `run`: iterations as long as the loop is running. -/
def runLoop (h : Handlers) : AppState → List IterInput → AppState × List Effect
  | s, [] => (s, [])
  | s, i :: is =>
    if s.phase = .running then
      let r := stepLoop h s i
      let r' := runLoop h r.1 is
      (r'.1, r.2 ++ r'.2)
    else (s, [])

/-- What the code guarantees about an iteration's input by construction: the streams polled are the keys
of the table, each once (`self.streams.keys()`), every inner loop ends with its first `None`/`Err`, and a
broadcast visits the table as it is at the flush. -/
def wellFormedResults : List Recv → Bool
  | [] => false
  | [.none] => true
  | [.err] => true
  | .msg _ :: rs => wellFormedResults rs
  | _ => false

def InputsOk (s : AppState) (i : IterInput) : Bool :=
  i.shutdown ||
  (decide (i.polls.map (·.addr)).Nodup && (i.polls.all fun p => p.addr ∈ s.streams) &&
   (s.streams.all fun a => a ∈ i.polls.map (·.addr)) &&
   (i.polls.all fun p => wellFormedResults p.results))

/-- `InputsOk` along a run. -/
def RunOk (h : Handlers) : AppState → List IterInput → Bool
  | _, [] => true
  | s, i :: is => s.phase != .running || (InputsOk s i && RunOk h (stepLoop h s i).1 is)

/-- No address is used twice in one run. -/
def DistinctPeers (s : AppState) (is : List IterInput) : Prop :=
  (s.streams ++ is.flatMap (·.incoming)).Nodup

instance (s : AppState) (is : List IterInput) : Decidable (DistinctPeers s is) := by
  unfold DistinctPeers; infer_instance

/-! ### The handles through which messages get into `outgoing_messages`

Handlers are given an `AsyncStream { addr, sender, state, connected }`: `AsyncStream::new` (`connected = true`) for
the connect and the message handler, `AsyncStream::disconnected` (`connected = false`) for the disconnect handler
(both sites: receive error and heartbeat timeout). The application holds `AsyncSender`s (`app.sender()`). All of
them wrap a clone of the one `Sender<OutgoingMessage>`; the loop drains the channel in every iteration
(`outgoing_messages.try_iter()`, the `outgoing` of `IterInput`). A call either puts messages into the channel or
panics (`.send(..).ok()`: when the loop has gone the message is lost silently). -/

/-- What `send` / `broadcast` look at of an `AsyncStream`. -/
structure Handle where
  addr : Addr
  connected : Bool
  deriving DecidableEq, Repr

/-- What a call does. -/
inductive Enq
  | queued (o : List Out)
  | panic
  deriving DecidableEq, Repr

/-- `AsyncStream::send`: `assert!(self.connected); self.sender.send(OutgoingMessage::Message(self.addr, message)).ok()`. -/
def Handle.send (s : Handle) (m : Msg) : Enq :=
  if s.connected then .queued [.unicast s.addr m] else .panic

/-- `AsyncStream::broadcast`: `self.sender.send(OutgoingMessage::Broadcast(message)).ok()` - no look at `connected`,
no look at `addr`. (The visiting order is chosen at the flush: `[]` here.) -/
def Handle.broadcast (_s : Handle) (m : Msg) : Enq := .queued [.broadcast m []]

/-- `AsyncSender::send`. -/
def senderSend (a : Addr) (m : Msg) : Enq := .queued [.unicast a m]

/-- `AsyncSender::broadcast`. -/
def senderBroadcast (m : Msg) : Enq := .queued [.broadcast m []]

end Humphrey.WsApp
