/-
Model of `humphrey/src/krauss.rs::wildcard_match` (after the D1 repair: the bookmark holds
the pattern position after the last `*` *and* the text position it is being tried at).

The Rust loop has two phases, told apart by `after_last_wild` being `None` or `Some`:
`matchNoStar` is the loop while no `*` has been seen, `matchStar` the loop afterwards.
Strings are `List Char` because the Rust code iterates `chars()`.
-/
namespace Humphrey.Glob

/-- `tame` exhausted: the rest of the pattern must consist of `*` only
(the `tame_char.is_none()` branch, which skips `*`s and fails on anything else). -/
def allStars : List Char → Bool
  | [] => true
  | c :: p => c == '*' && allStars p

/-- Loop after a `*` has been seen. `ps`/`bt` are the bookmark (pattern after the last `*`,
text position at which that `*` currently ends); `p`/`t` the live iterators. -/
def matchStar (p t ps bt : List Char) (h : t.length ≤ bt.length) : Bool :=
  match ht : t with
  | [] => allStars p
  | c :: t' =>
    match p with
    | w :: p' =>
      if w = '*' then matchStar p' (c :: t') p' (c :: t') (Nat.le_refl _)
      else if w = c then matchStar p' t' ps bt (Nat.le_of_succ_le (by simpa using h))
      else matchStar ps bt.tail ps bt.tail (Nat.le_refl _)
    | [] => matchStar ps bt.tail ps bt.tail (Nat.le_refl _)
termination_by (bt.length, p.length)
decreasing_by
  all_goals simp_wf
  all_goals simp at h
  all_goals simp only [Prod.lex_def, true_and]
  all_goals omega

/-- Loop while no `*` has been seen yet (`after_last_wild == None`). -/
def matchNoStar : List Char → List Char → Bool
  | p, [] => allStars p
  | [], _ :: _ => false
  | w :: p', c :: t' =>
    if w = '*' then matchStar p' (c :: t') p' (c :: t') (Nat.le_refl _)
    else if w = c then matchNoStar p' t'
    else false

/-- `wildcard_match(wild, tame)`. -/
def wildcardMatch (wild tame : List Char) : Bool := matchNoStar wild tame

end Humphrey.Glob
