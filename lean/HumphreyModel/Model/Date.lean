/-
Model of `humphrey/src/http/date.rs`: `impl From<i64> for DateTime` and `impl ToString for DateTime`.

Arithmetic is over `Int` with Rust's truncating `/` and `%` (`Int.tdiv`, `Int.tmod`). The body of
`from` is cut into blocks of consecutive statements (`splitSeconds`, `weekdayOf`, `split400`,
`split100`, `split4`, `split1`, `monthLoop`, `shiftMonth`); inside a block every `let mut` is a `let`
and every `if … { x += …; y -= … }` an `if` returning the updated pair. The
`while DAYS_IN_MONTHS[months] <= remaining_days` loop is `monthLoop`, a recursion over the table in
which running off the end of the table is the index-out-of-bounds panic (`none`). The only `i64`
operation that can overflow for an `i64` input is `timestamp - MARCH_01_2000` (a panic in the
harness build, `none` here; the property's range is far away from it). The `as u16`/`as u8` casts
are truncations (`% 65536`, `% 256`). `format!`'s `{}`, `{:02}` on integers and `{:02}` on `&str`
are `decimal`, `pad02`, `padStr2`.
-/
namespace Humphrey.Date

def DAYS : List (List Char) :=
  [['S','u','n'], ['M','o','n'], ['T','u','e'], ['W','e','d'], ['T','h','u'], ['F','r','i'], ['S','a','t']]

def MONTHS : List (List Char) :=
  [['J','a','n'], ['F','e','b'], ['M','a','r'], ['A','p','r'], ['M','a','y'], ['J','u','n'],
   ['J','u','l'], ['A','u','g'], ['S','e','p'], ['O','c','t'], ['N','o','v'], ['D','e','c']]

/-- `DAYS_IN_MONTHS`, starting with March. -/
def DAYS_IN_MONTHS : List Int := [31, 30, 31, 30, 31, 31, 30, 31, 30, 31, 31, 29]

def MINUTE : Int := 60
def HOUR : Int := MINUTE * 60
def DAY : Int := HOUR * 24
def DAYS_4_YEARS : Int := 365 * 4 + 1
def DAYS_100_YEARS : Int := 365 * 100 + 24
def DAYS_400_YEARS : Int := 365 * 400 + 97
def MARCH_01_2000 : Int := 951868800

/-- `pub struct DateTime` (`timestamp: i64`, `year: u16`, the rest `u8`). -/
structure DateTime where
  timestamp : Int
  year : Nat
  month : Nat
  day : Nat
  weekday : Nat
  hour : Nat
  minute : Nat
  second : Nat
  deriving Repr, DecidableEq

/-- `x as u16` for an `i64`. -/
def asU16 (x : Int) : Nat := (x % 65536).toNat
/-- `x as u8` for an `i64` (or a `usize`). -/
def asU8 (x : Int) : Nat := (x % 256).toNat

/-- The month loop: `while DAYS_IN_MONTHS[months] <= remaining_days { remaining_days -=
DAYS_IN_MONTHS[months]; months += 1 }`. The first argument is `DAYS_IN_MONTHS[months..]`;
`none` is the out-of-bounds panic of `DAYS_IN_MONTHS[12]`. Result: `(months, remaining_days)`. -/
def monthLoop : List Int → Int → Int → Option (Int × Int)
  | [], _, _ => none
  | dim :: rest, months, remainingDays =>
    if dim ≤ remainingDays then monthLoop rest (months + 1) (remainingDays - dim)
    else some (months, remainingDays)

/-! The body of `from`, block by block (each block is a run of consecutive statements of the Rust
function; the blocks only exist so that proofs can treat them one at a time). -/

/-- `let mut days = seconds / DAY; let mut remaining_seconds = seconds % 86400;
if remaining_seconds < 0 { remaining_seconds += 86400; days -= 1; }` → `(days, remaining_seconds)`. -/
def splitSeconds (seconds : Int) : Int × Int :=
  let days := seconds.tdiv DAY
  let remainingSeconds := seconds.tmod 86400
  if remainingSeconds < 0 then (days - 1, remainingSeconds + 86400) else (days, remainingSeconds)

/-- `let mut weekday = (days + 3) % 7; if weekday < 0 { weekday += 7; }`. -/
def weekdayOf (days : Int) : Int :=
  let weekday := (days + 3).tmod 7
  if weekday < 0 then weekday + 7 else weekday

/-- `let mut y400_cycles = days / DAYS_400_YEARS; let mut remaining_days = days % DAYS_400_YEARS;
if remaining_days < 0 { remaining_days += DAYS_400_YEARS; y400_cycles -= 1; }`
→ `(y400_cycles, remaining_days)`. -/
def split400 (days : Int) : Int × Int :=
  let y400Cycles := days.tdiv DAYS_400_YEARS
  let remainingDays := days.tmod DAYS_400_YEARS
  if remainingDays < 0 then (y400Cycles - 1, remainingDays + DAYS_400_YEARS) else (y400Cycles, remainingDays)

/-- `let mut y100_cycles = remaining_days / DAYS_100_YEARS; if y100_cycles == 4 { y100_cycles -= 1; }
remaining_days -= y100_cycles * DAYS_100_YEARS;` → `(y100_cycles, remaining_days)`. -/
def split100 (remainingDays : Int) : Int × Int :=
  let y100Cycles := remainingDays.tdiv DAYS_100_YEARS
  let y100Cycles := if y100Cycles = 4 then y100Cycles - 1 else y100Cycles
  (y100Cycles, remainingDays - y100Cycles * DAYS_100_YEARS)

/-- `let mut y4_cycles = remaining_days / DAYS_4_YEARS; if y4_cycles == 25 { y4_cycles -= 1; }
remaining_days -= y4_cycles * DAYS_4_YEARS;` → `(y4_cycles, remaining_days)`. -/
def split4 (remainingDays : Int) : Int × Int :=
  let y4Cycles := remainingDays.tdiv DAYS_4_YEARS
  let y4Cycles := if y4Cycles = 25 then y4Cycles - 1 else y4Cycles
  (y4Cycles, remainingDays - y4Cycles * DAYS_4_YEARS)

/-- `let mut remaining_years = remaining_days / 365; if remaining_years == 4 { remaining_years -= 1; }
remaining_days -= remaining_years * 365;` → `(remaining_years, remaining_days)`. -/
def split1 (remainingDays : Int) : Int × Int :=
  let remainingYears := remainingDays.tdiv 365
  let remainingYears := if remainingYears = 4 then remainingYears - 1 else remainingYears
  (remainingYears, remainingDays - remainingYears * 365)

/-- `let mut month = months + 2; if month >= 12 { month -= 12; year += 1; }` → `(month, year)`. -/
def shiftMonth (months year : Int) : Int × Int :=
  let month := months + 2
  if month ≥ 12 then (month - 12, year + 1) else (month, year)

/-- `DateTime::from(timestamp)`; `none` = panic. -/
def DateTime.from (timestamp : Int) : Option DateTime :=
  let seconds := timestamp - MARCH_01_2000
  if seconds < -9223372036854775808 then none else        -- attempt to subtract with overflow
  let (days, remainingSeconds) := splitSeconds seconds
  let weekday := weekdayOf days
  let (y400Cycles, remainingDays) := split400 days
  let (y100Cycles, remainingDays) := split100 remainingDays
  let (y4Cycles, remainingDays) := split4 remainingDays
  let (remainingYears, remainingDays) := split1 remainingDays
  let year := (remainingYears + 4 * y4Cycles + 100 * y100Cycles + 400 * y400Cycles) + 2000
  match monthLoop DAYS_IN_MONTHS 0 remainingDays with
  | none => none                                          -- index out of bounds
  | some (months, remainingDays) =>
    let (month, year) := shiftMonth months year
    let day := remainingDays + 1
    let hour := remainingSeconds.tdiv 3600
    let minute := (remainingSeconds.tdiv 60).tmod 60
    let second := remainingSeconds.tmod 60
    some { timestamp := timestamp
           year := asU16 year
           month := asU8 month
           day := asU8 day
           weekday := asU8 weekday
           hour := asU8 hour
           minute := asU8 minute
           second := asU8 second }

/-! ### `to_string` -/

def digitChar (n : Nat) : Char := Char.ofNat (48 + n % 10)

/-- `{}` of an unsigned integer: decimal without padding. -/
def decimal (n : Nat) : List Char :=
  if n < 10 then [digitChar n] else decimal (n / 10) ++ [digitChar (n % 10)]
termination_by n
decreasing_by omega

/-- `{:02}` of an unsigned integer: at least two characters, zero-filled on the left. -/
def pad02 (n : Nat) : List Char :=
  let s := decimal n
  List.replicate (2 - s.length) '0' ++ s

/-- `{:02}` of a `&str`: at least two characters, space-filled on the right. -/
def padStr2 (s : List Char) : List Char := s ++ List.replicate (2 - s.length) ' '

/-- `to_string`: `format!("{}, {:02} {:02} {} {:02}:{:02}:{:02} GMT", DAYS[weekday], day,
MONTHS[month], year, hour, minute, second)`; `none` = index-out-of-bounds panic. -/
def DateTime.toString (d : DateTime) : Option (List Char) :=
  match DAYS[d.weekday]?, MONTHS[d.month]? with
  | some wd, some mo =>
    some (wd ++ (',' :: ' ' :: (pad02 d.day ++ (' ' :: (padStr2 mo ++ (' ' :: (decimal d.year ++ (' ' ::
      (pad02 d.hour ++ (':' :: (pad02 d.minute ++ (':' :: (pad02 d.second ++ [' ', 'G', 'M', 'T'])))))))))))))
  | _, _ => none

end Humphrey.Date
