/-
Model of `humphrey-ws/src/util/base64.rs` (after the D3 and D4 repairs: `+` and `/` are
shifted by `6 * (3 - i)` like every other symbol; the input length must be a multiple of 4 and
`=` is accepted only as the last one or two symbols of the last group).

Strings are modelled as their bytes (`List UInt8`): the encoder's output is pure ASCII and the
decoder works on `as_bytes()`. The shift/mask expressions of the Rust code are written with
`/`, `%`, `*`, `+` on `UInt8.toNat`:
  `x >> k` = `x / 2^k`, `x & (2^k - 1)` = `x % 2^k`, `(x & m) << k | y >> j` = `x % .. * 2^k + y / 2^j`
  (the two operands of every `|` occupy disjoint bit ranges), `decoded |= v << s` = `decoded + v * 2^s`.
`Base64.groupIndices_eq_shift_mask` and `Base64.decoded_or_eq_add` (Props/C18Base64.lean) prove the
encoder indices and the decoder's accumulation equal to the shift/mask forms; `to_be_bytes` is read
as base-256 digits. The correspondence run ties the whole reading to the code.
-/
namespace Humphrey.Base64

abbrev Bytes := List UInt8

/-- `ALPHABET`: `*b"ABCDEFGHIJKLMNOPQRSTUVWXYZabcdefghijklmnopqrstuvwxyz0123456789+/"`. -/
def alphabet : Bytes :=
  [65, 66, 67, 68, 69, 70, 71, 72, 73, 74, 75, 76, 77, 78, 79, 80, 81, 82, 83, 84, 85, 86, 87, 88,
   89, 90, 97, 98, 99, 100, 101, 102, 103, 104, 105, 106, 107, 108, 109, 110, 111, 112, 113, 114,
   115, 116, 117, 118, 119, 120, 121, 122, 48, 49, 50, 51, 52, 53, 54, 55, 56, 57, 43, 47]

/-- `ALPHABET[n]`. Every index the encoder computes is `< 64` (`Base64.encode_indices_in_bounds`),
so the Rust bounds check cannot fire; out of range the model yields `0`, which is not a symbol. -/
def sym (n : Nat) : UInt8 := alphabet.getD n 0

/-- The four table indices of a full group `[a, b, c]`:
`a >> 2`, `(a & 0x03) << 4 | b >> 4`, `(b & 0x0f) << 2 | c >> 6`, `c & 0x3f`. -/
def groupIndices (a b c : Nat) : List Nat :=
  [a / 4, a % 4 * 16 + b / 16, b % 16 * 4 + c / 64, c % 64]

/-- `encode`: the loop over `bytes.len() / 3` full groups, then the `remaining == 1` /
`remaining == 2` tails with `=` (61) padding. -/
def encode : Bytes → Bytes
  | a :: b :: c :: rest => (groupIndices a.toNat b.toNat c.toNat).map sym ++ encode rest
  | [a] => [sym (a.toNat / 4), sym (a.toNat % 4 * 16), 61, 61]
  | [a, b] => [sym (a.toNat / 4), sym (a.toNat % 4 * 16 + b.toNat / 16), sym (b.toNat % 16 * 4), 61]
  | [] => []

/-- What `decode` can do: `Ok(bytes)`, `Err(())`, or a Rust panic (slice index out of order). -/
inductive Outcome where
  | ok (b : Bytes)
  | err
  | panic
  deriving DecidableEq, Repr

/-- The value arms of the `match tem`: `A-Z` → 0..25, `a-z` → 26..51, `0-9` → 52..61, `+` → 62,
`/` → 63; `none` is the `_ => return Err(())` arm (`=` is handled before this is consulted). -/
def sextet (c : UInt8) : Option Nat :=
  if 65 ≤ c.toNat ∧ c.toNat ≤ 90 then some (c.toNat - 65)
  else if 97 ≤ c.toNat ∧ c.toNat ≤ 122 then some (c.toNat - 97 + 26)
  else if 48 ≤ c.toNat ∧ c.toNat ≤ 57 then some (c.toNat - 48 + 52)
  else if c.toNat = 43 then some 62
  else if c.toNat = 47 then some 63
  else none

/-- The inner `for (i, tem) in group.iter().enumerate()` loop, started at position `i` with the
symbols `syms` still to be read and `decoded` accumulated so far. Result: `none` for
`return Err(())`, otherwise `(decoded, broken)`.
`isLast` is `(group_index + 1) * 4 == bytes.len()`; the `=` arm demands the last group,
position ≥ 2 and nothing but `=` up to the end of the group. -/
def decodeGroup (isLast : Bool) : Nat → Bytes → Nat → Option (Nat × Nat)
  | _, [], decoded => some (decoded, 4)
  | i, c :: rest, decoded =>
    if c = 61 then
      if isLast && decide (2 ≤ i) && rest.all (· == 61) then some (decoded, i) else none
    else
      match sextet c with
      | some v => decodeGroup isLast (i + 1) rest (decoded + v * 2 ^ (6 * (3 - i)))
      | none => none

/-- `decoded.to_be_bytes()` for a `u32`. -/
def beBytes (d : Nat) : Bytes :=
  [UInt8.ofNat (d / 16777216 % 256), UInt8.ofNat (d / 65536 % 256), UInt8.ofNat (d / 256 % 256),
   UInt8.ofNat (d % 256)]

/-- `&arr[1..hi]`: panics (`none`) when `hi < 1` or `hi > arr.len()`. -/
def slice1 (arr : Bytes) (hi : Nat) : Option Bytes :=
  if 1 ≤ hi ∧ hi ≤ arr.length then some ((arr.take hi).drop 1) else none

/-- The outer `for group in bytes.chunks(4)` loop. After the length check every chunk has four
symbols; the last pattern is the short final chunk `chunks(4)` would yield otherwise. -/
def decodeGroups : Bytes → Outcome
  | [] => .ok []
  | a :: b :: c :: d :: rest =>
    match decodeGroup rest.isEmpty 0 [a, b, c, d] 0 with
    | none => .err
    | some (decoded, broken) =>
      match slice1 (beBytes decoded) broken with
      | none => .panic
      | some out =>
        match decodeGroups rest with
        | .ok r => .ok (out ++ r)
        | o => o
  | short =>
    match decodeGroup true 0 short 0 with
    | none => .err
    | some (decoded, broken) =>
      match slice1 (beBytes decoded) broken with
      | none => .panic
      | some out => .ok out

/-- `decode`: `if bytes.len() % 4 != 0 { return Err(()) }`, then the loop. -/
def decode (s : Bytes) : Outcome :=
  if s.length % 4 ≠ 0 then .err else decodeGroups s

end Humphrey.Base64
