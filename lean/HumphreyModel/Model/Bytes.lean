/-
Byte-level text primitives shared by the HTTP models. Rust `&str` values are modelled as their
UTF-8 bytes plus an explicit validity check, so that slicing panics (char boundaries) and
`from_utf8` failures are visible in the model.
-/
namespace Humphrey

abbrev Bytes := List UInt8

namespace Bytes

def ofString (s : String) : Bytes := s.toUTF8.toList

def CR : UInt8 := 13
def LF : UInt8 := 10
def SP : UInt8 := 32
def crlf : Bytes := [13, 10]

/-- `u8::to_ascii_lowercase`. -/
def lowerByte (b : UInt8) : UInt8 := if 65 ≤ b ∧ b ≤ 90 then b + 32 else b

/-- `str::to_ascii_lowercase` (bytes ≥ 0x80 are untouched). -/
def asciiLower (s : Bytes) : Bytes := s.map lowerByte

/-- Is `b` a UTF-8 continuation byte (`10xxxxxx`)? -/
def isCont (b : UInt8) : Bool := 128 ≤ b && b ≤ 191

/-- UTF-8 validity exactly as `core::str::from_utf8` (RFC 3629 table 3-7: no overlong forms, no
surrogates, nothing above U+10FFFF). -/
def utf8Valid : Bytes → Bool
  | [] => true
  | b0 :: rest =>
    if b0 < 128 then utf8Valid rest
    else if 194 ≤ b0 ∧ b0 ≤ 223 then
      match rest with
      | b1 :: r => isCont b1 && utf8Valid r
      | _ => false
    else if b0 = 224 then
      match rest with
      | b1 :: b2 :: r => (160 ≤ b1 && b1 ≤ 191) && isCont b2 && utf8Valid r
      | _ => false
    else if (225 ≤ b0 ∧ b0 ≤ 236) ∨ b0 = 238 ∨ b0 = 239 then
      match rest with
      | b1 :: b2 :: r => isCont b1 && isCont b2 && utf8Valid r
      | _ => false
    else if b0 = 237 then
      match rest with
      | b1 :: b2 :: r => (128 ≤ b1 && b1 ≤ 159) && isCont b2 && utf8Valid r
      | _ => false
    else if b0 = 240 then
      match rest with
      | b1 :: b2 :: b3 :: r => (144 ≤ b1 && b1 ≤ 191) && isCont b2 && isCont b3 && utf8Valid r
      | _ => false
    else if 241 ≤ b0 ∧ b0 ≤ 243 then
      match rest with
      | b1 :: b2 :: b3 :: r => isCont b1 && isCont b2 && isCont b3 && utf8Valid r
      | _ => false
    else if b0 = 244 then
      match rest with
      | b1 :: b2 :: b3 :: r => (128 ≤ b1 && b1 ≤ 143) && isCont b2 && isCont b3 && utf8Valid r
      | _ => false
    else false

/-- `str::is_char_boundary(i)` for valid UTF-8 `s`. -/
def isCharBoundary (s : Bytes) (i : Nat) : Bool :=
  if i = 0 then true
  else if i = s.length then true
  else match s[i]? with
    | some b => !isCont b
    | none => false

/-- Split on a separator byte, like `str::split(char)` for an ASCII separator: always at least
one piece. -/
def splitOn (sep : UInt8) : Bytes → List Bytes
  | [] => [[]]
  | b :: rest =>
    if b = sep then [] :: splitOn sep rest
    else match splitOn sep rest with
      | [] => [[b]]
      | p :: ps => (b :: p) :: ps

/-- `str::splitn(2, sep)`: the part before the first separator and, if there is one, the rest. -/
def splitOnce (sep : UInt8) : Bytes → Bytes × Option Bytes
  | [] => ([], none)
  | b :: rest =>
    if b = sep then ([], some rest)
    else let (a, r) := splitOnce sep rest; (b :: a, r)

/-- The UTF-8 encodings of the Unicode `White_Space` characters (what `str::trim*` strip):
U+0009–000D, U+0020, U+0085, U+00A0, U+1680, U+2000–200A, U+2028, U+2029, U+202F, U+205F, U+3000. -/
def wsSeqs : List Bytes :=
  [[9], [10], [11], [12], [13], [32], [0xC2, 0x85], [0xC2, 0xA0], [0xE1, 0x9A, 0x80],
   [0xE2, 0x80, 0x80], [0xE2, 0x80, 0x81], [0xE2, 0x80, 0x82], [0xE2, 0x80, 0x83], [0xE2, 0x80, 0x84],
   [0xE2, 0x80, 0x85], [0xE2, 0x80, 0x86], [0xE2, 0x80, 0x87], [0xE2, 0x80, 0x88], [0xE2, 0x80, 0x89],
   [0xE2, 0x80, 0x8A], [0xE2, 0x80, 0xA8], [0xE2, 0x80, 0xA9], [0xE2, 0x80, 0xAF], [0xE2, 0x81, 0x9F],
   [0xE3, 0x80, 0x80]]

/-- Length of the white-space character that starts `s` (0 if none). -/
def wsPrefixLen (s : Bytes) : Nat :=
  match wsSeqs.find? (fun w => w.isPrefixOf s) with
  | some w => w.length
  | none => 0

/-- `str::trim_start`. Fuel = length, so the definition is structural. -/
def trimStartAux : Nat → Bytes → Bytes
  | 0, s => s
  | fuel + 1, s =>
    match wsPrefixLen s with
    | 0 => s
    | k => trimStartAux fuel (s.drop k)

def trimStart (s : Bytes) : Bytes := trimStartAux s.length s

/-- Length of the white-space character that ends `s` (0 if none); `r` is `s` reversed. -/
def wsSuffixLenRev (r : Bytes) : Nat :=
  match wsSeqs.find? (fun w => w.reverse.isPrefixOf r) with
  | some w => w.length
  | none => 0

def trimEndAux : Nat → Bytes → Bytes
  | 0, r => r
  | fuel + 1, r =>
    match wsSuffixLenRev r with
    | 0 => r
    | k => trimEndAux fuel (r.drop k)

/-- `str::trim_end`. -/
def trimEnd (s : Bytes) : Bytes := (trimEndAux s.length s.reverse).reverse

/-- `str::trim`. -/
def trim (s : Bytes) : Bytes := trimEnd (trimStart s)

def isDigit (b : UInt8) : Bool := 48 ≤ b && b ≤ 57

def digitsValue : Bytes → Nat → Nat
  | [], acc => acc
  | b :: rest, acc => digitsValue rest (acc * 10 + (b.toNat - 48))

/-- `usize::from_str` on a 64-bit target: optional `+`, at least one digit, digits only,
value below 2^64. -/
def parseUsize (s : Bytes) : Option Nat :=
  let ds := match s with
    | 43 :: rest => rest
    | _ => s
  if ds.isEmpty then none
  else if ds.all isDigit then
    let v := digitsValue ds 0
    if v < 18446744073709551616 then some v else none
  else none

def natToBytesAux : Nat → Nat → Bytes → Bytes
  | 0, _, acc => acc
  | fuel + 1, n, acc =>
    let acc' := (48 + (n % 10).toUInt8) :: acc
    if n / 10 = 0 then acc' else natToBytesAux fuel (n / 10) acc'

/-- Decimal rendering of a natural number (`usize::to_string`). -/
def natToBytes (n : Nat) : Bytes := natToBytesAux (n + 1) n []

/-- `u16::from_str`: optional `+`, digits, below 65536. -/
def parseU16 (s : Bytes) : Option Nat :=
  match parseUsize s with
  | some v => if v < 65536 then some v else none
  | none => none

def hexDigitVal (b : UInt8) : Option Nat :=
  if 48 ≤ b ∧ b ≤ 57 then some (b.toNat - 48)
  else if 97 ≤ b ∧ b ≤ 102 then some (b.toNat - 87)
  else if 65 ≤ b ∧ b ≤ 70 then some (b.toNat - 55)
  else none

def hexValue : Bytes → Nat → Option Nat
  | [], acc => some acc
  | b :: rest, acc =>
    match hexDigitVal b with
    | some v => hexValue rest (acc * 16 + v)
    | none => none

/-- `usize::from_str_radix(s, 16)`: optional `+`, at least one hex digit, below 2^64. -/
def parseHexUsize (s : Bytes) : Option Nat :=
  let ds := match s with
    | 43 :: rest => rest
    | _ => s
  if ds.isEmpty then none
  else match hexValue ds 0 with
    | some v => if v < 18446744073709551616 then some v else none
    | none => none

/-- `s.strip_suffix("\r\n")`. -/
def stripCrlf (s : Bytes) : Option Bytes :=
  if s.length ≥ 2 ∧ s.drop (s.length - 2) = crlf then some (s.take (s.length - 2)) else none

end Bytes
end Humphrey
