import HumphreyModel.Model.Response
import HumphreyModel.Model.Glob
/-
Model of routing (`get_handler`, `call_websocket_handler` in `humphrey/src/app.rs`, `route.rs`)
and of `http/cors.rs`. Patterns and texts reach the matcher as `&str`, so they are decoded to
`List Char` by an abstract `decode` (UTF-8; both are valid UTF-8 by construction in Rust).
-/
namespace Humphrey.Http
open Humphrey Humphrey.Bytes

/-- `Cors`: `none` = `Wildcardable::Wildcard`. -/
structure Cors where
  origins : Option (List Bytes) := some []
  methods : Option (List Method) := some []
  headers : Option (List Bytes) := some []
deriving Repr

def hAcao : HName := ⟨[97, 99, 99, 101, 115, 115, 45, 99, 111, 110, 116, 114, 111, 108, 45, 97, 108, 108, 111, 119, 45, 111, 114, 105, 103, 105, 110]⟩
def hAcam : HName := ⟨[97, 99, 99, 101, 115, 115, 45, 99, 111, 110, 116, 114, 111, 108, 45, 97, 108, 108, 111, 119, 45, 109, 101, 116, 104, 111, 100, 115]⟩
def hAcah : HName := ⟨[97, 99, 99, 101, 115, 115, 45, 99, 111, 110, 116, 114, 111, 108, 45, 97, 108, 108, 111, 119, 45, 104, 101, 97, 100, 101, 114, 115]⟩

def commaJoin (xs : List Bytes) : Bytes := ([44, 32] : Bytes).intercalate xs

/-- `Cors::set_headers`. -/
def Cors.setHeaders (c : Cors) (hs : Headers) : Headers :=
  let hs :=
    if (hs.get hAcao).isNone then
      match c.origins with
      | none => hs ++ [⟨hAcao, [42]⟩]
      | some os => if os.isEmpty then hs else hs ++ [⟨hAcao, commaJoin os⟩]
    else hs
  let hs :=
    if (hs.get hAcam).isNone then
      match c.methods with
      | some ms => if ms.isEmpty then hs else hs ++ [⟨hAcam, commaJoin (ms.map Method.name)⟩]
      | none => hs
    else hs
  let hs :=
    if (hs.get hAcah).isNone then
      match c.headers with
      | none => hs ++ [⟨hAcah, [42]⟩]
      | some xs => if xs.isEmpty then hs else hs ++ [⟨hAcah, commaJoin xs⟩]
    else hs
  hs

/-- What a handler does with a request (the handler itself is arbitrary user code). -/
inductive HandlerResult
  | response (r : Response)
  | panic

structure RouteEntry (κ : Type) where
  pattern : List Char
  handler : κ
  cors : Cors := {}

structure SubApp (κ ω : Type) where
  host : List Char
  routes : List (RouteEntry κ)
  wsRoutes : List (List Char × ω)

structure App (κ ω : Type) where
  subapps : List (SubApp κ ω)
  default : SubApp κ ω

/-- `get_handler`: first sub-app whose host pattern matches the Host header; within it the first
matching route; otherwise the first matching route of the default sub-app. -/
def getHandler {κ ω : Type} (app : App κ ω) (host : Option (List Char)) (path : List Char) :
    Option (RouteEntry κ) :=
  let fromDefault := app.default.routes.find? (fun r => Glob.wildcardMatch r.pattern path)
  match host with
  | none => fromDefault
  | some h =>
    match app.subapps.find? (fun s => Glob.wildcardMatch s.host h) with
    | none => fromDefault
    | some s =>
      match s.routes.find? (fun r => Glob.wildcardMatch r.pattern path) with
      | some r => some r
      | none => fromDefault

/-- `call_websocket_handler`: the same rule over the WebSocket routes. -/
def wsHandler {κ ω : Type} (app : App κ ω) (host : Option (List Char)) (path : List Char) : Option ω :=
  let fromDefault := (app.default.wsRoutes.find? (fun r => Glob.wildcardMatch r.1 path)).map (·.2)
  match host with
  | none => fromDefault
  | some h =>
    match app.subapps.find? (fun s => Glob.wildcardMatch s.host h) with
    | none => fromDefault
    | some s =>
      match s.wsRoutes.find? (fun r => Glob.wildcardMatch r.1 path) with
      | some r => some r.2
      | none => fromDefault

end Humphrey.Http
