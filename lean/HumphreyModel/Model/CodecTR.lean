import HumphreyModel.Model.Base64
import HumphreyModel.Model.Percent

/-!
Accumulator (tail-recursive) forms of the four list codecs of C18, used by the driver for inputs of
hundreds of kilobytes (the plain models recurse once per byte / group and would exhaust the native
stack there). Each is the same loop as in `Model/Percent.lean` / `Model/Base64.lean` with the output
collected in reverse; `Props/C18Fast.lean` proves each equal to the plain model for every input, so the
theorems about the plain models carry over unchanged.
-/
namespace Humphrey.Percent

/-- `encode` with the output accumulated in reverse. -/
def encodeTR : Bytes → Bytes → Bytes
  | [], acc => acc.reverse
  | b :: rest, acc =>
    if unreservedChars.contains b then encodeTR rest (b :: acc)
    else encodeTR rest ((escape b).reverse ++ acc)

/-- `decode` with the output accumulated in reverse. -/
def decodeTR : Bytes → Bytes → Option Bytes
  | [], acc => some acc.reverse
  | c :: rest, acc =>
    if c = 37 then
      match rest with
      | h1 :: h2 :: rest' =>
        match hexVal h1, hexVal h2 with
        | some hi, some lo => decodeTR rest' (UInt8.ofNat (hi * 16 + lo) :: acc)
        | _, _ => none
      | _ => none
    else decodeTR rest (c :: acc)

end Humphrey.Percent

namespace Humphrey.Base64

/-- `encode` with the output accumulated in reverse. -/
def encodeTR : Bytes → Bytes → Bytes
  | a :: b :: c :: rest, acc =>
    encodeTR rest (((groupIndices a.toNat b.toNat c.toNat).map sym).reverse ++ acc)
  | [a], acc => acc.reverse ++ [sym (a.toNat / 4), sym (a.toNat % 4 * 16), 61, 61]
  | [a, b], acc =>
    acc.reverse ++ [sym (a.toNat / 4), sym (a.toNat % 4 * 16 + b.toNat / 16), sym (b.toNat % 16 * 4), 61]
  | [], acc => acc.reverse

/-- `decodeGroups` with the output accumulated in reverse. -/
def decodeGroupsTR : Bytes → Bytes → Outcome
  | [], acc => .ok acc.reverse
  | a :: b :: c :: d :: rest, acc =>
    match decodeGroup rest.isEmpty 0 [a, b, c, d] 0 with
    | none => .err
    | some (decoded, broken) =>
      match slice1 (beBytes decoded) broken with
      | none => .panic
      | some out => decodeGroupsTR rest (out.reverse ++ acc)
  | short, acc =>
    match decodeGroup true 0 short 0 with
    | none => .err
    | some (decoded, broken) =>
      match slice1 (beBytes decoded) broken with
      | none => .panic
      | some out => .ok (acc.reverse ++ out)

/-- `decode` over `decodeGroupsTR`. -/
def decodeTR (s : Bytes) : Outcome :=
  if s.length % 4 ≠ 0 then .err else decodeGroupsTR s []

end Humphrey.Base64
