import HumphreyModel.Model.Json
/-!
# Model of `humphrey-json`: `macros.rs` (`json!`, `json_map!`), `traits.rs` and the code that
`humphrey-json-derive` generates (import-free, executable)

## `json!` — the token munchers themselves

`json!`, `json_array_internal!` and `json_object_internal!` are `macro_rules!` token munchers.
`Tok` is a Rust *token tree* as far as these macros can tell them apart; `expandJson`,
`expandArray`, `expandObject` have one `match` alternative per macro arm, **in the order of the
arms** (the first arm that matches wins, exactly as in `macro_rules!`). `none` = no arm matches
(or the expansion does not type-check): a compile error.

* `Tok.expr v` — a token sequence which the `expr` fragment parser consumes entirely as one Rust
  expression (a literal, a variable, a parenthesised expression, a call …) and for which
  `Value::from(e)` evaluates to `v`. It is followed, in the supported grammar, by `,` or by the
  end of the group, so the fragment parser never swallows a following token tree.
* `Tok.lit s` — a string literal: `Value::from("…")` as a value, `"…".to_string()` as a key.
* `Tok.null` is the identifier `null`; `Tok.group` a `[ … ]` or `{ … }` delimited group.
* `,` and `:` cannot begin an expression, so the `$value:expr` arms do not match them (the
  matcher checks `can_begin_expr` before it commits to the fragment parser).

The accumulator `[ $($elems:expr,)* ]` is modelled by the list of the values of its elements
(they are evaluated left to right inside `vec![…]`, and evaluation has no effects) plus the flag
`tc`: "every element is followed by a comma", which is what distinguishes arm 1 from arm 2.

## Typed mapping

`Ty` is the universe of types the derive macros and `json_map!` apply to; `TVal` a value of such
a type (`hasTy`). `toJson` / `fromJson` are what the generated `to_json` / `from_json` compute:

* named struct (derive, or `json_map!` on any struct): `json!({ key: (field.to_json()), … })`, an
  object in field order, key = field name or `#[rename]` / the mapped string; `from_json` takes
  `value.get(key).unwrap_or(&Null)` per field — `get` is the FIRST member with that key, a missing
  key (or a value that is not an object) reads as `Null`;
* tuple struct (derive): `Value::Array(vec![…])`; `from_json` first checks
  `value.as_array().map(len).unwrap_or(0) == n`, then `value.get(i).unwrap_or(&Null)`;
* unit-variant enum: `json!("name")`; `from_json` is a `match` on the string, first equal name wins;
* `Option`: `None ↔ Null`; `Vec` ↔ array; numbers: `*self as f64` / `*n as Self`.

Numbers. `Value::Number` holds an `f64`. `Num` describes an `f64` by where it came from:
`int i` — the `f64` equal to the integer `i` (only `f64`-representable integers are built:
`Num.ofInt` rounds first), `f32 b` — the exact widening of the `f32` with bit pattern `b`,
`f64 b` — the `f64` with bit pattern `b`. `Num.bits` gives the IEEE-754 bit pattern in every
case. The `as` casts are IEEE/Rust semantics and are parameters of the model, exercised by the
correspondence run: integer → `f64` rounds to nearest, ties to even (`roundF64`); `f64` →
integer truncates and saturates, NaN ↦ 0 (`truncBits`, `clamp`); `f32` → `f64` is exact
(`widenBits`); `f64` → `f32` rounds to nearest even (`narrowBits`) and undoes the widening.
`usize` is 64 bits wide.
-/
namespace Humphrey.JsonTyped
open Humphrey.Json (Value)

abbrev Key := List Char

/-! ## `json!` -/

inductive Delim where
  | brack | brace
deriving DecidableEq, Repr

/-- A token tree, as seen by the `json!` family. -/
inductive Tok (N : Type) where
  | null : Tok N
  | comma : Tok N
  | colon : Tok N
  | group (kind : Delim) (toks : List (Tok N)) : Tok N
  | expr (v : Value N) : Tok N
  | lit (s : List Char) : Tok N

/-- `$key.to_string()` for a `$key:tt`: a string literal, or an expression of string type.
Anything else does not compile (`null`, punctuation, a group) or is outside the model. -/
def keyOf {N : Type} : Tok N → Option Key
  | .lit s => some s
  | .expr (.string s) => some s
  | _ => none


mutual
/-- `json!(tt)` for a single token tree (arms 2–6 of `json!`). -/
def expandTok {N : Type} : Tok N → Option (Value N)
  -- (null) => Value::Null
  | .null => some .null
  -- ([ $($elems:tt)* ]) => Value::Array(json_array_internal!([] $($elems)*))
  | .group .brack ts =>
    match expandArray ts [] true with
    | some xs => some (.array xs)
    | none => none
  -- ({}) => Value::Object(Vec::new())
  | .group .brace [] => some (.object [])
  -- ({ $($elems:tt)* }) => Value::Object(json_object_internal!([] $($elems)*))
  | .group .brace (t :: ts) =>
    match expandObject (t :: ts) [] true with
    | some ms => some (.object ms)
    | none => none
  -- ($v:expr) => Value::from($v)
  | .expr v => some v
  | .lit s => some (.string s)
  -- `,` and `:` are not expressions: no arm
  | .comma => none
  | .colon => none

/-- `json_array_internal!([ elems ] toks)`; `tc` = every accumulated element is followed by a
comma (the shape `$($elems:expr,)*`). -/
def expandArray {N : Type} : List (Tok N) → List (Value N) → Bool → Option (List (Value N))
  -- arm 1 `([ $($elems:expr,)* ])` and arm 2 `([ $($elems:expr),* ])` => vec![…]
  | [], elems, _ => some elems
  -- every further arm starts with `[ $($elems:expr,)* ]`
  | _ :: _, _, false => none
  -- arm 3, next value is `null` (after the repair the rest is passed on; the original arm was
  -- `json_array_internal!([ $($elems,)* Value::Null, ])`, which dropped `$($rest)*`)
  | .null :: rest, elems, true => expandArray rest (elems ++ [.null]) true
  -- arm 4, next value is an array: `json!([ $($array)* ])`
  | .group .brack a :: rest, elems, true =>
    match expandTok (.group .brack a) with
    | some v => expandArray rest (elems ++ [v]) true
    | none => none
  -- arm 5, next value is an object: `json!({ $($object)* })`
  | .group .brace o :: rest, elems, true =>
    match expandTok (.group .brace o) with
    | some v => expandArray rest (elems ++ [v]) true
    | none => none
  -- arm 6, next value is an expression followed by a comma: `$value:expr, $($rest:tt)*`
  | .expr v :: .comma :: rest, elems, true => expandArray rest (elems ++ [v]) true
  | .lit s :: .comma :: rest, elems, true => expandArray rest (elems ++ [.string s]) true
  -- arm 7, last value is an expression: `[ $($elems,)* json!($value) ]` (no trailing comma: arm 2)
  | [.expr v], elems, true => expandArray [] (elems ++ [v]) false
  | [.lit s], elems, true => expandArray [] (elems ++ [.string s]) false
  -- arm 8, comma
  | .comma :: rest, elems, true => expandArray rest elems true
  -- no rules expected this token
  | .expr _ :: _ :: _, _, true => none
  | .lit _ :: _ :: _, _, true => none
  | .colon :: _, _, true => none

/-- `json_object_internal!([ elems ] toks)` -/
def expandObject {N : Type} : List (Tok N) → List (Key × Value N) → Bool → Option (List (Key × Value N))
  -- arms 1 and 2
  | [], elems, _ => some elems
  | _ :: _, _, false => none
  -- arm 3, `$key:tt : null $($rest:tt)*`
  | key :: .colon :: .null :: rest, elems, true =>
    match keyOf key with
    | some k => expandObject rest (elems ++ [(k, .null)]) true
    | none => none
  -- arm 4, `$key:tt : [ $($array:tt)* ] $($rest:tt)*`
  | key :: .colon :: .group .brack a :: rest, elems, true =>
    match keyOf key, expandTok (.group .brack a) with
    | some k, some v => expandObject rest (elems ++ [(k, v)]) true
    | _, _ => none
  -- arm 5, `$key:tt : { $($object:tt)* } $($rest:tt)*`
  | key :: .colon :: .group .brace o :: rest, elems, true =>
    match keyOf key, expandTok (.group .brace o) with
    | some k, some v => expandObject rest (elems ++ [(k, v)]) true
    | _, _ => none
  -- arm 6, `$key:tt : $value:expr, $($rest:tt)*`
  | key :: .colon :: .expr v :: .comma :: rest, elems, true =>
    match keyOf key with
    | some k => expandObject rest (elems ++ [(k, v)]) true
    | none => none
  | key :: .colon :: .lit s :: .comma :: rest, elems, true =>
    match keyOf key with
    | some k => expandObject rest (elems ++ [(k, .string s)]) true
    | none => none
  -- arm 7, `$key:tt : $value:expr` (last)
  | [key, .colon, .expr v], elems, true =>
    match keyOf key with
    | some k => expandObject [] (elems ++ [(k, v)]) true
    | none => none
  | [key, .colon, .lit s], elems, true =>
    match keyOf key with
    | some k => expandObject [] (elems ++ [(k, .string s)]) true
    | none => none
  -- arm 8, comma
  | .comma :: rest, elems, true => expandObject rest elems true
  -- no rules expected this token
  | _ :: _, _, true => none
end

/-- `json!( toks )`: arm 1 `()`; arms 2–6 take one token tree (a multi-token expression is a
single `Tok.expr`). -/
def expandJson {N : Type} : List (Tok N) → Option (Value N)
  | [] => some .null
  | [t] => expandTok t
  | _ :: _ :: _ => none

/-! ## Numbers -/

inductive NumKind where
  | u8 | u16 | u32 | u64 | usize | i8 | i16 | i32 | i64 | f32 | f64
deriving DecidableEq, Repr

def NumKind.isInt : NumKind → Bool
  | .f32 => false
  | .f64 => false
  | _ => true

/-- `T::MIN` -/
def NumKind.lo : NumKind → Int
  | .i8 => -128
  | .i16 => -32768
  | .i32 => -2147483648
  | .i64 => -9223372036854775808
  | _ => 0

/-- `T::MAX` -/
def NumKind.hi : NumKind → Int
  | .u8 => 255
  | .u16 => 65535
  | .u32 => 4294967295
  | .u64 => 18446744073709551615
  | .usize => 18446744073709551615
  | .i8 => 127
  | .i16 => 32767
  | .i32 => 2147483647
  | .i64 => 9223372036854775807
  | _ => 0

/-- saturation of a float-to-integer `as` cast -/
def clamp (k : NumKind) (i : Int) : Int :=
  if i < k.lo then k.lo else if k.hi < i then k.hi else i

/-- round `a` to a multiple of `2^e`, nearest, ties to the even multiple -/
def roundAt (a e : Nat) : Nat :=
  let q := a / 2 ^ e
  let r := a % 2 ^ e
  let half := 2 ^ (e - 1)
  if e = 0 then a
  else if r < half then q * 2 ^ e
  else if half < r then (q + 1) * 2 ^ e
  else if q % 2 = 0 then q * 2 ^ e else (q + 1) * 2 ^ e

/-- find the binade of `a` (`a < 2^(53+e)`) and round to 53 significant bits -/
def roundMag : Nat → Nat → Nat → Nat
  | 0, e, a => roundAt a e
  | fuel + 1, e, a => if a < 2 ^ (53 + e) then roundAt a e else roundMag fuel (e + 1) a

/-- the integer value of `i as f64` (exact for `|i| ≤ 2^53`; magnitudes below `2^65`, which covers every integer kind of the model) -/
def roundF64 (i : Int) : Int :=
  if i < 0 then - (roundMag 12 0 i.natAbs : Int) else (roundMag 12 0 i.natAbs : Int)

/-- The payload of `Value::Number`, an `f64`, by provenance. -/
inductive Num where
  | int (i : Int)
  | f32 (bits : Nat)
  | f64 (bits : Nat)
deriving DecidableEq, Repr

/-- `i as f64` -/
def Num.ofInt (i : Int) : Num := .int (roundF64 i)

/-- bit pattern of the `f64` equal to the (representable) integer `i` -/
def intToBits (i : Int) : Nat :=
  if i = 0 then 0 else
  let s : Nat := if i < 0 then 2 ^ 63 else 0
  let a := i.natAbs
  let l := Nat.log2 a
  let m := if l ≤ 52 then a * 2 ^ (52 - l) else a / 2 ^ (l - 52)
  s + (1023 + l) * 2 ^ 52 + m % 2 ^ 52

/-- `x as f64` for the `f32` with bit pattern `b` (exact) -/
def widenBits (b : Nat) : Nat :=
  let s := b / 2 ^ 31 % 2 * 2 ^ 63
  let e := b / 2 ^ 23 % 256
  let m := b % 2 ^ 23
  if e = 255 then s + 0x7FF * 2 ^ 52 + m * 2 ^ 29
  else if e = 0 then
    if m = 0 then s
    else
      let l := Nat.log2 m
      s + (1023 + l - 149) * 2 ^ 52 + m * 2 ^ (52 - l) % 2 ^ 52
  else s + (e + 896) * 2 ^ 52 + m * 2 ^ 29

def Num.bits : Num → Nat
  | .int i => intToBits i
  | .f32 b => widenBits b
  | .f64 b => b

/-- truncation toward zero of the `f64` with these bits; NaN ↦ 0, ±inf ↦ ±2^1100 (then clamped) -/
def truncBits (b : Nat) : Int :=
  let neg := b / 2 ^ 63 % 2 = 1
  let e := b / 2 ^ 52 % 2048
  let m := b % 2 ^ 52
  let mag : Nat :=
    if e = 2047 then (if m = 0 then 2 ^ 1100 else 0)
    else if e = 0 then 0
    else if e ≥ 1075 then (2 ^ 52 + m) * 2 ^ (e - 1075) else (2 ^ 52 + m) / 2 ^ (1075 - e)
  if neg then - (mag : Int) else (mag : Int)

/-- `x as f32` for the `f64` with bit pattern `b`: round to nearest, ties to even -/
def narrowBits (b : Nat) : Nat :=
  let s : Nat := b / 2 ^ 63 % 2 * 2 ^ 31
  let e : Nat := b / 2 ^ 52 % 2048
  let m : Nat := b % 2 ^ 52
  if e = 2047 then (if m = 0 then s + 0x7F800000 else s + 0x7FC00000 + m / 2 ^ 29 % 2 ^ 22)
  else
    -- value = M * 2^(E - 1074 - 52 …): keep exponents as naturals offset by 1075 + 149
    let M : Nat := if e = 0 then m else 2 ^ 52 + m
    let E : Int := if e = 0 then -1074 else (e : Int) - 1075
    if M = 0 then s
    else
      let l : Int := (Nat.log2 M : Nat)
      let shift : Int := if l - 23 ≥ -(E + 149) then l - 23 else -(E + 149)
      let q : Nat := if shift ≤ 0 then M * 2 ^ (-shift).toNat else roundAt M shift.toNat / 2 ^ shift.toNat
      let f : Int := E + shift + 149
      let bits : Nat := f.toNat * 2 ^ 23 + q
      if bits ≥ 0x7F800000 then s + 0x7F800000 else s + bits

/-- integer part of the number (`as` an integer type before saturation) -/
def Num.trunc : Num → Int
  | .int i => i
  | n => truncBits n.bits

/-- `n as f32` -/
def Num.narrow : Num → Nat
  | .f32 b => b
  | n => narrowBits n.bits

/-! ## Types and values -/

inductive Ty where
  | bool : Ty
  | num (k : NumKind) : Ty
  | str : Ty
  | opt (t : Ty) : Ty
  | vec (t : Ty) : Ty
  | named (fields : List (Key × Ty)) : Ty
  | tuple (ts : List Ty) : Ty
  | enum (variants : List Key) : Ty

/-- A value of some `Ty`: `int` for every integer kind, `f32`/`f64` by bit pattern, `fields` for the
fields of a named or tuple struct in declaration order, `variant i` for the `i`-th variant. -/
inductive TVal where
  | bool (b : Bool) : TVal
  | int (i : Int) : TVal
  | f32 (bits : Nat) : TVal
  | f64 (bits : Nat) : TVal
  | str (s : List Char) : TVal
  | none : TVal
  | some (v : TVal) : TVal
  | vec (vs : List TVal) : TVal
  | fields (vs : List TVal) : TVal
  | variant (i : Nat) : TVal

inductive ParseError where
  | typeError
deriving DecidableEq, Repr

/-- `v.iter().map(f).collect::<Result<Vec<_>, _>>()`: stops at the first error -/
def mapExcept {α β ε : Type} (f : α → Except ε β) : List α → Except ε (List β)
  | [] => .ok []
  | a :: as =>
    match f a with
    | .error e => .error e
    | .ok b =>
      match mapExcept f as with
      | .error e => .error e
      | .ok bs => .ok (b :: bs)

/-- `<&str as Index>::json_index`: the first member with this key; `None` on a non-object -/
def findKey {N : Type} (k : Key) : List (Key × Value N) → Option (Value N)
  | [] => none
  | (k', v) :: ms => if k' = k then some v else findKey k ms

def getKey {N : Type} (v : Value N) (k : Key) : Option (Value N) :=
  match v with
  | .object ms => findKey k ms
  | _ => none

/-- `<usize as Index>::json_index` -/
def getIdx {N : Type} (v : Value N) (i : Nat) : Option (Value N) :=
  match v with
  | .array xs => xs[i]?
  | _ => none

/-- index of the first match arm `name => …` -/
def findVariant (s : List Char) : List Key → Nat → Option Nat
  | [], _ => none
  | n :: ns, i => if s = n then some i else findVariant s ns (i + 1)

mutual
/-- the typing relation -/
def hasTy : Ty → TVal → Bool
  | .bool, .bool _ => true
  | .num k, .int i => k.isInt && decide (k.lo ≤ i) && decide (i ≤ k.hi)
  | .num k, .f32 b => decide (k = .f32) && decide (b < 2 ^ 32)
  | .num k, .f64 b => decide (k = .f64) && decide (b < 2 ^ 64)
  | .str, .str _ => true
  | .opt _, .none => true
  | .opt t, .some v => hasTy t v
  | .vec t, .vec vs => vs.all (hasTy t)
  | .named fs, .fields vs => hasTyFields fs vs
  | .tuple ts, .fields vs => hasTyTuple ts vs
  | .enum names, .variant i => decide (i < names.length)
  | _, _ => false
def hasTyFields : List (Key × Ty) → List TVal → Bool
  | [], [] => true
  | (_, t) :: fs, v :: vs => hasTy t v && hasTyFields fs vs
  | _, _ => false
def hasTyTuple : List Ty → List TVal → Bool
  | [], [] => true
  | t :: ts, v :: vs => hasTy t v && hasTyTuple ts vs
  | _, _ => false
end

/-- the values of a type -/
abbrev Val (ty : Ty) : Type := { v : TVal // hasTy ty v = true }

mutual
/-- the generated / library `to_json` (`Value.null` on an ill-typed pair, which no Rust program
can build) -/
def toJson : Ty → TVal → Value Num
  | .bool, .bool b => .bool b
  -- `Value::Number(*self as f64)`
  | .num _, .int i => .number (Num.ofInt i)
  | .num _, .f32 b => .number (.f32 b)
  | .num _, .f64 b => .number (.f64 b)
  | .str, .str s => .string s
  | .opt _, .none => .null
  | .opt t, .some v => toJson t v
  | .vec t, .vec vs => .array (vs.map (toJson t))
  -- `json!({ key: (to_json(&self.field)), … })`
  | .named fs, .fields vs => .object (toJsonFields fs vs)
  -- `Value::Array(vec![ to_json(&self.0), … ])`
  | .tuple ts, .fields vs => .array (toJsonTuple ts vs)
  -- `match self { Self::V => json!("name"), … }`
  | .enum names, .variant i => .string (names.getD i [])
  | _, _ => .null
def toJsonFields : List (Key × Ty) → List TVal → List (Key × Value Num)
  | (k, t) :: fs, v :: vs => (k, toJson t v) :: toJsonFields fs vs
  | _, _ => []
def toJsonTuple : List Ty → List TVal → List (Value Num)
  | t :: ts, v :: vs => toJson t v :: toJsonTuple ts vs
  | _, _ => []
end

/-- `*n as Self` -/
def castTo : NumKind → Num → TVal
  | .f32, n => .f32 n.narrow
  | .f64, n => .f64 n.bits
  | k, n => .int (clamp k n.trunc)

mutual
/-- the generated / library `from_json` -/
def fromJson : Ty → Value Num → Except ParseError TVal
  | .bool, v =>
    match v with
    | .bool b => .ok (.bool b)
    | _ => .error .typeError
  | .num k, v =>
    match v with
    | .number n => .ok (castTo k n)
    | _ => .error .typeError
  | .str, v =>
    match v with
    | .string s => .ok (.str s)
    | _ => .error .typeError
  | .opt t, v =>
    match v with
    | .null => .ok .none
    | v =>
      match fromJson t v with
      | .ok x => .ok (.some x)
      | .error e => .error e
  | .vec t, v =>
    match v with
    | .array xs =>
      match mapExcept (fromJson t) xs with
      | .ok vs => .ok (.vec vs)
      | .error e => .error e
    | _ => .error .typeError
  -- `Ok(Self { f: from_json(value.get(key).unwrap_or(&Null))?, … })`
  | .named fs, v =>
    match fromJsonFields fs v with
    | .ok vs => .ok (.fields vs)
    | .error e => .error e
  -- `if value.as_array().map(|v| v.len()).unwrap_or(0) != n { return Err(TypeError) }`
  | .tuple ts, v =>
    let len := match v with
      | .array xs => xs.length
      | _ => 0
    if len ≠ ts.length then .error .typeError
    else
      match fromJsonTuple ts v 0 with
      | .ok vs => .ok (.fields vs)
      | .error e => .error e
  -- `match value.as_str() { Some(s) => match s { name => Ok(Self::V), … _ => Err }, None => Err }`
  | .enum names, v =>
    match v with
    | .string s =>
      match findVariant s names 0 with
      | some i => .ok (.variant i)
      | none => .error .typeError
    | _ => .error .typeError
def fromJsonFields : List (Key × Ty) → Value Num → Except ParseError (List TVal)
  | [], _ => .ok []
  | (k, t) :: fs, v =>
    match fromJson t ((getKey v k).getD .null) with
    | .error e => .error e
    | .ok x =>
      match fromJsonFields fs v with
      | .error e => .error e
      | .ok xs => .ok (x :: xs)
def fromJsonTuple : List Ty → Value Num → Nat → Except ParseError (List TVal)
  | [], _, _ => .ok []
  | t :: ts, v, i =>
    match fromJson t ((getIdx v i).getD .null) with
    | .error e => .error e
    | .ok x =>
      match fromJsonTuple ts v (i + 1) with
      | .error e => .error e
      | .ok xs => .ok (x :: xs)
end

/-! ## The token trees the generators write

`derive(IntoJson)` on a named struct writes `json!({ #( #names: (to_json(&self.#idents)), )* })`;
`json_map!` writes `json!({ $($json_field: (&self.$struct_field)),* })`; an enum arm writes
`json!(#name)`. The parenthesised expressions are single `expr` token trees whose value is the
field's `to_json` (`Value::from(Value)` is the identity, `Value::from(&T)` is `T::to_json`). -/

/-- derive: every member followed by a comma -/
def deriveToks : List (Key × Value Num) → List (Tok Num)
  | [] => []
  | (k, v) :: ms => .lit k :: .colon :: .expr v :: .comma :: deriveToks ms

/-- `json_map!`: members separated by commas, no trailing comma -/
def mapToks : List (Key × Value Num) → List (Tok Num)
  | [] => []
  | [(k, v)] => [.lit k, .colon, .expr v]
  | (k, v) :: m :: ms => .lit k :: .colon :: .expr v :: .comma :: mapToks (m :: ms)

end Humphrey.JsonTyped
