import HumphreyModel.Model.Http
import HumphreyModel.Model.Cache
/-
Model of the blacklist enforcement of `humphrey-server` (property C19):

* `server.rs::verify_connection`      — the connection condition (`admits` / `verifyConnection`);
* `static.rs::is_blacklisted`         — the address test shared by all handlers (`isBlacklisted`; this is the
  code AFTER the C19 repair: the origin address OR any address in `request.address.proxies`, which ends
  with the peer itself, is listed.  `isBlacklistedOld` is the unrepaired test, `origin_addr` only; it is kept
  for the witness of the defect in `Props/C19.lean` and used by nothing else);
* `static.rs::blacklist_check`        — `Some(403)` / `None` (`blacklistCheck`);
* `static.rs::cache_check`            — consulted only when `config.cache.size_limit > 0` (`cacheCheck`, over
  the cache model of C16, `Model/Cache.lean`);
* `file_handler`, `directory_handler` — blacklist check, then cache check, then the rest of the handler;
* `redirect_handler`                  — blacklist check, then the 301;
* `proxy.rs::proxy_handler`           — the same test inline, then the upstream exchange.

`request.address` is `Address::from_headers` (`Model/Http.lean`, shared with C02) applied to the request's
headers and the peer address of the socket.  `parseIp` stands for `IpAddr::from_str` and stays a parameter;
an `Ip` is the canonical text of an `IpAddr`, so equality of `Ip`s is equality of `IpAddr`s (`V4(a)` and the
IPv4-mapped `V6(::ffff:a)` are different addresses for Rust and have different texts).

What lies behind the checks (reading the file, `try_find_path`, the upstream) is not part of this property and
is abstracted to a label `rest` carried by the route: `served (.fresh rest)` says "the remainder of the handler
ran", with whatever it answers to any client (200, 301, 404, 502, or its own panic).  A panic of
`Cache::get` (clock gone backwards, see C16) is the outcome `panic`; it lies behind the blacklist check too.
-/
namespace Humphrey.Blacklist
open Humphrey Humphrey.Http

/-- `BlacklistMode`. -/
inductive Mode | block | forbidden
deriving DecidableEq, Repr

/-- `BlacklistConfig`. -/
structure BlCfg where
  mode : Mode
  list : List Ip
deriving Repr

/-- `config.blacklist.list.contains(&ip)`. -/
def listed (cfg : BlCfg) (ip : Ip) : Bool := cfg.list.contains ip

/-- `verify_connection` for a stream whose `peer_addr()` is `Ok(peer)`: in `Block` mode a listed peer is
refused, every other connection is admitted. -/
def admits (cfg : BlCfg) (peer : Ip) : Bool :=
  !(cfg.mode == .block && listed cfg peer)

/-- `verify_connection`: a stream without a peer address ("corrupted stream") is refused. -/
def verifyConnection (cfg : BlCfg) : Option Ip → Bool
  | some peer => admits cfg peer
  | none => false

/-- `is_blacklisted` (after the repair): the origin address or any proxy (the peer is the last proxy when
the origin was taken from `X-Forwarded-For`) is on the list. -/
def isBlacklisted (cfg : BlCfg) (a : Address) : Bool :=
  listed cfg a.origin || a.proxies.any (listed cfg)

/-- The test as it was before the repair: only `request.address.origin_addr`. -/
def isBlacklistedOld (cfg : BlCfg) (a : Address) : Bool := listed cfg a.origin

/-- Which part of the code produced the answer of a request that was not refused. -/
inductive Kind where
  /-- `cache_check` answered from the cache (200 with the cached bytes). -/
  | cached (item : Cache.Item)
  /-- the remainder of the handler ran; `rest` labels what it answers to any client. -/
  | fresh (rest : String)
deriving DecidableEq, Repr

inductive Outcome where
  /-- the connection condition failed: the socket is dropped, nothing is written -/
  | closedNoResponse
  /-- `403 Forbidden` with the body `<h1>403 Forbidden</h1>` -/
  | forbidden403
  | served (kind : Kind)
  /-- `Cache::get` panicked (`time - cache_time` with a clock that went backwards, C16) -/
  | panic
deriving DecidableEq, Repr

/-- `blacklist_check`. -/
def blacklistCheck (cfg : BlCfg) (a : Address) : Option Outcome :=
  if isBlacklisted cfg a then some .forbidden403 else none

/-- What `cache_check` looks at: the cache (built from the same configuration, so `cache.limit` is
`config.cache.size_limit`), the clock, and the key `(request.uri, host)`. -/
structure CacheCtx where
  now : Nat
  cache : Cache.Cache
  uri : String
  host : Nat
deriving Repr

/-- `cache_check`: skipped when the cache is off (`size_limit = 0`). -/
def cacheCheck (cc : CacheCtx) : Cache.Outcome (Option Cache.Item) :=
  if cc.cache.limit > 0 then Cache.get cc.now cc.cache cc.uri cc.host else .ok none

/-- A route of one of the four types together with what the world behind it holds. -/
inductive Route where
  | file (cc : CacheCtx) (rest : String)
  | directory (cc : CacheCtx) (rest : String)
  | proxy (rest : String)
  | redirect (rest : String)
deriving Repr

/-- `file_handler` / `directory_handler` after the blacklist check: cache check, then the rest. -/
def afterCheckStatic (cc : CacheCtx) (rest : String) : Outcome :=
  match cacheCheck cc with
  | .panic => .panic
  | .ok (some it) => .served (.cached it)
  | .ok none => .served (.fresh rest)

/-- `file_handler`. -/
def fileHandler (cfg : BlCfg) (a : Address) (cc : CacheCtx) (rest : String) : Outcome :=
  match blacklistCheck cfg a with
  | some r => r
  | none => afterCheckStatic cc rest

/-- `directory_handler` (same prologue as `file_handler`). -/
def directoryHandler (cfg : BlCfg) (a : Address) (cc : CacheCtx) (rest : String) : Outcome :=
  match blacklistCheck cfg a with
  | some r => r
  | none => afterCheckStatic cc rest

/-- `redirect_handler`. -/
def redirectHandler (cfg : BlCfg) (a : Address) (rest : String) : Outcome :=
  match blacklistCheck cfg a with
  | some r => r
  | none => .served (.fresh rest)

/-- `proxy_handler` (the test is inline; the upstream is contacted only in the `else` branch). -/
def proxyHandler (cfg : BlCfg) (a : Address) (rest : String) : Outcome :=
  if isBlacklisted cfg a then .forbidden403 else .served (.fresh rest)

/-- `inner_request_handler` on a request with address `a`. -/
def dispatch (cfg : BlCfg) (a : Address) : Route → Outcome
  | .file cc rest => fileHandler cfg a cc rest
  | .directory cc rest => directoryHandler cfg a cc rest
  | .proxy rest => proxyHandler cfg a rest
  | .redirect rest => redirectHandler cfg a rest

/-- The addresses named by the request's `X-Forwarded-For` field: every entry that parses, after
trimming, in order (the field `Address::from_headers` reads is the first one of that name). -/
def forwarded (parseIp : Bytes → Option Ip) (hs : Headers) : List Ip :=
  match hs.get hXff with
  | none => []
  | some fwd => (Bytes.splitOn 44 fwd).filterMap (fun e => parseIp (Bytes.trim e))

/-- What the handler answers to a request with headers `hs` arriving from `peer` (the connection having been
admitted): `Request::from_stream` computes the address, the route's handler does the rest. -/
def respond (parseIp : Bytes → Option Ip) (cfg : BlCfg) (peer : Ip) (hs : Headers) (route : Route) :
    Outcome :=
  dispatch cfg (Address.fromHeaders parseIp Bytes.trim hs peer 0) route

/-- The whole path of a request: connection condition, then the handler. -/
def handle (parseIp : Bytes → Option Ip) (cfg : BlCfg) (peer : Ip) (hs : Headers) (route : Route) :
    Outcome :=
  if admits cfg peer then respond parseIp cfg peer hs route else .closedNoResponse

/-- The same path with the unrepaired test (defect witness only). -/
def respondOld (parseIp : Bytes → Option Ip) (cfg : BlCfg) (peer : Ip) (hs : Headers) (rest : String) :
    Outcome :=
  if isBlacklistedOld cfg (Address.fromHeaders parseIp Bytes.trim hs peer 0) then .forbidden403
  else .served (.fresh rest)

end Humphrey.Blacklist
