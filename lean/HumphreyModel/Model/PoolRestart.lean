import HumphreyModel.Model.Pool

/-!
# Several runs of one `ThreadPool` value (`start` on a pool that was started before)

`Model/Pool.lean` describes one run. `ThreadPool::start` on a started or stopped pool does, in this order
(`humphrey/src/thread/pool.rs`): builds a NEW task channel, N NEW workers on it and a NEW recovery channel;
`self.threads = Arc::new(..)` — the old vector's handles are dropped without taking its mutex (the old recovery
thread keeps its own `Arc` of the old vector), i.e. the old workers are detached; `self.tx = tx` — the OLD `Sender`
is dropped, so the old task channel is disconnected once drained; `self.recovery_thread = Some(..)` — the old
recovery handle (if `stop` has not taken it already) is dropped, i.e. detached. For the threads of the old run this
is exactly the end state of `Drop` (`senderAlive = false`, nobody holds their handles, the owner is gone):
`retire`. Afterwards the old run goes on by the worker / recovery labels of `step` only (every caller label of
`step` is disabled in a retired state), next to the new run.

Task ids are per run (each run numbers its submissions from 0; which of them panic is an arbitrary predicate PER RUN,
`MCfg.panics g k`), worker ids are reused by every run — as in the code.
Import-free apart from `Model/Pool.lean`; executable.
-/
namespace Humphrey.Pool

/-- What the old run looks like to its own threads once the pool has been started again. -/
def retire (s : State) : State :=
  { s with senderAlive := false, life := .dropped, caller := .done }

/-- The state `start` produces (`step c init .start`). -/
def startedFresh (c : Cfg) : State :=
  { init with life := .started, workers := List.replicate c.n .idle, recov := .waiting }

/-- N and, for the `g`-th run (0 = the first), which of its tasks panic. -/
structure MCfg where
  n : Nat
  panics : Nat → TaskId → Bool

/-- the one-run configuration of run `g` -/
def MCfg.run (c : MCfg) (g : Nat) : Cfg := { n := c.n, panics := c.panics g }

structure MState where
  /-- earlier runs, oldest first -/
  past : List State := []
  cur : State := init
  deriving DecidableEq, Repr

inductive MLabel where
  /-- a step of the current run (caller, its workers, its recovery thread) -/
  | cur (l : Label)
  /-- a step of a thread that belongs to the `g`-th earlier run -/
  | past (g : Nat) (l : Label)
  /-- `start()` on a pool that is started or stopped -/
  | restart
  deriving DecidableEq, Repr

def minit : MState := {}

def mstep (c : MCfg) (m : MState) : MLabel → Option MState
  | .cur l => (step (c.run m.past.length) m.cur l).map (fun s => { m with cur := s })
  | .past g l =>
    match m.past[g]? with
    | some s => (step (c.run g) s l).map (fun s' => { m with past := m.past.set g s' })
    | none => none
  | .restart =>
    if m.cur.caller = .idle ∧ (m.cur.life = .started ∨ m.cur.life = .stopped) then
      some { past := m.past ++ [retire m.cur], cur := startedFresh (c.run (m.past.length + 1)) }
    else none

def mrun (c : MCfg) : MState → List MLabel → Option MState
  | m, [] => some m
  | m, l :: ls => match mstep c m l with
    | some m' => mrun c m' ls
    | none => none

def MReachable (c : MCfg) (m : MState) : Prop := ∃ ls, mrun c minit ls = some m

/-- every run of the pool value, oldest first, the current one last -/
def MState.runs (m : MState) : List State := m.past ++ [m.cur]

def MLabel.isPast : MLabel → Bool
  | .past _ _ => true
  | _ => false

end Humphrey.Pool
