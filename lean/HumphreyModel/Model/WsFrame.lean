/-
Model of `humphrey-ws/src/frame.rs` (`Frame`, `Opcode`, `Frame::from_stream`,
`from_stream_inner`, `impl From<Frame> for Vec<u8>`) and of `Message::to_frame`
(`humphrey-ws/src/message.rs`).

* `u64` lengths are `Nat`; `encodeFrame` truncates exactly where the Rust code casts
  (`as u8`, `as u16`), the decoder produces values `< 2^64` by construction.
  `length as usize` is the identity (64-bit target).
* `from_stream` is generic in `T: Read`; so is the model: `decodeWith rd` takes the `read_exact`
  of the stream as a parameter (`rd n s = none` when `read_exact` on an `n`-byte buffer fails).
  `readExact` is `std::io::Read::read_exact` (the default method) over a scripted reader whose
  `read` hands out the next chunk, at most as much as fits the buffer; an empty chunk is a `read`
  that returns `Ok(0)`, which `read_exact` takes for end of stream.
* The allocation `vec![0; length as usize]` that precedes the payload `read_exact` is recorded in
  `DecodeResult.alloc` (property C03 reuses this model).
-/
namespace Humphrey.WsFrame

abbrev Bytes := List UInt8

/-- `enum Opcode` (`#[repr(u8)]`). -/
inductive Opcode
  | continuation | text | binary | close | ping | pong
  deriving DecidableEq, Repr, Inhabited

/-- `opcode as u8`. -/
def Opcode.toNat : Opcode → Nat
  | .continuation => 0x0
  | .text => 0x1
  | .binary => 0x2
  | .close => 0x8
  | .ping => 0x9
  | .pong => 0xA

/-- `Opcode::try_from(value)`; `none` = `Err(WebsocketError::InvalidOpcode)`. -/
def Opcode.ofNat? : Nat → Option Opcode
  | 0x0 => some .continuation
  | 0x1 => some .text
  | 0x2 => some .binary
  | 0x8 => some .close
  | 0x9 => some .ping
  | 0xA => some .pong
  | _ => none

/-- `masking_key: [u8; 4]`. -/
structure Key where
  b0 : UInt8
  b1 : UInt8
  b2 : UInt8
  b3 : UInt8
  deriving DecidableEq, Repr, Inhabited

def Key.zero : Key := ⟨0, 0, 0, 0⟩

def Key.toList (k : Key) : Bytes := [k.b0, k.b1, k.b2, k.b3]

/-- `masking_key[i]` for an index already reduced mod 4. -/
def Key.get (k : Key) (i : Nat) : UInt8 :=
  match i with
  | 0 => k.b0
  | 1 => k.b1
  | 2 => k.b2
  | _ => k.b3

/-- `struct Frame`. `length` is the `u64` field (independent of `payload.len()`, as in Rust). -/
structure Frame where
  fin : Bool
  rsv1 : Bool
  rsv2 : Bool
  rsv3 : Bool
  opcode : Opcode
  mask : Bool
  length : Nat
  key : Key
  payload : Bytes
  deriving DecidableEq, Repr, Inhabited

/-- `Frame::new(opcode, payload)`. -/
def Frame.new (opcode : Opcode) (payload : Bytes) : Frame :=
  { fin := true, rsv1 := false, rsv2 := false, rsv3 := false, opcode := opcode, mask := false,
    length := payload.length, key := Key.zero, payload := payload }

inductive WsErr
  | readError | invalidOpcode
  deriving DecidableEq, Repr, Inhabited

/-- `b as u8` for a `bool`. -/
def b2u8 (b : Bool) : UInt8 := if b then 1 else 0

/-- `(n as u16).to_be_bytes()`. -/
def be16 (n : Nat) : Bytes := [(n / 256 % 256).toUInt8, (n % 256).toUInt8]

/-- `(n as u64).to_be_bytes()`. -/
def be64 (n : Nat) : Bytes :=
  [(n / 72057594037927936 % 256).toUInt8, (n / 281474976710656 % 256).toUInt8,
   (n / 1099511627776 % 256).toUInt8, (n / 4294967296 % 256).toUInt8,
   (n / 16777216 % 256).toUInt8, (n / 65536 % 256).toUInt8,
   (n / 256 % 256).toUInt8, (n % 256).toUInt8]

/-- `u16::from_be_bytes` / `u64::from_be_bytes` (as `u64`). -/
def fromBe (bs : Bytes) : Nat := bs.foldl (fun acc b => acc * 256 + b.toNat) 0

/-- `payload.iter_mut().enumerate().for_each(|(i, tem)| *tem ^= masking_key[i % 4])`,
`i` being the index of the head of the list. -/
def xorKey (k : Key) : Nat → Bytes → Bytes
  | _, [] => []
  | i, b :: bs => (b ^^^ k.get (i % 4)) :: xorKey k (i + 1) bs

/-- `(fin as u8) << 7 | (rsv[0] as u8) << 6 | (rsv[1] as u8) << 5 | (rsv[2] as u8) << 4 | opcode as u8`. -/
def packHeader0 (fin rsv1 rsv2 rsv3 : Bool) (opcode : Opcode) : UInt8 :=
  (b2u8 fin <<< 7) ||| (b2u8 rsv1 <<< 6) ||| (b2u8 rsv2 <<< 5) ||| (b2u8 rsv3 <<< 4)
    ||| opcode.toNat.toUInt8

/-- First header byte written by `From<Frame> for Vec<u8>`. -/
def headerByte0 (f : Frame) : UInt8 := packHeader0 f.fin f.rsv1 f.rsv2 f.rsv3 f.opcode

/-- The two header bytes and the extended length. -/
def encodeHeader (f : Frame) : Bytes :=
  if f.length < 126 then [headerByte0 f, (b2u8 f.mask <<< 7) ||| f.length.toUInt8]
  else if f.length < 65536 then [headerByte0 f, (b2u8 f.mask <<< 7) ||| 126] ++ be16 f.length
  else [headerByte0 f, (b2u8 f.mask <<< 7) ||| 127] ++ be64 f.length

/-- `impl From<Frame> for Vec<u8>` (after the D5 repair: the payload is XORed with the key when
`mask` is set). The length field comes from `f.length`, the payload bytes from `f.payload`. -/
def encodeFrame (f : Frame) : Bytes :=
  encodeHeader f ++ (if f.mask then f.key.toList else [])
    ++ (if f.mask then xorKey f.key 0 f.payload else f.payload)

/-- `Message::to_frame` for a message with the given `text` flag and payload. -/
def messageToFrame (text : Bool) (payload : Bytes) : Bytes :=
  if text then encodeFrame (Frame.new .text payload) else encodeFrame (Frame.new .binary payload)

/-! ### Reading -/

/-- `Read::read_exact(&mut buf)` with `buf.len() = n` over a scripted reader (`s` = the chunks not
yet handed out): `some (bytes, remaining script)` or `none` (`UnexpectedEof`). The loop calls `read`
only while the buffer is not full; a `read` returning no bytes ends it. -/
def readExact : Nat → List Bytes → Option (Bytes × List Bytes)
  | 0, s => some ([], s)
  | _ + 1, [] => none
  | n + 1, c :: cs =>
    if c.length = 0 then none
    else if c.length ≤ n + 1 then
      match readExact (n + 1 - c.length) cs with
      | none => none
      | some (bs, s) => some (c ++ bs, s)
    else some (c.take (n + 1), c.drop (n + 1) :: cs)

/-- What a decode did: the size requested by `vec![0; length as usize]` if execution got that far,
and the value returned (frame and the part of the stream not consumed). -/
structure DecodeResult (σ : Type) where
  alloc : Option Nat
  result : Except WsErr (Frame × σ)

/-- The extended-length block of `from_stream_inner`. -/
def readLength {σ : Type} (rd : Nat → σ → Option (Bytes × σ)) (len7 : Nat) (s : σ) :
    Option (Nat × σ) :=
  if len7 = 126 then
    match rd 2 s with
    | none => none
    | some (bs, s) => some (fromBe bs, s)
  else if len7 = 127 then
    match rd 8 s with
    | none => none
    | some (bs, s) => some (fromBe bs, s)
  else some (len7, s)

/-- The `masking_key` block of `from_stream_inner`. -/
def readKey {σ : Type} (rd : Nat → σ → Option (Bytes × σ)) (mask : Bool) (s : σ) :
    Option (Key × σ) :=
  if mask then
    match rd 4 s with
    | some ([a, b, c, d], s) => some (⟨a, b, c, d⟩, s)
    | _ => none
  else some (Key.zero, s)

/-- `Frame::from_stream_inner(stream, header)`. -/
def innerWith {σ : Type} (rd : Nat → σ → Option (Bytes × σ)) (s : σ) (h0 h1 : UInt8) :
    DecodeResult σ :=
  let fin := h0 &&& 0x80 != 0
  let rsv1 := h0 &&& 0x40 != 0
  let rsv2 := h0 &&& 0x20 != 0
  let rsv3 := h0 &&& 0x10 != 0
  match Opcode.ofNat? (h0 &&& 0xF).toNat with
  | none => ⟨none, .error .invalidOpcode⟩
  | some opcode =>
    let mask := h1 &&& 0x80 != 0
    match readLength rd (h1 &&& 0x7F).toNat s with
    | none => ⟨none, .error .readError⟩
    | some (length, s) =>
      match readKey rd mask s with
      | none => ⟨none, .error .readError⟩
      | some (key, s) =>
        -- `vec![0; length as usize]`, then `read_exact`
        match rd length s with
        | none => ⟨some length, .error .readError⟩
        | some (payload, s) =>
          ⟨some length, .ok ({ fin := fin, rsv1 := rsv1, rsv2 := rsv2, rsv3 := rsv3,
                               opcode := opcode, mask := mask, length := length, key := key,
                               payload := xorKey key 0 payload }, s)⟩

/-- `Frame::from_stream(stream)` for a stream whose `read_exact` is `rd`. -/
def decodeWith {σ : Type} (rd : Nat → σ → Option (Bytes × σ)) (s : σ) : DecodeResult σ :=
  match rd 2 s with
  | some ([h0, h1], s) => innerWith rd s h0 h1
  | _ => ⟨none, .error .readError⟩

/-- `Frame::from_stream` over a scripted reader, with the allocation record. -/
def decodeFrameFull (chunks : List Bytes) : DecodeResult (List Bytes) := decodeWith readExact chunks

/-- `Frame::from_stream` over a scripted reader: the frame and the chunks not consumed. -/
def decodeFrame (chunks : List Bytes) : Except WsErr (Frame × List Bytes) :=
  (decodeFrameFull chunks).result

end Humphrey.WsFrame
