import HumphreyModel.Model.Bytes
import HumphreyModel.Model.Percent
/-
Model of the static-file handlers:
  `humphrey/src/route.rs::try_find_path`,
  `humphrey/src/handlers.rs::{serve_as_file_path, serve_dir}`,
  `humphrey-server/src/server/static.rs::{directory_handler, file_handler, inner_file_handler}`,
  `humphrey/src/http/mime.rs::MimeType::from_extension` / `to_string`,
  `std::path::Path::extension`,
over a file-system world WITHOUT symbolic links.

Conventions. A Rust `String` (`request.uri`, the route pattern) is a `List Char`, because the server
strips the route prefix with `String::remove(0)` (one *character* at a time) and the glob matcher
of C05 works on `chars()`; the text handed to `try_find_path`, to the percent decoder and to the
operating system is its UTF-8 encoding (`utf8`), a `List UInt8`. File names are byte strings, as
on Linux. The current directory and `/` are both the world root (the harness passes the served
directory relative to the world root); `..` at the world root stays there, as `/..` = `/`.

`serveAsFilePath` is the REPAIRED handler (it rejects `..` as `try_find_path` does);
`serveAsFilePathUnchecked` is the handler as it was, kept for the witness of the old escape.
-/
namespace Humphrey.Fs
open Humphrey

abbrev Name := List UInt8

/-- A file-system object: a regular file with its bytes, or a directory (association list from
names to objects; the entry of a name is the first one carrying it). No symbolic links. -/
inductive Node
  | file (content : Bytes)
  | dir (entries : List (Name × Node))

/-- The directory entry called `n`. -/
def findEntry (n : Name) : List (Name × Node) → Option Node
  | [] => none
  | (k, v) :: rest => if k = n then some v else findEntry n rest

/-- Pure descent: the object reached from `node` by following `names` downward. -/
def lookup : Node → List Name → Option Node
  | n, [] => some n
  | .file _, _ :: _ => none
  | .dir es, c :: cs =>
    match findEntry c es with
    | some child => lookup child cs
    | none => none

/-- One step of the POSIX path walk. `cur` is the canonical path (names from the world root) of
the object reached so far; it must be a directory (`ENOTDIR` otherwise). A component containing
NUL fails (Rust refuses such a path before any system call), `""` and `.` stay, `..` goes to the
parent (the root is its own parent), a name must exist (`ENOENT`). -/
def step (world : Node) (cur : List Name) (c : Name) : Option (List Name) :=
  match lookup world cur with
  | some (.dir _) =>
    if c.contains 0 then none
    else if c = [] ∨ c = [46] then some cur
    else if c = [46, 46] then some cur.dropLast
    else
      match lookup world (cur ++ [c]) with
      | some _ => some (cur ++ [c])
      | none => none
  | _ => none

/-- The path walk over a list of components; the result is the canonical path. -/
def walk (world : Node) : List Name → List Name → Option (List Name)
  | cur, [] => some cur
  | cur, c :: cs =>
    match step world cur c with
    | some cur' => walk world cur' cs
    | none => none

/-- `resolve`: components (POSIX semantics) to the object they name. -/
def resolve (world : Node) (comps : List Name) : Option Node :=
  (walk world [] comps).bind (lookup world)

/-- Path text to components: split on `/`. -/
def components (path : Bytes) : List Name := Bytes.splitOn 47 path

/-- The canonical path of the directory a path text names. -/
def canonicalDir (world : Node) (directory : Bytes) : Option (List Name) :=
  walk world [] (components directory)

/-- `std::fs::metadata(path)` followed by `canonicalize`: the canonical path and the object. -/
def metadata (world : Node) (path : Bytes) : Option (List Name × Node) :=
  match walk world [] (components path) with
  | some canon =>
    match lookup world canon with
    | some n => some (canon, n)
    | none => none
  | none => none

/-- `File::open(path)` + `read_to_end` on a path text: only a regular file yields bytes
(`open` of a directory succeeds on Linux but `read` fails with `EISDIR`). -/
def readFile (world : Node) (path : Bytes) : Option Bytes :=
  match metadata world path with
  | some (_, .file c) => some c
  | _ => none

/-! ### Text helpers -/

/-- UTF-8 encoding of a Rust `String`. -/
def utf8 (s : List Char) : Bytes := s.flatMap String.utf8EncodeChar

/-- ASCII bytes (such as the output of `percent_encode`) as the characters of a `String`. -/
def asciiChars (bs : Bytes) : List Char := bs.map (fun b => Char.ofNat b.toNat)

/-- `s.contains("..")`. -/
def hasDotDot : Bytes → Bool
  | [] => false
  | a :: rest =>
    match rest with
    | [] => false
    | b :: _ => (a == 46 && b == 46) || hasDotDot rest

/-- `s.trim_start_matches('/')`. -/
def trimStartSlash (s : Bytes) : Bytes := s.dropWhile (· == 47)

/-- `s.trim_end_matches('/')`. -/
def trimEndSlash (s : Bytes) : Bytes := (s.reverse.dropWhile (· == 47)).reverse

/-- `s.ends_with('/')`. -/
def endsWithSlash (s : Bytes) : Bool := s.getLast? == some 47

/-- `s.strip_suffix('/').unwrap_or(s)`. -/
def stripOneEndSlash (s : Bytes) : Bytes := if endsWithSlash s then s.dropLast else s

/-- `rsplit_file_at_dot` + `before.and(after)` of `Path::extension` on a file name: the text after
the last `.`; none without a dot, for `..`, and for a name whose only dot is the leading one
(`.bashrc`); a name ending in `.` has the empty extension. `pre` is the reversed text read so far. -/
def splitLastDot : Bytes → Bytes → Option (Bytes × Bytes)
  | [], _ => none
  | b :: rest, pre =>
    match splitLastDot rest (b :: pre) with
    | some r => some r
    | none => if b = 46 then some (pre.reverse, rest) else none

def nameExtension (name : Name) : Option Bytes :=
  if name = [46, 46] then none
  else
    match splitLastDot name [] with
    | some (before, after) => if before = [] then none else some after
    | none => none

/-- `Path::extension` of a canonical path: that of its last name. -/
def canonExtension (canon : List Name) : Option Bytes :=
  match canon.getLast? with
  | some name => nameExtension name
  | none => none

/-- `Path::file_name` of a path text: `Path::components` drops empty components and `.`; the path
has a file name when the last remaining component is not `..`. -/
def rawFileName (path : Bytes) : Option Name :=
  match ((components path).filter (fun c => !(c == [] || c == [46]))).getLast? with
  | some c => if c = [46, 46] then none else some c
  | none => none

/-- `Path::extension` of a path text. -/
def rawExtension (path : Bytes) : Option Bytes :=
  match rawFileName path with
  | some n => nameExtension n
  | none => none

/-- `MimeType::from_extension(ext).to_string()` (mime.rs, both matches, line for line). -/
def mimeFromExtension (ext : Bytes) : Bytes :=
  if ext = [99, 115, 115] then [116, 101, 120, 116, 47, 99, 115, 115]                       -- text/css ←css
  else if ext = [104, 116, 109, 108] then [116, 101, 120, 116, 47, 104, 116, 109, 108]           -- text/html ←html
  else if ext = [104, 116, 109] then [116, 101, 120, 116, 47, 104, 116, 109, 108]                -- text/html ←htm
  else if ext = [106, 115] then [116, 101, 120, 116, 47, 106, 97, 118, 97, 115, 99, 114, 105, 112, 116]               -- text/javascript ←js
  else if ext = [109, 106, 115] then [116, 101, 120, 116, 47, 106, 97, 118, 97, 115, 99, 114, 105, 112, 116]          -- text/javascript ←mjs
  else if ext = [116, 120, 116] then [116, 101, 120, 116, 47, 112, 108, 97, 105, 110]               -- text/plain ←txt
  else if ext = [98, 109, 112] then [105, 109, 97, 103, 101, 47, 98, 109, 112]                 -- image/bmp ←bmp
  else if ext = [103, 105, 102] then [105, 109, 97, 103, 101, 47, 103, 105, 102]                -- image/gif ←gif
  else if ext = [106, 112, 101, 103] then [105, 109, 97, 103, 101, 47, 106, 112, 101, 103]          -- image/jpeg ←jpeg
  else if ext = [106, 112, 103] then [105, 109, 97, 103, 101, 47, 106, 112, 101, 103]               -- image/jpeg ←jpg
  else if ext = [112, 110, 103] then [105, 109, 97, 103, 101, 47, 112, 110, 103]                -- image/png ←png
  else if ext = [119, 101, 98, 112] then [105, 109, 97, 103, 101, 47, 119, 101, 98, 112]           -- image/webp ←webp
  else if ext = [115, 118, 103] then [105, 109, 97, 103, 101, 47, 115, 118, 103, 43, 120, 109, 108]            -- image/svg+xml ←svg
  else if ext = [105, 99, 111] then [105, 109, 97, 103, 101, 47, 118, 110, 100, 46, 109, 105, 99, 114, 111, 115, 111, 102, 116, 46, 105, 99, 111, 110]  -- image/vnd.microsoft.icon ←ico
  else if ext = [106, 115, 111, 110] then [97, 112, 112, 108, 105, 99, 97, 116, 105, 111, 110, 47, 106, 115, 111, 110]    -- application/json ←json
  else if ext = [112, 100, 102] then [97, 112, 112, 108, 105, 99, 97, 116, 105, 111, 110, 47, 112, 100, 102]          -- application/pdf ←pdf
  else if ext = [122, 105, 112] then [97, 112, 112, 108, 105, 99, 97, 116, 105, 111, 110, 47, 122, 105, 112]          -- application/zip ←zip
  else if ext = [109, 112, 52] then [118, 105, 100, 101, 111, 47, 109, 112, 52]                 -- video/mp4 ←mp4
  else if ext = [111, 103, 118] then [118, 105, 100, 101, 111, 47, 111, 103, 103]                -- video/ogg ←ogv
  else if ext = [119, 101, 98, 109] then [118, 105, 100, 101, 111, 47, 119, 101, 98, 109]           -- video/webm ←webm
  else if ext = [116, 116, 102] then [102, 111, 110, 116, 47, 116, 116, 102]                 -- font/ttf ←ttf
  else if ext = [111, 116, 102] then [102, 111, 110, 116, 47, 111, 116, 102]                 -- font/otf ←otf
  else if ext = [119, 111, 102, 102] then [102, 111, 110, 116, 47, 119, 111, 102, 102]           -- font/woff ←woff
  else if ext = [119, 111, 102, 102, 50] then [102, 111, 110, 116, 47, 119, 111, 102, 102, 50]      -- font/woff2 ←woff2
  else [97, 112, 112, 108, 105, 99, 97, 116, 105, 111, 110, 47, 111, 99, 116, 101, 116, 45, 115, 116, 114, 101, 97, 109]  -- application/octet-stream

/-! ### `try_find_path` -/

/-- `LocatedPath`. `file` carries the canonicalised path. -/
inductive Located
  | directory
  | file (path : List Name)

/-- `INDEX_FILES = ["index.html", "index.htm"]`. -/
def indexFiles : List Bytes :=
  [[105, 110, 100, 101, 120, 46, 104, 116, 109, 108], [105, 110, 100, 101, 120, 46, 104, 116, 109]]

/-- The `for filename in index_files` loop: the first index file that is a regular file. -/
def findIndex (world : Node) (directory requestPath : Bytes) : List Bytes → Option Located
  | [] => none
  | filename :: rest =>
    match metadata world (directory ++ [47] ++ requestPath ++ filename) with
    | some (canon, .file _) => some (.file canon)
    | _ => findIndex world directory requestPath rest

/-- `try_find_path(directory, request_path, index_files)`. -/
def tryFindPath (world : Node) (directory requestPath : Bytes) (index : List Bytes) : Option Located :=
  match Percent.decode requestPath with                       -- request_path.percent_decode()?
  | none => none
  | some decoded =>
    if !Bytes.utf8Valid decoded then none                     -- String::from_utf8(..).ok()?
    else if hasDotDot decoded || decoded.contains 58 then none   -- contains("..") || contains(':')
    else
      let requestPath := trimStartSlash decoded
      let directory := trimEndSlash directory
      if endsWithSlash requestPath || requestPath.isEmpty then
        findIndex world directory requestPath index
      else
        match metadata world (directory ++ [47] ++ requestPath) with
        | some (canon, .file _) => some (.file canon)
        | some (_, .dir _) => some .directory
        | none => none

/-! ### Handlers -/

/-- What a handler returns, as far as C06 observes it. `ok` also records (ghost field, not
observable) the canonical path of the file whose bytes were read. -/
inductive Resp
  | ok (contentType : Option Bytes) (body : Bytes) (served : List Name)   -- 200
  | moved (location : Bytes)                                             -- 301 + Location
  | notFound                                                             -- 404
  | internalError                                                        -- 500
  | panic

/-- `serve_as_file_path(directory_path)` as it was: the raw URI is joined under the directory. -/
def serveAsFilePathUnchecked (world : Node) (directoryPath : Bytes) (uri : List Char) : Resp :=
  let directoryPath := stripOneEndSlash directoryPath
  let filePath := match uri with                -- request.uri.strip_prefix('/').unwrap_or(uri)
    | '/' :: rest => rest
    | _ => uri
  let path := directoryPath ++ [47] ++ utf8 filePath
  match metadata world path with
  | some (canon, .file c) =>
    match rawExtension path with
    | some ext => .ok (some (mimeFromExtension ext)) c canon
    | none => .ok none c canon
  | _ => .notFound

/-- `serve_as_file_path(directory_path)` after the repair: a URI containing `..` is answered 404. -/
def serveAsFilePath (world : Node) (directoryPath : Bytes) (uri : List Char) : Resp :=
  if hasDotDot (utf8 uri) then .notFound
  else serveAsFilePathUnchecked world directoryPath uri

/-- `s.strip_prefix(p)`. -/
def stripPrefix : List Char → List Char → Option (List Char)
  | [], s => some s
  | _ :: _, [] => none
  | a :: p, b :: s => if a = b then stripPrefix p s else none

/-- `route.strip_suffix('*').unwrap_or(route)`. -/
def stripStarSuffix (route : List Char) : List Char :=
  if route.getLast? = some '*' then route.dropLast else route

/-- `serve_dir(directory_path)` called with the request and the route pattern. -/
def serveDir (world : Node) (directoryPath : Bytes) (uri route : List Char) : Resp :=
  let routeWithoutWildcard := stripStarSuffix route
  let uriWithoutRoute := (stripPrefix routeWithoutWildcard uri).getD uri
  match tryFindPath world directoryPath (utf8 uriWithoutRoute) indexFiles with
  | some .directory => .moved (utf8 uri ++ [47])
  | some (.file path) =>
    match lookup world path with                       -- File::open(&path) of the canonical path
    | some (.file c) =>
      match canonExtension path with
      | some ext => .ok (some (mimeFromExtension ext)) c path
      | none => .ok none c path
    | _ => .internalError
  | none => .notFound

/-- The loop `for ch in matches.chars() { if ch != '*' { uri.remove(0) } else { break } }`;
`none` = `String::remove(0)` on an empty string, which panics. -/
def stripMatched : List Char → List Char → Option (List Char)
  | [], uri => some uri
  | ch :: rest, uri =>
    if ch ≠ '*' then
      match uri with
      | [] => none
      | _ :: uri' => stripMatched rest uri'
    else some uri

/-- `inner_file_handler` on a canonical path (cache disabled). -/
def innerFileHandler (world : Node) (path : List Name) : Resp :=
  let ext := (canonExtension path).getD []
  match lookup world path with                         -- File::open(path).unwrap()
  | some (.file c) => .ok (some (mimeFromExtension ext)) c path
  | _ => .panic

/-- `directory_handler(request, state, directory, matches, host)`: address not blacklisted, cache
disabled (`size_limit = 0`). -/
def directoryHandler (world : Node) (directory : Bytes) (uri pattern : List Char) : Resp :=
  match stripMatched pattern uri with
  | none => .panic
  | some simplified =>
    match tryFindPath world directory (utf8 simplified) indexFiles with
    | some .directory => .moved (utf8 uri ++ [47])
    | some (.file path) => innerFileHandler world path
    | none => .notFound

/-- `file_handler(request, state, file, host)`: the configured file path text is opened as it is
(`File::open(path).unwrap()` panics when that fails; reading a directory fails as well). -/
def fileHandler (world : Node) (file : Bytes) : Resp :=
  let ext := (rawExtension file).getD []
  match metadata world file with
  | some (canon, .file c) => .ok (some (mimeFromExtension ext)) c canon
  | _ => .panic

end Humphrey.Fs
