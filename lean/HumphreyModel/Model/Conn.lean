import HumphreyModel.Model.Route
/-
Model of the connection loop `client_handler` in `humphrey/src/app.rs` (after the repairs: one
buffered reader per connection; OPTIONS responses go through the same header completion as all
others). Everything the loop cannot decide itself is a parameter: the handlers (`run`), the clock
(`now`, the text of the Date header), `IpAddr::from_str` (in `env`), how `&str`s decode to
characters (`decode`), and when the client pauses past the timeout (`idle`).
-/
namespace Humphrey.Http
open Humphrey Humphrey.Bytes

/-- Parameters of one connection. -/
structure ConnCfg (κ ω : Type) where
  app : App κ ω
  run : κ → Request → HandlerResult
  decode : Bytes → List Char
  env : Env
  now : Bytes
  /-- a connection timeout is configured -/
  timeout : Bool

/-- How the connection ended. -/
inductive Disposition
  | closed                 -- the server closed after a response (no keep-alive, 400, 408)
  | disconnected           -- the client went away between requests (or mid-request)
  | websocket (h : Bool)   -- handed to a WebSocket route (`true`) or dropped without upgrade (`false`)
  | handlerPanicked        -- a handler panicked: nothing more is written
  | parserPanicked
  | outOfFuel
deriving DecidableEq, Repr

structure ConnResult (σ ω : Type) where
  /-- what was written, one entry per `write_all` -/
  written : List Bytes
  /-- requests handed to handlers, in order -/
  dispatched : List Request
  ws : Option ω
  disposition : Disposition
  rest : σ

def hServerValue : Bytes := [72, 117, 109, 112, 104, 114, 101, 121]          -- "Humphrey"
def keepAliveLower : Bytes := [107, 101, 101, 112, 45, 97, 108, 105, 118, 101]  -- "keep-alive"
def websocketValue : Bytes := [119, 101, 98, 115, 111, 99, 107, 101, 116]     -- "websocket"
def closeValue : Bytes := [67, 108, 111, 115, 101]                            -- "Close"
def keepAliveValue : Bytes := [75, 101, 101, 112, 45, 65, 108, 105, 118, 101] -- "Keep-Alive"
def http11 : Bytes := [72, 84, 84, 80, 47, 49, 46, 49]

/-- `error_handler(status)`: `<html><body><h1>{code} {phrase}</h1></body></html>`, no headers. -/
def errorResponse (code : Nat) : Response :=
  ⟨http11, code, [],
   [60, 104, 116, 109, 108, 62, 60, 98, 111, 100, 121, 62, 60, 104, 49, 62] ++ natToBytes code ++ [32] ++
   reasonPhrase code ++ [60, 47, 104, 49, 62, 60, 47, 98, 111, 100, 121, 62, 60, 47, 104, 116, 109, 108, 62]⟩

def addIfAbsent (hs : Headers) (n : HName) (v : Bytes) : Headers :=
  if (hs.get n).isSome then hs else hs ++ [⟨n, v⟩]

/-- "Automatically generate required headers" and the version echo. -/
def completeResponse (now : Bytes) (req : Request) (r : Response) : Response :=
  let hs := addIfAbsent r.headers hConnection ((req.headers.get hConnection).getD closeValue)
  let hs := addIfAbsent hs hServer hServerValue
  let hs := addIfAbsent hs hDate now
  let hs := addIfAbsent hs hContentLength (natToBytes r.body.length)
  { r with headers := hs, version := req.version }

/-- The response to one well-formed, non-upgrade request (`none` = the handler panicked). -/
def respond {κ ω : Type} (cfg : ConnCfg κ ω) (req : Request) (keepAlive : Bool) : Option Response :=
  let host := (req.headers.get hHost).map cfg.decode
  let handler := getHandler cfg.app host (cfg.decode req.uri)
  if req.method = .options then
    match handler with
    | some h =>
      let hs : Headers := [⟨hDate, cfg.now⟩, ⟨hServer, hServerValue⟩,
        ⟨hConnection, if keepAlive then keepAliveValue else closeValue⟩]
      -- a 204 carries no Content-Length (RFC 9110 §8.6); it echoes the request's version
      some ⟨req.version, 204, h.cors.setHeaders hs, []⟩
    | none => some (completeResponse cfg.now req (errorResponse 404))
  else
    match handler with
    | some h =>
      match cfg.run h.handler req with
      | .panic => none
      | .response r => some (completeResponse cfg.now req { r with headers := h.cors.setHeaders r.headers })
    | none => some (completeResponse cfg.now req (errorResponse 404))

/-- The loop. `idle s = some s'` means: the next thing on the stream is a pause longer than the
timeout (consumed by `s'`); it is only consulted between requests, as in the code. -/
def serveLoop {σ κ ω : Type} (S : Source σ) (idle : σ → Option σ) (cfg : ConnCfg κ ω) :
    Nat → σ → List Bytes → List Request → ConnResult σ ω
  | 0, s, w, d => ⟨w, d, none, .outOfFuel, s⟩
  | fuel + 1, s, w, d =>
    match (if cfg.timeout then idle s else none) with
    | some s' => ⟨w ++ [serializeResponse (errorResponse 408)], d, none, .closed, s'⟩
    | none =>
      match parseRequest S cfg.env s with
      | .panic => ⟨w, d, none, .parserPanicked, s⟩
      | .err .request => ⟨w ++ [serializeResponse (errorResponse 400)], d, none, .closed, s⟩
      | .err .timeout => ⟨w ++ [serializeResponse (errorResponse 408)], d, none, .closed, s⟩
      | .err .disconnected => ⟨w, d, none, .disconnected, s⟩
      | .err .stream => ⟨w, d, none, .disconnected, s⟩
      | .ok (req, s') =>
        if req.headers.get hUpgrade = some websocketValue then
          let h := wsHandler cfg.app ((req.headers.get hHost).map cfg.decode) (cfg.decode req.uri)
          ⟨w, d, h, .websocket h.isSome, s'⟩
        else
          let keepAlive := match req.headers.get hConnection with
            | some c => asciiLower c = keepAliveLower
            | none => false
          let handled := (getHandler cfg.app ((req.headers.get hHost).map cfg.decode) (cfg.decode req.uri)).isSome
          let d' := if handled ∧ req.method ≠ .options then d ++ [req] else d
          match respond cfg req keepAlive with
          | none => ⟨w, d', none, .handlerPanicked, s'⟩
          | some resp =>
            let w' := w ++ [serializeResponse resp]
            if keepAlive then serveLoop S idle cfg fuel s' w' d'
            else ⟨w', d', none, .closed, s'⟩

/-- `client_handler` on a fresh connection. -/
def serve {σ κ ω : Type} (S : Source σ) (idle : σ → Option σ) (cfg : ConnCfg κ ω) (s : σ) :
    ConnResult σ ω :=
  serveLoop S idle cfg (S.remaining s + 1) s [] []

/-- An empty chunk in a reader script marks a pause past the timeout (a `read` that returns no data
in time); it is visible only when nothing is buffered. -/
def readerIdle (r : IO.Reader) : Option IO.Reader :=
  if r.buf.isEmpty then
    match r.chunks with
    | [] :: cs => some ⟨[], cs⟩
    | _ => none
  else none

end Humphrey.Http
