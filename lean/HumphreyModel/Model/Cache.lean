/-
Model of `humphrey-server/src/server/cache.rs` (`Cache::get`, `Cache::set`) and of the way
`static.rs` uses the cache (`cache_check` + `inner_file_handler` = `serve`).

Faithfulness notes (what is modelled, line by line):
* `data : VecDeque<CachedItem>` is a `List Item`, oldest (front) first; `push_back` = `++ [item]`,
  `pop_front` = tail.
* `iter().position(p)` followed by `self.data[index]` is `find` (the first element satisfying `p`);
  `position` followed by `self.data.remove(index)` is `remove` (erase the first element satisfying `p`).
* "now" is an explicit argument (hook H5: `VERIF_NOW`).  In `get`, `time - item.cache_time` is a
  `u64` subtraction: with overflow checks on (the harness build) it panics when the clock has gone
  backwards; that is the `.panic` branch of `get`.  (Without overflow checks it wraps to a huge number
  and the lookup answers `None`; the theorems assume a non-decreasing clock wherever this matters.)
* In `set` the eviction loop `while cache_size + len > cache_limit { cache_size -= data[0].len;
  pop_front }` runs BEFORE the existing entry for the key is removed; `data[0]` on an empty deque
  panics (`evict` on `[]`), and `cache_size -= …` panics on underflow (cannot happen when the counter
  is the sum of the lengths, which is an invariant, but it is modelled).
* `usize`/`u64` are modelled by `Nat` (no sequence of operations reaches 2^64 bytes or seconds).
-/
namespace Humphrey.Cache

/-- Result of a Rust call that may panic. -/
inductive Outcome (α : Type) where
  | ok : α → Outcome α
  | panic : Outcome α
deriving Repr, DecidableEq

/-- `CachedItem`. `mime` is the index of the `MimeType` variant. -/
structure Item where
  route : String
  host : Nat
  mime : Nat
  time : Nat
  data : List UInt8
deriving Repr, DecidableEq

/-- `Cache`: `cache_limit`, `cache_time_limit`, `cache_size`, `data` (front of the deque first). -/
structure Cache where
  limit : Nat
  timeLimit : Nat
  size : Nat
  data : List Item
deriving Repr, DecidableEq

/-- `Cache::from(&Config)` / `Cache::verif_new`. -/
def empty (limit timeLimit : Nat) : Cache := ⟨limit, timeLimit, 0, []⟩

/-- The closure `|item| item.route == route && item.host == host`. -/
def isKey (route : String) (host : Nat) (it : Item) : Bool :=
  it.route == route && it.host == host

/-- `data.iter().position(isKey)` followed by `data[index]`: the first entry for the key. -/
def find (route : String) (host : Nat) : List Item → Option Item
  | [] => none
  | it :: rest => if isKey route host it then some it else find route host rest

/-- `data.remove(index)` for `index = position(isKey)`: erase the first entry for the key. -/
def remove (route : String) (host : Nat) : List Item → List Item
  | [] => []
  | it :: rest => if isKey route host it then rest else it :: remove route host rest

/-- `Cache::get` with the current time `now` (seconds). -/
def get (now : Nat) (c : Cache) (route : String) (host : Nat) : Outcome (Option Item) :=
  match find route host c.data with
  | some it =>
    if now < it.time then .panic                       -- `time - item.cache_time` overflows
    else if now - it.time > c.timeLimit then .ok none  -- stale
    else .ok (some it)
  | none => .ok none

/-- The loop `while cache_size + len > cache_limit { cache_size -= data[0].data.len(); data.pop_front(); }`
on the pair (`cache_size`, `data`). -/
def evict (len limit : Nat) : Nat → List Item → Outcome (Nat × List Item)
  | size, [] => if size + len > limit then .panic /- `self.data[0]` on an empty deque -/ else .ok (size, [])
  | size, it :: rest =>
    if size + len > limit then
      if size < it.data.length then .panic             -- `cache_size -= …` underflow
      else evict len limit (size - it.data.length) rest
    else .ok (size, it :: rest)

/-- `Cache::set` with the current time `now`. -/
def set (now : Nat) (c : Cache) (route : String) (host : Nat) (bytes : List UInt8) (mime : Nat) :
    Outcome Cache :=
  match evict bytes.length c.limit c.size c.data with
  | .panic => .panic
  | .ok (size₁, data₁) =>
    let item : Item := ⟨route, host, mime, now, bytes⟩
    match find route host data₁ with
    | some old =>
      if size₁ < old.data.length then .panic           -- `cache_size -= …` underflow
      else .ok { c with size := size₁ - old.data.length + bytes.length,
                        data := remove route host data₁ ++ [item] }
    | none => .ok { c with size := size₁ + bytes.length, data := data₁ ++ [item] }

/-- What a static handler answers with: hit or miss, the body and the MIME index. -/
structure Served where
  hit : Bool
  body : List UInt8
  mime : Nat
deriving Repr, DecidableEq

/-- `cache_check` followed by `inner_file_handler` for a request whose file currently holds `contents`
(with MIME type `mime` derived from the path): the cache is consulted only when `size_limit > 0`; on a
miss the file is read and stored when `size_limit >= contents.len()`.  `c.limit` is
`config.cache.size_limit` (the cache is built from the same configuration). -/
def serve (now : Nat) (c : Cache) (uri : String) (host : Nat) (contents : List UInt8) (mime : Nat) :
    Outcome (Cache × Served) :=
  let miss : Outcome (Cache × Served) :=
    if c.limit ≥ contents.length then
      match set now c uri host contents mime with
      | .ok c' => .ok (c', ⟨false, contents, mime⟩)
      | .panic => .panic
    else .ok (c, ⟨false, contents, mime⟩)
  if c.limit > 0 then
    match get now c uri host with
    | .panic => .panic
    | .ok (some it) => .ok (c, ⟨true, it.data, it.mime⟩)
    | .ok none => miss
  else miss

end Humphrey.Cache
