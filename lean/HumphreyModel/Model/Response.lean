import HumphreyModel.Model.Http
/-
Model of `humphrey/src/http/response.rs` (serialiser, `Response::from_stream`, `parse_chunk`),
`status.rs` (through the generated table) and `cookie.rs` (`SetCookie → Header`).
-/
namespace Humphrey.Http
open Humphrey Humphrey.Bytes

structure Response where
  version : Bytes
  status : Nat          -- the numeric code; a `StatusCode` is a code of the generated table
  headers : Headers
  body : Bytes
deriving DecidableEq, Repr

def statusLookup (c : Nat) : List (Nat × Nat × Bytes) → Option (Nat × Bytes)
  | [] => none
  | (k, back, p) :: rest => if k = c then some (back, p) else statusLookup c rest

/-- `StatusCode::try_from(code)` succeeds. -/
def statusKnown (c : Nat) : Bool := (statusLookup c Generated.statusTable).isSome

/-- `Into::<&str>::into(status)`. -/
def reasonPhrase (c : Nat) : Bytes :=
  match statusLookup c Generated.statusTable with
  | some (_, p) => p
  | none => []

/-- `Into::<u16>::into(status)` for the status obtained from code `c`. -/
def statusCodeOut (c : Nat) : Nat :=
  match statusLookup c Generated.statusTable with
  | some (back, _) => back
  | none => c

/-- `impl From<Response> for Vec<u8>`: note the CRLF appended after a non-empty body. -/
def serializeResponse (r : Response) : Bytes :=
  r.version ++ [SP] ++ natToBytes (statusCodeOut r.status) ++ [SP] ++ reasonPhrase r.status ++
  (r.headers.sorted.flatMap (fun h => crlf ++ h.name.display ++ [58, SP] ++ h.value)) ++
  crlf ++ crlf ++ (if r.body.isEmpty then [] else r.body ++ crlf)

inductive RespErr | response | stream
deriving DecidableEq, Repr

/-- `str::splitn(3, ' ')`. -/
def splitn3 (s : Bytes) : List Bytes :=
  match splitOnce SP s with
  | (a, none) => [a]
  | (a, some rest) =>
    match splitOnce SP rest with
    | (b, none) => [a, b]
    | (b, some c) => [a, b, c]

def parseRespHeaderLine (line : Bytes) : Outcome RespErr Header :=
  if !utf8Valid line then .err .response
  else
    match stripCrlf line with
    | none => .err .response
    | some body =>
      match splitOnce 58 body with
      | (_, none) => .err .response
      | (name, some value) => .ok ⟨HName.ofName name, trimStart value⟩

def parseRespHeaders {σ : Type} (S : Source σ) : Nat → σ → Headers → Outcome RespErr (Headers × σ)
  | 0, _, _ => .err .response
  | fuel + 1, s, acc =>
    let (line, s') := S.readUntil LF s
    if line = crlf then .ok (acc, s')
    else match parseRespHeaderLine line with
      | .ok h => parseRespHeaders S fuel s' (acc ++ [h])
      | .err e => .err e
      | .panic => .panic

/-- `parse_chunk` after the D20 repair: `ok none` = last chunk, errors are errors. -/
def parseChunk {σ : Type} (S : Source σ) (s : σ) : Outcome RespErr (Option Bytes × σ) :=
  let (line, s1) := S.readUntil LF s
  if !utf8Valid line then .err .response
  else match parseHexUsize (trimEnd line) with
    | none => .err .response
    | some 0 =>
      match S.readExact 2 s1 with
      | none => .err .stream
      | some (_, s2) => .ok (none, s2)
    | some n =>
      match S.readExact n s1 with
      | none => .err .stream
      | some (data, s2) =>
        match S.readExact 2 s2 with
        | none => .err .stream
        | some (_, s3) => .ok (some data, s3)

def parseChunks {σ : Type} (S : Source σ) : Nat → σ → Bytes → Outcome RespErr (Bytes × σ)
  | 0, _, _ => .err .stream
  | fuel + 1, s, acc =>
    match parseChunk S s with
    | .ok (none, s') => .ok (acc, s')
    | .ok (some d, s') => parseChunks S fuel s' (acc ++ d)
    | .err e => .err e
    | .panic => .panic

def chunkedValue : Bytes := [99, 104, 117, 110, 107, 101, 100]

/-- The status line: UTF-8, `splitn(3, ' ')` into exactly three parts, a `u16` the status table knows. -/
def parseStatusLine (line : Bytes) : Option (Bytes × Nat) :=
  if !utf8Valid line then none
  else
    match splitn3 line with
    | [version, code, _] =>
      match parseU16 code with
      | none => none
      | some c => if statusKnown c then some (version, c) else none
    | _ => none

/-- Statuses that never carry a body (RFC 9112 §6.3): 1xx, 204, 304. -/
def noBodyStatus (c : Nat) : Bool := c < 200 || c = 204 || c = 304

/-- Everything up to end of stream (`read_to_end`), by repeated `read_until`. -/
def readRest {σ : Type} (S : Source σ) : Nat → σ → Bytes → Bytes × σ
  | 0, s, acc => (acc, s)
  | fuel + 1, s, acc =>
    let (line, s') := S.readUntil LF s
    if line.isEmpty then (acc, s') else readRest S fuel s' (acc ++ line)

/-- The body: chunked (reported as a plain body with its length), else Content-Length, else — for
statuses that may carry one — everything until the peer closes (close-delimited, after the D20
repair), else empty. -/
def parseBody {σ : Type} (S : Source σ) (code : Nat) (headers : Headers) (s : σ) :
    Outcome RespErr ((Headers × Bytes) × σ) :=
  if headers.get hTransferEncoding = some chunkedValue then
    match parseChunks S (S.remaining s + 1) s [] with
    | .err e => .err e
    | .panic => .panic
    | .ok (body, s') =>
      .ok (((headers.remove hTransferEncoding) ++ [⟨hContentLength, natToBytes body.length⟩], body), s')
  else
    match headers.get hContentLength with
    | some cl =>
      match parseUsize cl with
      | none => .err .response
      | some n =>
        match S.readExact n s with
        | none => .err .stream
        | some (body, s') => .ok ((headers, body), s')
    | none =>
      if noBodyStatus code then .ok ((headers, []), s)
      else
        let (body, s') := readRest S (S.remaining s + 1) s []
        .ok ((headers, body), s')

/-- `Response::from_stream`. -/
def parseResponse {σ : Type} (S : Source σ) (s : σ) : Outcome RespErr (Response × σ) :=
  let (line, s1) := S.readUntil LF s
  match parseStatusLine line with
  | none => .err .response
  | some (version, c) =>
    match parseRespHeaders S (S.remaining s1 + 1) s1 [] with
    | .err e => .err e
    | .panic => .panic
    | .ok (headers, s2) =>
      match parseBody S c headers s2 with
      | .err e => .err e
      | .panic => .panic
      | .ok ((hs, body), s3) => .ok (⟨version, c, hs, body⟩, s3)

/-! ## Set-Cookie -/

inductive SameSite | strict | lax | none
deriving DecidableEq, Repr

structure SetCookie where
  name : Bytes
  value : Bytes
  expires : Option Bytes := none
  maxAge : Option Nat := none
  domain : Option Bytes := none
  path : Option Bytes := none
  secure : Bool := false
  httpOnly : Bool := false
  sameSite : Option SameSite := none
deriving Repr

def hSetCookie : HName := ⟨[115, 101, 116, 45, 99, 111, 111, 107, 105, 101]⟩

/-- `if let Some(x) = field { value = format!("{}; Label={}", value, x) }`. -/
def cookieAttr (v label : Bytes) (o : Option Bytes) : Bytes :=
  match o with
  | some x => v ++ [59, 32] ++ label ++ x
  | none => v

/-- `if flag { value = format!("{}; Label", value) }`. -/
def cookieFlag (v label : Bytes) (flag : Bool) : Bytes :=
  if flag then v ++ [59, 32] ++ label else v

def SameSite.name : SameSite → Bytes
  | .strict => [83, 116, 114, 105, 99, 116]
  | .lax => [76, 97, 120]
  | .none => [78, 111, 110, 101]

/-- `impl From<SetCookie> for Header`: attributes in the fixed order
Expires, Max-Age, Domain, Path, SameSite, Secure, HttpOnly. -/
def SetCookie.toHeader (c : SetCookie) : Header :=
  let v : Bytes := c.name ++ [61] ++ c.value
  let v := cookieAttr v [69, 120, 112, 105, 114, 101, 115, 61] c.expires
  let v := cookieAttr v [77, 97, 120, 45, 65, 103, 101, 61] (c.maxAge.map natToBytes)
  let v := cookieAttr v [68, 111, 109, 97, 105, 110, 61] c.domain
  let v := cookieAttr v [80, 97, 116, 104, 61] c.path
  let v := cookieAttr v [83, 97, 109, 101, 83, 105, 116, 101, 61] (c.sameSite.map SameSite.name)
  let v := cookieFlag v [83, 101, 99, 117, 114, 101] c.secure
  let v := cookieFlag v [72, 116, 116, 112, 79, 110, 108, 121] c.httpOnly
  ⟨hSetCookie, v⟩

end Humphrey.Http
