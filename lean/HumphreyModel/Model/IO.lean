import HumphreyModel.Model.Bytes
/-
Byte sources. `Reader` models `std::io::BufReader` over a stream whose successive `read`
calls return the given chunks (so every segmentation of the client's bytes is a value of this
type); `Flat` is the same stream seen as one byte string. The parsers are written once,
against `Source`, and run on either.
-/
namespace Humphrey

/-- The two operations the HTTP parsers use. -/
structure Source (σ : Type) where
  /-- `BufRead::read_until(delim, &mut buf)`: the bytes up to and including the first
  `delim`, or everything up to end-of-stream when there is none. -/
  readUntil : UInt8 → σ → Bytes × σ
  /-- `Read::read_exact` of `n` bytes; `none` = `UnexpectedEof`. -/
  readExact : Nat → σ → Option (Bytes × σ)
  /-- Bytes still to come (used only as recursion fuel). -/
  remaining : σ → Nat

namespace IO

/-- Prefix of `s` through the first `d` and what follows it; `none` when `d` does not occur. -/
def takeThrough (d : UInt8) : Bytes → Option (Bytes × Bytes)
  | [] => none
  | b :: rest =>
    if b = d then some ([b], rest)
    else match takeThrough d rest with
      | some (pre, post) => some (b :: pre, post)
      | none => none

/-- A buffered reader: bytes already buffered, then the chunks later `read`s will return. -/
structure Reader where
  buf : Bytes
  chunks : List Bytes

/-- Everything the reader will ever deliver. -/
def Reader.rest (r : Reader) : Bytes := r.buf ++ r.chunks.flatten

def readUntilAux (d : UInt8) (buf : Bytes) : List Bytes → Bytes × Reader
  | [] =>
    match takeThrough d buf with
    | some (pre, post) => (pre, ⟨post, []⟩)
    | none => (buf, ⟨[], []⟩)
  | c :: cs =>
    match takeThrough d buf with
    | some (pre, post) => (pre, ⟨post, c :: cs⟩)
    | none => let (more, r) := readUntilAux d c cs; (buf ++ more, r)

def Reader.readUntil (d : UInt8) (r : Reader) : Bytes × Reader :=
  readUntilAux d r.buf r.chunks

def readExactAux (n : Nat) (buf : Bytes) : List Bytes → Option (Bytes × Reader)
  | [] => if n ≤ buf.length then some (buf.take n, ⟨buf.drop n, []⟩) else none
  | c :: cs =>
    if n ≤ buf.length then some (buf.take n, ⟨buf.drop n, c :: cs⟩)
    else match readExactAux (n - buf.length) c cs with
      | some (more, r) => some (buf ++ more, r)
      | none => none

def Reader.readExact (n : Nat) (r : Reader) : Option (Bytes × Reader) :=
  readExactAux n r.buf r.chunks

def readerSource : Source Reader where
  readUntil := Reader.readUntil
  readExact := Reader.readExact
  remaining := fun r => r.rest.length

/-- The same operations on the concatenated stream. -/
def flatReadUntil (d : UInt8) (s : Bytes) : Bytes × Bytes :=
  match takeThrough d s with
  | some (pre, post) => (pre, post)
  | none => (s, [])

def flatReadExact (n : Nat) (s : Bytes) : Option (Bytes × Bytes) :=
  if n ≤ s.length then some (s.take n, s.drop n) else none

def flatSource : Source Bytes where
  readUntil := flatReadUntil
  readExact := flatReadExact
  remaining := fun s => s.length

end IO
end Humphrey
