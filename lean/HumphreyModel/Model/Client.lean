import HumphreyModel.Model.Response
/-
Model of `humphrey/src/client.rs`: `Client::parse_url` (http only) and `ClientRequest::send` with
redirect following. The network is a parameter: `net req` is the response the server reached by
`req` sends (`none` = connection or parse failure); one connection per hop, as in the code.
-/
namespace Humphrey.Http
open Humphrey Humphrey.Bytes

structure CReq where
  host : Bytes      -- value of the Host header (= authority of the URL)
  uri : Bytes
  query : Bytes
deriving DecidableEq, Repr

def httpPrefix : Bytes := [104, 116, 116, 112, 58, 47, 47]   -- "http://"
def http11c : Bytes := [72, 84, 84, 80, 47, 49, 46, 49]          -- "HTTP/1.1"

/-- `Client::parse_url` for `http://` URLs: host up to the first `/`, then path and query. -/
def parseUrl (u : Bytes) : Option CReq :=
  if httpPrefix.isPrefixOf u then
    let rest := u.drop httpPrefix.length
    let (host, path) := match splitOnce 47 rest with
      | (h, some p) => (h, p)
      | (h, none) => (h, [])
    let (p, q) := match splitOnce 63 path with
      | (p, some q) => (p, q)
      | (p, none) => (p, [])
    some ⟨host, 47 :: p, q⟩
  else none

/-- The request line the client writes (`impl From<Request> for Vec<u8>`). -/
def CReq.line (r : CReq) : Bytes :=
  [71, 69, 84, 32] ++ r.uri ++ (if r.query.isEmpty then [] else 63 :: r.query) ++ [32] ++ http11c

def isRedirect (c : Nat) : Bool := c = 301 || c = 302 || c = 307

/-- Where a redirect leads: a Location starting with `/` replaces the URI of the same request (the
old query string is kept — as the code does); anything else must be an absolute `http://` URL. -/
def follow (r : CReq) (location : Bytes) : Option CReq :=
  match location with
  | 47 :: _ => some { r with uri := location }
  | _ => parseUrl location

/-- `ClientRequest::send`: the final response and the requests made, in order. -/
def clientSend (net : CReq → Option Response) (followRedirects : Bool) :
    Nat → CReq → Option Response × List CReq
  | 0, _ => (none, [])
  | fuel + 1, r =>
    match net r with
    | none => (none, [r])
    | some resp =>
      if followRedirects && isRedirect resp.status then
        match resp.headers.get hLocation with
        | none => (none, [r])
        | some l =>
          match follow r l with
          | none => (none, [r])
          | some r' =>
            let (final, log) := clientSend net followRedirects fuel r'
            (final, r :: log)
      else (some resp, [r])

end Humphrey.Http
