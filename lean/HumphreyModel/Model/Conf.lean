import HumphreyModel.Model.Glob

/-
Model of `humphrey-server/src/config/{tree,traceback,extended_hashmap,config}.rs`
(after the C15 repairs: `parse_size` slices at a character boundary and multiplies checked,
host names with an unbalanced quote are rejected, section/include nesting is limited).

Text is `List Char` (Rust `&str` is valid UTF-8 and the code works on `chars()`, except for the
byte-indexed slices, which are modelled by `byteSlice` with an explicit panic outcome).

`parse_section` is a recursive function that reads lines from one shared iterator; the model
runs the same loop with an explicit stack of open sections (`goLines`): entering the recursive
call = push, returning from it = pop. Line numbers are those of `TracebackIterator`
(`current_line` = number of `next()` calls made, including the one that returned `None`).
-/
namespace Humphrey.Conf
open Humphrey.Glob

abbrev Str := List Char

/-- Result of a Rust computation that returns `Result` and may panic. -/
inductive Res (ε α : Type) where
  | ok (a : α)
  | err (e : ε)
  | panic
  deriving Repr, DecidableEq

/-! ## `str` primitives -/

/-- `char::is_whitespace` (Unicode `White_Space`). -/
def isWhitespace (c : Char) : Bool :=
  let n := c.toNat
  (9 ≤ n && n ≤ 13) || n == 32 || n == 0x85 || n == 0xA0 || n == 0x1680 ||
  (0x2000 ≤ n && n ≤ 0x200A) || n == 0x2028 || n == 0x2029 || n == 0x202F || n == 0x205F ||
  n == 0x3000

def trimStart (s : Str) : Str := s.dropWhile isWhitespace
def trimEnd (s : Str) : Str := (s.reverse.dropWhile isWhitespace).reverse
/-- `str::trim`. -/
def trim (s : Str) : Str := trimEnd (trimStart s)

/-- `str::split_once(c)`: text before and after the first `c`. -/
def splitOnce (c : Char) : Str → Option (Str × Str)
  | [] => none
  | d :: s =>
    if d = c then some ([], s)
    else match splitOnce c s with
      | some (a, b) => some (d :: a, b)
      | none => none

/-- `str::strip_suffix(c)`. -/
def stripSuffixChar (c : Char) (s : Str) : Option Str :=
  match s.reverse with
  | d :: r => if d = c then some r.reverse else none
  | [] => none

/-- `str::len()`: length in bytes. -/
def utf8Len : Str → Nat
  | [] => 0
  | c :: s => c.utf8Size + utf8Len s

/-- The first `n` bytes; `none` when `n` is past the end or inside a character. -/
def takeBytes : Str → Nat → Option Str
  | _, 0 => some []
  | [], _ + 1 => none
  | c :: s, n + 1 =>
    if c.utf8Size ≤ n + 1 then (takeBytes s (n + 1 - c.utf8Size)).map (c :: ·) else none

/-- Everything after the first `n` bytes; `none` as for `takeBytes`. -/
def dropBytes : Str → Nat → Option Str
  | s, 0 => some s
  | [], _ + 1 => none
  | c :: s, n + 1 => if c.utf8Size ≤ n + 1 then dropBytes s (n + 1 - c.utf8Size) else none

/-- `&s[lo..hi]`; `none` = the slice panics (`lo > hi`, `hi > len`, not a char boundary). -/
def byteSlice (s : Str) (lo hi : Nat) : Option Str :=
  if lo ≤ hi then (takeBytes s hi).bind (fun p => dropBytes p lo) else none

/-- `&v[1..v.len() - 1]` (the subtraction itself panics on the empty string; `0 - 1 = 0` in
`Nat` makes the slice `[1..0]`, which panics as well). -/
def innerSlice (v : Str) : Option Str := byteSlice v 1 (utf8Len v - 1)

/-- `str::lines`: pieces of `split_inclusive('\n')`, each without its `\n` and then without
one `\r` before it; a last piece without `\n` is returned as it is. -/
def stripCr (s : Str) : Str :=
  match stripSuffixChar '\r' s with
  | some r => r
  | none => s

def splitLinesAux : Str → Str → List Str
  | [], cur => if cur.isEmpty then [] else [cur.reverse]
  | c :: rest, cur =>
    if c = '\n' then stripCr cur.reverse :: splitLinesAux rest []
    else splitLinesAux rest (c :: cur)

def splitLines (s : Str) : List Str := splitLinesAux s []

/-! ## numbers -/

def digitVal (c : Char) : Option Nat :=
  if '0' ≤ c ∧ c ≤ '9' then some (c.toNat - 48) else none

def parseNatAux : Str → Nat → Option Nat
  | [], acc => some acc
  | c :: s, acc =>
    match digitVal c with
    | some d => parseNatAux s (acc * 10 + d)
    | none => none

/-- One or more ASCII digits. -/
def parseDigits (s : Str) : Option Nat := if s.isEmpty then none else parseNatAux s 0

def i64Max : Int := 9223372036854775807
def i64Min : Int := -9223372036854775808

/-- `str::parse::<i64>`: optional sign, digits, range check. -/
def parseI64 (s : Str) : Option Int :=
  match s with
  | [] => none
  | c :: r =>
    if c = '+' then
      match parseDigits r with
      | some n => if (n : Int) ≤ i64Max then some n else none
      | none => none
    else if c = '-' then
      match parseDigits r with
      | some n => if i64Min ≤ -(n : Int) then some (-(n : Int)) else none
      | none => none
    else
      match parseDigits s with
      | some n => if (n : Int) ≤ i64Max then some n else none
      | none => none

/-- `str::parse::<uN>`: optional `+`, digits, `< 2^bits`. -/
def parseUnsigned (bits : Nat) (s : Str) : Option Nat :=
  match s with
  | [] => none
  | c :: r =>
    match parseDigits (if c = '+' then r else s) with
    | some n => if n < 2 ^ bits then some n else none
    | none => none

/-- `str::parse::<bool>`. -/
def parseBool (s : Str) : Option Bool :=
  if s = "true".toList then some true else if s = "false".toList then some false else none

def digitChar (d : Nat) : Char := Char.ofNat (48 + d)

/-- Decimal digits of a natural number (`u64::to_string`). -/
def showNat (n : Nat) : Str :=
  if _h : n < 10 then [digitChar n] else showNat (n / 10) ++ [digitChar (n % 10)]
termination_by n
decreasing_by omega

/-- `i64::to_string`. -/
def showInt (i : Int) : Str := if i < 0 then '-' :: showNat i.natAbs else showNat i.toNat

/-- `i64::checked_mul`. -/
def checkedMul (a b : Int) : Option Int :=
  let p := a * b
  if i64Min ≤ p ∧ p ≤ i64Max then some p else none

/-- `char::to_ascii_uppercase`. -/
def toAsciiUpper (c : Char) : Char :=
  if 'a' ≤ c ∧ c ≤ 'z' then Char.ofNat (c.toNat - 32) else c

def toAsciiLower (c : Char) : Char :=
  if 'A' ≤ c ∧ c ≤ 'Z' then Char.ofNat (c.toNat + 32) else c

/-- Multiplier of a unit letter (already upper-cased). -/
def unitMult (c : Char) : Option Int :=
  if c = 'K' then some 1024
  else if c = 'M' then some (1024 * 1024)
  else if c = 'G' then some (1024 * 1024 * 1024)
  else none

/-- `parse_size` (repaired): `Err(())` = `none`. The number is everything before the last
*character*; the multiplication is checked. -/
def parseSize (s : Str) : Option Int :=
  if s.isEmpty then none
  else if utf8Len s = 1 then parseI64 s
  else
    match s.reverse with
    | [] => none
    | last :: revInit =>
      match parseI64 revInit.reverse with
      | none => none
      | some n =>
        let u := toAsciiUpper last
        match unitMult u with
        | some m => checkedMul n m
        | none => if (digitVal u).isSome then parseI64 s else none

/-! ## the tree -/

inductive Node where
  | number (k v : Str)
  | boolean (k v : Str)
  | string (k v : Str)
  | section (name : Str) (children : List Node)
  | host (name : Str) (children : List Node)
  | route (name : Str) (children : List Node)
  deriving Repr

inductive Kind where
  | section | host | route
  deriving Repr, DecidableEq

def mkNode : Kind → Str → List Node → Node
  | .section, n, cs => .section n cs
  | .host, n, cs => .host n cs
  | .route, n, cs => .route n cs

inductive ErrKind where
  | noServer      -- "Could not find `server` section"
  | syntaxErr     -- "Syntax error"
  | badValue      -- "Could not parse value"
  | badInclude    -- "Invalid include value, …"
  | eof           -- "Unexpected end of file, expected `}`"
  | readInclude   -- "Could not read included file"
  | openInclude   -- "Could not open included file"
  | badHostName   -- "Unbalanced quotation mark in host name"
  | tooDeep       -- "Sections or includes are nested too deeply"
  deriving Repr, DecidableEq

structure ConfError where
  kind : ErrKind
  file : Str
  line : Nat
  deriving Repr, DecidableEq

/-- What opening a path gives: the code distinguishes "cannot open", "cannot read as UTF-8"
and the text. The file system is a parameter of the model. -/
inductive FileRes where
  | missing
  | unreadable
  | text (s : Str)

abbrev FS := Str → FileRes

/-- `clean_up`: drop the comment, trim. -/
def cleanUp (line : Str) : Str :=
  match splitOnce '#' line with
  | some (a, _) => trim a
  | none => trim line

def quotePat : Str := ['"', '*', '"']

/-- The four-way value typing of `parse_section`. `err ()` = "Could not parse value". -/
def typeValue (key value : Str) : Res Unit Node :=
  if wildcardMatch quotePat value then
    match innerSlice value with
    | some s => .ok (.string key s)
    | none => .panic
  else if (parseI64 value).isSome then .ok (.number key value)
  else if (parseBool value).isSome then .ok (.boolean key value)
  else
    match parseSize value with
    | some n => .ok (.number key (showInt n))
    | none => .err ()

/-- `s.splitn(2, ' ').last().unwrap()`. -/
def afterFirstSpace (s : Str) : Str :=
  match splitOnce ' ' s with
  | some (_, b) => b
  | none => s

def routePrefix : Str := "route ".toList
def hostPrefix : Str := "host ".toList

/-- Section-header classification (`section_name` is already trimmed). -/
def classify (sn : Str) : Res ErrKind (Kind × Str) :=
  if routePrefix.isPrefixOf sn && sn != "route {".toList then
    .ok (.route, trim (afterFirstSpace sn))
  else if hostPrefix.isPrefixOf sn && sn != "host {".toList then
    let raw := trim (afterFirstSpace sn)
    if 2 ≤ utf8Len raw && raw.head? == some '"' && raw.getLast? == some '"' then
      match innerSlice raw with
      | some s => .ok (.host, s)
      | none => .panic
    else if raw.head? == some '"' || raw.getLast? == some '"' then .err .badHostName
    else .ok (.host, raw)
  else .ok (.section, sn)

/-- `MAX_NESTING_DEPTH` of the repaired `tree.rs`. The root section is at depth 0. -/
def maxDepth : Nat := 128

/-- An open section: its kind and name, and the children its parent had collected so far. -/
abbrev Frame := Kind × Str × List Node

/-- The loop of `parse_section` over one line iterator. `ln` = `current_line` so far,
`stack` = the enclosing open sections (innermost first), `cur` = children of the innermost
open section, newest first. `inc path file line depth` = `include(..)`. Returns the children of
the section the loop was started in, when its `}` is reached. -/
def goLines (inc : Str → Str → Nat → Nat → Res ConfError (List Node)) (file : Str) (base : Nat) :
    List Str → Nat → List Frame → List Node → Res ConfError (List Node)
  | [], ln, _, _ => .err ⟨.eof, file, ln + 1⟩
  | raw :: rest, ln, stack, cur =>
    let line := cleanUp raw
    let ln := ln + 1
    match stripSuffixChar '{' line with
    | some sn =>
      match classify (trim sn) with
      | .ok (k, name) =>
        if base + stack.length + 1 > maxDepth then .err ⟨.tooDeep, file, ln⟩
        else goLines inc file base rest ln ((k, name, cur) :: stack) []
      | .err e => .err ⟨e, file, ln⟩
      | .panic => .panic
    | none =>
      if line = ['}'] then
        match stack with
        | [] => .ok cur.reverse
        | (k, name, pcur) :: stack' =>
          goLines inc file base rest ln stack' (mkNode k name cur.reverse :: pcur)
      else if line.isEmpty then goLines inc file base rest ln stack cur
      else
        match splitOnce ' ' line with
        | none => .err ⟨.syntaxErr, file, ln⟩
        | some (k0, v0) =>
          let key := trim k0
          let value := trim v0
          if key ≠ "include".toList then
            match typeValue key value with
            | .ok node => goLines inc file base rest ln stack (node :: cur)
            | .err _ => .err ⟨.badValue, file, ln⟩
            | .panic => .panic
          else if wildcardMatch quotePat value then
            match innerSlice value with
            | none => .panic
            | some path =>
              match inc path file ln (base + stack.length + 1) with
              | .ok nodes => goLines inc file base rest ln stack (nodes.reverse ++ cur)
              | .err e => .err e
              | .panic => .panic
          else .err ⟨.badInclude, file, ln⟩

/-- `include(path, containing_file, line, depth)`: read the file, append `"\n}"`, parse it as a
section. `fuel` only makes the recursion structural: every level of inclusion raises `depth`,
so with `fuel > maxDepth + 1` the depth check fires first. -/
def parseFile (fs : FS) : Nat → Str → Str → Nat → Nat → Res ConfError (List Node)
  | 0, _, cf, line, _ => .err ⟨.tooDeep, cf, line⟩
  | fuel + 1, path, cf, line, depth =>
    if depth > maxDepth then .err ⟨.tooDeep, cf, line⟩
    else
      match fs path with
      | .missing => .err ⟨.openInclude, cf, line⟩
      | .unreadable => .err ⟨.readInclude, cf, line⟩
      | .text buf =>
        goLines (parseFile fs fuel) path depth (splitLines (buf ++ ['\n', '}'])) 0 [] []

def serverLine : Str := "server {".toList

/-- The search for the `server {` line: remaining lines and `current_line`. -/
def findServer : List Str → Nat → Option (List Str × Nat)
  | [], _ => none
  | raw :: rest, ln => if cleanUp raw = serverLine then some (rest, ln + 1) else findServer rest (ln + 1)

/-- `parse_conf` once the text has been cut into lines. -/
def parseConfLines (fs : FS) (lines : List Str) (filename : Str) : Res ConfError Node :=
  match findServer lines 0 with
  | none => .err ⟨.noServer, filename, 0⟩
  | some (rest, ln) =>
    match goLines (parseFile fs (maxDepth + 2)) filename 0 rest ln [] [] with
    | .ok cs => .ok (.section "server".toList cs)
    | .err e => .err e
    | .panic => .panic

/-- `parse_conf(conf, filename)` with the file system as a parameter. -/
def parseConf (fs : FS) (conf filename : Str) : Res ConfError Node :=
  parseConfLines fs (splitLines conf) filename

/-! ## `flatten`, typed getters -/

/-- `HashMap<String, ConfigNode>`: newest binding first, lookup takes the first match, so the
last `insert` wins. -/
abbrev Map := List (Str × Node)

def Map.get (m : Map) (k : Str) : Option Node :=
  match m with
  | [] => none
  | (k', v) :: m' => if k' = k then some v else Map.get m' k

def joinDots : List Str → Str
  | [] => []
  | [a] => a
  | a :: b :: r => a ++ '.' :: joinDots (b :: r)

mutual
/-- `ConfigNode::flatten`. -/
def flattenNode (level : List Str) : Node → Map → Map
  | .section k cs, m => if k = "plugins".toList then m else flattenList (level ++ [k]) cs m
  | .number k v, m => (joinDots (level ++ [k]), .number k v) :: m
  | .boolean k v, m => (joinDots (level ++ [k]), .boolean k v) :: m
  | .string k v, m => (joinDots (level ++ [k]), .string k v) :: m
  | .host _ _, m => m
  | .route _ _, m => m
def flattenList (level : List Str) : List Node → Map → Map
  | [], m => m
  | n :: ns, m => flattenList level ns (flattenNode level n m)
end

/-- `ConfigNode::get_string`. -/
def Node.getString : Node → Option Str
  | .string _ s => some s
  | .number _ s => some s
  | .boolean _ s => some s
  | _ => none

/-- The text a typed getter parses (`get_optional_parsed`'s inner match); `none` = `Err(())`. -/
def Node.scalar : Node → Option Str := Node.getString

def getOwned (m : Map) (k : Str) : Option Str := (m.get k).bind Node.getString
def getOptional (m : Map) (k : Str) (dflt : Str) : Str := (getOwned m k).getD dflt

/-- `get_optional_parsed`: absent → default; present → parse or the given error. -/
def getOptionalParsed {α ε : Type} (m : Map) (k : Str) (dflt : α) (parse : Str → Option α) (e : ε) :
    Res ε α :=
  match m.get k with
  | none => .ok dflt
  | some n =>
    match n.scalar.bind parse with
    | some a => .ok a
    | none => .err e

/-! ## `Config::from_tree` -/

inductive LogLevel where
  | error | warn | info | debug
  deriving Repr, DecidableEq

inductive BlacklistMode where
  | block | forbidden
  deriving Repr, DecidableEq

inductive LbMode where
  | roundRobin | random
  deriving Repr, DecidableEq

inductive RouteType where
  | file | directory | proxy | redirect | exclusiveWebSocket
  deriving Repr, DecidableEq

structure RouteConfig where
  routeType : RouteType
  matches_ : Str
  path : Option Str
  loadBalancer : Option (List Str × LbMode)
  websocketProxy : Option Str
  deriving Repr, DecidableEq

structure HostConfig where
  matches_ : Str
  routes : List RouteConfig
  deriving Repr, DecidableEq

structure Config where
  address : Str
  port : Nat
  threads : Nat
  defaultWebsocketProxy : Option Str
  hosts : List HostConfig
  defaultHost : HostConfig
  logLevel : LogLevel
  logConsole : Bool
  logFile : Option Str
  cacheSize : Nat
  cacheTime : Nat
  blacklist : List Str         -- canonical text of each address
  blacklistMode : BlacklistMode
  connectionTimeout : Option Nat
  deriving Repr, DecidableEq

/-- The `&'static str` errors of `from_tree`. -/
inductive CfgErr where
  | port | threads | timeout | threadsZero
  | listOpen | listRead | listIp | blacklistMode
  | logLevel | logConsole | cacheSize | cacheTime
  | lbMode | routeTarget
  deriving Repr, DecidableEq

/-- `LogLevel::from_str` (case-insensitive in ASCII). -/
def parseLogLevel (s : Str) : Option LogLevel :=
  let l := s.map toAsciiLower
  if l = "error".toList then some .error
  else if l = "warn".toList then some .warn
  else if l = "info".toList then some .info
  else if l = "debug".toList then some .debug
  else none

/-- `str::split(c)`. -/
def splitAll (c : Char) : Str → List Str
  | [] => [[]]
  | d :: s =>
    if d = c then [] :: splitAll c s
    else match splitAll c s with
      | [] => [[d]]
      | a :: r => (d :: a) :: r

/-- Dotted-quad IPv4 as accepted by `Ipv4Addr::from_str`: four groups of 1–3 digits, no
leading zero, each ≤ 255. (IPv6 is not modelled: the model rejects it.) -/
def parseOctet (s : Str) : Option Nat :=
  if s.length = 0 ∨ s.length > 3 then none
  else if s.length > 1 ∧ s.head? = some '0' then none
  else match parseDigits s with
    | some n => if n ≤ 255 then some n else none
    | none => none

def parseIpv4 (s : Str) : Option Str :=
  match splitAll '.' s with
  | [a, b, c, d] =>
    match parseOctet a, parseOctet b, parseOctet c, parseOctet d with
    | some a, some b, some c, some d =>
      some (showNat a ++ '.' :: showNat b ++ '.' :: showNat c ++ '.' :: showNat d)
    | _, _, _, _ => none
  | _ => none

def parseIps : List Str → Option (List Str)
  | [] => some []
  | l :: ls =>
    match parseIpv4 l, parseIps ls with
    | some a, some r => some (a :: r)
    | _, _ => none

/-- `load_list_file` + the address loop. -/
def loadBlacklist (fs : FS) (path : Option Str) : Res CfgErr (List Str) :=
  match path with
  | none => .ok []
  | some p =>
    match fs p with
    | .missing => .err .listOpen
    | .unreadable => .err .listRead
    | .text buf =>
      match parseIps (splitLines buf) with
      | some l => .ok l
      | none => .err .listIp

/-- One pattern of `parse_route` (the body of the `for wild in …` loop). -/
def parseRouteOne (wild : Str) (conf : Map) : Res CfgErr RouteConfig :=
  let ws := getOwned conf "websocket".toList
  let mk (t : RouteType) (p : Option Str) (lb : Option (List Str × LbMode)) : RouteConfig :=
    { routeType := t, matches_ := wild, path := p, loadBalancer := lb, websocketProxy := ws }
  if (conf.get "file".toList).isSome then
    match getOwned conf "file".toList with
    | some f => .ok (mk .file (some f) none)
    | none => .panic
  else if (conf.get "directory".toList).isSome then
    match getOwned conf "directory".toList with
    | some f => .ok (mk .directory (some f) none)
    | none => .panic
  else if (conf.get "proxy".toList).isSome then
    match getOwned conf "proxy".toList with
    | none => .panic
    | some t =>
      let mode := getOptional conf "load_balancer_mode".toList "round-robin".toList
      if mode = "round-robin".toList then .ok (mk .proxy none (some (splitAll ',' t, .roundRobin)))
      else if mode = "random".toList then .ok (mk .proxy none (some (splitAll ',' t, .random)))
      else .err .lbMode
  else if (conf.get "redirect".toList).isSome then
    match getOwned conf "redirect".toList with
    | some f => .ok (mk .redirect (some f) none)
    | none => .panic
  else if !(conf.get "websocket".toList).isSome then .err .routeTarget
  else .ok (mk .exclusiveWebSocket none none)

def parseRoutePats : List Str → Map → Res CfgErr (List RouteConfig)
  | [], _ => .ok []
  | w :: ws, conf =>
    match parseRouteOne (trim w) conf with
    | .ok r =>
      match parseRoutePats ws conf with
      | .ok rs => .ok (r :: rs)
      | .err e => .err e
      | .panic => .panic
    | .err e => .err e
    | .panic => .panic

/-- `parse_route`. -/
def parseRoute (wild : Str) (conf : Map) : Res CfgErr (List RouteConfig) :=
  parseRoutePats (splitAll ',' wild) conf

/-- `get_routes` + the loop of `parse_host` over the children of a section or host. -/
def parseRoutes : List Node → Res CfgErr (List RouteConfig)
  | [] => .ok []
  | .route wild inner :: rest =>
    match parseRoute wild (flattenList [] inner []) with
    | .ok rs =>
      match parseRoutes rest with
      | .ok more => .ok (rs ++ more)
      | .err e => .err e
      | .panic => .panic
    | .err e => .err e
    | .panic => .panic
  | _ :: rest => parseRoutes rest

def Node.sectionChildren : Node → List Node
  | .section _ cs => cs
  | _ => []

/-- `get_hosts` + the loop over hosts. -/
def parseHosts : List Node → Res CfgErr (List HostConfig)
  | [] => .ok []
  | .host wild inner :: rest =>
    match parseRoutes inner with
    | .ok rs =>
      match parseHosts rest with
      | .ok more => .ok ({ matches_ := wild, routes := rs } :: more)
      | .err e => .err e
      | .panic => .panic
    | .err e => .err e
    | .panic => .panic
  | _ :: rest => parseHosts rest

def k (s : String) : Str := s.toList

/-- `Config::from_tree` (features `tls` and `plugins` off), in the order of the code. -/
def fromTree (fs : FS) (tree : Node) : Res CfgErr Config :=
  let m := flattenNode [] tree []
  let address := getOptional m (k "server.address") (k "0.0.0.0")
  match getOptionalParsed m (k "server.port") 80 (parseUnsigned 16) CfgErr.port with
  | .err e => .err e
  | .panic => .panic
  | .ok port =>
  match getOptionalParsed m (k "server.threads") 32 (parseUnsigned 64) CfgErr.threads with
  | .err e => .err e
  | .panic => .panic
  | .ok threads =>
  let ws := getOwned m (k "server.websocket")
  match getOptionalParsed m (k "server.timeout") 0 (parseUnsigned 64) CfgErr.timeout with
  | .err e => .err e
  | .panic => .panic
  | .ok timeoutSecs =>
  let timeout := if timeoutSecs > 0 then some timeoutSecs else none
  if threads < 1 then .err .threadsZero else
  match loadBlacklist fs (getOwned m (k "server.blacklist.file")) with
  | .err e => .err e
  | .panic => .panic
  | .ok blacklist =>
  let modeS := getOptional m (k "server.blacklist.mode") (k "block")
  match (if modeS = k "block" then some BlacklistMode.block
         else if modeS = k "forbidden" then some BlacklistMode.forbidden else none) with
  | none => .err .blacklistMode
  | some mode =>
  match getOptionalParsed m (k "server.log.level") LogLevel.warn parseLogLevel CfgErr.logLevel with
  | .err e => .err e
  | .panic => .panic
  | .ok level =>
  let logFile := getOwned m (k "server.log.file")
  match getOptionalParsed m (k "server.log.console") true parseBool CfgErr.logConsole with
  | .err e => .err e
  | .panic => .panic
  | .ok console =>
  match getOptionalParsed m (k "server.cache.size") 0 (parseUnsigned 64) CfgErr.cacheSize with
  | .err e => .err e
  | .panic => .panic
  | .ok cacheSize =>
  match getOptionalParsed m (k "server.cache.time") 0 (parseUnsigned 64) CfgErr.cacheTime with
  | .err e => .err e
  | .panic => .panic
  | .ok cacheTime =>
  match parseRoutes tree.sectionChildren with
  | .err e => .err e
  | .panic => .panic
  | .ok defaultRoutes =>
  match parseHosts tree.sectionChildren with
  | .err e => .err e
  | .panic => .panic
  | .ok hosts =>
    .ok { address := address, port := port, threads := threads, defaultWebsocketProxy := ws,
          hosts := hosts, defaultHost := { matches_ := k "*", routes := defaultRoutes },
          logLevel := level, logConsole := console, logFile := logFile,
          cacheSize := cacheSize, cacheTime := cacheTime, blacklist := blacklist,
          blacklistMode := mode, connectionTimeout := timeout }

/-- What loading a file gives: a syntax error with file and line, a validation error, or the
configuration. -/
inductive LoadErr where
  | syntax (e : ConfError)
  | invalid (e : CfgErr)
  deriving Repr, DecidableEq

/-- `parse_conf` followed by `Config::from_tree` (the body of `Config::load`). -/
def load (fs : FS) (conf filename : Str) : Res LoadErr Config :=
  match parseConf fs conf filename with
  | .err e => .err (.syntax e)
  | .panic => .panic
  | .ok tree =>
    match fromTree fs tree with
    | .ok c => .ok c
    | .err e => .err (.invalid e)
    | .panic => .panic

end Humphrey.Conf
