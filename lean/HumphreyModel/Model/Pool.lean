/-!
# Model of `humphrey/src/thread/pool.rs` and `recovery.rs` as a labelled transition system

Import-free and executable. One `Label` per observable operation of one thread; the hook
`humphrey::thread::verif` reports exactly these operations, so a real event log is a word over
`Label` and `run` replays it (trace acceptance).

Who does what in the Rust code:

* caller (`ThreadPool::{start, execute, stop}`, `Drop`): `start`, `submit k`, `stop`,
  `dropBegin`, `dropDetachRecovery` (repaired code) / `dropJoinRecovery` (code before the repair),
  `dropDetach` (the `for thread in threads.lock()` loop), `dropSender` (fields dropped, `tx` among them).
* worker `w` (`Thread::new` closure): `reqLock` (calls `rx.lock()`), `lock` (owns the guard), `recv`
  (`res.recv()` returned: a message, or `Err` when the queue is empty and the `Sender` is gone),
  `unlock` (guard dropped at the end of the `let task = match …;` statement — *before* the task runs),
  `run` (`(f)()` entered), `finish` (returned), `panic` (unwinding), `markerSend`
  (`PanicMarker::drop` sends the id), `exit` (`Shutdown` or `Err`: left the loop).
* recovery thread (`RecoveryThread::new` closure): `recRecv w` (id received and `threads` mutex taken),
  `recJoin` (old thread joined), `recRespawn` (`Thread::new` with the same id and the shared receiver;
  `threads` mutex released at the end of the iteration). It owns a clone of its own channel's `Sender`
  and sits inside `loop { for … in &rx }`: it never ends (`Rec.ended` is never produced).

Which tasks panic is the arbitrary predicate `Cfg.panics`. The monitor and `OVERLOAD_THRESHOLD`
are not modelled.
-/
namespace Humphrey.Pool

abbrev TaskId := Nat
abbrev Wid := Nat

inductive Msg where
  | task (k : TaskId)
  | shutdown
  deriving DecidableEq, Repr

/-- Where the current incarnation of a worker id is in its loop. -/
inductive Phase where
  | idle                      -- at the loop head (also: freshly spawned)
  | waitingLock               -- called `rx.lock()`
  | inRecv                    -- owns the guard, inside `recv()`
  | got (r : Option Msg)      -- `recv()` returned (`none` = `Err`), guard still owned
  | ready (r : Option Msg)    -- guard released, about to dispatch on the message
  | running (k : TaskId)      -- inside `(f)()`
  | unwinding                 -- the task panicked, `PanicMarker::drop` has not sent yet
  | dead                      -- marker sent; the thread ends by itself and can be joined
  | exited                    -- left the loop normally
  deriving DecidableEq, Repr

inductive Rec where
  | absent
  | waiting
  | joining (w : Wid)         -- holds the `threads` mutex
  | respawning (w : Wid)      -- holds the `threads` mutex
  | ended                     -- never produced: the recovery thread cannot end
  deriving DecidableEq, Repr

inductive Life where
  | created | started | stopped | dropped
  deriving DecidableEq, Repr

/-- Program counter of the thread that owns the pool. -/
inductive Caller where
  | idle
  | dropRec        -- in `Drop`: about to deal with the recovery thread's handle
  | dropThreads    -- about to lock `threads` and detach the workers' handles
  | dropTx         -- `Drop::drop` body finished, fields (the `Sender`) not dropped yet
  | done
  deriving DecidableEq, Repr

inductive Label where
  | start
  | submit (k : TaskId)
  | stop
  | reqLock (w : Wid)
  | lock (w : Wid)
  | recv (w : Wid)
  | unlock (w : Wid)
  | run (w : Wid)
  | finish (w : Wid)
  | panic (w : Wid)
  | markerSend (w : Wid)
  | exit (w : Wid)
  | recRecv (w : Wid)
  | recJoin
  | recRespawn
  | dropBegin
  | dropJoinRecovery
  | dropDetachRecovery
  | dropDetach
  | dropSender
  deriving DecidableEq, Repr

structure Cfg where
  n : Nat
  panics : TaskId → Bool

structure State where
  queue : List Msg := []
  senderAlive : Bool := true
  rxLock : Option Wid := none
  workers : List Phase := []
  recChan : List Wid := []
  recov : Rec := .absent
  life : Life := .created
  caller : Caller := .idle
  -- ghost logs
  submitted : List TaskId := []
  dequeued : List TaskId := []
  started : List TaskId := []
  finished : List TaskId := []
  panicked : List TaskId := []
  deriving DecidableEq, Repr

def init : State := {}

def taskOf : Msg → List TaskId
  | .task k => [k]
  | .shutdown => []

def setW (s : State) (w : Wid) (p : Phase) : State :=
  { s with workers := s.workers.set w p }

/-- Caller steps common to the repaired and the unrepaired `Drop`. -/
def afterRecoveryHandle (s : State) : State :=
  -- a pool that was never started has an empty, unshared `threads` vector: the loop is a no-op
  { s with caller := if s.life = .created then .dropTx else .dropThreads }

/-- One step of the code as it is after the repair (`Drop` detaches the recovery thread). -/
def step (c : Cfg) (s : State) : Label → Option State
  | .start =>
    if s.life = .created ∧ s.caller = .idle then
      some { s with life := .started, workers := List.replicate c.n .idle, recov := .waiting }
    else none
  | .submit k =>
    -- `execute` asserts `started`; task ids are given out in submission order
    if s.life = .started ∧ s.caller = .idle ∧ k = s.submitted.length then
      some { s with queue := s.queue ++ [.task k], submitted := s.submitted ++ [k] }
    else none
  | .stop =>
    -- detaches the recovery thread (no effect here) and sends ONE `Shutdown`
    if s.life = .started ∧ s.caller = .idle then
      some { s with life := .stopped, queue := s.queue ++ [.shutdown] }
    else none
  | .reqLock w =>
    if s.workers[w]? = some .idle then some (setW s w .waitingLock) else none
  | .lock w =>
    if s.workers[w]? = some .waitingLock ∧ s.rxLock = none then
      some { setW s w .inRecv with rxLock := some w }
    else none
  | .recv w =>
    if s.workers[w]? = some .inRecv then
      match s.queue with
      | m :: q => some { setW s w (.got (some m)) with queue := q, dequeued := s.dequeued ++ taskOf m }
      | [] => if s.senderAlive then none else some (setW s w (.got none))
    else none
  | .unlock w =>
    match s.workers[w]? with
    | some (.got r) => if s.rxLock = some w then some { setW s w (.ready r) with rxLock := none } else none
    | _ => none
  | .run w =>
    match s.workers[w]? with
    | some (.ready (some (.task k))) => some { setW s w (.running k) with started := s.started ++ [k] }
    | _ => none
  | .exit w =>
    match s.workers[w]? with
    | some (.ready none) => some (setW s w .exited)
    | some (.ready (some .shutdown)) => some (setW s w .exited)
    | _ => none
  | .finish w =>
    match s.workers[w]? with
    | some (.running k) =>
      if c.panics k then none else some { setW s w .idle with finished := s.finished ++ [k] }
    | _ => none
  | .panic w =>
    match s.workers[w]? with
    | some (.running k) =>
      if c.panics k then some { setW s w .unwinding with panicked := s.panicked ++ [k] } else none
    | _ => none
  | .markerSend w =>
    if s.workers[w]? = some .unwinding then
      some { setW s w .dead with recChan := s.recChan ++ [w] }
    else none
  | .recRecv w =>
    -- The real channel is FIFO, but in which order two workers' concurrent sends arrive is not observable
    -- through the hook (a send is logged before it happens) and irrelevant for the property: the model
    -- lets the recovery thread take any pending id (a superset of the real behaviours).
    if s.recov = .waiting ∧ w ∈ s.recChan then
      some { s with recov := .joining w, recChan := s.recChan.erase w }
    else none
  | .recJoin =>
    match s.recov with
    | .joining w => if s.workers[w]? = some .dead then some { s with recov := .respawning w } else none
    | _ => none
  | .recRespawn =>
    match s.recov with
    | .respawning w =>
      if s.workers[w]? = some .dead then some { setW s w .idle with recov := .waiting } else none
    | _ => none
  | .dropBegin =>
    if s.caller = .idle ∧ s.life ≠ .dropped then some { s with caller := .dropRec } else none
  | .dropJoinRecovery => none
  | .dropDetachRecovery =>
    if s.caller = .dropRec then some (afterRecoveryHandle s) else none
  | .dropDetach =>
    -- needs the `threads` mutex, which the recovery thread holds while joining / respawning
    if s.caller = .dropThreads ∧ s.recov = .waiting then some { s with caller := .dropTx } else none
  | .dropSender =>
    if s.caller = .dropTx then
      some { s with caller := .done, life := .dropped, senderAlive := false }
    else none

/-- The code BEFORE the repair: `Drop` joins the recovery thread when `stop()` has not taken the handle
away (`life = started`). `JoinHandle::join` returns only when the thread has ended. -/
def stepU (c : Cfg) (s : State) : Label → Option State
  | .dropDetachRecovery => none
  | .dropJoinRecovery =>
    if s.caller = .dropRec ∧ (s.life = .started → s.recov = .ended) then some (afterRecoveryHandle s) else none
  | l => step c s l

def runWith (f : State → Label → Option State) : State → List Label → Option State
  | s, [] => some s
  | s, l :: ls => match f s l with
    | some s' => runWith f s' ls
    | none => none

def run (c : Cfg) : State → List Label → Option State := runWith (step c)
def runU (c : Cfg) : State → List Label → Option State := runWith (stepU c)

def Reachable (c : Cfg) (s : State) : Prop := ∃ labels, run c init labels = some s
def ReachableU (c : Cfg) (s : State) : Prop := ∃ labels, runU c init labels = some s

def workerLabels (w : Wid) : List Label :=
  [.reqLock w, .lock w, .recv w, .unlock w, .run w, .finish w, .panic w, .markerSend w, .exit w, .recRecv w]

def candidates (s : State) : List Label :=
  [.start, .submit s.submitted.length, .stop, .recJoin, .recRespawn, .dropBegin,
   .dropJoinRecovery, .dropDetachRecovery, .dropDetach, .dropSender]
  ++ (List.range s.workers.length).flatMap workerLabels

def enabled (c : Cfg) (s : State) : List Label :=
  (candidates s).filter (fun l => (step c s l).isSome)

def enabledU (c : Cfg) (s : State) : List Label :=
  (candidates s).filter (fun l => (stepU c s l).isSome)

def Label.isSubmit : Label → Bool
  | .submit _ => true
  | _ => false

/-- No thread can move (the caller could still submit if the pool is started). -/
def terminalB (c : Cfg) (s : State) : Bool := (enabled c s).all Label.isSubmit

/-- `stop()` on a pool that was never started panics: `self.tx` is the `Sender` of `channel().0` whose
receiver is gone, so `send(..).unwrap()` fails. Outside the LTS (`stop` is not enabled in `created`). -/
def stopPanics (s : State) : Bool := s.life == .created

/-! ### Observations -/

def Phase.holds : Phase → List TaskId
  | .got (some (.task k)) => [k]
  | .ready (some (.task k)) => [k]
  | .running k => [k]
  | _ => []

def Phase.runs : Phase → List TaskId
  | .running k => [k]
  | _ => []

def Phase.isRunning : Phase → Bool
  | .running _ => true
  | _ => false

def Phase.isExited : Phase → Bool
  | .exited => true
  | _ => false

/-- A worker that will serve (or is serving) the queue without any help from the recovery thread. -/
def Phase.usable : Phase → Bool
  | .idle | .waitingLock | .inRecv | .got _ | .ready _ | .running _ => true
  | _ => false

def queuedTasks (q : List Msg) : List TaskId := q.flatMap taskOf
def heldTasks (ws : List Phase) : List TaskId := ws.flatMap Phase.holds
def runningTasks (ws : List Phase) : List TaskId := ws.flatMap Phase.runs
def runningCount (ws : List Phase) : Nat := (ws.filter Phase.isRunning).length
def exitedCount (ws : List Phase) : Nat := (ws.filter Phase.isExited).length
def usableCount (ws : List Phase) : Nat := (ws.filter Phase.usable).length

end Humphrey.Pool
