/-
Model of `humphrey/src/percent.rs` (after the D2 repair: the two characters after a `%` are
converted with `char::to_digit(16)`, so a sign is no longer accepted as a hex digit).

Strings are modelled as their UTF-8 bytes (`List UInt8`): the encoder's output is pure ASCII
and the decoder iterates `str::bytes()`. Byte arithmetic is done on `UInt8.toNat` with
`/`, `%` (the formatting `{:02X}` is a division by 16, not a shift, in the Rust code as well).
-/
namespace Humphrey.Percent

abbrev Bytes := List UInt8

/-- `UNRESERVED_CHARACTERS`:
`b"ABCDEFGHIJKLMNOPQRSTUVWXYZabcdefghijklmnopqrstuvwxyz0123456789-_.~"`. -/
def unreservedChars : Bytes :=
  [65, 66, 67, 68, 69, 70, 71, 72, 73, 74, 75, 76, 77, 78, 79, 80, 81, 82, 83, 84, 85, 86, 87, 88,
   89, 90, 97, 98, 99, 100, 101, 102, 103, 104, 105, 106, 107, 108, 109, 110, 111, 112, 113, 114,
   115, 116, 117, 118, 119, 120, 121, 122, 48, 49, 50, 51, 52, 53, 54, 55, 56, 57, 45, 95, 46, 126]

/-- One upper-case hexadecimal digit as `{:X}` prints it (`n < 16`). -/
def hexUpper (n : Nat) : UInt8 :=
  if n < 10 then UInt8.ofNat (48 + n) else UInt8.ofNat (55 + n)

/-- `format!("%{:02X}", byte)`. -/
def escape (b : UInt8) : Bytes :=
  [37, hexUpper (b.toNat / 16), hexUpper (b.toNat % 16)]

/-- `percent_encode`: the `for byte in bytes` loop. -/
def encode : Bytes → Bytes
  | [] => []
  | b :: rest =>
    if unreservedChars.contains b then b :: encode rest
    else escape b ++ encode rest

/-- `(c as char).to_digit(16)`: `0-9`, `a-f`, `A-F`; bytes ≥ 0x80 become Latin-1 chars, which are
not digits. -/
def hexVal (c : UInt8) : Option Nat :=
  if 48 ≤ c.toNat ∧ c.toNat ≤ 57 then some (c.toNat - 48)
  else if 97 ≤ c.toNat ∧ c.toNat ≤ 102 then some (c.toNat - 87)
  else if 65 ≤ c.toNat ∧ c.toNat ≤ 70 then some (c.toNat - 55)
  else none

/-- `percent_decode`: the `while let Some(character) = chars.next()` loop. `none` is the early
`return None` of either `?` (`chars.next()?` at the end of input, `to_digit(16)?`). -/
def decode : Bytes → Option Bytes
  | [] => some []
  | c :: rest =>
    if c = 37 then
      match rest with
      | h1 :: h2 :: rest' =>
        match hexVal h1, hexVal h2 with
        | some hi, some lo => (decode rest').map (UInt8.ofNat (hi * 16 + lo) :: ·)
        | _, _ => none
      | _ => none
    else (decode rest).map (c :: ·)

end Humphrey.Percent
