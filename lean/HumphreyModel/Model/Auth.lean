/-
Model of `humphrey-auth`: `database.rs` (`impl AuthDatabase for Vec<User>`), `session.rs`, `user.rs`,
`lib.rs` (`AuthProvider`) and the closure registered by `app.rs::with_auth_route`.

* The clock is an explicit input `now` (seconds; the `VERIF_NOW` hook makes it one for the real code).
* The operations that draw randomness (`Uuid::new_v4`, 32 bytes from `OsRng`, the Argon2 salt) take the
  drawn value as an explicit input.
* `u64` arithmetic: `now + lifetime` panics on overflow in a build with overflow checks (the harness
  build); the panic happens before anything is written back, so the database is unchanged.
* Password hashing is an abstract `HashScheme`; Argon2 is trusted to satisfy `HashScheme.Lawful`.
* `U`, `T`, `P` are the types of uids, tokens and passwords (strings in the code): any types with
  decidable equality.
-/
namespace Humphrey.Auth

/-- `error.rs::AuthError`. -/
inductive AuthError
  | genericError | userNotFound | userAlreadyExists | invalidToken | sessionAlreadyExists
  deriving DecidableEq, Repr

/-- `user.rs::User`; `session` is `Option<Session>` with `Session { token, expiry }`. -/
structure User (U T H : Type) where
  uid : U
  pwHash : H
  session : Option (T × Nat)

/-- `Vec<User>`. -/
abbrev Db (U T H : Type) := List (User U T H)

/-- Argon2 as used by `user.rs`: `hash password salt pepper`, `verify hash password pepper`. -/
structure HashScheme (P S Pep H : Type) where
  hash : P → S → Pep → H
  verify : H → P → Pep → Bool

/-- The contract Argon2 is trusted to satisfy (hypothesis of the theorems). -/
def HashScheme.Lawful {P S Pep H : Type} (hs : HashScheme P S Pep H) : Prop :=
  ∀ p s pep p' pep', hs.verify (hs.hash p s pep) p' pep' = true ↔ (p = p' ∧ pep = pep')

/-- `config.rs::AuthConfig`. -/
structure Config (Pep : Type) where
  defaultLifetime : Nat
  defaultRefreshLifetime : Nat
  pepper : Pep

/-- First value that does not fit a `u64`. -/
def u64Bound : Nat := 2 ^ 64

section
variable {U T H P S Pep : Type} [DecidableEq U] [DecidableEq T]

/-! ### `impl AuthDatabase for Vec<User>` -/

/-- `self.iter().find(|user| user.uid == uid)` (first match). -/
def getUserByUid (db : Db U T H) (uid : U) : Option (User U T H) :=
  db.find? (fun x => decide (x.uid = uid))

/-- `u.session.is_some() && u.session.unwrap().token == token`. -/
def hasToken (tok : T) (x : User U T H) : Bool :=
  match x.session with
  | some (t, _) => decide (t = tok)
  | none => false

/-- `self.iter().find(|u| u.session.is_some() && …token == token)` (first match). -/
def getUserByToken (db : Db U T H) (tok : T) : Option (User U T H) :=
  db.find? (hasToken tok)

/-- `iter_mut().find(|old| old.uid == user.uid).map(|old| *old = user).ok_or(UserNotFound)`:
the first user with that uid is overwritten. -/
def updateUser : Db U T H → User U T H → Except AuthError (Db U T H)
  | [], _ => .error .userNotFound
  | old :: rest, user =>
    if old.uid = user.uid then .ok (user :: rest)
    else match updateUser rest user with
      | .ok rest' => .ok (old :: rest')
      | .error e => .error e

/-- `add_user`: refuse an existing uid, else `push`. -/
def addUser (db : Db U T H) (user : User U T H) : Except AuthError (Db U T H) :=
  if (getUserByUid db user.uid).isSome then .error .userAlreadyExists
  else .ok (db ++ [user])

/-- `remove_user`: refuse an unknown uid, else `retain(|user| user.uid != uid)`. -/
def removeUser (db : Db U T H) (uid : U) : Except AuthError (Db U T H) :=
  if (getUserByUid db uid).isNone then .error .userNotFound
  else .ok (db.filter (fun x => !decide (x.uid = uid)))

/-! ### `Session` -/

/-- `Session::valid`: `now < self.expiry`. -/
def sessionValid (now : Nat) (s : T × Nat) : Bool := decide (now < s.2)

/-- `user.session.map(|t| t.valid()).unwrap_or(false)`. -/
def hasValidSession (now : Nat) (x : User U T H) : Bool :=
  match x.session with
  | some s => sessionValid now s
  | none => false

/-! ### `AuthProvider` -/

/-- What an operation returns, as far as the property observes it. -/
inductive Out (U T : Type)
  | unit                    -- `()` / `Ok(())`
  | bool (b : Bool)
  | uid (u : U)             -- `Ok(uid)`
  | tok (t : T)             -- `Ok(token)`
  | err (e : AuthError)
  | panic
  | http200 (u : U)         -- auth route: the handler ran with this uid
  | http401                 -- auth route: `401 Unauthorized`
  deriving DecidableEq, Repr

/-- `create_user`; `freshUid` is the `Uuid::new_v4()` drawn by `User::create`, `salt` the Argon2 salt. -/
def createUser (hs : HashScheme P S Pep H) (cfg : Config Pep) (db : Db U T H)
    (pw : P) (salt : S) (freshUid : U) : Db U T H × Out U T :=
  let newUser : User U T H := { uid := freshUid, pwHash := hs.hash pw salt cfg.pepper, session := none }
  match addUser db newUser with
  | .ok db' => (db', .uid freshUid)
  | .error e => (db, .err e)

/-- `exists`. -/
def userExists (db : Db U T H) (uid : U) : Bool := (getUserByUid db uid).isSome

/-- `verify`. -/
def verifyPw (hs : HashScheme P S Pep H) (cfg : Config Pep) (db : Db U T H) (uid : U) (pw : P) : Bool :=
  match getUserByUid db uid with
  | some user => hs.verify user.pwHash pw cfg.pepper
  | none => false

/-- `remove_user`. -/
def removeUserOp (db : Db U T H) (uid : U) : Db U T H × Out U T :=
  match removeUser db uid with
  | .ok db' => (db', .unit)
  | .error e => (db, .err e)

/-- `create_session_with_lifetime` (and `create_session` with the configured lifetime);
`freshTok` is the token drawn by `Session::create_with_lifetime` on the success path. -/
def createSessionWith (db : Db U T H) (uid : U) (lifetime : Nat) (freshTok : T) (now : Nat) :
    Db U T H × Out U T :=
  match getUserByUid db uid with
  | none => (db, .err .userNotFound)
  | some user =>
    if !hasValidSession now user then
      -- `Session::create_with_lifetime`: `now + lifetime` (overflow check)
      if now + lifetime < u64Bound then
        match updateUser db { user with session := some (freshTok, now + lifetime) } with
        | .ok db' => (db', .tok freshTok)
        | .error e => (db, .err e)
      else (db, .panic)
    else (db, .err .sessionAlreadyExists)

/-- `refresh_session` (after the repair of D24: `.filter(|u| u.session…valid())` as in
`get_uid_by_token`, so an expired token is `InvalidToken` here too). -/
def refreshSession (cfg : Config Pep) (db : Db U T H) (tok : T) (now : Nat) : Db U T H × Out U T :=
  match getUserByToken db tok with
  | none => (db, .err .invalidToken)
  | some user =>
    match user.session with
    | none => (db, .panic)                       -- `u.session.as_ref().unwrap()` in the filter
    | some (t, e) =>
      if sessionValid now (t, e) then
        -- `session.refresh(lifetime)`: `now + lifetime` (overflow check)
        if now + cfg.defaultRefreshLifetime < u64Bound then
          match updateUser db { user with session := some (t, now + cfg.defaultRefreshLifetime) } with
          | .ok db' => (db', .unit)
          | .error e => (db, .err e)
        else (db, .panic)
      else (db, .err .invalidToken)

/-- `invalidate_session`. -/
def invalidateSession (db : Db U T H) (tok : T) : Db U T H × Out U T :=
  match getUserByToken db tok with
  | some user =>
    match updateUser db { user with session := none } with
    | .ok db' => (db', .unit)
    | .error _ => (db, .panic)                   -- `.unwrap()`
  | none => (db, .unit)

/-- `invalidate_user_session`. -/
def invalidateUserSession (db : Db U T H) (uid : U) : Db U T H × Out U T :=
  match getUserByUid db uid with
  | some user =>
    match updateUser db { user with session := none } with
    | .ok db' => (db', .unit)
    | .error _ => (db, .panic)                   -- `.unwrap()`
  | none => (db, .unit)

/-- `get_uid_by_token`. -/
def getUidByToken (db : Db U T H) (tok : T) (now : Nat) : Out U T :=
  match getUserByToken db tok with
  | none => .err .invalidToken
  | some user =>
    match user.session with
    | none => .panic                             -- `u.session.as_ref().unwrap()`
    | some s => if sessionValid now s then .uid user.uid else .err .invalidToken

/-- The closure registered by `with_auth_route`, with a handler that answers 200 with the uid it is
given. `cookie` is the value of the `HumphreyToken` cookie (`none`: no such cookie). -/
def authRoute (db : Db U T H) (cookie : Option T) (now : Nat) : Out U T :=
  match cookie with
  | none => .http401
  | some tok =>
    match getUidByToken db tok now with
    | .uid u => .http200 u
    | .panic => .panic
    | _ => .http401

/-- One call on the provider (or one request on the authenticated route). -/
inductive Op (U T P S : Type)
  | createUser (pw : P) (salt : S) (freshUid : U)
  | removeUser (uid : U)
  | verify (uid : U) (pw : P)
  | userExists (uid : U)
  | createSession (uid : U) (freshTok : T)
  | createSessionWithLifetime (uid : U) (lifetime : Nat) (freshTok : T)
  | refreshSession (tok : T)
  | invalidateSession (tok : T)
  | invalidateUserSession (uid : U)
  | getUidByToken (tok : T)
  | authRoute (cookie : Option T)

/-- One step of the provider at time `now`. -/
def step (hs : HashScheme P S Pep H) (cfg : Config Pep) (db : Db U T H) (op : Op U T P S) (now : Nat) :
    Db U T H × Out U T :=
  match op with
  | .createUser pw salt u => createUser hs cfg db pw salt u
  | .removeUser u => removeUserOp db u
  | .verify u pw => (db, .bool (verifyPw hs cfg db u pw))
  | .userExists u => (db, .bool (userExists db u))
  | .createSession u t => createSessionWith db u cfg.defaultLifetime t now
  | .createSessionWithLifetime u l t => createSessionWith db u l t now
  | .refreshSession t => refreshSession cfg db t now
  | .invalidateSession t => invalidateSession db t
  | .invalidateUserSession u => invalidateUserSession db u
  | .getUidByToken t => (db, getUidByToken db t now)
  | .authRoute c => (db, authRoute db c now)

/-- A whole history: operations with the clock value at which each runs. -/
def run (hs : HashScheme P S Pep H) (cfg : Config Pep) (db : Db U T H) :
    List (Op U T P S × Nat) → Db U T H × List (Out U T)
  | [] => (db, [])
  | (op, now) :: rest =>
    let r := step hs cfg db op now
    let rr := run hs cfg r.1 rest
    (rr.1, r.2 :: rr.2)

end

/-! ### `config.rs` (`AuthConfig::default`, the builder methods) and `AuthProvider::new` / `default` / `with_config`

The set-up code of a provider is a list of calls on two values: the `AuthConfig` value in hand (`cfg`) and the
`config` field of the provider (`prov`). `noPepper` is `None`; a pepper set by `with_pepper` is `Some(bytes)`. -/
section
variable {Pep : Type}

/-- `impl Default for AuthConfig`. -/
def Config.dflt (noPepper : Pep) : Config Pep :=
  { defaultLifetime := 3600, defaultRefreshLifetime := 3600, pepper := noPepper }

/-- `with_default_lifetime`: `self.default_lifetime = lifetime; self`. -/
def Config.withDefaultLifetime (c : Config Pep) (l : Nat) : Config Pep := { c with defaultLifetime := l }

/-- `with_default_refresh_lifetime`: `self.default_refresh_lifetime = lifetime; self`. -/
def Config.withDefaultRefreshLifetime (c : Config Pep) (l : Nat) : Config Pep :=
  { c with defaultRefreshLifetime := l }

/-- `with_pepper`: `self.pepper = Some(pepper.as_ref().to_vec()); self`. -/
def Config.withPepper (c : Config Pep) (p : Pep) : Config Pep := { c with pepper := p }

/-- One line of set-up code. -/
inductive BCall (Pep : Type)
  | defaultLifetime (l : Nat)     -- `cfg = cfg.with_default_lifetime(l)`
  | refreshLifetime (l : Nat)     -- `cfg = cfg.with_default_refresh_lifetime(l)`
  | pepper (p : Pep)              -- `cfg = cfg.with_pepper(p)`
  | newConfig                     -- `cfg = AuthConfig::default()`
  | cloneConfig                   -- `cfg = cfg.clone()` (`#[derive(Clone)]`)
  | withConfig                    -- `provider = provider.with_config(cfg.clone())`: `self.config = config`
  | providerDefault               -- `provider = AuthProvider::default()` (`#[derive(Default)]`)

structure BState (Pep : Type) where
  cfg : Config Pep
  prov : Config Pep

def bstep (noPepper : Pep) (s : BState Pep) : BCall Pep → BState Pep
  | .defaultLifetime l => { s with cfg := s.cfg.withDefaultLifetime l }
  | .refreshLifetime l => { s with cfg := s.cfg.withDefaultRefreshLifetime l }
  | .pepper p => { s with cfg := s.cfg.withPepper p }
  | .newConfig => { s with cfg := Config.dflt noPepper }
  | .cloneConfig => s
  | .withConfig => { s with prov := s.cfg }
  | .providerDefault => { s with prov := Config.dflt noPepper }

/-- The configuration of the provider after the set-up code: `let mut cfg = AuthConfig::default(); let mut provider =
AuthProvider::new(users);` (`config: AuthConfig::default()`), then the calls in order. -/
def build (noPepper : Pep) (calls : List (BCall Pep)) : Config Pep :=
  (calls.foldl (bstep noPepper) { cfg := Config.dflt noPepper, prov := Config.dflt noPepper }).prov

end
end Humphrey.Auth
