/-
Model of `humphrey-ws/src/util/sha1.rs` (`impl<T: AsRef<[u8]>> SHA1Hash for T`).

* padding: `message_len = ((len*8 + 583)/512)*64`, a zeroed vector of that length, the message
  copied to its front, `0x80` at index `len`, `(len*8).to_be_bytes()` over the last 8 bytes.
  `paddedLen_ge` (Proofs/Sha1Pad.lean) shows `len + 9 ≤ message_len`, so the three writes do not
  overlap and no slice is out of range; the model therefore writes the vector as one append.
  `len*8` overflows `usize` from `len = 2^61` on (a panic with overflow checks); the theorems
  carry the hypothesis `len < 2^61`.
* per 64-byte chunk: 16 big-endian words, extended in index order to 80 words
  (`chunk[i] = (chunk[i-3]^chunk[i-8]^chunk[i-14]^chunk[i-16]).rotate_left(1)`), then the 80
  rounds over `chunk.iter().enumerate()`, then the wrapping additions into `h0…h4`.
  The `chunk` array is `[u32; 80]`, so the `_ => panic!` arm of the round `match` is unreachable.
* `u32::from_be_bytes`, `to_be_bytes` and `rotate_left` are `std` functions; they are modelled by
  their documented meaning.
-/
namespace Humphrey.Sha1

abbrev Bytes := List UInt8

/-- `x.rotate_left(n)` for `0 < n < 32`. -/
def rotl (x : UInt32) (n : UInt32) : UInt32 := (x <<< n) ||| (x >>> (32 - n))

/-- `((len * 8 + 583) / 512) * 64`. -/
def paddedLen (len : Nat) : Nat := ((len * 8 + 583) / 512) * 64

/-- `(n as usize).to_be_bytes()` on a 64-bit target. -/
def be64 (n : Nat) : Bytes :=
  [UInt8.ofNat (n / 2^56), UInt8.ofNat (n / 2^48), UInt8.ofNat (n / 2^40), UInt8.ofNat (n / 2^32),
   UInt8.ofNat (n / 2^24), UInt8.ofNat (n / 2^16), UInt8.ofNat (n / 2^8), UInt8.ofNat n]

/-- `u32::to_be_bytes`. -/
def be32 (w : UInt32) : Bytes :=
  [UInt8.ofNat (w.toNat / 2^24), UInt8.ofNat (w.toNat / 2^16), UInt8.ofNat (w.toNat / 2^8),
   UInt8.ofNat w.toNat]

/-- `u32::from_be_bytes([b0, b1, b2, b3])`. -/
def fromBe (b0 b1 b2 b3 : UInt8) : UInt32 :=
  UInt32.ofNat (b0.toNat * 2^24 + b1.toNat * 2^16 + b2.toNat * 2^8 + b3.toNat)

/-- The padded message. -/
def pad (m : Bytes) : Bytes :=
  let len := m.length
  let messageLen := paddedLen len
  m ++ [0x80] ++ List.replicate (messageLen - 8 - (len + 1)) 0 ++ be64 (len * 8)

/-- `for i in 0..16 { chunk[i] = u32::from_be_bytes(message[c*64 + i*4 .. c*64 + i*4 + 4]) }`
on the 64 bytes of chunk `c`. -/
def wordsOfBytes : Bytes → List UInt32
  | b0 :: b1 :: b2 :: b3 :: rest => fromBe b0 b1 b2 b3 :: wordsOfBytes rest
  | _ => []

/-- `for i in 16..80 { chunk[i] = (chunk[i-3] ^ chunk[i-8] ^ chunk[i-14] ^ chunk[i-16]).rotate_left(1) }`:
the words are produced in index order, so the array is grown by one word per iteration. -/
def extend (ws : Array UInt32) : Nat → Array UInt32
  | 0 => ws
  | k + 1 =>
    let i := ws.size
    extend (ws.push (rotl (ws[i - 3]! ^^^ ws[i - 8]! ^^^ ws[i - 14]! ^^^ ws[i - 16]!) 1)) k

def schedule (block : Bytes) : Array UInt32 := extend (wordsOfBytes block).toArray 64

structure State where
  a : UInt32
  b : UInt32
  c : UInt32
  d : UInt32
  e : UInt32
  deriving DecidableEq, Repr

/-- Body of the main loop for index `i` and word `tem`. -/
def step (i : Nat) (tem : UInt32) (s : State) : State :=
  let (f, k) : UInt32 × UInt32 :=
    if i ≤ 19 then ((s.b &&& s.c) ||| (~~~s.b &&& s.d), 0x5A827999)
    else if i ≤ 39 then (s.b ^^^ s.c ^^^ s.d, 0x6ED9EBA1)
    else if i ≤ 59 then ((s.b &&& s.c) ||| (s.b &&& s.d) ||| (s.c &&& s.d), 0x8F1BBCDC)
    else (s.b ^^^ s.c ^^^ s.d, 0xCA62C1D6)
  let temp := rotl s.a 5 + f + s.e + k + tem
  { e := s.d, d := s.c, c := rotl s.b 30, b := s.a, a := temp }

/-- `for (i, tem) in chunk.iter().enumerate() { … }` from index `i` on. -/
def rounds : List UInt32 → Nat → State → State
  | [], _, s => s
  | tem :: rest, i, s => rounds rest (i + 1) (step i tem s)

/-- One iteration of `for chunk_id in 0..message_len / 64`. -/
def compress (h : State) (block : Bytes) : State :=
  let s := rounds (schedule block).toList 0 h
  { a := h.a + s.a, b := h.b + s.b, c := h.c + s.c, d := h.d + s.d, e := h.e + s.e }

/-- The chunk loop; the second argument is `message[chunk_id*64 ..]`. -/
def processChunks : Nat → Bytes → State → State
  | 0, _, h => h
  | k + 1, msg, h => processChunks k (msg.drop 64) (compress h (msg.take 64))

def init : State :=
  { a := 0x67452301, b := 0xEFCDAB89, c := 0x98BADCFE, d := 0x10325476, e := 0xC3D2E1F0 }

/-- `hash`. -/
def sha1 (m : Bytes) : Bytes :=
  let message := pad m
  let h := processChunks (paddedLen m.length / 64) message init
  be32 h.a ++ be32 h.b ++ be32 h.c ++ be32 h.d ++ be32 h.e

end Humphrey.Sha1
