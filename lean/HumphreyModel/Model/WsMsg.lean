import HumphreyModel.Model.WsFrame
import HumphreyModel.Model.Response
import HumphreyModel.Model.Base64

/-
Model of the WebSocket endpoint of `humphrey-ws`:

* `handler.rs`: `handshake` (and through it `websocket_handler`);
* `message.rs`: `Message::from_stream`, `Message::from_stream_nonblocking`;
* `stream.rs`: `WebsocketStream::{recv, recv_nonblocking, send, ping}` and `Drop`;
* `frame.rs`: `Frame::from_stream_nonblocking` (the frame decoder itself is `Model/WsFrame.lean`).

The code modelled is the code AFTER the two C11 repairs: replies and the drop-time Close are written as
encoded frames (`Vec::<u8>::from(frame)`), and a non-blocking header read that obtained a single byte
fetches the second one with a blocking `read_exact`.

The socket is a script of events (`Ev`): `data bytes` = a segment that has arrived (a `read` returns at
most what is left of it), `notYet` = a moment at which nothing has arrived (a non-blocking `read` there
fails with `WouldBlock` and the moment passes; a blocking `read` simply waits for the next event), end
of the script = the peer is gone (`read` returns `Ok(0)`). As in `Model/WsFrame.lean` an empty `data`
segment is a `read` returning `Ok(0)`. Every `write_all` is recorded as one entry of `outbound`
(every buffer written is an encoded frame or the handshake response, hence non-empty); writes do not
fail in this model, so `WebsocketError::WriteError` does not occur.

`SHA-1` is a parameter of `handshake` (`Model/Sha1.lean` is a separate slice).
-/
namespace Humphrey.WsMsg
open Humphrey.WsFrame

/-! ### The handshake -/

/-- `MAGIC_STRING`: "258EAFA5-E914-47DA-95CA-C5AB0DC85B11". -/
def guid : Bytes :=
  [50, 53, 56, 69, 65, 70, 65, 53, 45, 69, 57, 49, 52, 45, 52, 55, 68, 65, 45, 57, 53, 67, 65, 45,
   67, 53, 65, 66, 48, 68, 67, 56, 53, 66, 49, 49]

/-- "Sec-WebSocket-Key", as `HeaderType::from(&str)` stores it (lower case). -/
def hSecKey : Http.HName :=
  ⟨[115, 101, 99, 45, 119, 101, 98, 115, 111, 99, 107, 101, 116, 45, 107, 101, 121]⟩

/-- "Sec-WebSocket-Accept". -/
def hSecAccept : Http.HName :=
  ⟨[115, 101, 99, 45, 119, 101, 98, 115, 111, 99, 107, 101, 116, 45, 97, 99, 99, 101, 112, 116]⟩

def websocketValue : Bytes := [119, 101, 98, 115, 111, 99, 107, 101, 116]   -- "websocket"
def upgradeValue : Bytes := [85, 112, 103, 114, 97, 100, 101]                -- "Upgrade"
def http11 : Bytes := [72, 84, 84, 80, 47, 49, 46, 49]                       -- "HTTP/1.1"

/-- `format!("{}{}", handshake_key, MAGIC_STRING).hash().encode()`. -/
def acceptValue (sha1 : Bytes → Bytes) (key : Bytes) : Bytes := Base64.encode (sha1 (key ++ guid))

/-- The response built by `handshake`: `Response::empty(SwitchingProtocols)` with three headers. -/
def handshakeResponse (sha1 : Bytes → Bytes) (key : Bytes) : Http.Response :=
  { version := http11, status := 101,
    headers := [⟨Http.hUpgrade, websocketValue⟩, ⟨Http.hConnection, upgradeValue⟩,
                ⟨hSecAccept, acceptValue sha1 key⟩],
    body := [] }

/-- `handshake(request, stream)`: the bytes written (`some`), or `none` =
`Err(WebsocketError::HandshakeError)` with nothing written, when there is no `Sec-WebSocket-Key`. -/
def handshake (sha1 : Bytes → Bytes) (req : Http.Request) : Option Bytes :=
  match req.headers.get hSecKey with
  | none => none
  | some key => some (Http.serializeResponse (handshakeResponse sha1 key))

/-! ### The scripted socket -/

inductive Ev
  | data (b : Bytes)
  | notYet
  deriving DecidableEq, Repr, Inhabited

/-- The bytes still to come. -/
def dataBytes : List Ev → Bytes
  | [] => []
  | .data b :: s => b ++ dataBytes s
  | .notYet :: s => dataBytes s

/-- `read_exact` on an `n`-byte buffer in blocking mode (`Model/WsFrame.readExact` plus the `notYet`
moments, which a blocking read sits out). -/
def readExactEv : Nat → List Ev → Option (Bytes × List Ev)
  | 0, s => some ([], s)
  | _ + 1, [] => none
  | n + 1, .notYet :: s => readExactEv (n + 1) s
  | n + 1, .data c :: cs =>
    if c.length = 0 then none
    else if c.length ≤ n + 1 then
      match readExactEv (n + 1 - c.length) cs with
      | none => none
      | some (bs, s) => some (c ++ bs, s)
    else some (c.take (n + 1), .data (c.drop (n + 1)) :: cs)

/-- `Frame::from_stream(&mut stream.stream)` in blocking mode. -/
def readFrame (s : List Ev) : Except WsErr (Frame × List Ev) := (decodeWith readExactEv s).result

/-- Outcome of the header read of `Frame::from_stream_nonblocking`: `set_nonblocking`, ONE `read` into a
two-byte buffer, `set_blocking`; when a single byte came, `read_exact` for the second (repair of D7). -/
inductive NbHeader
  /-- `WouldBlock` or `Ok(0)`: `Restion::None` -/
  | nothing (s : List Ev)
  | header (h0 h1 : UInt8) (s : List Ev)
  /-- the second header byte never came: `ReadError` -/
  | failed
  deriving Repr, DecidableEq

def nbHeader : List Ev → NbHeader
  | [] => .nothing []
  | .notYet :: s => .nothing s
  | .data [] :: s => .nothing s
  | .data [a] :: s =>
    match readExactEv 1 s with
    | some ([b], s') => .header a b s'
    | _ => .failed
  | .data (a :: b :: rest) :: s =>
    .header a b (match rest with | [] => s | _ :: _ => .data rest :: s)

/-- `struct WebsocketStream` with its socket. `pongs` counts the updates of `last_pong`. -/
structure Conn where
  inbound : List Ev
  outbound : List Bytes := []
  closed : Bool := false
  pongs : Nat := 0
  deriving Repr, DecidableEq

/-- `WebsocketError`, as far as receiving can produce it. -/
inductive RecvErr
  | readError | invalidOpcode | connectionClosed
  deriving DecidableEq, Repr

def RecvErr.ofWs : WsErr → RecvErr
  | .readError => .readError
  | .invalidOpcode => .invalidOpcode

/-- `Result<Message, WebsocketError>` / `Restion<Message, WebsocketError>`. `outOfFuel` is a device of
the model (the loops are given more fuel than they can use: `recv_fuel_suffices`). -/
inductive Result
  | message (text : Bool) (payload : Bytes)
  | err (e : RecvErr)
  | none
  | outOfFuel
  deriving DecidableEq, Repr

/-- `stream.write_all(bytes)`. -/
def Conn.write (c : Conn) (b : Bytes) : Conn := { c with outbound := c.outbound ++ [b] }

/-- `frames.last().map(|f| !f.fin).unwrap_or(true)`. -/
def wantMore (frames : List Frame) : Bool :=
  match frames.getLast? with
  | some f => !f.fin
  | none => true

/-- The end of `from_stream`: payloads concatenated, `text` from the first frame. -/
def assemble (frames : List Frame) : Result :=
  .message (match frames.head? with | some f => f.opcode == .text | none => false)
    (frames.map (·.payload)).flatten

/-- What the loop body does with a frame it has read. -/
inductive Step
  | done (r : Result) (c : Conn)
  | next (c : Conn) (frames : List Frame)

/-- The body of both receive loops after a frame was read (the two copies in `message.rs` are the same):
Ping → Pong with the same payload, `continue`; Pong → `last_pong`, `continue`; Close → Close with the
same payload, `ConnectionClosed`; otherwise `frames.push(frame)`. -/
def onFrame (c : Conn) (frames : List Frame) (f : Frame) : Step :=
  if f.opcode = .ping then .next (c.write (encodeFrame (Frame.new .pong f.payload))) frames
  else if f.opcode = .pong then .next { c with pongs := c.pongs + 1 } frames
  else if f.opcode = .close then
    .done (.err .connectionClosed) (c.write (encodeFrame (Frame.new .close f.payload)))
  else .next c (frames ++ [f])

/-- What is left of the stream after a failed frame read: a `ReadError` is the end of the stream; an
`InvalidOpcode` is raised after the two header bytes. -/
def afterError (s : List Ev) : WsErr → List Ev
  | .readError => []
  | .invalidOpcode =>
    match readExactEv 2 s with
    | some (_, s') => s'
    | none => []

/-- `Message::from_stream`: the `while` loop. -/
def recvLoop : Nat → Conn → List Frame → Result × Conn
  | 0, c, _ => (.outOfFuel, c)
  | fuel + 1, c, frames =>
    if wantMore frames then
      match readFrame c.inbound with
      | .error e => (.err (.ofWs e), { c with inbound := afterError c.inbound e })
      | .ok (f, s) =>
        match onFrame { c with inbound := s } frames f with
        | .done r c => (r, c)
        | .next c frames => recvLoop fuel c frames
    else (assemble frames, c)

/-- `Message::from_stream_nonblocking`: the first header is read without blocking as long as no data
frame has been collected (`is_first_frame` stays set across the `continue` of Ping and Pong). -/
def recvLoopNb : Nat → Conn → List Frame → Bool → Result × Conn
  | 0, c, _, _ => (.outOfFuel, c)
  | fuel + 1, c, frames, isFirst =>
    if wantMore frames then
      if isFirst then
        match nbHeader c.inbound with
        | .nothing s => (.none, { c with inbound := s })
        | .failed => (.err .readError, { c with inbound := [] })
        | .header h0 h1 s =>
          match (innerWith readExactEv s h0 h1).result with
          | .error e =>
            (.err (.ofWs e), { c with inbound := match e with | .readError => [] | .invalidOpcode => s })
          | .ok (f, s) =>
            match onFrame { c with inbound := s } frames f with
            | .done r c => (r, c)
            | .next c frames' =>
              recvLoopNb fuel c frames' (f.opcode = .ping || f.opcode = .pong)
      else
        match readFrame c.inbound with
        | .error e => (.err (.ofWs e), { c with inbound := afterError c.inbound e })
        | .ok (f, s) =>
          match onFrame { c with inbound := s } frames f with
          | .done r c => (r, c)
          | .next c frames => recvLoopNb fuel c frames false
    else (assemble frames, c)

/-- Bytes and events still in the script (an upper bound for the number of loop iterations). -/
def evSize : List Ev → Nat
  | [] => 0
  | .data b :: s => b.length + 1 + evSize s
  | .notYet :: s => 1 + evSize s

def fuelFor (c : Conn) : Nat := evSize c.inbound + 2

/-- `recv`/`recv_nonblocking`: note `ConnectionClosed` in `closed`. -/
def noteClosed (p : Result × Conn) : Result × Conn :=
  (p.1, if p.1 = .err .connectionClosed then { p.2 with closed := true } else p.2)

/-- `WebsocketStream::recv`. -/
def recvBlocking (c : Conn) : Result × Conn := noteClosed (recvLoop (fuelFor c) c [])

/-- `WebsocketStream::recv_nonblocking`. -/
def recvNonblocking (c : Conn) : Result × Conn := noteClosed (recvLoopNb (fuelFor c) c [] true)

/-- `WebsocketStream::send(message)` for a message with the given `text` flag. -/
def send (c : Conn) (text : Bool) (payload : Bytes) : Conn := c.write (messageToFrame text payload)

/-- `WebsocketStream::ping`. -/
def ping (c : Conn) : Conn := c.write (encodeFrame (Frame.new .ping []))

/-- `impl Drop for WebsocketStream`. -/
def dropStream (c : Conn) : Conn :=
  if c.closed then c else c.write (encodeFrame (Frame.new .close []))

/-- A handler of the usual shape, `while let Ok(message) = stream.recv() { … }`: the messages received,
the result that ended the loop, the connection afterwards. -/
def recvAll : Nat → Conn → List (Bool × Bytes) × Result × Conn
  | 0, c => ([], .outOfFuel, c)
  | fuel + 1, c =>
    match recvBlocking c with
    | (.message t p, c') =>
      let r := recvAll fuel c'
      ((t, p) :: r.1, r.2.1, r.2.2)
    | (r, c') => ([], r, c')

/-- …followed by the stream going out of scope. -/
def serve (c : Conn) : List (Bool × Bytes) × Result × Conn :=
  let r := recvAll (fuelFor c) c
  (r.1, r.2.1, dropStream r.2.2)

/-- The calls a handler can make on a `WebsocketStream`. -/
inductive Op
  | recv
  | recvNonblocking
  | ping
  | send (text : Bool) (payload : Bytes)
  deriving Repr

def Conn.apply (c : Conn) : Op → Conn
  | .recv => (recvBlocking c).2
  | .recvNonblocking => (recvNonblocking c).2
  | .ping => WsMsg.ping c
  | .send t p => WsMsg.send c t p

/-- Any handler: a sequence of calls, after which the stream is dropped. -/
def session (ops : List Op) (c : Conn) : Conn := dropStream (ops.foldl Conn.apply c)

end Humphrey.WsMsg
