import HumphreyModel.Model.WsFrame
import HumphreyModel.Model.Response
import HumphreyModel.Model.Base64

/-
Model of the WebSocket endpoint of `humphrey-ws`:

* `handler.rs`: `handshake` (and through it `websocket_handler`);
* `message.rs`: `Message::from_stream`, `Message::from_stream_nonblocking`;
* `stream.rs`: `WebsocketStream::{recv, recv_nonblocking, send, ping}` and `Drop`;
* `frame.rs`: `Frame::from_stream_nonblocking` (the frame decoder itself is `Model/WsFrame.lean`).

The code modelled is the code AFTER the two C11 repairs: replies and the drop-time Close are written as
encoded frames (`Vec::<u8>::from(frame)`), and a non-blocking header read that obtained a single byte
fetches the second one with a blocking `read_exact`.

The socket is a script of events (`Ev`): `data bytes` = a segment that has arrived (a `read` returns at
most what is left of it), `notYet` = a moment at which nothing has arrived (a non-blocking `read` there
fails with `WouldBlock` and the moment passes; a blocking `read` simply waits for the next event), end
of the script = the peer is gone (`read` returns `Ok(0)`). As in `Model/WsFrame.lean` an empty `data`
segment is a `read` returning `Ok(0)`. Every `write_all` is recorded as one entry of `outbound`
(every buffer written is an encoded frame or the handshake response, hence non-empty); writes do not
fail in this model, so `WebsocketError::WriteError` does not occur.

`SHA-1` is a parameter of `handshake` (`Model/Sha1.lean` is a separate slice).
-/
namespace Humphrey.WsMsg
open Humphrey.WsFrame

/-! ### The handshake -/

/-- `MAGIC_STRING`: "258EAFA5-E914-47DA-95CA-C5AB0DC85B11". -/
def guid : Bytes :=
  [50, 53, 56, 69, 65, 70, 65, 53, 45, 69, 57, 49, 52, 45, 52, 55, 68, 65, 45, 57, 53, 67, 65, 45,
   67, 53, 65, 66, 48, 68, 67, 56, 53, 66, 49, 49]

/-- "Sec-WebSocket-Key", as `HeaderType::from(&str)` stores it (lower case). -/
def hSecKey : Http.HName :=
  ⟨[115, 101, 99, 45, 119, 101, 98, 115, 111, 99, 107, 101, 116, 45, 107, 101, 121]⟩

/-- "Sec-WebSocket-Accept". -/
def hSecAccept : Http.HName :=
  ⟨[115, 101, 99, 45, 119, 101, 98, 115, 111, 99, 107, 101, 116, 45, 97, 99, 99, 101, 112, 116]⟩

def websocketValue : Bytes := [119, 101, 98, 115, 111, 99, 107, 101, 116]   -- "websocket"
def upgradeValue : Bytes := [85, 112, 103, 114, 97, 100, 101]                -- "Upgrade"
def http11 : Bytes := [72, 84, 84, 80, 47, 49, 46, 49]                       -- "HTTP/1.1"

/-- `format!("{}{}", handshake_key, MAGIC_STRING).hash().encode()`. -/
def acceptValue (sha1 : Bytes → Bytes) (key : Bytes) : Bytes := Base64.encode (sha1 (key ++ guid))

/-- The response built by `handshake`: `Response::empty(SwitchingProtocols)` with three headers. -/
def handshakeResponse (sha1 : Bytes → Bytes) (key : Bytes) : Http.Response :=
  { version := http11, status := 101,
    headers := [⟨Http.hUpgrade, websocketValue⟩, ⟨Http.hConnection, upgradeValue⟩,
                ⟨hSecAccept, acceptValue sha1 key⟩],
    body := [] }

/-- `handshake(request, stream)`: the bytes written (`some`), or `none` =
`Err(WebsocketError::HandshakeError)` with nothing written, when there is no `Sec-WebSocket-Key`. -/
def handshake (sha1 : Bytes → Bytes) (req : Http.Request) : Option Bytes :=
  match req.headers.get hSecKey with
  | none => none
  | some key => some (Http.serializeResponse (handshakeResponse sha1 key))

/-! ### The scripted socket -/

inductive Ev
  | data (b : Bytes)
  | notYet
  deriving DecidableEq, Repr, Inhabited

/-- The bytes still to come. -/
def dataBytes : List Ev → Bytes
  | [] => []
  | .data b :: s => b ++ dataBytes s
  | .notYet :: s => dataBytes s

/-- `read_exact` on an `n`-byte buffer in blocking mode (`Model/WsFrame.readExact` plus the `notYet`
moments, which a blocking read sits out). -/
def readExactEv : Nat → List Ev → Option (Bytes × List Ev)
  | 0, s => some ([], s)
  | _ + 1, [] => none
  | n + 1, .notYet :: s => readExactEv (n + 1) s
  | n + 1, .data c :: cs =>
    if c.length = 0 then none
    else if c.length ≤ n + 1 then
      match readExactEv (n + 1 - c.length) cs with
      | none => none
      | some (bs, s) => some (c ++ bs, s)
    else some (c.take (n + 1), .data (c.drop (n + 1)) :: cs)

/-! #### Compiled form of `readExactEv`

`c.length ≤ n + 1` walks the whole segment although the answer is known after `n + 2` cells: with a
client script of 200 000 frames delivered as ONE segment every two-byte header read would cost the
length of what is left of the stream. The definition above stays what the theorems are about; the
compiler is given the equal function below (`@[csimp]`, proved, no axiom). -/

/-- `c.length ≤ n`, looking at no more than `n + 1` cells. -/
def lenLe {α : Type} : List α → Nat → Bool
  | [], _ => true
  | _ :: _, 0 => false
  | _ :: t, n + 1 => lenLe t n

theorem lenLe_eq {α : Type} (c : List α) (n : Nat) : lenLe c n = decide (c.length ≤ n) := by
  induction c generalizing n with
  | nil => simp [lenLe]
  | cons a t ih =>
    cases n with
    | zero => simp [lenLe]
    | succ n => simp [lenLe, ih]

def readExactEvFast : Nat → List Ev → Option (Bytes × List Ev)
  | 0, s => some ([], s)
  | _ + 1, [] => none
  | n + 1, .notYet :: s => readExactEvFast (n + 1) s
  | n + 1, .data c :: cs =>
    if c.isEmpty then none
    else if lenLe c (n + 1) then
      match readExactEvFast (n + 1 - c.length) cs with
      | none => none
      | some (bs, s) => some (c ++ bs, s)
    else some (c.take (n + 1), .data (c.drop (n + 1)) :: cs)

@[csimp] theorem readExactEv_eq_fast : @readExactEv = @readExactEvFast := by
  funext n s
  induction s generalizing n with
  | nil => cases n <;> simp [readExactEv, readExactEvFast]
  | cons e s ih =>
    cases n with
    | zero => simp [readExactEv, readExactEvFast]
    | succ n =>
      cases e with
      | notYet => simp [readExactEv, readExactEvFast, ih]
      | data c =>
        cases c with
        | nil => simp [readExactEv, readExactEvFast]
        | cons a t => simp [readExactEv, readExactEvFast, lenLe_eq, ih]

/-- `Frame::from_stream(&mut stream.stream)` in blocking mode. -/
def readFrame (s : List Ev) : Except WsErr (Frame × List Ev) := (decodeWith readExactEv s).result

/-- Outcome of the header read of `Frame::from_stream_nonblocking`: `set_nonblocking`, ONE `read` into a
two-byte buffer, `set_blocking`; when a single byte came, `read_exact` for the second (repair of D7). -/
inductive NbHeader
  /-- `WouldBlock` or `Ok(0)`: `Restion::None` -/
  | nothing (s : List Ev)
  | header (h0 h1 : UInt8) (s : List Ev)
  /-- the second header byte never came: `ReadError` -/
  | failed
  deriving Repr, DecidableEq

def nbHeader : List Ev → NbHeader
  | [] => .nothing []
  | .notYet :: s => .nothing s
  | .data [] :: s => .nothing s
  | .data [a] :: s =>
    match readExactEv 1 s with
    | some ([b], s') => .header a b s'
    | _ => .failed
  | .data (a :: b :: rest) :: s =>
    .header a b (match rest with | [] => s | _ :: _ => .data rest :: s)

/-- `struct WebsocketStream` with its socket. `pongs` counts the updates of `last_pong`. -/
structure Conn where
  inbound : List Ev
  outbound : List Bytes := []
  closed : Bool := false
  pongs : Nat := 0
  deriving Repr, DecidableEq

/-- `WebsocketError`, as far as receiving can produce it. -/
inductive RecvErr
  | readError | invalidOpcode | connectionClosed
  deriving DecidableEq, Repr

def RecvErr.ofWs : WsErr → RecvErr
  | .readError => .readError
  | .invalidOpcode => .invalidOpcode

/-- `Result<Message, WebsocketError>` / `Restion<Message, WebsocketError>`. `outOfFuel` is a device of
the model (the loops are given more fuel than they can use: `recv_fuel_suffices`). -/
inductive Result
  | message (text : Bool) (payload : Bytes)
  | err (e : RecvErr)
  | none
  | outOfFuel
  deriving DecidableEq, Repr

/-- `stream.write_all(bytes)`. -/
def Conn.write (c : Conn) (b : Bytes) : Conn := { c with outbound := c.outbound ++ [b] }

/-- `frames.last().map(|f| !f.fin).unwrap_or(true)`. -/
def wantMore (frames : List Frame) : Bool :=
  match frames.getLast? with
  | some f => !f.fin
  | none => true

/-- The end of `from_stream`: payloads concatenated, `text` from the first frame. -/
def assemble (frames : List Frame) : Result :=
  .message (match frames.head? with | some f => f.opcode == .text | none => false)
    (frames.map (·.payload)).flatten

/-- What the loop body does with a frame it has read. -/
inductive Step
  | done (r : Result) (c : Conn)
  | next (c : Conn) (frames : List Frame)

/-- The body of both receive loops after a frame was read (the two copies in `message.rs` are the same):
Ping → Pong with the same payload, `continue`; Pong → `last_pong`, `continue`; Close → Close with the
same payload, `ConnectionClosed`; otherwise `frames.push(frame)`. -/
def onFrame (c : Conn) (frames : List Frame) (f : Frame) : Step :=
  if f.opcode = .ping then .next (c.write (encodeFrame (Frame.new .pong f.payload))) frames
  else if f.opcode = .pong then .next { c with pongs := c.pongs + 1 } frames
  else if f.opcode = .close then
    .done (.err .connectionClosed) (c.write (encodeFrame (Frame.new .close f.payload)))
  else .next c (frames ++ [f])

/-- What is left of the stream after a failed frame read: a `ReadError` is the end of the stream; an
`InvalidOpcode` is raised after the two header bytes. -/
def afterError (s : List Ev) : WsErr → List Ev
  | .readError => []
  | .invalidOpcode =>
    match readExactEv 2 s with
    | some (_, s') => s'
    | none => []

/-- `Message::from_stream`: the `while` loop. -/
def recvLoop : Nat → Conn → List Frame → Result × Conn
  | 0, c, _ => (.outOfFuel, c)
  | fuel + 1, c, frames =>
    if wantMore frames then
      match readFrame c.inbound with
      | .error e => (.err (.ofWs e), { c with inbound := afterError c.inbound e })
      | .ok (f, s) =>
        match onFrame { c with inbound := s } frames f with
        | .done r c => (r, c)
        | .next c frames => recvLoop fuel c frames
    else (assemble frames, c)

/-- `Message::from_stream_nonblocking`: the first header is read without blocking as long as no data
frame has been collected (`is_first_frame` stays set across the `continue` of Ping and Pong). -/
def recvLoopNb : Nat → Conn → List Frame → Bool → Result × Conn
  | 0, c, _, _ => (.outOfFuel, c)
  | fuel + 1, c, frames, isFirst =>
    if wantMore frames then
      if isFirst then
        match nbHeader c.inbound with
        | .nothing s => (.none, { c with inbound := s })
        | .failed => (.err .readError, { c with inbound := [] })
        | .header h0 h1 s =>
          match (innerWith readExactEv s h0 h1).result with
          | .error e =>
            (.err (.ofWs e), { c with inbound := match e with | .readError => [] | .invalidOpcode => s })
          | .ok (f, s) =>
            match onFrame { c with inbound := s } frames f with
            | .done r c => (r, c)
            | .next c frames' =>
              recvLoopNb fuel c frames' (f.opcode = .ping || f.opcode = .pong)
      else
        match readFrame c.inbound with
        | .error e => (.err (.ofWs e), { c with inbound := afterError c.inbound e })
        | .ok (f, s) =>
          match onFrame { c with inbound := s } frames f with
          | .done r c => (r, c)
          | .next c frames => recvLoopNb fuel c frames false
    else (assemble frames, c)

/-! #### Compiled form of the two receive loops

`Conn.write` appends to the END of `outbound` and the loops append to the END of `frames` (and look at
its last element), so a run of `n` Pings answered inside one call, or a message of `n` fragments,
costs `n²/2` list cells. The compiler is given loops that keep both lists reversed while they run
(`@[csimp]`, proved equal below, no axiom); the definitions above stay what the theorems are about. -/

/-- The same connection with the outbound log reversed. -/
def Conn.rev (c : Conn) : Conn := { c with outbound := c.outbound.reverse }

def Step.rev : Step → Step
  | .done r c => .done r c.rev
  | .next c frames => .next c.rev frames.reverse

/-- `wantMore` on the fragments kept newest-first. -/
def wantMoreRev (frames : List Frame) : Bool :=
  match frames.head? with
  | some f => !f.fin
  | none => true

theorem wantMoreRev_reverse (frames : List Frame) : wantMoreRev frames.reverse = wantMore frames := by
  simp [wantMoreRev, wantMore, List.head?_reverse]

/-- `onFrame` on a connection whose log, and a fragment list that, are kept newest-first. -/
def onFrameRev (c : Conn) (frames : List Frame) (f : Frame) : Step :=
  if f.opcode = .ping then
    .next { c with outbound := encodeFrame (Frame.new .pong f.payload) :: c.outbound } frames
  else if f.opcode = .pong then .next { c with pongs := c.pongs + 1 } frames
  else if f.opcode = .close then
    .done (.err .connectionClosed)
      { c with outbound := encodeFrame (Frame.new .close f.payload) :: c.outbound }
  else .next c (f :: frames)

theorem onFrameRev_rev (c : Conn) (frames : List Frame) (f : Frame) :
    onFrameRev c.rev frames.reverse f = (onFrame c frames f).rev := by
  unfold onFrameRev onFrame
  split
  · simp [Step.rev, Conn.rev, Conn.write]
  · split
    · simp [Step.rev, Conn.rev]
    · split
      · simp [Step.rev, Conn.rev, Conn.write]
      · simp [Step.rev]

theorem Conn.rev_rev (c : Conn) : c.rev.rev = c := by
  simp [Conn.rev]

def recvLoopRev : Nat → Conn → List Frame → Result × Conn
  | 0, c, _ => (.outOfFuel, c)
  | fuel + 1, c, frames =>
    if wantMoreRev frames then
      match readFrame c.inbound with
      | .error e => (.err (.ofWs e), { c with inbound := afterError c.inbound e })
      | .ok (f, s) =>
        match onFrameRev { c with inbound := s } frames f with
        | .done r c => (r, c)
        | .next c frames => recvLoopRev fuel c frames
    else (assemble frames.reverse, c)

theorem recvLoopRev_rev (fuel : Nat) (c : Conn) (frames : List Frame) :
    recvLoopRev fuel c.rev frames.reverse
      = ((recvLoop fuel c frames).1, (recvLoop fuel c frames).2.rev) := by
  induction fuel generalizing c frames with
  | zero => simp [recvLoopRev, recvLoop]
  | succ fuel ih =>
    unfold recvLoopRev recvLoop
    rw [wantMoreRev_reverse]
    split
    · have hin : c.rev.inbound = c.inbound := rfl
      rw [hin]
      cases hr : readFrame c.inbound with
      | error e => simp [Conn.rev]
      | ok p =>
        obtain ⟨f, s⟩ := p
        have h1 : ({ c.rev with inbound := s } : Conn) = ({ c with inbound := s } : Conn).rev := rfl
        simp only [h1, onFrameRev_rev]
        cases ho : onFrame { c with inbound := s } frames f with
        | done r c' => simp [Step.rev]
        | next c' frames' => simp [Step.rev, ih]
    · simp

def recvLoopFast (fuel : Nat) (c : Conn) (frames : List Frame) : Result × Conn :=
  let p := recvLoopRev fuel c.rev frames.reverse
  (p.1, p.2.rev)

@[csimp] theorem recvLoop_eq_fast : @recvLoop = @recvLoopFast := by
  funext fuel c frames
  simp [recvLoopFast, recvLoopRev_rev, Conn.rev_rev]

def recvLoopNbRev : Nat → Conn → List Frame → Bool → Result × Conn
  | 0, c, _, _ => (.outOfFuel, c)
  | fuel + 1, c, frames, isFirst =>
    if wantMoreRev frames then
      if isFirst then
        match nbHeader c.inbound with
        | .nothing s => (.none, { c with inbound := s })
        | .failed => (.err .readError, { c with inbound := [] })
        | .header h0 h1 s =>
          match (innerWith readExactEv s h0 h1).result with
          | .error e =>
            (.err (.ofWs e), { c with inbound := match e with | .readError => [] | .invalidOpcode => s })
          | .ok (f, s) =>
            match onFrameRev { c with inbound := s } frames f with
            | .done r c => (r, c)
            | .next c frames' =>
              recvLoopNbRev fuel c frames' (f.opcode = .ping || f.opcode = .pong)
      else
        match readFrame c.inbound with
        | .error e => (.err (.ofWs e), { c with inbound := afterError c.inbound e })
        | .ok (f, s) =>
          match onFrameRev { c with inbound := s } frames f with
          | .done r c => (r, c)
          | .next c frames => recvLoopNbRev fuel c frames false
    else (assemble frames.reverse, c)

theorem recvLoopNbRev_rev (fuel : Nat) (c : Conn) (frames : List Frame) (isFirst : Bool) :
    recvLoopNbRev fuel c.rev frames.reverse isFirst
      = ((recvLoopNb fuel c frames isFirst).1, (recvLoopNb fuel c frames isFirst).2.rev) := by
  induction fuel generalizing c frames isFirst with
  | zero => simp [recvLoopNbRev, recvLoopNb]
  | succ fuel ih =>
    unfold recvLoopNbRev recvLoopNb
    rw [wantMoreRev_reverse]
    have hin : c.rev.inbound = c.inbound := rfl
    have h1 : ∀ s, ({ c.rev with inbound := s } : Conn) = ({ c with inbound := s } : Conn).rev :=
      fun _ => rfl
    split
    · split
      · rw [hin]
        cases hn : nbHeader c.inbound with
        | nothing s => simp [Conn.rev]
        | failed => simp [Conn.rev]
        | header h0 h1' s =>
          simp only []
          cases hr : (innerWith readExactEv s h0 h1').result with
          | error e => simp [Conn.rev]
          | ok p =>
            obtain ⟨f, s'⟩ := p
            simp only [h1, onFrameRev_rev]
            cases ho : onFrame { c with inbound := s' } frames f with
            | done r c' => simp [Step.rev]
            | next c' frames' => simp [Step.rev, ih]
      · rw [hin]
        cases hr : readFrame c.inbound with
        | error e => simp [Conn.rev]
        | ok p =>
          obtain ⟨f, s⟩ := p
          simp only [h1, onFrameRev_rev]
          cases ho : onFrame { c with inbound := s } frames f with
          | done r c' => simp [Step.rev]
          | next c' frames' => simp [Step.rev, ih]
    · simp

def recvLoopNbFast (fuel : Nat) (c : Conn) (frames : List Frame) (isFirst : Bool) : Result × Conn :=
  let p := recvLoopNbRev fuel c.rev frames.reverse isFirst
  (p.1, p.2.rev)

@[csimp] theorem recvLoopNb_eq_fast : @recvLoopNb = @recvLoopNbFast := by
  funext fuel c frames isFirst
  simp [recvLoopNbFast, recvLoopNbRev_rev, Conn.rev_rev]

/-- Bytes and events still in the script (an upper bound for the number of loop iterations). -/
def evSize : List Ev → Nat
  | [] => 0
  | .data b :: s => b.length + 1 + evSize s
  | .notYet :: s => 1 + evSize s

def fuelFor (c : Conn) : Nat := evSize c.inbound + 2

/-- `recv`/`recv_nonblocking`: note `ConnectionClosed` in `closed`. -/
def noteClosed (p : Result × Conn) : Result × Conn :=
  (p.1, if p.1 = .err .connectionClosed then { p.2 with closed := true } else p.2)

/-- `WebsocketStream::recv`. -/
def recvBlocking (c : Conn) : Result × Conn := noteClosed (recvLoop (fuelFor c) c [])

/-- `WebsocketStream::recv_nonblocking`. -/
def recvNonblocking (c : Conn) : Result × Conn := noteClosed (recvLoopNb (fuelFor c) c [] true)

/-- `WebsocketStream::send(message)` for a message with the given `text` flag. -/
def send (c : Conn) (text : Bool) (payload : Bytes) : Conn := c.write (messageToFrame text payload)

/-- `WebsocketStream::ping`. -/
def ping (c : Conn) : Conn := c.write (encodeFrame (Frame.new .ping []))

/-- `impl Drop for WebsocketStream`. -/
def dropStream (c : Conn) : Conn :=
  if c.closed then c else c.write (encodeFrame (Frame.new .close []))

/-- A handler of the usual shape, `while let Ok(message) = stream.recv() { … }`: the messages received,
the result that ended the loop, the connection afterwards. -/
def recvAll : Nat → Conn → List (Bool × Bytes) × Result × Conn
  | 0, c => ([], .outOfFuel, c)
  | fuel + 1, c =>
    match recvBlocking c with
    | (.message t p, c') =>
      let r := recvAll fuel c'
      ((t, p) :: r.1, r.2.1, r.2.2)
    | (r, c') => ([], r, c')

/-- …followed by the stream going out of scope. -/
def serve (c : Conn) : List (Bool × Bytes) × Result × Conn :=
  let r := recvAll (fuelFor c) c
  (r.1, r.2.1, dropStream r.2.2)

/-- The calls a handler can make on a `WebsocketStream`. -/
inductive Op
  | recv
  | recvNonblocking
  | ping
  | send (text : Bool) (payload : Bytes)
  deriving Repr

def Conn.apply (c : Conn) : Op → Conn
  | .recv => (recvBlocking c).2
  | .recvNonblocking => (recvNonblocking c).2
  | .ping => WsMsg.ping c
  | .send t p => WsMsg.send c t p

/-- Any handler: a sequence of calls, after which the stream is dropped. -/
def session (ops : List Op) (c : Conn) : Conn := dropStream (ops.foldl Conn.apply c)

end Humphrey.WsMsg
