import HumphreyModel.Model.IO
import HumphreyModel.Generated.Tables
/-
Model of `humphrey/src/http/{headers,method,address,cookie,request}.rs`.
Text is bytes (see `Model/Bytes.lean`). The request parser is written against `Source`, so the
same definition runs on a chunked `Reader` and on the concatenated stream.
-/
namespace Humphrey.Http
open Humphrey Humphrey.Bytes

/-! ## Header names -/

/-- `HeaderType`, as produced by `HeaderType::from(&str)`: the ASCII-lower-cased name. Known
names and `Custom(lowercased)` are told apart by the generated table. -/
structure HName where
  lower : Bytes
deriving DecidableEq, Repr

def HName.ofName (n : Bytes) : HName := ⟨asciiLower n⟩

def lookup (l : Bytes) : List (Bytes × Bytes × Nat) → Option (Bytes × Nat)
  | [] => none
  | (k, d, c) :: rest => if k = l then some (d, c) else lookup l rest

/-- `HeaderType::to_string`. -/
def HName.display (h : HName) : Bytes :=
  match lookup h.lower Generated.headerTable with
  | some (d, _) => d
  | none => h.lower

/-- Rank of `HeaderType::category` (General, Response, Entity, Other). -/
def HName.category (h : HName) : Nat :=
  match lookup h.lower Generated.headerTable with
  | some (_, c) => c
  | none => 3

/-- Lexicographic `<` on bytes (Rust `String` ordering). -/
def bytesLt : Bytes → Bytes → Bool
  | [], [] => false
  | [], _ :: _ => true
  | _ :: _, [] => false
  | a :: as, b :: bs => if a < b then true else if b < a then false else bytesLt as bs

/-- `Ord for HeaderType`: category first, then the displayed name. -/
def HName.lt (a b : HName) : Bool :=
  if a.category ≠ b.category then a.category < b.category
  else bytesLt a.display b.display

structure Header where
  name : HName
  value : Bytes
deriving DecidableEq, Repr

abbrev Headers := List Header

def Headers.get (hs : Headers) (n : HName) : Option Bytes :=
  (hs.find? (fun h => h.name = n)).map (·.value)

def Headers.getAll (hs : Headers) (n : HName) : List Bytes :=
  (hs.filter (fun h => h.name = n)).map (·.value)

def Headers.remove (hs : Headers) (n : HName) : Headers := hs.filter (fun h => h.name ≠ n)

/-- Stable insertion: after every element that is not greater. -/
def insertSorted (h : Header) : Headers → Headers
  | [] => [h]
  | x :: xs => if h.name.lt x.name then h :: x :: xs else x :: insertSorted h xs

/-- `Headers::iter`: a *stable* sort by name (after the D12 repair: `sort_by_key`). -/
def Headers.sorted (hs : Headers) : Headers := hs.foldl (fun acc h => insertSorted h acc) []

def hContentLength : HName := ⟨[99, 111, 110, 116, 101, 110, 116, 45, 108, 101, 110, 103, 116, 104]⟩
def hConnection : HName := ⟨[99, 111, 110, 110, 101, 99, 116, 105, 111, 110]⟩
def hHost : HName := ⟨[104, 111, 115, 116]⟩
def hUpgrade : HName := ⟨[117, 112, 103, 114, 97, 100, 101]⟩
def hCookie : HName := ⟨[99, 111, 111, 107, 105, 101]⟩
def hXff : HName := ⟨[120, 45, 102, 111, 114, 119, 97, 114, 100, 101, 100, 45, 102, 111, 114]⟩
def hServer : HName := ⟨[115, 101, 114, 118, 101, 114]⟩
def hDate : HName := ⟨[100, 97, 116, 101]⟩
def hTransferEncoding : HName := ⟨[116, 114, 97, 110, 115, 102, 101, 114, 45, 101, 110, 99, 111, 100, 105, 110, 103]⟩
def hLocation : HName := ⟨[108, 111, 99, 97, 116, 105, 111, 110]⟩

/-! ## Methods -/

inductive Method | get | post | put | delete | options
deriving DecidableEq, Repr

def Method.name : Method → Bytes
  | .get => [71, 69, 84] | .post => [80, 79, 83, 84] | .put => [80, 85, 84]
  | .delete => [68, 69, 76, 69, 84, 69] | .options => [79, 80, 84, 73, 79, 78, 83]

def Method.ofName (n : Bytes) : Option Method :=
  if n = [71, 69, 84] then some .get
  else if n = [80, 79, 83, 84] then some .post
  else if n = [80, 85, 84] then some .put
  else if n = [68, 69, 76, 69, 84, 69] then some .delete
  else if n = [79, 80, 84, 73, 79, 78, 83] then some .options
  else none

/-! ## Addresses -/

/-- An IP address in the canonical text form `IpAddr`'s `Display` prints. -/
abbrev Ip := Bytes

structure Address where
  origin : Ip
  proxies : List Ip
  port : Nat
deriving DecidableEq, Repr

/-- `Address::from_headers`. `parseIp` stands for `IpAddr::from_str` (trusted, supplied by the
environment); entries are trimmed before parsing (after the D13 repair). -/
def Address.fromHeaders (parseIp : Bytes → Option Ip) (trim : Bytes → Bytes)
    (hs : Headers) (peer : Ip) (port : Nat) : Address :=
  match hs.get hXff with
  | none => ⟨peer, [], port⟩
  | some fwd =>
    let ips := (splitOn 44 fwd).filterMap (fun e => parseIp (trim e))
    match ips.getLast? with
    | none => ⟨peer, [], port⟩
    | some origin => ⟨origin, ips.dropLast ++ [peer], port⟩

/-! ## Requests -/

structure Request where
  method : Method
  uri : Bytes
  query : Bytes
  version : Bytes
  headers : Headers
  content : Option Bytes
  address : Address
deriving DecidableEq, Repr

inductive ReqErr | request | stream | disconnected | timeout
deriving DecidableEq, Repr

/-- Outcome of a parser run: a value, an error, or a Rust panic (kept explicit). -/
inductive Outcome (ε α : Type) where
  | ok : α → Outcome ε α
  | err : ε → Outcome ε α
  | panic : Outcome ε α
deriving Repr

/-- One header line (not the blank line): UTF-8 check, the line must end in CRLF (after the D8
repair: `strip_suffix("\r\n")` instead of slicing two bytes off), `splitn(2, ':')`, `trim_start`. -/
def parseHeaderLine (line : Bytes) : Outcome ReqErr Header :=
  if !utf8Valid line then .err .request
  else
    match stripCrlf line with
    | none => .err .request
    | some body =>
      match splitOnce 58 body with
      | (_, none) => .err .request
      | (name, some value) => .ok ⟨HName.ofName name, trimStart value⟩

/-- The header loop of `from_stream_inner`. -/
def parseHeaders {σ : Type} (S : Source σ) : Nat → σ → Headers → Outcome ReqErr (Headers × σ)
  | 0, _, _ => .err .request
  | fuel + 1, s, acc =>
    let (line, s') := S.readUntil LF s
    if line = crlf then .ok (acc, s')
    else match parseHeaderLine line with
      | .ok h => parseHeaders S fuel s' (acc ++ [h])
      | .err e => .err e
      | .panic => .panic

/-- The start line: `split(' ')`, method, target `splitn(2,'?')`, version with CRLF stripped. -/
def parseStartLine (line : Bytes) : Option (Method × Bytes × Bytes × Bytes) :=
  if !utf8Valid line then none
  else
    match splitOn SP line with
    | m :: target :: v :: _ =>
      match Method.ofName m with
      | none => none
      | some method =>
        let version := (stripCrlf v).getD []
        if version.isEmpty then none
        else
          let (uri, q) := splitOnce 63 target
          some (method, uri, q.getD [], version)
    | _ => none

/-- Environment of a parse: the peer address and the trusted `IpAddr::from_str`. -/
structure Env where
  peer : Ip
  port : Nat
  parseIp : Bytes → Option Ip

/-- `Request::from_stream` (`allocLimit`: the largest body allocation the process survives;
`vec![0; n]` beyond it aborts — made explicit for C03, `none` = unlimited). -/
def parseRequest {σ : Type} (S : Source σ) (env : Env) (s : σ) : Outcome ReqErr (Request × σ) :=
  match S.readExact 1 s with
  | none => .err .disconnected
  | some (first, s1) =>
    let (line, s2) := S.readUntil LF s1
    match parseStartLine (first ++ line) with
    | none => .err .request
    | some (method, uri, query, version) =>
      match parseHeaders S (S.remaining s2 + 1) s2 [] with
      | .err e => .err e
      | .panic => .panic
      | .ok (headers, s3) =>
        let address := Address.fromHeaders env.parseIp trim headers env.peer env.port
        match headers.get hContentLength with
        | none => .ok (⟨method, uri, query, version, headers, none, address⟩, s3)
        | some cl =>
          match parseUsize cl with
          | none => .err .request
          | some n =>
            match S.readExact n s3 with
            | none => .err .stream
            | some (body, s4) => .ok (⟨method, uri, query, version, headers, some body, address⟩, s4)

/-- `impl From<Request> for Vec<u8>`. -/
def serializeRequest (q : Request) : Bytes :=
  let start := q.method.name ++ [SP] ++ q.uri ++
    (if q.query.isEmpty then [] else [63] ++ q.query) ++ [SP] ++ q.version
  let lines := q.headers.sorted.map (fun h => h.name.display ++ [58, SP] ++ h.value)
  start ++ crlf ++ (crlf.intercalate lines) ++ crlf ++ crlf ++ q.content.getD []

/-- `Request::get_cookies`. -/
def cookies (q : Request) : List (Bytes × Bytes) :=
  match q.headers.get hCookie with
  | none => []
  | some v => (splitOn 59 v).filterMap (fun c =>
      match splitOnce 61 c with
      | (_, none) => none
      | (k, some val) => some (trim k, trim val))

end Humphrey.Http
