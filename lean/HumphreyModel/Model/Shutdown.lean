import HumphreyModel.Model.Pool

/-!
# Model of `App::run` (`humphrey/src/app.rs`) and of the tokio `select!` loop as transition systems

Core Lean only (the one import is the C08 pool model, itself import-free). The state of the thread pool is
NOT re-modelled: the App state contains a `Pool.State` and the App steps `execute`, `poolStop`, `poolDrop`
fire the C08 labels `submit`, `stop`, `dropBegin … dropSender`; the workers' and the recovery thread's
steps are the C08 steps, interleaved freely (`worker l`).

Who does what in the Rust code (threaded `run`, after `bind`, `thread_pool.start()` and `thread::spawn`):

* the thread that called `run` (`Caller`): `recvSignal` (`s.recv()` returned: a message, or `Err` because
  the `Sender` was dropped — both are "the signal"), `storeFlag` (`shutdown.store(true, SeqCst)`),
  `selfConnect` (`TcpStream::connect(unspecified_socket_to_loopback(addr))`, result ignored: refused when
  the listener is already gone), `joinAccept` (`main_app_thread.join()` returned).
* the accept thread (`Acc`): `accept` (`socket.incoming().next()` returned the head of the kernel's accept
  queue), `checkFlag v` (`shutdown_clone.load(SeqCst)` read `v`: `true` → `break`, the connection in hand
  is dropped unserved; `false` → an accept error is reported to the monitor and the loop continues, a
  connection goes to the connection condition), `cond b` (the condition returned `b`; `false` → the
  connection is dropped), `execute` (`thread_pool.execute(..)`: ONLY a channel send, C08 `submit`),
  after the loop `poolStop` (`thread_pool.stop()`, C08 `stop`: one `Shutdown` message is queued behind
  every task), then the closure's captures are dropped in the order in which they were captured:
  `dropListener` (the port is closed; what is still in the accept queue is reset by the kernel),
  `poolDrop l` (`Drop for ThreadPool` and its fields, C08 `dropBegin, dropDetachRecovery, dropDetach,
  dropSender`), `exit` (the thread ends).
* the environment: `arrive e` (a client's connection — or an accept failure such as `EMFILE`, entry `err`
  — enters the accept queue; possible at any time while the port is open) and `signal` (somebody sends on
  or drops the shutdown `Sender`; at any time, once).

`Cfg.condHangs` says on which connections the user-supplied connection condition does not return; the
liveness theorems assume there are none. Not modelled: a failing `bind` (`run` returns the error before
anything is spawned), an App without a shutdown receiver (the caller goes straight to `join` and `run`
never returns), the monitor, `run_tls`.
-/
namespace Humphrey.Shutdown
open Humphrey

/-- The traffic states the property lists. The accept loop never looks at them: what happens on an
accepted connection is the business of the pool's task (C08) and of the connection loop (C01). -/
inductive Traffic where
  | justAccepted | idleKeepAlive | halfSent | handlerShort | handlerLong | responseWriting | wsOpen
  | pipelined   -- several complete requests received on the connection, the first one being handled
  deriving DecidableEq, Repr

/-- What `accept` can return. -/
inductive Entry where
  | client (id : Nat) (t : Traffic)
  | wake                          -- the caller's loopback connection
  | err                           -- `Err(e)`
  deriving DecidableEq, Repr

/-- Program counter of the thread that called `run`: what it does next. -/
inductive Caller where
  | waitSignal | storeFlag | selfConnect | joinAccept | returned
  deriving DecidableEq, Repr

/-- Program counter of the accept thread: what it does next. -/
inductive Acc where
  | accepting
  | checkFlag (e : Entry)
  | condition (e : Entry)
  | execute (e : Entry)
  | poolStop
  | dropListener
  | dropPool
  | exited
  deriving DecidableEq, Repr

inductive Label where
  | arrive (e : Entry)
  | signal
  | recvSignal
  | storeFlag
  | selfConnect
  | joinAccept
  | accept
  | checkFlag (v : Bool)
  | cond (b : Bool)
  | execute
  | poolStop
  | dropListener
  | poolDrop (l : Pool.Label)
  | exit
  | worker (l : Pool.Label)
  deriving DecidableEq, Repr

structure Cfg where
  pool : Pool.Cfg
  /-- the connection condition does not return on this connection -/
  condHangs : Entry → Bool := fun _ => false

structure State where
  signalSent : Bool := false
  flag : Bool := false
  caller : Caller := .waitSignal
  acc : Acc := .accepting
  /-- the kernel's accept queue, front first -/
  backlog : List Entry := []
  listenerOpen : Bool := true
  pool : Pool.State
  -- ghost logs
  accepted : List Entry := []
  admitted : List Entry := []
  dispatched : List (Entry × Pool.TaskId) := []
  /-- dealt with by the loop without a task: denied by the condition, or an accept error -/
  notServed : List Entry := []
  /-- the connection in hand when the loop was left: dropped unserved -/
  brokeOn : Option Entry := none
  /-- what was in the accept queue when the listener was dropped: reset by the kernel -/
  lostBacklog : List Entry := []
  wakeRefused : Bool := false
  stopDone : Bool := false
  deriving DecidableEq, Repr

/-- The pool right after `thread_pool.start()` (C08: `step c init .start`). -/
def startedPool (c : Pool.Cfg) : Pool.State :=
  { Pool.init with life := .started, workers := List.replicate c.n .idle, recov := .waiting }

def init (c : Cfg) : State := { pool := startedPool c.pool }

/-- C08 labels of the thread that owns the pool (here: the accept thread). -/
def isOwnerLabel : Pool.Label → Bool
  | .start | .submit _ | .stop | .dropBegin | .dropJoinRecovery | .dropDetachRecovery | .dropDetach
  | .dropSender => true
  | _ => false

def isDropLabel : Pool.Label → Bool
  | .dropBegin | .dropDetachRecovery | .dropDetach | .dropSender => true
  | _ => false

def step (c : Cfg) (s : State) : Label → Option State
  | .arrive e =>
    if s.listenerOpen = true ∧ e ≠ .wake then some { s with backlog := s.backlog ++ [e] } else none
  | .signal =>
    if s.signalSent = false then some { s with signalSent := true } else none
  | .recvSignal =>
    if s.caller = .waitSignal ∧ s.signalSent = true then some { s with caller := .storeFlag } else none
  | .storeFlag =>
    if s.caller = .storeFlag then some { s with caller := .selfConnect, flag := true } else none
  | .selfConnect =>
    if s.caller = .selfConnect then
      if s.listenerOpen then some { s with caller := .joinAccept, backlog := s.backlog ++ [.wake] }
      else some { s with caller := .joinAccept, wakeRefused := true }
    else none
  | .joinAccept =>
    if s.caller = .joinAccept ∧ s.acc = .exited then some { s with caller := .returned } else none
  | .accept =>
    if s.acc = .accepting then
      match s.backlog with
      | e :: b => some { s with acc := .checkFlag e, backlog := b, accepted := s.accepted ++ [e] }
      | [] => none
    else none
  | .checkFlag v =>
    match s.acc with
    | .checkFlag e =>
      if v = s.flag then
        if v then some { s with acc := .poolStop, brokeOn := some e }
        else if e = .err then some { s with acc := .accepting, notServed := s.notServed ++ [e] }
        else some { s with acc := .condition e }
      else none
    | _ => none
  | .cond b =>
    match s.acc with
    | .condition e =>
      if c.condHangs e then none
      else if b then some { s with acc := .execute e, admitted := s.admitted ++ [e] }
      else some { s with acc := .accepting, notServed := s.notServed ++ [e] }
    | _ => none
  | .execute =>
    match s.acc with
    | .execute e =>
      -- `execute` asserts `started` and sends: it returns at once or panics (`none`), it never waits
      match Pool.step c.pool s.pool (.submit s.pool.submitted.length) with
      | some p => some { s with acc := .accepting, pool := p,
                                dispatched := s.dispatched ++ [(e, s.pool.submitted.length)] }
      | none => none
    | _ => none
  | .poolStop =>
    if s.acc = .poolStop then
      match Pool.step c.pool s.pool .stop with
      | some p => some { s with acc := .dropListener, pool := p, stopDone := true }
      | none => none
    else none
  | .dropListener =>
    if s.acc = .dropListener then
      some { s with acc := .dropPool, listenerOpen := false, lostBacklog := s.backlog, backlog := [] }
    else none
  | .poolDrop l =>
    if s.acc = .dropPool ∧ isDropLabel l = true then
      match Pool.step c.pool s.pool l with
      | some p => some { s with pool := p }
      | none => none
    else none
  | .exit =>
    if s.acc = .dropPool ∧ s.pool.caller = .done then some { s with acc := .exited } else none
  | .worker l =>
    if isOwnerLabel l = false then
      match Pool.step c.pool s.pool l with
      | some p => some { s with pool := p }
      | none => none
    else none

def run (c : Cfg) : State → List Label → Option State
  | s, [] => some s
  | s, l :: ls => match step c s l with
    | some s' => run c s' ls
    | none => none

def Reachable (c : Cfg) (s : State) : Prop := ∃ labels, run c (init c) labels = some s

/-- Everything except arrivals (there is one `arrive e` per entry `e`; it is enabled iff the port is open). -/
def candidates (s : State) : List Label :=
  [.signal, .recvSignal, .storeFlag, .selfConnect, .joinAccept, .accept, .checkFlag true, .checkFlag false,
   .cond true, .cond false, .execute, .poolStop, .dropListener, .exit]
  ++ (Pool.candidates s.pool).flatMap (fun l => [.poolDrop l, .worker l])

def enabled (c : Cfg) (s : State) : List Label :=
  (candidates s).filter (fun l => (step c s l).isSome)

def Label.isArrive : Label → Bool
  | .arrive _ => true
  | _ => false

def Label.isAccept : Label → Bool
  | .accept => true
  | _ => false

def Label.isExecute : Label → Bool
  | .execute => true
  | _ => false

/-- No thread can move and the signal has been sent (only clients could still connect, if the port were open). -/
def terminalB (c : Cfg) (s : State) : Bool := (enabled c s).isEmpty

/-- The steps of the shutdown path: everything the signal sets in motion. -/
def Label.isShutdownPath : Label → Bool
  | .signal | .recvSignal | .storeFlag | .selfConnect | .joinAccept | .checkFlag true | .poolStop
  | .dropListener | .poolDrop _ | .exit => true
  | _ => false

/-- The connection the accept thread has in hand. -/
def inHand : Acc → Option Entry
  | .checkFlag e | .condition e | .execute e => some e
  | _ => none

def Acc.inLoop : Acc → Bool
  | .accepting | .checkFlag _ | .condition _ | .execute _ => true
  | _ => false

/-! ## The tokio loop: `loop { select! { () = cancelled => break, s = accept() => … tokio::spawn … } }`

One task does everything; there is no flag, no wake-up connection and no pool: `select!` itself observes the
cancellation token whenever the loop is at its head. `run` returns from the `break` and the listener is
dropped with the function's locals; spawned tasks live in the runtime, which `run` does not own. -/
namespace Tokio

inductive Pc where
  | select                 -- at `select!`, both branches pending or ready
  | condition (e : Entry)
  | spawn (e : Entry)
  | dropListener           -- `break Ok(())` taken
  | returned
  deriving DecidableEq, Repr

inductive Label where
  | arrive (e : Entry)
  | cancel
  | takeCancelled          -- the `cancelled()` branch wins
  | takeAccept             -- the `accept()` branch wins
  | cond (b : Bool)
  | spawn
  | dropListener
  deriving DecidableEq, Repr

structure State where
  cancelled : Bool := false
  pc : Pc := .select
  backlog : List Entry := []
  listenerOpen : Bool := true
  spawned : List Entry := []
  accepted : List Entry := []
  notServed : List Entry := []
  lostBacklog : List Entry := []
  deriving DecidableEq, Repr

def init : State := {}

def step (condHangs : Entry → Bool) (s : State) : Label → Option State
  | .arrive e => if s.listenerOpen = true ∧ e ≠ .wake then some { s with backlog := s.backlog ++ [e] } else none
  | .cancel => if s.cancelled = false then some { s with cancelled := true } else none
  | .takeCancelled =>
    if s.pc = .select ∧ s.cancelled = true then some { s with pc := .dropListener } else none
  | .takeAccept =>
    -- `select!` picks a ready branch at random: a pending connection may still be taken after `cancel`
    if s.pc = .select then
      match s.backlog with
      | e :: b =>
        if e = .err then some { s with backlog := b, accepted := s.accepted ++ [e], notServed := s.notServed ++ [e] }
        else some { s with pc := .condition e, backlog := b, accepted := s.accepted ++ [e] }
      | [] => none
    else none
  | .cond b =>
    match s.pc with
    | .condition e =>
      if condHangs e then none
      else if b then some { s with pc := .spawn e } else some { s with pc := .select, notServed := s.notServed ++ [e] }
    | _ => none
  | .spawn =>
    match s.pc with
    | .spawn e => some { s with pc := .select, spawned := s.spawned ++ [e] }
    | _ => none
  | .dropListener =>
    if s.pc = .dropListener then
      some { s with pc := .returned, listenerOpen := false, lostBacklog := s.backlog, backlog := [] }
    else none

def run (h : Entry → Bool) : State → List Label → Option State
  | s, [] => some s
  | s, l :: ls => match step h s l with
    | some s' => run h s' ls
    | none => none

def Reachable (h : Entry → Bool) (s : State) : Prop := ∃ labels, run h init labels = some s

def candidates : List Label := [.cancel, .takeCancelled, .takeAccept, .cond true, .cond false, .spawn, .dropListener]

def enabled (h : Entry → Bool) (s : State) : List Label := candidates.filter (fun l => (step h s l).isSome)

def Label.isArrive : Label → Bool
  | .arrive _ => true
  | _ => false

end Tokio

end Humphrey.Shutdown
