import HumphreyModel.Proofs.HttpMsgChunked
/-
Truncation (C09): `Response::from_stream` (model `parseResponse`, on the flat stream) on a proper
prefix of a message. The message is seen as

    line0 CRLF  field-line CRLF ... field-line CRLF  CRLF  tail

A cut before the end of the blank line leaves the status line or the header loop with a line that
has no LF — which is an error — and a cut inside `tail` is handed to the body reader. Helper lemmas
carry the prefix `trunc_`.
-/
namespace Humphrey.Http
open Humphrey Humphrey.Bytes Humphrey.IO

/-! ## Lines without LF -/

theorem trunc_takeThrough_none (d : UInt8) (p : Bytes) (h : ∀ b ∈ p, b ≠ d) : takeThrough d p = none := by
  induction p with
  | nil => rfl
  | cons x xs ih =>
    have hx : x ≠ d := h x (by simp)
    simp [takeThrough, hx, ih (fun b hb => h b (by simp [hb]))]

theorem trunc_readUntil_noLF (p : Bytes) (h : ∀ b ∈ p, b ≠ 10) : flatReadUntil 10 p = (p, []) := by
  simp [flatReadUntil, trunc_takeThrough_none 10 p h]

theorem trunc_stripCrlf_noLF (p : Bytes) (h : ∀ b ∈ p, b ≠ 10) : stripCrlf p = none := by
  unfold stripCrlf
  split
  · rename_i hc
    exfalso
    have : (10 : UInt8) ∈ p := List.mem_of_mem_drop (i := p.length - 2) (by rw [hc.2]; simp [crlf])
    exact h 10 this rfl
  · rfl

theorem trunc_headerLine_noLF (p : Bytes) (h : ∀ b ∈ p, b ≠ 10) :
    parseRespHeaderLine p = .err .response := by
  unfold parseRespHeaderLine
  split
  · rfl
  · simp [trunc_stripCrlf_noLF p h]

theorem trunc_ne_crlf_noLF (p : Bytes) (h : ∀ b ∈ p, b ≠ 10) : p ≠ crlf := by
  intro e; subst e; exact h 10 (by simp [crlf]) rfl

/-- The header loop on input without LF: the one line it gets is not a field line. -/
theorem trunc_headers_noLF (p : Bytes) (h : ∀ b ∈ p, b ≠ 10) (fuel : Nat) (acc : Headers) :
    parseRespHeaders flatSource fuel p acc = .err .response := by
  cases fuel with
  | zero => rfl
  | succ fuel =>
    simp only [parseRespHeaders, flatSource, LF, trunc_readUntil_noLF p h, trunc_ne_crlf_noLF p h,
      if_false, trunc_headerLine_noLF p h]

/-- The whole parser on input without LF: no status line, or no header section. -/
theorem trunc_parse_noLF (p : Bytes) (h : ∀ b ∈ p, b ≠ 10) :
    parseResponse flatSource p = .err .response := by
  simp only [parseResponse, flatSource, LF, trunc_readUntil_noLF p h]
  cases parseStatusLine p with
  | none => rfl
  | some vc =>
    obtain ⟨v, c⟩ := vc
    have := trunc_headers_noLF [] (by simp) (([] : Bytes).length + 1) []
    simp only [flatSource] at this
    simp only [this]

/-! ## Prefixes -/

theorem trunc_take_ge (a t : Bytes) (n : Nat) (h : a.length ≤ n) :
    (a ++ t).take n = a ++ t.take (n - a.length) := by
  rw [List.take_append, List.take_of_length_le h]

theorem trunc_take_lt (a t : Bytes) (n : Nat) (h : n ≤ a.length) : (a ++ t).take n = a.take n :=
  List.take_append_of_le_length h

/-- A cut before the LF of a CRLF-terminated line leaves no LF. -/
theorem trunc_take_noLF (l t : Bytes) (hl : ∀ b ∈ l, b ≠ 10) (k : Nat) (hk : k < l.length + 2) :
    ∀ b ∈ (l ++ 13 :: 10 :: t).take k, b ≠ 10 := by
  have e : l ++ 13 :: 10 :: t = (l ++ [13]) ++ 10 :: t := by simp
  rw [e, trunc_take_lt _ _ _ (by simp; omega)]
  intro b hb
  have := List.mem_of_mem_take hb
  simp only [List.mem_append, List.mem_singleton] at this
  rcases this with hb | rfl
  · exact hl b hb
  · decide

/-! ## The header section cut short -/

/-- The header loop on a header section cut anywhere before the end of the blank line. -/
theorem trunc_headers_cut (hs : Headers) (hw : ∀ h ∈ hs, h.WF)
    (hu : ∀ h ∈ hs, utf8Valid (headerLine h ++ [13, 10]) = true)
    (ht : ∀ h ∈ hs, wsPrefixLen h.value = 0) (t : Bytes) (k : Nat)
    (hk : k < (hs.flatMap (fun h => headerLine h ++ [13, 10])).length + 2) (fuel : Nat) (acc : Headers) :
    parseRespHeaders flatSource fuel
      ((hs.flatMap (fun h => headerLine h ++ [13, 10]) ++ 13 :: 10 :: t).take k) acc = .err .response := by
  induction hs generalizing k fuel acc with
  | nil =>
    simp only [List.flatMap_nil, List.length_nil, Nat.zero_add] at hk
    exact trunc_headers_noLF _ (trunc_take_noLF [] t (by simp) k (by simpa using hk)) fuel acc
  | cons h hs ih =>
    have hwh := hw h (by simp)
    obtain ⟨f1, _⟩ := headerLine_facts h hwh
    have e : (h :: hs).flatMap (fun h => headerLine h ++ [13, 10]) ++ 13 :: 10 :: t =
        headerLine h ++ 13 :: 10 :: (hs.flatMap (fun h => headerLine h ++ [13, 10]) ++ 13 :: 10 :: t) := by
      simp
    rw [e]
    by_cases hlt : k < (headerLine h).length + 2
    · exact trunc_headers_noLF _ (trunc_take_noLF _ _ (fun b hb => (f1 b hb).2) k hlt) fuel acc
    · have e2 : headerLine h ++ 13 :: 10 :: (hs.flatMap (fun h => headerLine h ++ [13, 10]) ++ 13 :: 10 :: t) =
          (headerLine h ++ [13, 10]) ++ (hs.flatMap (fun h => headerLine h ++ [13, 10]) ++ 13 :: 10 :: t) := by
        simp
      rw [e2, trunc_take_ge _ _ _ (by simp; omega)]
      cases fuel with
      | zero => rfl
      | succ fuel =>
        have hr : flatReadUntil 10 ((headerLine h ++ [13, 10]) ++
            (hs.flatMap (fun h => headerLine h ++ [13, 10]) ++ 13 :: 10 :: t).take
              (k - (headerLine h ++ [13, 10]).length)) =
            (headerLine h ++ [13, 10],
              (hs.flatMap (fun h => headerLine h ++ [13, 10]) ++ 13 :: 10 :: t).take
                (k - (headerLine h ++ [13, 10]).length)) := by
          have := flatReadUntil_line (headerLine h)
            ((hs.flatMap (fun h => headerLine h ++ [13, 10]) ++ 13 :: 10 :: t).take
              (k - (headerLine h ++ [13, 10]).length)) (fun b hb => (f1 b hb).2)
          simpa using this
        rw [parseRespHeaders]
        simp only [flatSource, LF, hr, headerLine_ne_crlf h hwh, if_false,
          parseRespHeaderLine_serialize h hwh (hu h (by simp)) (ht h (by simp))]
        have := ih (fun x hx => hw x (by simp [hx])) (fun x hx => hu x (by simp [hx]))
          (fun x hx => ht x (by simp [hx])) (k - (headerLine h ++ [13, 10]).length)
          (by simp only [List.flatMap_cons, List.length_append, List.length_cons, List.length_nil] at hk ⊢
              omega)
          fuel (acc ++ [h])
        simp only [flatSource] at this
        exact this

/-! ## The head: status line, fields, blank line -/

/-- Status line `line0` (without its CRLF), field lines, blank line. -/
def truncHead (line0 : Bytes) (hs : Headers) : Bytes :=
  line0 ++ 13 :: 10 :: (hs.flatMap (fun h => headerLine h ++ [13, 10]) ++ [13, 10])

theorem truncHead_append (line0 : Bytes) (hs : Headers) (t : Bytes) :
    truncHead line0 hs ++ t =
      line0 ++ 13 :: 10 :: (hs.flatMap (fun h => headerLine h ++ [13, 10]) ++ 13 :: 10 :: t) := by
  simp [truncHead]

theorem truncHead_length (line0 : Bytes) (hs : Headers) :
    (truncHead line0 hs).length =
      line0.length + 2 + (hs.flatMap (fun h => headerLine h ++ [13, 10])).length + 2 := by
  simp [truncHead]; omega

/-- With the head complete, the parser reads it back and hands the rest to the body reader. -/
theorem trunc_parse_head (line0 v : Bytes) (c : Nat) (hs : Headers) (t : Bytes)
    (h0 : ∀ b ∈ line0, b ≠ 10) (hsl : parseStatusLine (line0 ++ [13, 10]) = some (v, c))
    (hw : ∀ h ∈ hs, h.WF) (hu : ∀ h ∈ hs, utf8Valid (headerLine h ++ [13, 10]) = true)
    (ht : ∀ h ∈ hs, wsPrefixLen h.value = 0) :
    parseResponse flatSource (truncHead line0 hs ++ t) =
      match parseBody flatSource c hs t with
      | .err e => .err e
      | .panic => .panic
      | .ok ((hs', body), s3) => .ok (⟨v, c, hs', body⟩, s3) := by
  rw [truncHead_append]
  have hr := flatReadUntil_line line0
    (hs.flatMap (fun h => headerLine h ++ [13, 10]) ++ 13 :: 10 :: t) h0
  have hh := parseRespHeaders_serialize hs hw hu ht t
    ((hs.flatMap (fun h => headerLine h ++ [13, 10]) ++ 13 :: 10 :: t).length + 1)
    (by have := length_le_flatMap hs
        simp only [List.length_append]; omega) []
  simp only [flatSource] at hh
  simp only [parseResponse, flatSource, LF, hr, hsl, hh, List.nil_append]
  generalize parseBody _ c hs t = o
  rcases o with ⟨⟨⟨_, _⟩, _⟩⟩ | _ | _ <;> rfl

/-- A cut anywhere inside the head (before the end of the blank line) is an error. -/
theorem trunc_head_cut (line0 v : Bytes) (c : Nat) (hs : Headers)
    (h0 : ∀ b ∈ line0, b ≠ 10) (hsl : parseStatusLine (line0 ++ [13, 10]) = some (v, c))
    (hw : ∀ h ∈ hs, h.WF) (hu : ∀ h ∈ hs, utf8Valid (headerLine h ++ [13, 10]) = true)
    (ht : ∀ h ∈ hs, wsPrefixLen h.value = 0) (n : Nat) (hn : n < (truncHead line0 hs).length) :
    parseResponse flatSource ((truncHead line0 hs).take n) = .err .response := by
  rw [truncHead_length] at hn
  have e0 : truncHead line0 hs =
      line0 ++ 13 :: 10 :: (hs.flatMap (fun h => headerLine h ++ [13, 10]) ++ 13 :: 10 :: []) := by
    simp [truncHead]
  by_cases hlt : n < line0.length + 2
  · rw [e0]
    exact trunc_parse_noLF _ (trunc_take_noLF line0 _ h0 n hlt)
  · have e1 : truncHead line0 hs =
        (line0 ++ [13, 10]) ++ (hs.flatMap (fun h => headerLine h ++ [13, 10]) ++ 13 :: 10 :: []) := by
      simp [truncHead]
    rw [e1, trunc_take_ge _ _ _ (by simp; omega)]
    have hr := flatReadUntil_line line0
      ((hs.flatMap (fun h => headerLine h ++ [13, 10]) ++ 13 :: 10 :: []).take
        (n - (line0 ++ [13, 10]).length)) h0
    have hr' : flatReadUntil 10 ((line0 ++ [13, 10]) ++
        (hs.flatMap (fun h => headerLine h ++ [13, 10]) ++ 13 :: 10 :: []).take
          (n - (line0 ++ [13, 10]).length)) =
        (line0 ++ [13, 10],
          (hs.flatMap (fun h => headerLine h ++ [13, 10]) ++ 13 :: 10 :: []).take
            (n - (line0 ++ [13, 10]).length)) := by
      simpa using hr
    have hh := trunc_headers_cut hs hw hu ht [] (n - (line0 ++ [13, 10]).length)
      (by simp only [List.length_append, List.length_cons, List.length_nil]; omega)
    simp only [flatSource] at hh
    simp only [parseResponse, flatSource, LF, hr', hsl, hh]

/-- **Every proper prefix of `head ++ tail` is an error, provided the body reader fails on every
proper prefix of `tail`.** -/
theorem trunc_message_cut (line0 v : Bytes) (c : Nat) (hs : Headers) (t : Bytes)
    (h0 : ∀ b ∈ line0, b ≠ 10) (hsl : parseStatusLine (line0 ++ [13, 10]) = some (v, c))
    (hw : ∀ h ∈ hs, h.WF) (hu : ∀ h ∈ hs, utf8Valid (headerLine h ++ [13, 10]) = true)
    (ht : ∀ h ∈ hs, wsPrefixLen h.value = 0)
    (hbody : ∀ j, j < t.length → ∃ e, parseBody flatSource c hs (t.take j) = .err e)
    (n : Nat) (hn : n < (truncHead line0 hs ++ t).length) :
    ∃ e, parseResponse flatSource ((truncHead line0 hs ++ t).take n) = .err e := by
  by_cases hlt : n < (truncHead line0 hs).length
  · rw [trunc_take_lt _ _ _ (by omega)]
    exact ⟨_, trunc_head_cut line0 v c hs h0 hsl hw hu ht n hlt⟩
  · rw [trunc_take_ge _ _ _ (by omega), trunc_parse_head line0 v c hs _ h0 hsl hw hu ht]
    obtain ⟨e, he⟩ := hbody (n - (truncHead line0 hs).length)
      (by simp only [List.length_append] at hn; omega)
    exact ⟨e, by rw [he]⟩

/-! ## Content-Length framing -/

/-- The body reader with `Content-Length: len` on fewer than `len` bytes. -/
theorem trunc_body_contentLength (c : Nat) (hs : Headers) (len : Nat) (hlen : len < 18446744073709551616)
    (hte : hs.get hTransferEncoding ≠ some chunkedValue)
    (hcl : hs.get hContentLength = some (natToBytes len)) (s : Bytes) (hs' : s.length < len) :
    parseBody flatSource c hs s = .err .stream := by
  simp only [parseBody, hte, if_false, hcl, parseUsize_natToBytes_m _ hlen, flatSource, flatReadExact]
  rw [if_neg (by omega)]

/-- The head of the serialised response: everything up to and including the blank line. -/
def headBytes (r : Response) : Bytes := truncHead (statusLine r) r.headers.sorted

/-- The message as framed: head and body, WITHOUT the serialiser's surplus CRLF. -/
def wireBytes (r : Response) : Bytes := headBytes r ++ r.body

theorem serialize_eq_wire_pad (r : Response) : serializeResponse r = wireBytes r ++ pad r := by
  rw [serialize_shape]
  by_cases hb : r.body = []
  · simp [wireBytes, headBytes, truncHead, bodyPart, pad, hb]
  · simp [wireBytes, headBytes, truncHead, bodyPart, pad, hb]

/-- The head is what the serialiser writes for the same response without a body. -/
theorem headBytes_eq (r : Response) : headBytes r = serializeResponse { r with body := [] } := by
  rw [serialize_shape]
  simp [headBytes, truncHead, statusLine, bodyPart]

theorem wireBytes_length_eq (r : Response) : (wireBytes r).length = (headBytes r).length + r.body.length := by
  simp [wireBytes]

theorem wireBytes_length (r : Response) :
    (wireBytes r).length = (serializeResponse r).length - (pad r).length := by
  rw [serialize_eq_wire_pad]; simp

theorem take_serialize_eq_take_wire (r : Response) (n : Nat) (hn : n ≤ (wireBytes r).length) :
    (serializeResponse r).take n = (wireBytes r).take n := by
  rw [serialize_eq_wire_pad, trunc_take_lt _ _ _ hn]

/-- **A Content-Length framed response cut at any offset before its last body byte is an error.** -/
theorem trunc_contentLength_cut (r : Response) (h : r.WF) (hp : r.ParseBack)
    (hcl : r.headers.get hContentLength = some (natToBytes r.body.length))
    (n : Nat) (hn : n < (wireBytes r).length) :
    ∃ e, parseResponse flatSource ((wireBytes r).take n) = .err e := by
  obtain ⟨s1, _, _, _⟩ := statusLine_facts r h
  have hws : ∀ x ∈ r.headers.sorted, x.WF := fun x hx => h.headers x ((mem_sorted_m _ _).mp hx)
  have hus : ∀ x ∈ r.headers.sorted, utf8Valid (headerLine x ++ [13, 10]) = true :=
    fun x hx => hp.line_utf8 x ((mem_sorted_m _ _).mp hx)
  have hts : ∀ x ∈ r.headers.sorted, wsPrefixLen x.value = 0 :=
    fun x hx => hp.value_trim x ((mem_sorted_m _ _).mp hx)
  apply trunc_message_cut (statusLine r) r.version r.status r.headers.sorted r.body
    (fun b hb => (s1 b hb).2) (parseStatusLine_serialize r h hp) hws hus hts _ n hn
  intro j hj
  refine ⟨_, trunc_body_contentLength r.status r.headers.sorted r.body.length hp.body_len ?_ ?_ _ ?_⟩
  · rw [sorted_get_m]; exact hp.not_chunked
  · rw [sorted_get_m]; exact hcl
  · simp only [List.length_take]; omega

/-- The complement: from the last body byte on (the cut falls in the surplus CRLF, or nowhere) the
response is complete and parses. -/
theorem trunc_contentLength_complete (r : Response) (h : r.WF) (hp : r.ParseBack)
    (hcl : r.headers.get hContentLength = some (natToBytes r.body.length))
    (n : Nat) (hn : (wireBytes r).length ≤ n) :
    parseResponse flatSource ((serializeResponse r).take n) =
      .ok (⟨r.version, r.status, r.headers.sorted, r.body⟩, (pad r).take (n - (wireBytes r).length)) := by
  obtain ⟨s1, _, _, _⟩ := statusLine_facts r h
  have hws : ∀ x ∈ r.headers.sorted, x.WF := fun x hx => h.headers x ((mem_sorted_m _ _).mp hx)
  have hus : ∀ x ∈ r.headers.sorted, utf8Valid (headerLine x ++ [13, 10]) = true :=
    fun x hx => hp.line_utf8 x ((mem_sorted_m _ _).mp hx)
  have hts : ∀ x ∈ r.headers.sorted, wsPrefixLen x.value = 0 :=
    fun x hx => hp.value_trim x ((mem_sorted_m _ _).mp hx)
  rw [serialize_eq_wire_pad, trunc_take_ge _ _ _ hn]
  simp only [wireBytes, headBytes, List.append_assoc]
  rw [trunc_parse_head (statusLine r) r.version r.status r.headers.sorted _
    (fun b hb => (s1 b hb).2) (parseStatusLine_serialize r h hp) hws hus hts]
  have hte := hp.not_chunked
  simp only [parseBody, sorted_get_m, hte, if_false, hcl, parseUsize_natToBytes_m _ hp.body_len,
    flatSource, flatReadExact]
  simp

end Humphrey.Http
