import HumphreyModel.Model.Auth
import HumphreyModel.Spec.Auth
/-
Lemmas about the `Vec<User>` database of `Model/Auth.lean`: what each mutation does to the
user-indexed view (`getUserByUid`), and the invariant that uids are pairwise distinct.
-/
namespace Humphrey.Auth
set_option linter.unusedSectionVars false
set_option linter.unusedSimpArgs false

section
variable {U T H : Type} [DecidableEq U] [DecidableEq T]

/-- No two entries of the database carry the same uid. -/
def UidsDistinct (db : Db U T H) : Prop := db.Pairwise (fun x y => x.uid ≠ y.uid)

/-- The session stored for a uid. -/
def sessOf (db : Db U T H) (u : U) : Option (T × Nat) := (getUserByUid db u).bind (·.session)

theorem getUserByUid_some {db : Db U T H} {u : U} {x : User U T H} (h : getUserByUid db u = some x) :
    x ∈ db ∧ x.uid = u := by
  unfold getUserByUid at h
  exact ⟨List.mem_of_find?_eq_some h, by simpa using List.find?_some h⟩

theorem getUserByUid_none {db : Db U T H} {u : U} (h : getUserByUid db u = none) :
    ∀ x ∈ db, x.uid ≠ u := by
  unfold getUserByUid at h
  intro x hx
  simpa using (List.find?_eq_none.mp h) x hx

/-- With distinct uids every entry is the one its uid finds. -/
theorem getUserByUid_of_mem {db : Db U T H} (hd : UidsDistinct db) {x : User U T H} (hx : x ∈ db) :
    getUserByUid db x.uid = some x := by
  unfold UidsDistinct at hd
  unfold getUserByUid
  induction db with
  | nil => cases hx
  | cons a l ih =>
    rw [List.pairwise_cons] at hd
    rw [List.find?_cons]
    rcases List.mem_cons.mp hx with rfl | hx'
    · simp
    · have hne : a.uid ≠ x.uid := hd.1 x hx'
      simp only [hne, decide_false]
      exact ih hd.2 hx'

theorem getUserByToken_some {db : Db U T H} {t : T} {x : User U T H} (h : getUserByToken db t = some x) :
    x ∈ db ∧ ∃ e, x.session = some (t, e) := by
  unfold getUserByToken at h
  refine ⟨List.mem_of_find?_eq_some h, ?_⟩
  have hp := List.find?_some h
  unfold hasToken at hp
  cases hs : x.session with
  | none => simp [hs] at hp
  | some s =>
    obtain ⟨t', e⟩ := s
    simp [hs] at hp
    exact ⟨e, by rw [hp]⟩

theorem getUserByToken_none {db : Db U T H} {t : T} (h : getUserByToken db t = none) :
    ∀ x ∈ db, ∀ e, x.session ≠ some (t, e) := by
  unfold getUserByToken at h
  intro x hx e hs
  have := (List.find?_eq_none.mp h) x hx
  simp [hasToken, hs] at this

/-- `update_user` on a uid that is present: succeeds, overwrites what that uid finds, leaves every other
uid's entry and the list of uids alone. -/
theorem updateUser_spec (db : Db U T H) (x' : User U T H) (hex : getUserByUid db x'.uid ≠ none) :
    ∃ db', updateUser db x' = .ok db' ∧
      (∀ u', getUserByUid db' u' = if u' = x'.uid then some x' else getUserByUid db u') ∧
      db'.map (·.uid) = db.map (·.uid) := by
  induction db with
  | nil => simp [getUserByUid] at hex
  | cons a l ih =>
    by_cases ha : a.uid = x'.uid
    · refine ⟨x' :: l, by simp [updateUser, ha], ?_, by simp [ha]⟩
      intro u'
      by_cases hu : u' = x'.uid
      · subst hu; simp [getUserByUid]
      · have h1 : ¬ x'.uid = u' := fun h => hu h.symm
        have h2 : ¬ a.uid = u' := fun h => hu (h.symm.trans ha)
        simp [getUserByUid, List.find?_cons, hu, h1, h2]
    · have hex' : getUserByUid l x'.uid ≠ none := by
        simpa [getUserByUid, List.find?_cons, ha] using hex
      obtain ⟨l', hl', hget, hmap⟩ := ih hex'
      refine ⟨a :: l', by simp [updateUser, ha, hl'], ?_, by simp [hmap]⟩
      intro u'
      have hg := hget u'
      unfold getUserByUid at hg ⊢
      rw [List.find?_cons, List.find?_cons]
      by_cases hau : a.uid = u'
      · have : ¬ u' = x'.uid := fun h => ha (hau.trans h)
        simp [hau, this]
      · simp only [hau, decide_false]
        exact hg

theorem uidsDistinct_iff (db : Db U T H) : UidsDistinct db ↔ (db.map (·.uid)).Pairwise (· ≠ ·) := by
  unfold UidsDistinct
  rw [List.pairwise_map]

theorem uidsDistinct_of_map_eq {db db' : Db U T H} (h : db'.map (·.uid) = db.map (·.uid))
    (hd : UidsDistinct db) : UidsDistinct db' := by
  rw [uidsDistinct_iff] at hd ⊢
  rw [h]; exact hd

/-- `push` of a user whose uid is not present. -/
theorem getUserByUid_append (db : Db U T H) (x : User U T H) (u' : U) :
    getUserByUid (db ++ [x]) u' =
      match getUserByUid db u' with
      | some y => some y
      | none => if x.uid = u' then some x else none := by
  unfold getUserByUid
  rw [List.find?_append]
  cases List.find? (fun x => decide (x.uid = u')) db with
  | some y => simp
  | none =>
    by_cases h : x.uid = u' <;> simp [List.find?_cons, h]

theorem uidsDistinct_append {db : Db U T H} {x : User U T H} (hd : UidsDistinct db)
    (hx : getUserByUid db x.uid = none) : UidsDistinct (db ++ [x]) := by
  unfold UidsDistinct at hd ⊢
  rw [List.pairwise_append]
  refine ⟨hd, by simp, ?_⟩
  intro a ha b hb
  have : b = x := by simpa using hb
  subst this
  exact getUserByUid_none hx a ha

/-- `retain(|user| user.uid != uid)`. -/
theorem getUserByUid_filter (db : Db U T H) (u u' : U) :
    getUserByUid (db.filter (fun x => !decide (x.uid = u))) u' =
      if u' = u then none else getUserByUid db u' := by
  unfold getUserByUid
  induction db with
  | nil => simp
  | cons a l ih =>
    rw [List.filter_cons]
    by_cases hau : a.uid = u
    · by_cases hu : u' = u
      · simp [hau, hu, ih]
      · have : ¬ a.uid = u' := fun h => hu (h.symm.trans hau)
        have h2 : ¬ u = u' := fun h => hu h.symm
        simp [hau, hu, ih, this, h2, List.find?_cons]
    · by_cases hu : u' = u
      · have : ¬ a.uid = u' := fun h => hau (h.trans hu)
        simp [hau, List.find?_cons, ih, hu, this]
      · simp [hau, List.find?_cons, ih, hu]

theorem uidsDistinct_filter {db : Db U T H} (hd : UidsDistinct db) (p : User U T H → Bool) :
    UidsDistinct (db.filter p) :=
  List.Pairwise.sublist List.filter_sublist hd

end
end Humphrey.Auth
