import HumphreyModel.Proofs.HttpMsgConn
/-
What `Request::from_stream` (model `parseRequest`) guarantees about the text the response echoes:
the version is non-empty and free of SP and LF, the `Connection` value is free of LF and has no
leading white space. What it does NOT guarantee is the absence of a bare CR (`NoBareCR`).
-/
namespace Humphrey.Http
open Humphrey Humphrey.Bytes Humphrey.IO

/-! ## `split(' ')` pieces -/

theorem splitOn_ne_nil_m (sep : UInt8) (l : Bytes) : splitOn sep l ≠ [] := by
  induction l with
  | nil => simp [splitOn]
  | cons b rest ih =>
    simp only [splitOn]
    split
    · simp
    · split <;> simp

/-- The first piece is a prefix, every later piece an infix; no piece contains the separator. -/
theorem splitOn_pieces (sep : UInt8) (l : Bytes) (q : Bytes) (ps : List Bytes)
    (h : splitOn sep l = q :: ps) :
    (∃ c, l = q ++ c) ∧ (∀ p ∈ ps, ∃ a c, l = a ++ p ++ c) ∧ (∀ p ∈ q :: ps, ∀ b ∈ p, b ≠ sep) := by
  induction l generalizing q ps with
  | nil =>
    simp only [splitOn, List.cons.injEq] at h
    obtain ⟨rfl, rfl⟩ := h
    simp
  | cons b rest ih =>
    simp only [splitOn] at h
    by_cases hb : b = sep
    · simp only [hb, if_true, List.cons.injEq] at h
      obtain ⟨rfl, rfl⟩ := h
      cases hs : splitOn sep rest with
      | nil => exact absurd hs (splitOn_ne_nil_m _ _)
      | cons q' ps' =>
        obtain ⟨⟨c, hc⟩, i2, i3⟩ := ih q' ps' hs
        refine ⟨⟨b :: rest, rfl⟩, ?_, ?_⟩
        · intro p hp
          simp only [List.mem_cons] at hp
          rcases hp with rfl | hp
          · exact ⟨[b], c, by simp [hc]⟩
          · obtain ⟨a, c', e⟩ := i2 p hp
            exact ⟨b :: a, c', by simp [e]⟩
        · intro p hp
          simp only [List.mem_cons] at hp
          rcases hp with rfl | hp
          · simp
          · exact i3 p (by simpa using hp)
    · simp only [hb, if_false] at h
      cases hs : splitOn sep rest with
      | nil => exact absurd hs (splitOn_ne_nil_m _ _)
      | cons q' ps' =>
        simp only [hs, List.cons.injEq] at h
        obtain ⟨rfl, rfl⟩ := h
        obtain ⟨⟨c, hc⟩, i2, i3⟩ := ih q' ps' hs
        refine ⟨⟨c, by simp [hc]⟩, ?_, ?_⟩
        · intro p hp
          obtain ⟨a, c', e⟩ := i2 p hp
          exact ⟨b :: a, c', by simp [e]⟩
        · intro p hp
          simp only [List.mem_cons] at hp
          rcases hp with rfl | hp
          · intro x hx
            simp only [List.mem_cons] at hx
            rcases hx with rfl | hx
            · exact hb
            · exact i3 q' (by simp) x hx
          · exact i3 p (by simp [hp])

theorem stripCrlf_some {v w : Bytes} (h : stripCrlf v = some w) : v = w ++ [13, 10] := by
  unfold stripCrlf at h
  split at h
  · rename_i hc
    simp only [Option.some.injEq] at h
    rw [← h]
    have := List.take_append_drop (v.length - 2) v
    rw [hc.2] at this
    exact this.symm
  · cases h

theorem splitOnce_some {sep : UInt8} {l a r : Bytes} (h : splitOnce sep l = (a, some r)) :
    l = a ++ sep :: r := by
  induction l generalizing a with
  | nil => simp [splitOnce] at h
  | cons b rest ih =>
    simp only [splitOnce] at h
    by_cases hb : b = sep
    · simp only [hb, if_true, Prod.mk.injEq, Option.some.injEq] at h
      obtain ⟨rfl, rfl⟩ := h; simp [hb]
    · simp only [hb, if_false] at h
      cases hr : splitOnce sep rest with
      | mk a' r' =>
        simp only [hr, Prod.mk.injEq] at h
        obtain ⟨rfl, rfl⟩ := h
        simp [ih hr]

/-! ## `read_until(LF)`: LF only at the very end -/

theorem takeThrough_shape {d : UInt8} {s pre post : Bytes} (h : takeThrough d s = some (pre, post)) :
    ∃ p, pre = p ++ [d] ∧ ∀ b ∈ p, b ≠ d := by
  induction s generalizing pre with
  | nil => simp [takeThrough] at h
  | cons x xs ih =>
    simp only [takeThrough] at h
    by_cases hx : x = d
    · simp only [hx, if_true, Option.some.injEq, Prod.mk.injEq] at h
      exact ⟨[], by simp [← h.1], by simp⟩
    · simp only [hx, if_false] at h
      cases hr : takeThrough d xs with
      | none => simp [hr] at h
      | some q =>
        obtain ⟨q1, q2⟩ := q
        simp only [hr, Option.some.injEq, Prod.mk.injEq] at h
        obtain ⟨rfl, rfl⟩ := h
        obtain ⟨p, hp, hn⟩ := ih hr
        refine ⟨x :: p, by simp [hp], ?_⟩
        intro b hb
        simp only [List.mem_cons] at hb
        rcases hb with rfl | hb
        · exact hx
        · exact hn b hb

theorem takeThrough_none {d : UInt8} {s : Bytes} (h : takeThrough d s = none) : ∀ b ∈ s, b ≠ d := by
  induction s with
  | nil => simp
  | cons x xs ih =>
    simp only [takeThrough] at h
    by_cases hx : x = d
    · simp [hx] at h
    · simp only [hx, if_false] at h
      cases hr : takeThrough d xs with
      | some q => simp [hr] at h
      | none =>
        intro b hb
        simp only [List.mem_cons] at hb
        rcases hb with rfl | hb
        · exact hx
        · exact ih hr b hb

theorem flatReadUntil_dropLast (d : UInt8) (s : Bytes) : ∀ b ∈ (flatReadUntil d s).1.dropLast, b ≠ d := by
  unfold flatReadUntil
  cases h : takeThrough d s with
  | none =>
    intro b hb
    exact takeThrough_none h b ((List.dropLast_sublist s).subset hb)
  | some p =>
    obtain ⟨pre, post⟩ := p
    obtain ⟨q, hq, hn⟩ := takeThrough_shape h
    simp only [hq, List.dropLast_concat]
    exact hn

/-! ## The start line -/

theorem parseStartLine_version {full : Bytes} {m : Method} {u q v : Bytes}
    (h : parseStartLine full = some (m, u, q, v)) (hlf : ∀ b ∈ full.dropLast, b ≠ 10) :
    v ≠ [] ∧ ∀ b ∈ v, b ≠ 32 ∧ b ≠ 10 := by
  unfold parseStartLine at h
  split at h
  · cases h
  · split at h
    · rename_i mm target vv rest hsp
      split at h
      · cases h
      · rename_i method _
        simp only at h
        split at h
        · cases h
        · rename_i hne
          simp only [Option.some.injEq, Prod.mk.injEq] at h
          obtain ⟨_, _, _, hv⟩ := h
          cases hs : stripCrlf vv with
          | none => rw [hs] at hne; simp at hne
          | some w =>
            rw [hs] at hv hne
            simp only [Option.getD_some] at hv hne
            subst hv
            have hvv := stripCrlf_some hs
            obtain ⟨_, i2, i3⟩ := splitOn_pieces SP full mm (target :: vv :: rest) hsp
            obtain ⟨a, c, e⟩ := i2 vv (by simp)
            refine ⟨by intro e0; subst e0; simp at hne, ?_⟩
            intro b hb
            constructor
            · exact i3 vv (by simp) b (by rw [hvv]; simp [hb])
            · apply hlf
              have : full = (a ++ w) ++ ([13, 10] ++ c) := by rw [e, hvv]; simp
              rw [this, List.dropLast_append_of_ne_nil (by simp)]
              simp [hb]
    · cases h

theorem method_first_not_lf (x : UInt8) (p : Bytes) (m : Method) (h : Method.ofName (x :: p) = some m) :
    x ≠ 10 := by
  intro e; subst e
  simp [Method.ofName] at h

/-- The version of a request whose start line is `x :: line`, `line` read by `read_until(LF)`. -/
theorem startLine_version (x : UInt8) (s1 : Bytes) {m : Method} {u q v : Bytes}
    (h : parseStartLine ([x] ++ (flatReadUntil 10 s1).1) = some (m, u, q, v)) :
    v ≠ [] ∧ ∀ b ∈ v, b ≠ 32 ∧ b ≠ 10 := by
  apply parseStartLine_version h
  -- the first byte starts a method name, so it is not LF
  have hx : x ≠ 10 := by
    have h' := h
    unfold parseStartLine at h'
    split at h'
    · cases h'
    · split at h'
      · rename_i mm target vv rest hsp
        split at h'
        · cases h'
        · rename_i method hmeth
          obtain ⟨⟨c, hc⟩, _, _⟩ := splitOn_pieces SP _ mm (target :: vv :: rest) hsp
          cases mm with
          | nil => simp [Method.ofName] at hmeth
          | cons y ys =>
            simp only [List.cons_append, List.nil_append, List.cons.injEq] at hc
            rw [hc.1]
            exact method_first_not_lf y ys method hmeth
      · cases h'
  have hl := flatReadUntil_dropLast 10 s1
  cases hline : (flatReadUntil 10 s1).1 with
  | nil => simp
  | cons y ys =>
    rw [hline] at hl
    simp only [List.cons_append, List.nil_append]
    rw [List.dropLast_cons_of_ne_nil (by simp)]
    intro b hb
    simp only [List.mem_cons] at hb
    rcases hb with rfl | hb
    · exact hx
    · exact hl b hb

/-! ## Header values -/

theorem trimStartAux_drop (fuel : Nat) (s : Bytes) : ∃ k, trimStartAux fuel s = s.drop k := by
  induction fuel generalizing s with
  | zero => exact ⟨0, by simp [trimStartAux]⟩
  | succ fuel ih =>
    simp only [trimStartAux]
    split
    · exact ⟨0, by simp⟩
    · rename_i k _
      obtain ⟨j, hj⟩ := ih (s.drop (wsPrefixLen s))
      exact ⟨wsPrefixLen s + j, by rw [hj, List.drop_drop]⟩

theorem trimStartAux_trimmed (fuel : Nat) (s : Bytes) (hf : s.length ≤ fuel) :
    wsPrefixLen (trimStartAux fuel s) = 0 := by
  induction fuel generalizing s with
  | zero =>
    have : s = [] := List.length_eq_zero_iff.mp (by omega)
    subst this
    simp [trimStartAux, wsPrefixLen, wsSeqs, List.find?, List.isPrefixOf]
  | succ fuel ih =>
    simp only [trimStartAux]
    split
    · assumption
    · rename_i k hk
      apply ih
      have : wsPrefixLen s ≠ 0 := hk
      simp only [List.length_drop]
      omega

theorem wsPrefixLen_ows (b : UInt8) (t : Bytes) (h : wsPrefixLen (b :: t) = 0) : b ≠ 32 ∧ b ≠ 9 := by
  constructor
  · intro e; subst e
    simp [wsPrefixLen, wsSeqs, List.find?, List.isPrefixOf] at h
  · intro e; subst e
    simp [wsPrefixLen, wsSeqs, List.find?, List.isPrefixOf] at h

/-- A header value parsed from a line read by `read_until(LF)`. -/
theorem parseHeaderLine_value (t : Bytes) (h : Header)
    (hp : parseHeaderLine (flatReadUntil 10 t).1 = .ok h) :
    (∀ b ∈ h.value, b ≠ 10) ∧ ∀ b r, h.value = b :: r → b ≠ 32 ∧ b ≠ 9 := by
  unfold parseHeaderLine at hp
  split at hp
  · cases hp
  · split at hp
    · cases hp
    · rename_i body hs
      split at hp
      · cases hp
      · rename_i name value hso
        simp only [Outcome.ok.injEq] at hp
        subst hp
        simp only
        have hline := stripCrlf_some hs
        have hbody := splitOnce_some hso
        have hl := flatReadUntil_dropLast 10 t
        rw [hline, show body ++ [13, 10] = (body ++ [13]) ++ [10] by simp, List.dropLast_concat] at hl
        obtain ⟨k, hk⟩ := trimStartAux_drop value.length value
        constructor
        · intro b hb
          apply hl
          have : b ∈ value := by
            simp only [trimStart, hk] at hb
            exact List.mem_of_mem_drop hb
          rw [hbody]; simp [this]
        · intro b r e
          have := trimStartAux_trimmed value.length value (Nat.le_refl _)
          simp only [trimStart] at e
          rw [e] at this
          exact wsPrefixLen_ows b r this

theorem parseHeaders_flat_values (fuel : Nat) (s : Bytes) (acc hs : Headers) (s' : Bytes)
    (h : parseHeaders flatSource fuel s acc = .ok (hs, s')) :
    ∀ x ∈ hs, x ∈ acc ∨ ∃ t, parseHeaderLine (flatReadUntil 10 t).1 = .ok x := by
  induction fuel generalizing s acc with
  | zero => simp [parseHeaders] at h
  | succ fuel ih =>
    simp only [parseHeaders] at h
    split at h
    · simp only [Outcome.ok.injEq, Prod.mk.injEq] at h
      rw [← h.1]; exact fun x hx => .inl hx
    · split at h
      · rename_i hd hpl
        intro x hx
        rcases ih _ _ h x hx with hm | hm
        · simp only [List.mem_append, List.mem_singleton] at hm
          rcases hm with hm | rfl
          · exact .inl hm
          · exact .inr ⟨s, hpl⟩
        · exact .inr hm
      · cases h
      · cases h

/-! ## `parseRequest` -/

theorem parseRequest_flat_inv_m (env : Env) (b : Bytes) (req : Request) (b' : Bytes)
    (h : parseRequest flatSource env b = .ok (req, b')) :
    ∃ x s1 m u q fuel s3, parseStartLine ([x] ++ (flatReadUntil 10 s1).1) = some (m, u, q, req.version) ∧
      parseHeaders flatSource fuel (flatReadUntil 10 s1).2 [] = .ok (req.headers, s3) := by
  unfold parseRequest at h
  cases b with
  | nil => simp [flatSource, flatReadExact] at h
  | cons x s1 =>
    have h1 : flatSource.readExact 1 (x :: s1) = some ([x], s1) := by simp [flatSource, flatReadExact]
    simp only [h1] at h
    split at h
    · cases h
    · rename_i method uri query version hsl
      split at h
      · cases h
      · cases h
      · rename_i headers s3 hph
        refine ⟨x, s1, method, uri, query, flatSource.remaining (flatSource.readUntil LF s1).2 + 1, s3, ?_, ?_⟩
        · have : req.version = version := by
            split at h
            · simp only [Outcome.ok.injEq, Prod.mk.injEq] at h; rw [← h.1]
            · split at h
              · cases h
              · split at h
                · cases h
                · simp only [Outcome.ok.injEq, Prod.mk.injEq] at h; rw [← h.1]
          rw [this]; exact hsl
        · have : req.headers = headers := by
            split at h
            · simp only [Outcome.ok.injEq, Prod.mk.injEq] at h; rw [← h.1]
            · split at h
              · cases h
              · split at h
                · cases h
                · simp only [Outcome.ok.injEq, Prod.mk.injEq] at h; rw [← h.1]
          rw [this]; exact hph

/-- The one thing parsing does not guarantee about the echoed text: no CR (a CR inside the version
or inside the `Connection` value is necessarily a *bare* CR — one not followed by LF). -/
structure NoBareCR (req : Request) : Prop where
  version : ∀ b ∈ req.version, b ≠ 13
  connection : ∀ c, req.headers.get hConnection = some c → ∀ b ∈ c, b ≠ 13

/-- **What `from_stream` guarantees**: a parsed request echoes clean text except possibly for bare
CRs. -/
theorem parseRequest_reqOk (env : Env) (b : Bytes) (req : Request) (b' : Bytes)
    (h : parseRequest flatSource env b = .ok (req, b')) (hcr : NoBareCR req) : ReqOk req := by
  obtain ⟨x, s1, m, u, q, fuel, s3, hsl, hph⟩ := parseRequest_flat_inv_m env b req b' h
  obtain ⟨v1, v2⟩ := startLine_version x s1 hsl
  refine ⟨v1, fun b hb => ⟨(v2 b hb).1, hcr.version b hb, (v2 b hb).2⟩, ?_⟩
  intro c hc
  have hmem : ∃ hd ∈ req.headers, hd.value = c := by
    simp only [Headers.get, Option.map_eq_some_iff] at hc
    obtain ⟨hd, hf, hv⟩ := hc
    exact ⟨hd, List.mem_of_find?_eq_some hf, hv⟩
  obtain ⟨hd, hm, rfl⟩ := hmem
  rcases parseHeaders_flat_values fuel _ [] _ _ hph hd hm with hx | ⟨t, ht⟩
  · simp at hx
  · obtain ⟨w1, w2⟩ := parseHeaderLine_value t hd ht
    exact ⟨HName.wf_known hConnection (by decide), fun b hb => ⟨hcr.connection _ hc b hb, w1 b hb⟩, w2⟩

end Humphrey.Http
