import HumphreyModel.Proofs.JsonNum

/-!
Helper lemmas for `decCodec_lawful` (C13), part 1: decimal digits, the normal form of a `DecNum`
and what `decParse` returns on the two shapes of text that `decShow` prints.
Core Lean only. All lemma names carry the prefix `dec_` (definition: `DecFin`).
-/
namespace Humphrey.Json
open Humphrey.JsonSpec

/-- Normal form of a `DecNum` = the numbers `decParse` can return: the mantissa carries no trailing
decimal zero, and zero is `0e0` (with either sign: `-0` is a number of its own, as in `f64`). -/
def DecFin (d : DecNum) : Prop := (d.mant = 0 → d.exp = 0) ∧ (d.mant ≠ 0 → d.mant % 10 ≠ 0)

instance (d : DecNum) : Decidable (DecFin d) := by unfold DecFin; exact inferInstance

/-! ### decimal digits -/

theorem dec_digitsVal_eq (l : List Char) : digitsVal l = Nat.ofDigitChars 10 l 0 := by
  unfold digitsVal Nat.ofDigitChars
  congr 1
  funext a c
  rw [Nat.mul_comm]
  rfl

theorem dec_digitsVal_append (a b : List Char) :
    digitsVal (a ++ b) = 10 ^ b.length * digitsVal a + digitsVal b := by
  rw [dec_digitsVal_eq, dec_digitsVal_eq, dec_digitsVal_eq, Nat.ofDigitChars_append,
    Nat.ofDigitChars_eq_ofDigitChars_zero]

theorem dec_digitsVal_zeros (k : Nat) : digitsVal (List.replicate k '0') = 0 := by
  rw [dec_digitsVal_eq, Nat.ofDigitChars_replicate_zero]; simp

theorem dec_digitChar_digit : ∀ k : Fin 10, Digit (Nat.digitChar k.val) := by
  unfold Digit; decide

theorem dec_digitChar_digit19 : ∀ k : Fin 10, k.val ≠ 0 → Digit19 (Nat.digitChar k.val) := by
  unfold Digit19; decide

theorem dec_natDigits_if (n : Nat) :
    natDigits n = if n < 10 then [Nat.digitChar n] else natDigits (n / 10) ++ [Nat.digitChar (n % 10)] :=
  Nat.toDigits_eq_if (by decide)

theorem dec_natDigits_digits (n : Nat) : ∀ c ∈ natDigits n, Digit c := by
  induction n using Nat.strongRecOn with
  | _ n ih =>
    rw [dec_natDigits_if]
    split
    · rename_i hn
      intro c hc
      simp only [List.mem_singleton] at hc
      subst hc
      exact dec_digitChar_digit ⟨n, hn⟩
    · intro c hc
      rcases List.mem_append.1 hc with hc | hc
      · exact ih (n / 10) (by omega) c hc
      · simp only [List.mem_singleton] at hc
        subst hc
        exact dec_digitChar_digit ⟨n % 10, by omega⟩

theorem dec_natDigits_head {n : Nat} (h : 0 < n) : ∃ c r, natDigits n = c :: r ∧ Digit19 c := by
  induction n using Nat.strongRecOn with
  | _ n ih =>
    rw [dec_natDigits_if]
    split
    · rename_i hn
      exact ⟨_, [], rfl, dec_digitChar_digit19 ⟨n, hn⟩ (by simp; omega)⟩
    · obtain ⟨c, r, hcr, hc⟩ := ih (n / 10) (by omega) (by omega)
      exact ⟨c, r ++ [Nat.digitChar (n % 10)], by rw [hcr]; rfl, hc⟩

theorem dec_digitsVal_natDigits (n : Nat) : digitsVal (natDigits n) = n := by
  rw [dec_digitsVal_eq]; exact Nat.ofDigitChars_ten_toDigits

theorem dec_natDigits_zero : natDigits 0 = ['0'] := by decide

theorem dec_digit19_digit {c : Char} (h : Digit19 c) : Digit c := by
  unfold Digit19 at h; unfold Digit
  simp only [char_le_iff] at h ⊢
  have e0 : '0'.toNat = 48 := rfl
  have e1 : '1'.toNat = 49 := rfl
  omega

theorem dec_zeros_digits (k : Nat) : ∀ c ∈ List.replicate k '0', Digit c := by
  intro c hc
  rw [List.mem_replicate] at hc
  rw [hc.2]; unfold Digit; decide

/-- a string of `n` decimal digits denotes a number below `10 ^ n` -/
theorem dec_ofDigitChars_bound (l : List Char) (hl : ∀ c ∈ l, Digit c) (init : Nat) :
    Nat.ofDigitChars 10 l init + 1 ≤ 10 ^ l.length * (init + 1) := by
  induction l generalizing init with
  | nil => simp
  | cons c t ih =>
    have hc := digit_toNat' (hl c (by simp))
    have h0 : '0'.toNat = 48 := rfl
    rw [Nat.ofDigitChars_cons, h0]
    have := ih (fun x hx => hl x (by simp [hx])) (10 * init + (c.toNat - 48))
    have hle : 10 * init + (c.toNat - 48) + 1 ≤ 10 * (init + 1) := by omega
    have := Nat.mul_le_mul_left (10 ^ t.length) hle
    rw [List.length_cons, Nat.pow_succ, Nat.mul_assoc]
    omega
where
  digit_toNat' {c : Char} (h : Digit c) : 48 ≤ c.toNat ∧ c.toNat ≤ 57 := by
    unfold Digit at h
    simp only [char_le_iff] at h
    exact h

theorem dec_digitsVal_bound {l : List Char} (hl : ∀ c ∈ l, Digit c) : digitsVal l < 10 ^ l.length := by
  have := dec_ofDigitChars_bound l hl 0
  rw [dec_digitsVal_eq]
  omega

theorem dec_takeWhile_digits {ds rest : List Char} (hd : ∀ d ∈ ds, Digit d) (hr : NoDigitHead rest) :
    (ds ++ rest).takeWhile isDigit = ds ∧ (ds ++ rest).dropWhile isDigit = rest := by
  induction ds with
  | nil =>
    cases rest with
    | nil => simp
    | cons c r => simp [hr c r rfl]
  | cons c t ih =>
    have hc := (isDigit_iff c).2 (hd c (by simp))
    have := ih (fun x hx => hd x (by simp [hx]))
    simp [hc, this]

theorem dec_mem_takeWhile_digit {l : List Char} : ∀ c ∈ l.takeWhile isDigit, Digit c := by
  induction l with
  | nil => intro c hc; simp at hc
  | cons x xs ih =>
    intro c hc
    rw [List.takeWhile_cons] at hc
    split at hc
    · rename_i hx
      rcases List.mem_cons.1 hc with rfl | hc
      · exact (isDigit_iff _).1 hx
      · exact ih c hc
    · simp at hc

/-! ### `DecNum.normalize` -/

/-- stripping exactly `k` trailing zeros of `m * 10 ^ k` when `m` has none -/
theorem dec_normalize_strip (neg : Bool) {m : Nat} (hm : m % 10 ≠ 0) :
    ∀ (k fuel : Nat) (x : Int), k < fuel →
      DecNum.normalize neg fuel (m * 10 ^ k) x = ⟨neg, m, x + k⟩ := by
  have hm0 : m ≠ 0 := by intro h; subst h; simp at hm
  intro k
  induction k with
  | zero =>
    intro fuel x hf
    obtain ⟨f, rfl⟩ : ∃ f, fuel = f + 1 := ⟨fuel - 1, by omega⟩
    simp [DecNum.normalize, hm0, hm]
  | succ k ih =>
    intro fuel x hf
    obtain ⟨f, rfl⟩ : ∃ f, fuel = f + 1 := ⟨fuel - 1, by omega⟩
    have hpos : 0 < 10 ^ (k + 1) := Nat.pow_pos (by decide)
    have h1 : m * 10 ^ (k + 1) ≠ 0 := Nat.mul_ne_zero hm0 (by omega)
    have e : m * 10 ^ (k + 1) = m * 10 ^ k * 10 := by rw [Nat.pow_succ, Nat.mul_assoc]
    have h2 : m * 10 ^ (k + 1) % 10 = 0 := by rw [e]; exact Nat.mul_mod_left _ _
    have h3 : m * 10 ^ (k + 1) / 10 = m * 10 ^ k := by rw [e]; exact Nat.mul_div_cancel _ (by decide)
    rw [DecNum.normalize, if_neg h1, if_pos h2, h3, ih f (x + 1) (by omega)]
    congr 1
    push_cast
    omega

theorem dec_normalize_id (neg : Bool) {m : Nat} (hm : m % 10 ≠ 0) (f : Nat) (x : Int) :
    DecNum.normalize neg (f + 1) m x = ⟨neg, m, x⟩ := by
  have := dec_normalize_strip neg hm 0 (f + 1) x (by omega)
  simpa using this

/-- with enough fuel the result is in normal form -/
theorem dec_normalize_fin (neg : Bool) : ∀ (f m : Nat) (e : Int), m < 10 ^ f →
    DecFin (DecNum.normalize neg (f + 1) m e) := by
  intro f
  induction f with
  | zero =>
    intro m e hm
    have : m = 0 := by simpa using hm
    subst this
    simp [DecNum.normalize, DecFin]
  | succ f ih =>
    intro m e hm
    rw [DecNum.normalize]
    split
    · simp [DecFin]
    · rename_i hm0
      split
      · apply ih
        rw [Nat.pow_succ] at hm
        omega
      · rename_i hm10
        exact ⟨fun h => absurd h hm0, fun _ => hm10⟩

/-! ### `decParse` on the two shapes `[-] int` and `[-] int . frac` -/

/-- the optional sign as printed by `decShow` -/
def dec_sign (neg : Bool) : List Char := if neg then ['-'] else []

theorem dec_digit_ne_minus {c : Char} (hc : Digit c) : c ≠ '-' := by
  intro e; subst e; have := (isDigit_iff _).2 hc; revert this; decide

theorem dec_parse_int (neg : Bool) {c : Char} {ip : List Char} (hc : Digit c) (hip : ∀ d ∈ ip, Digit d)
    (hlex : isNumberLexeme (dec_sign neg ++ c :: ip) = true) :
    decParse (dec_sign neg ++ c :: ip) =
      some (DecNum.normalize neg (ip.length + 1 + 1) (digitsVal (c :: ip)) 0) := by
  have hcm := dec_digit_ne_minus hc
  have htd := dec_takeWhile_digits (ds := c :: ip) (rest := [])
    (by intro d hd; rcases List.mem_cons.1 hd with rfl | hd; exact hc; exact hip d hd) noDigitHead_nil
  simp only [List.append_nil] at htd
  unfold decParse
  rw [hlex]
  cases neg
  · simp [dec_sign, hcm, htd.1, htd.2]
  · simp [dec_sign, htd.1, htd.2]

theorem dec_parse_frac (neg : Bool) {c : Char} {ip fp : List Char} (hc : Digit c) (hip : ∀ d ∈ ip, Digit d)
    (hfp : ∀ d ∈ fp, Digit d)
    (hlex : isNumberLexeme (dec_sign neg ++ c :: (ip ++ '.' :: fp)) = true) :
    decParse (dec_sign neg ++ c :: (ip ++ '.' :: fp)) =
      some (DecNum.normalize neg (ip.length + 1 + fp.length + 1) (digitsVal (c :: (ip ++ fp)))
        (0 - (fp.length : Int))) := by
  have hcm := dec_digit_ne_minus hc
  have htd := dec_takeWhile_digits (ds := c :: ip) (rest := '.' :: fp)
    (by intro d hd; rcases List.mem_cons.1 hd with rfl | hd; exact hc; exact hip d hd)
    (noDigitHead_cons (by decide))
  have htf := dec_takeWhile_digits (ds := fp) (rest := []) hfp noDigitHead_nil
  simp only [List.append_nil, List.cons_append] at htd htf
  unfold decParse
  rw [hlex]
  cases neg
  · simp [dec_sign, hcm, htd.1, htd.2, htf.1, htf.2]
  · simp [dec_sign, htd.1, htd.2, htf.1, htf.2]

end Humphrey.Json
