import HumphreyModel.Model.Http
import HumphreyModel.Proofs.IO

namespace Humphrey.Http
open Humphrey Humphrey.IO

/-- Two byte sources deliver the same bytes through both operations. -/
structure Sim {σ₁ σ₂ : Type} (S₁ : Source σ₁) (S₂ : Source σ₂) (R : σ₁ → σ₂ → Prop) : Prop where
  readUntil : ∀ d s₁ s₂, R s₁ s₂ →
    (S₁.readUntil d s₁).1 = (S₂.readUntil d s₂).1 ∧ R (S₁.readUntil d s₁).2 (S₂.readUntil d s₂).2
  readExact : ∀ n s₁ s₂, R s₁ s₂ →
    match S₁.readExact n s₁, S₂.readExact n s₂ with
    | none, none => True
    | some (a, t₁), some (b, t₂) => a = b ∧ R t₁ t₂
    | _, _ => False
  remaining : ∀ s₁ s₂, R s₁ s₂ → S₁.remaining s₁ = S₂.remaining s₂

/-- Two outcomes are the same up to the state relation. -/
def OutRel {ε α σ₁ σ₂ : Type} (R : σ₁ → σ₂ → Prop) :
    Outcome ε (α × σ₁) → Outcome ε (α × σ₂) → Prop
  | .ok (a, s₁), .ok (b, s₂) => a = b ∧ R s₁ s₂
  | .err e₁, .err e₂ => e₁ = e₂
  | .panic, .panic => True
  | _, _ => False

/-- Relating two outcomes through `OutRel`, by cases. -/
theorem OutRel.elim' {ε α σ₁ σ₂ : Type} {R : σ₁ → σ₂ → Prop}
    {o₁ : Outcome ε (α × σ₁)} {o₂ : Outcome ε (α × σ₂)} (h : OutRel R o₁ o₂) :
    (∃ a t₁ t₂, o₁ = .ok (a, t₁) ∧ o₂ = .ok (a, t₂) ∧ R t₁ t₂) ∨
    (∃ e, o₁ = .err e ∧ o₂ = .err e) ∨ (o₁ = .panic ∧ o₂ = .panic) := by
  cases o₁ with
  | ok p =>
    cases o₂ with
    | ok q =>
      obtain ⟨a, t₁⟩ := p; obtain ⟨b, t₂⟩ := q
      simp only [OutRel] at h
      obtain ⟨rfl, ht⟩ := h
      exact .inl ⟨a, t₁, t₂, rfl, rfl, ht⟩
    | err e => simp [OutRel] at h
    | panic => simp [OutRel] at h
  | err e =>
    cases o₂ with
    | ok q => simp [OutRel] at h
    | err e' => simp only [OutRel] at h; subst h; exact .inr (.inl ⟨e, rfl, rfl⟩)
    | panic => simp [OutRel] at h
  | panic =>
    cases o₂ with
    | ok q => simp [OutRel] at h
    | err e' => simp [OutRel] at h
    | panic => exact .inr (.inr ⟨rfl, rfl⟩)

theorem parseHeaders_sim {σ₁ σ₂ : Type} {S₁ : Source σ₁} {S₂ : Source σ₂} {R : σ₁ → σ₂ → Prop}
    (sim : Sim S₁ S₂ R) (fuel : Nat) (s₁ : σ₁) (s₂ : σ₂) (acc : Headers) (h : R s₁ s₂) :
    OutRel R (parseHeaders S₁ fuel s₁ acc) (parseHeaders S₂ fuel s₂ acc) := by
  induction fuel generalizing s₁ s₂ acc with
  | zero => simp [parseHeaders, OutRel]
  | succ fuel ih =>
    obtain ⟨hl, hr⟩ := sim.readUntil Bytes.LF s₁ s₂ h
    simp only [parseHeaders]
    rw [hl]
    by_cases hc : (S₂.readUntil Bytes.LF s₂).1 = Bytes.crlf
    · simp [hc, OutRel, hr]
    · simp only [hc, if_false]
      cases parseHeaderLine (S₂.readUntil Bytes.LF s₂).1 with
      | ok hd => exact ih _ _ _ hr
      | err e => simp [OutRel]
      | panic => simp [OutRel]

theorem parseRequest_sim {σ₁ σ₂ : Type} {S₁ : Source σ₁} {S₂ : Source σ₂} {R : σ₁ → σ₂ → Prop}
    (sim : Sim S₁ S₂ R) (env : Env) (s₁ : σ₁) (s₂ : σ₂) (h : R s₁ s₂) :
    OutRel R (parseRequest S₁ env s₁) (parseRequest S₂ env s₂) := by
  unfold parseRequest
  have h1 := sim.readExact 1 s₁ s₂ h
  cases e₁ : S₁.readExact 1 s₁ with
  | none =>
    cases e₂ : S₂.readExact 1 s₂ with
    | none => simp [OutRel]
    | some p => simp [e₁, e₂] at h1
  | some p₁ =>
    cases e₂ : S₂.readExact 1 s₂ with
    | none => simp [e₁, e₂] at h1
    | some p₂ =>
      obtain ⟨f₁, t₁⟩ := p₁
      obtain ⟨f₂, t₂⟩ := p₂
      simp only [e₁, e₂] at h1
      obtain ⟨rfl, ht⟩ := h1
      obtain ⟨hl, hr⟩ := sim.readUntil Bytes.LF t₁ t₂ ht
      simp only []
      rw [hl]
      cases parseStartLine (f₁ ++ (S₂.readUntil Bytes.LF t₂).1) with
      | none => simp [OutRel]
      | some sl =>
        obtain ⟨method, uri, query, version⟩ := sl
        simp only []
        rw [sim.remaining _ _ hr]
        have hh := parseHeaders_sim sim (S₂.remaining (S₂.readUntil Bytes.LF t₂).2 + 1) _ _ [] hr
        cases ea : parseHeaders S₁ (S₂.remaining (S₂.readUntil Bytes.LF t₂).2 + 1)
            (S₁.readUntil Bytes.LF t₁).2 [] with
        | err e =>
          cases eb : parseHeaders S₂ (S₂.remaining (S₂.readUntil Bytes.LF t₂).2 + 1)
              (S₂.readUntil Bytes.LF t₂).2 [] with
          | err e' => simp [ea, eb, OutRel] at hh ⊢; exact hh
          | ok p => simp [ea, eb, OutRel] at hh
          | panic => simp [ea, eb, OutRel] at hh
        | panic =>
          cases eb : parseHeaders S₂ (S₂.remaining (S₂.readUntil Bytes.LF t₂).2 + 1)
              (S₂.readUntil Bytes.LF t₂).2 [] with
          | err e' => simp [ea, eb, OutRel] at hh
          | ok p => simp [ea, eb, OutRel] at hh
          | panic => simp [OutRel]
        | ok pa =>
          cases eb : parseHeaders S₂ (S₂.remaining (S₂.readUntil Bytes.LF t₂).2 + 1)
              (S₂.readUntil Bytes.LF t₂).2 [] with
          | err e' => simp [ea, eb, OutRel] at hh
          | panic => simp [ea, eb, OutRel] at hh
          | ok pb =>
            obtain ⟨hs₁, u₁⟩ := pa
            obtain ⟨hs₂, u₂⟩ := pb
            simp only [ea, eb, OutRel] at hh
            obtain ⟨rfl, hu⟩ := hh
            simp only []
            cases hs₁.get hContentLength with
            | none => simp [OutRel, hu]
            | some cl =>
              simp only []
              cases parseUsizeCl : Bytes.parseUsize cl with
              | none => simp [OutRel]
              | some n =>
                simp only []
                have hx := sim.readExact n u₁ u₂ hu
                cases x₁ : S₁.readExact n u₁ with
                | none =>
                  cases x₂ : S₂.readExact n u₂ with
                  | none => simp [OutRel]
                  | some q => simp [x₁, x₂] at hx
                | some q₁ =>
                  cases x₂ : S₂.readExact n u₂ with
                  | none => simp [x₁, x₂] at hx
                  | some q₂ =>
                    obtain ⟨b₁, v₁⟩ := q₁
                    obtain ⟨b₂, v₂⟩ := q₂
                    simp only [x₁, x₂] at hx
                    obtain ⟨rfl, hv⟩ := hx
                    simp [OutRel, hv]

/-- The chunked reader and the flat stream are related by "delivers the same bytes". -/
theorem reader_flat_sim : Sim readerSource flatSource (fun r b => r.rest = b) where
  readUntil := by
    intro d r b h
    subst h
    have := readUntilAux_flat d r.buf r.chunks
    simp only [readerSource, flatSource, Reader.readUntil, Reader.rest] at this ⊢
    exact this
  readExact := by
    intro n r b h
    subst h
    have := readExactAux_flat n r.buf r.chunks
    simp only [readerSource, flatSource, Reader.readExact, Reader.rest] at this ⊢
    cases h1 : readExactAux n r.buf r.chunks <;>
      cases h2 : flatReadExact n (r.buf ++ r.chunks.flatten) <;>
      simp only [h1, h2] at this ⊢ <;> exact this
  remaining := by
    intro r b h
    subst h
    simp [readerSource, flatSource]

end Humphrey.Http
