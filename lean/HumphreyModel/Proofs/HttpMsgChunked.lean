import HumphreyModel.Proofs.HttpMsgParse
import HumphreyModel.Spec.Chunked
/-
`parseChunk` / `parseChunks` / `parseResponse` on a message rendered by `Spec.renderChunked`.
-/
namespace Humphrey.Http
open Humphrey Humphrey.Bytes Humphrey.IO

/-! ## Hex digits -/

set_option maxRecDepth 8000 in
theorem hexDigit_facts : ∀ b : UInt8, (hexDigitVal b).isSome = true →
    b ≠ 9 ∧ b ≠ 10 ∧ b ≠ 11 ∧ b ≠ 12 ∧ b ≠ 13 ∧ b ≠ 32 ∧ b ≠ 43 ∧ b < 128 := by
  apply forall_uint8; decide

theorem hexValue_digits (ds : Bytes) (acc v : Nat) (h : hexValue ds acc = some v) :
    ∀ b ∈ ds, (hexDigitVal b).isSome = true := by
  induction ds generalizing acc with
  | nil => simp
  | cons x xs ih =>
    simp only [hexValue] at h
    cases hx : hexDigitVal x with
    | none => simp [hx] at h
    | some d =>
      simp only [hx] at h
      intro b hb
      simp only [List.mem_cons] at hb
      rcases hb with rfl | hb
      · simp [hx]
      · exact ih _ h b hb

theorem hex_ne (x y : UInt8) (hx : (hexDigitVal x).isSome = true) (hy : (hexDigitVal y).isSome = false) :
    (y == x) = false := by
  simp only [beq_eq_false_iff_ne, ne_eq]
  intro e; subst e; rw [hx] at hy; cases hy

theorem wsSuffixLenRev_hex (x : UInt8) (r : Bytes) (hx : (hexDigitVal x).isSome = true) :
    wsSuffixLenRev (x :: r) = 0 := by
  simp [wsSuffixLenRev, wsSeqs, List.find?, List.isPrefixOf,
    hex_ne x 9 hx (by decide), hex_ne x 10 hx (by decide), hex_ne x 11 hx (by decide),
    hex_ne x 12 hx (by decide), hex_ne x 13 hx (by decide), hex_ne x 32 hx (by decide),
    hex_ne x 133 hx (by decide), hex_ne x 160 hx (by decide), hex_ne x 128 hx (by decide),
    hex_ne x 129 hx (by decide), hex_ne x 130 hx (by decide), hex_ne x 131 hx (by decide),
    hex_ne x 132 hx (by decide), hex_ne x 134 hx (by decide), hex_ne x 135 hx (by decide),
    hex_ne x 136 hx (by decide), hex_ne x 137 hx (by decide), hex_ne x 138 hx (by decide),
    hex_ne x 168 hx (by decide), hex_ne x 169 hx (by decide), hex_ne x 175 hx (by decide),
    hex_ne x 159 hx (by decide)]

/-- `trim_end` of a size line removes exactly the CRLF. -/
theorem trimEnd_hex_crlf (hex : Bytes) (hne : hex ≠ []) (hd : ∀ b ∈ hex, (hexDigitVal b).isSome = true) :
    trimEnd (hex ++ [13, 10]) = hex := by
  have hr : ∃ y ys, hex.reverse = y :: ys := by
    cases h : hex.reverse with
    | nil => simp at h; exact absurd h hne
    | cons y ys => exact ⟨y, ys, rfl⟩
  obtain ⟨y, ys, hr⟩ := hr
  have hy : (hexDigitVal y).isSome = true := hd y (by
    have : y ∈ hex.reverse := by rw [hr]; simp
    simpa using this)
  have hl : hex.length = ys.length + 1 := by
    have := congrArg List.length hr; simpa using this
  have w1 : ∀ r : Bytes, wsSuffixLenRev (10 :: r) = 1 := by
    intro r; simp [wsSuffixLenRev, wsSeqs, List.find?, List.isPrefixOf]
  have w2 : ∀ r : Bytes, wsSuffixLenRev (13 :: r) = 1 := by
    intro r; simp [wsSuffixLenRev, wsSeqs, List.find?, List.isPrefixOf]
  have e : hex = (y :: ys).reverse := by rw [← hr, List.reverse_reverse]
  simp only [trimEnd, List.length_append, hl, List.length_cons, List.length_nil, List.reverse_append,
    hr, List.reverse_cons, List.reverse_nil, List.nil_append, List.cons_append]
  simp only [trimEndAux, w1, w2, List.drop_succ_cons, List.drop_zero, wsSuffixLenRev_hex y ys hy]
  rw [e]

/-! ## Chunks -/

theorem parseChunk_render (hex data t : Bytes) (hs : Spec.HexSpells hex data.length) (hne : data ≠ [])
    (hlen : data.length < 18446744073709551616) :
    parseChunk flatSource (Spec.renderChunk hex data ++ t) = .ok (some data, t) := by
  obtain ⟨h0, hv⟩ := hs
  have hd := hexValue_digits hex 0 _ hv
  have hr : flatReadUntil 10 (Spec.renderChunk hex data ++ t) = (hex ++ [13, 10], data ++ 13 :: 10 :: t) := by
    simp only [Spec.renderChunk, List.append_assoc, List.cons_append, List.nil_append]
    exact flatReadUntil_line _ _ (fun b hb => (hexDigit_facts b (hd b hb)).2.1)
  have hu : utf8Valid (hex ++ [13, 10]) = true :=
    utf8Valid_ascii_m _ (by
      intro b hb
      simp only [List.mem_append, List.mem_cons, List.not_mem_nil, or_false] at hb
      rcases hb with hb | rfl | rfl
      · exact (hexDigit_facts b (hd b hb)).2.2.2.2.2.2.2
      · decide
      · decide)
  have hp : parseHexUsize hex = some data.length := by
    cases hh : hex with
    | nil => exact absurd hh h0
    | cons x xs =>
      have hx : x ≠ 43 := (hexDigit_facts x (hd x (by simp [hh]))).2.2.2.2.2.2.1
      rw [hh] at hv
      unfold parseHexUsize
      split
      · rename_i heq; simp at heq; exact absurd heq.1 hx
      · simp [hv, hlen]
  have hn : ∃ k, data.length = k + 1 := by
    cases data with
    | nil => exact absurd rfl hne
    | cons a as => exact ⟨as.length, rfl⟩
  obtain ⟨k, hk⟩ := hn
  simp only [parseChunk, flatSource, LF, hr, hu, Bool.not_true, Bool.false_eq_true, if_false,
    trimEnd_hex_crlf hex h0 hd, hp, hk]
  have e1 : flatReadExact (k + 1) (data ++ 13 :: 10 :: t) = some (data, 13 :: 10 :: t) := by
    simp [flatReadExact, ← hk]
  simp only [e1]
  simp [flatReadExact]

theorem parseChunk_last (last t : Bytes) (hs : Spec.HexSpells last 0) :
    parseChunk flatSource (last ++ 13 :: 10 :: 13 :: 10 :: t) = .ok (none, t) := by
  obtain ⟨h0, hv⟩ := hs
  have hd := hexValue_digits last 0 _ hv
  have hr : flatReadUntil 10 (last ++ 13 :: 10 :: 13 :: 10 :: t) = (last ++ [13, 10], 13 :: 10 :: t) :=
    flatReadUntil_line _ _ (fun b hb => (hexDigit_facts b (hd b hb)).2.1)
  have hu : utf8Valid (last ++ [13, 10]) = true :=
    utf8Valid_ascii_m _ (by
      intro b hb
      simp only [List.mem_append, List.mem_cons, List.not_mem_nil, or_false] at hb
      rcases hb with hb | rfl | rfl
      · exact (hexDigit_facts b (hd b hb)).2.2.2.2.2.2.2
      · decide
      · decide)
  have hp : parseHexUsize last = some 0 := by
    cases hh : last with
    | nil => exact absurd hh h0
    | cons x xs =>
      have hx : x ≠ 43 := (hexDigit_facts x (hd x (by simp [hh]))).2.2.2.2.2.2.1
      rw [hh] at hv
      unfold parseHexUsize
      split
      · rename_i heq; simp at heq; exact absurd heq.1 hx
      · simp [hv]
  simp [parseChunk, flatSource, LF, hr, hu, trimEnd_hex_crlf last h0 hd, hp, flatReadExact]

theorem parseChunks_render (parts : List (Bytes × Bytes)) (last t : Bytes)
    (hparts : ∀ p ∈ parts, Spec.HexSpells p.1 p.2.length ∧ p.2 ≠ [] ∧ p.2.length < 18446744073709551616)
    (hlast : Spec.HexSpells last 0) (fuel : Nat) (hf : parts.length < fuel) (acc : Bytes) :
    parseChunks flatSource fuel (Spec.renderChunkedBody parts last ++ t) acc =
      .ok (acc ++ (parts.map (·.2)).flatten, t) := by
  induction parts generalizing fuel acc with
  | nil =>
    cases fuel with
    | zero => simp at hf
    | succ fuel =>
      have := parseChunk_last last t hlast
      simp only [Spec.renderChunkedBody, List.flatMap_nil, List.nil_append, List.append_assoc,
        List.cons_append] at this ⊢
      simp [parseChunks, this]
  | cons p ps ih =>
    cases fuel with
    | zero => simp at hf
    | succ fuel =>
      obtain ⟨h1, h2, h3⟩ := hparts p (by simp)
      have e : Spec.renderChunkedBody (p :: ps) last ++ t =
          Spec.renderChunk p.1 p.2 ++ (Spec.renderChunkedBody ps last ++ t) := by
        simp [Spec.renderChunkedBody, List.append_assoc]
      rw [e, parseChunks, parseChunk_render p.1 p.2 _ h1 h2 h3]
      simp only
      rw [ih (fun q hq => hparts q (by simp [hq])) fuel (by simpa using hf)]
      simp

end Humphrey.Http

namespace Humphrey.Http
open Humphrey Humphrey.Bytes Humphrey.IO

/-! ## The whole chunked message -/

theorem parseStatusLine_generic (version phrase : Bytes) (code : Nat)
    (hv : ∀ b ∈ version, b ≠ 32) (hk : statusKnown code = true)
    (hu : utf8Valid (version ++ 32 :: (natToBytes code ++ 32 :: phrase) ++ [13, 10]) = true) :
    parseStatusLine (version ++ 32 :: (natToBytes code ++ 32 :: phrase) ++ [13, 10]) = some (version, code) := by
  obtain ⟨_, c1, c2, _, _⟩ := statusKnown_facts code hk
  obtain ⟨_, n2, _, _, _⟩ := natToBytes_spec code
  have shape : version ++ 32 :: (natToBytes code ++ 32 :: phrase) ++ [13, 10] =
      version ++ 32 :: (natToBytes code ++ 32 :: (phrase ++ [13, 10])) := by simp
  have e1 : splitOnce SP (version ++ 32 :: (natToBytes code ++ 32 :: (phrase ++ [13, 10]))) =
      (version, some (natToBytes code ++ 32 :: (phrase ++ [13, 10]))) :=
    splitOnce_append 32 _ _ hv
  have e2 : splitOnce SP (natToBytes code ++ 32 :: (phrase ++ [13, 10])) =
      (natToBytes code, some (phrase ++ [13, 10])) :=
    splitOnce_append 32 _ _ (fun b hb => (isDigit_facts b (n2 b hb)).2.1)
  have e3 : parseU16 (natToBytes code) = some code := by
    rw [parseU16, parseUsize_natToBytes_m _ (by omega)]
    simp only
    rw [if_pos (by omega)]
  rw [shape] at hu ⊢
  simp [parseStatusLine, hu, splitn3, e1, e2, e3, hk]

theorem get_none_of_names (hs : Headers) (n : HName) (h : ∀ x ∈ hs, x.name ≠ n) : hs.get n = none := by
  simp only [Headers.get, Option.map_eq_none_iff, List.find?_eq_none, decide_eq_true_eq]
  exact h

theorem remove_of_names (hs : Headers) (n : HName) (h : ∀ x ∈ hs, x.name ≠ n) : hs.remove n = hs := by
  simp only [Headers.remove, List.filter_eq_self, decide_eq_true_eq]
  exact h

theorem te_header_ok : Header.WF ⟨hTransferEncoding, chunkedValue⟩ ∧
    utf8Valid (headerLine (⟨hTransferEncoding, chunkedValue⟩ : Header) ++ [13, 10]) = true ∧
    wsPrefixLen chunkedValue = 0 :=
  ⟨⟨HName.wf_known hTransferEncoding (by decide), by decide, by intro b t e; cases e; decide⟩,
    by decide, by decide⟩

theorem length_le_renderBody (parts : List (Bytes × Bytes)) (last : Bytes) :
    parts.length < (Spec.renderChunkedBody parts last).length := by
  simp only [Spec.renderChunkedBody, List.length_append, List.length_cons, List.length_nil]
  have : parts.length ≤ (parts.flatMap (fun p => Spec.renderChunk p.1 p.2)).length := by
    induction parts with
    | nil => simp
    | cons p ps ih =>
      have h1 : 1 ≤ (Spec.renderChunk p.1 p.2).length := by simp [Spec.renderChunk]; omega
      simp only [List.flatMap_cons, List.length_append, List.length_cons]
      omega
  omega

/-- The `Transfer-Encoding: chunked` field. -/
def teHeader : Header := ⟨hTransferEncoding, chunkedValue⟩

theorem parseResponse_chunked (version phrase : Bytes) (code : Nat) (hs₁ hs₂ : Headers)
    (parts : List (Bytes × Bytes)) (last : Bytes)
    (hver : ∀ b ∈ version, b ≠ 32 ∧ b ≠ 10) (hph : ∀ b ∈ phrase, b ≠ 10) (hk : statusKnown code = true)
    (hu : utf8Valid (version ++ 32 :: (natToBytes code ++ 32 :: phrase) ++ [13, 10]) = true)
    (hw : ∀ h ∈ hs₁ ++ hs₂, h.WF ∧ utf8Valid (headerLine h ++ [13, 10]) = true ∧
      wsPrefixLen h.value = 0 ∧ h.name ≠ hTransferEncoding)
    (hparts : ∀ p ∈ parts, Spec.HexSpells p.1 p.2.length ∧ p.2 ≠ [] ∧ p.2.length < 18446744073709551616)
    (hlast : Spec.HexSpells last 0) :
    parseResponse flatSource
      (Spec.renderChunked version (natToBytes code) phrase
        ((hs₁ ++ teHeader :: hs₂).map headerLine) parts last) =
      .ok (⟨version, code,
          hs₁ ++ hs₂ ++ [⟨hContentLength, natToBytes (parts.map (·.2)).flatten.length⟩],
          (parts.map (·.2)).flatten⟩, []) := by
  obtain ⟨_, n2, _, _, _⟩ := natToBytes_spec code
  obtain ⟨t1, t2, t3⟩ := te_header_ok
  have hall : ∀ h ∈ hs₁ ++ teHeader :: hs₂,
      h.WF ∧ utf8Valid (headerLine h ++ [13, 10]) = true ∧ wsPrefixLen h.value = 0 := by
    intro h hh
    simp only [List.mem_append, List.mem_cons] at hh
    rcases hh with hh | rfl | hh
    · have := hw h (by simp [hh]); exact ⟨this.1, this.2.1, this.2.2.1⟩
    · exact ⟨t1, t2, t3⟩
    · have := hw h (by simp [hh]); exact ⟨this.1, this.2.1, this.2.2.1⟩
  have hline : ∀ b ∈ version ++ 32 :: (natToBytes code ++ 32 :: phrase), b ≠ 10 := by
    intro b hb
    simp only [List.mem_append, List.mem_cons] at hb
    rcases hb with hb | rfl | hb | rfl | hb
    · exact (hver b hb).2
    · decide
    · exact (isDigit_facts b (n2 b hb)).2.2.2.1
    · decide
    · exact hph b hb
  have hr : flatReadUntil 10 (Spec.renderChunked version (natToBytes code) phrase
        ((hs₁ ++ teHeader :: hs₂).map headerLine) parts last) =
      (version ++ 32 :: (natToBytes code ++ 32 :: phrase) ++ [13, 10],
        (hs₁ ++ teHeader :: hs₂).flatMap (fun h => headerLine h ++ [13, 10]) ++
          13 :: 10 :: (Spec.renderChunkedBody parts last ++ [])) := by
    simp only [Spec.renderChunked, List.flatMap_map, List.append_nil]
    exact flatReadUntil_line _ _ hline
  have hh := parseRespHeaders_serialize (hs₁ ++ teHeader :: hs₂)
    (fun h hm => (hall h hm).1) (fun h hm => (hall h hm).2.1) (fun h hm => (hall h hm).2.2)
    (Spec.renderChunkedBody parts last ++ [])
    (((hs₁ ++ teHeader :: hs₂).flatMap (fun h => headerLine h ++ [13, 10]) ++
          13 :: 10 :: (Spec.renderChunkedBody parts last ++ [])).length + 1)
    (by have := length_le_flatMap (hs₁ ++ teHeader :: hs₂)
        simp only [List.length_append] at this ⊢; omega) []
  have hte : (hs₁ ++ teHeader :: hs₂).get hTransferEncoding = some chunkedValue := by
    have := get_none_of_names hs₁ hTransferEncoding (fun x hx => (hw x (by simp [hx])).2.2.2)
    simp only [Headers.get, Option.map_eq_none_iff] at this
    simp [Headers.get, List.find?_append, this, teHeader]
  have hrem : (hs₁ ++ teHeader :: hs₂).remove hTransferEncoding = hs₁ ++ hs₂ := by
    have r1 := remove_of_names hs₁ hTransferEncoding (fun x hx => (hw x (by simp [hx])).2.2.2)
    have r2 := remove_of_names hs₂ hTransferEncoding (fun x hx => (hw x (by simp [hx])).2.2.2)
    simp only [Headers.remove] at r1 r2 ⊢
    rw [List.filter_append, List.filter_cons, r1, r2]
    simp [teHeader]
  have hc := parseChunks_render parts last [] hparts hlast
    ((Spec.renderChunkedBody parts last ++ []).length + 1)
    (by have := length_le_renderBody parts last; simp only [List.append_nil]; omega) []
  simp only [flatSource] at hh hc
  simp only [parseResponse, flatSource, LF, hr,
    parseStatusLine_generic version phrase code (fun b hb => (hver b hb).1) hk hu, hh, List.nil_append,
    parseBody, hte, if_true, hc, hrem]

end Humphrey.Http
