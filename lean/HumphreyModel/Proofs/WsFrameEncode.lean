import HumphreyModel.Proofs.WsFrameBytes

/-! The encoder produces the RFC 6455 layout. -/
namespace Humphrey.WsFrame
open Spec

theorem encodeHeader_eq (f : Frame) :
    encodeHeader f = [octet0 f, octet1 f] ++ (lengthField f.length).2 := by
  unfold encodeHeader octet1 lengthField
  by_cases h1 : f.length < 126
  · have h1' : f.length ≤ 125 := by omega
    simp only [h1, h1', if_true, headerByte0_eq_octet0, lenByte_small _ h1, List.append_nil]
  · have h1' : ¬ f.length ≤ 125 := by omega
    by_cases h2 : f.length < 65536
    · have h2' : f.length ≤ 65535 := by omega
      simp only [h1, h1', h2, h2', if_true, if_false, headerByte0_eq_octet0, lenByte_126,
        be16_eq_beBytes]
    · have h2' : ¬ f.length ≤ 65535 := by omega
      simp only [h1, h1', h2, h2', if_false, headerByte0_eq_octet0, lenByte_127, be64_eq_beBytes]

theorem encodeFrame_eq_layout (f : Frame) : encodeFrame f = rfc6455Layout f := by
  unfold encodeFrame rfc6455Layout
  rw [encodeHeader_eq, xorKey_eq_transform]

end Humphrey.WsFrame
