import HumphreyModel.Model.Conn
import HumphreyModel.Proofs.HttpSim

namespace Humphrey.Http
open Humphrey Humphrey.IO

/-- Two connection results are the same up to the state relation. -/
def ConnRel {σ₁ σ₂ ω : Type} (R : σ₁ → σ₂ → Prop) (a : ConnResult σ₁ ω) (b : ConnResult σ₂ ω) : Prop :=
  a.written = b.written ∧ a.dispatched = b.dispatched ∧ a.ws = b.ws ∧
  a.disposition = b.disposition ∧ R a.rest b.rest

/-- The connection loop run on two byte sources that deliver the same bytes (and no idle gaps)
writes the same responses, dispatches the same requests and ends the same way. -/
theorem serveLoop_sim {σ₁ σ₂ κ ω : Type} {S₁ : Source σ₁} {S₂ : Source σ₂} {R : σ₁ → σ₂ → Prop}
    (sim : Sim S₁ S₂ R) (cfg : ConnCfg κ ω) (fuel : Nat) (s₁ : σ₁) (s₂ : σ₂)
    (w : List Bytes) (d : List Request) (h : R s₁ s₂) :
    ConnRel R (serveLoop S₁ (fun _ => none) cfg fuel s₁ w d)
      (serveLoop S₂ (fun _ => none) cfg fuel s₂ w d) := by
  induction fuel generalizing s₁ s₂ w d with
  | zero => simp [serveLoop, ConnRel, h]
  | succ fuel ih =>
    simp only [serveLoop, ite_self]
    rcases OutRel.elim' (parseRequest_sim sim cfg.env s₁ s₂ h) with
      ⟨req, t₁, t₂, e₁, e₂, ht⟩ | ⟨e, e₁, e₂⟩ | ⟨e₁, e₂⟩
    · simp only [e₁, e₂]
      repeat' split
      all_goals first
        | exact ih _ _ _ _ ht
        | simp [ConnRel, ht]
    · simp only [e₁, e₂]
      cases e <;> simp [ConnRel, h]
    · simp [e₁, e₂, ConnRel, h]

end Humphrey.Http
