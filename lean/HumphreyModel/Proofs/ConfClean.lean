import HumphreyModel.Proofs.ConfLines

/-!
C15, part A: every line of a rendered well-formed tree is `lineClean` (contains no `\n` and does
not end in `\r`), so `str::lines` gives the rendered lines back.

No extra predicate is needed: `WFTree`/`WFLayout` as defined already imply it.
* `\n`: keys contain no white space, names and string values are `noHashNl`, numbers are signs and
  digits (or digits and a unit letter), booleans are `true`/`false`, blanks are ` `/`\t`, comments
  are `commentOk`.
* trailing `\r`: a name or a string value is never the last thing on its line (a name is followed
  by `{`, a string value is written between quotation marks); the possible last characters are a
  digit, a unit letter, `e`, `"`, `{`, `}`, a blank, `#` or a comment character (`commentOk`
  excludes `\r`). A `\r` *inside* a line is left alone by `str::lines`.
-/
namespace Humphrey.Conf

/-- "Is neither `\n` nor `\r`". -/
def cleanCh (c : Char) : Prop := c ≠ '\n' ∧ c ≠ '\r'

theorem clean_last_of_all {l : Str} {x : Char} (h : ∀ c ∈ l, c ≠ x) : l.getLast? ≠ some x := by
  intro e; exact h x (List.mem_of_getLast? e) rfl

theorem clean_last_append {s t : Str} (ht : ∀ c ∈ t, c ≠ '\r') (hs : s.getLast? ≠ some '\r') :
    (s ++ t).getLast? ≠ some '\r' := by
  rw [List.getLast?_append]
  cases h : t.getLast? with
  | none => simpa using hs
  | some x =>
    simp only [Option.some_or]
    intro e; cases e
    exact ht _ (List.mem_of_getLast? h) rfl

theorem clean_blank {x : Char} (h : isBlank x = true) : cleanCh x := by
  simp only [isBlank, Bool.or_eq_true, beq_iff_eq] at h
  rcases h with rfl | rfl <;> exact ⟨by decide, by decide⟩

theorem clean_commentText {o : Option Str} (h : ∀ c, o = some c → commentOk c) :
    ∀ x ∈ commentText o, cleanCh x := by
  cases o with
  | none => intro x hx; cases hx
  | some c =>
    intro x hx
    simp only [commentText, List.mem_cons] at hx
    rcases hx with rfl | hx
    · exact ⟨by decide, by decide⟩
    · exact h c rfl x hx

theorem clean_of_all {l : Str} (h : ∀ x ∈ l, cleanCh x) : lineClean l :=
  ⟨fun c hc => (h c hc).1, clean_last_of_all (fun c hc => (h c hc).2)⟩

/-- The lines of a decorated content: clean when the content has no `\n` and does not end in
`\r`. -/
theorem clean_mkLines {d : Deco} (hd : d.ok) {content : Str} (hn : ∀ c ∈ content, c ≠ '\n')
    (hr : content.getLast? ≠ some '\r') : ∀ l ∈ mkLines d content, lineClean l := by
  obtain ⟨hpre, hind, _, _, htr, hcm⟩ := hd
  intro l hl
  simp only [mkLines, List.mem_append, List.mem_map, List.mem_singleton] at hl
  rcases hl with ⟨f, hf, rfl⟩ | rfl
  · apply clean_of_all
    intro x hx
    simp only [fillerLine, List.mem_append] at hx
    rcases hx with hx | hx
    · exact clean_blank ((hpre f hf).1 x hx)
    · exact clean_commentText (hpre f hf).2 x hx
  · have htail : ∀ x ∈ d.trail ++ commentText d.comment, cleanCh x := by
      intro x hx
      rcases List.mem_append.mp hx with hx | hx
      · exact clean_blank (htr x hx)
      · exact clean_commentText hcm x hx
    constructor
    · intro c hc
      simp only [List.mem_append] at hc
      rcases hc with ((hc | hc) | hc) | hc
      · exact (clean_blank (hind c hc)).1
      · exact hn c hc
      · exact (clean_blank (htr c hc)).1
      · exact (clean_commentText hcm c hc).1
    · have e : d.indent ++ content ++ d.trail ++ commentText d.comment =
          (d.indent ++ content) ++ (d.trail ++ commentText d.comment) := by simp
      rw [e]
      apply clean_last_append (fun c hc => (htail c hc).2)
      rw [List.getLast?_append]
      cases h : content.getLast? with
      | none =>
        simp only [Option.none_or]
        exact clean_last_of_all (fun c hc => (clean_blank (hind c hc)).2)
      | some x =>
        simp only [Option.some_or]
        rw [h] at hr; exact hr

/-- A tight text does not end in `\r` (`\r` is white space). -/
theorem clean_tight_last {s : Str} (h : tight s) : s.getLast? ≠ some '\r' := by
  obtain ⟨_, ⟨l, hl, hw⟩⟩ := h
  rw [hl]; intro e; cases e; revert hw; decide

theorem clean_digit {c : Char} (h : IsDigit c) : c ≠ '\n' := h.ne_of_toNat (by decide)

theorem clean_signDigit {c : Char} (h : c = '+' ∨ c = '-' ∨ IsDigit c) : c ≠ '\n' := by
  rcases h with rfl | rfl | h
  · decide
  · decide
  · exact clean_digit h

/-- The spelling of a number contains no `\n`. -/
theorem clean_spellNumber {v : Str} (unit : Option Char) (n : Nat) (h : (parseI64 v).isSome = true) :
    ∀ c ∈ spellNumber v unit n, c ≠ '\n' := by
  obtain ⟨i, hi⟩ := Option.isSome_iff_exists.mp h
  have plain : ∀ c ∈ v, c ≠ '\n' := fun c hc => clean_signDigit ((numText_of_parse hi).chars c hc)
  unfold spellNumber
  cases unit with
  | none => exact plain
  | some u =>
    simp only
    cases hu : unitFactor u with
    | none => exact plain
    | some m =>
      simp only
      split
      · intro c hc
        simp only [List.mem_append, List.mem_singleton] at hc
        rcases hc with hc | rfl
        · exact clean_digit (showNat_all_digits _ c hc)
        · intro e
          have := (unit_char_facts hu).1
          rw [e] at this; revert this; decide
      · exact plain

/-- A key–value content is clean when the value is tight and has no `\n`. -/
theorem clean_kvContent {d : Deco} (hd : d.ok) {key value : Str} (hkey : okKey key)
    (hv : tight value) (hn : ∀ c ∈ value, c ≠ '\n') :
    (∀ c ∈ kvContent d key value, c ≠ '\n') ∧ (kvContent d key value).getLast? ≠ some '\r' := by
  constructor
  · intro c hc
    simp only [kvContent, List.mem_append, List.mem_cons] at hc
    rcases hc with (hc | rfl | hc) | hc
    · intro e; subst e; have := (hkey.2.1 _ hc).1; revert this; decide
    · decide
    · exact (clean_blank (hd.2.2.1 c hc)).1
    · exact hn c hc
  · unfold kvContent
    rw [getLast?_append_ne_nil (tight_ne_nil hv)]
    exact clean_tight_last hv

theorem clean_quoted {v : Str} (h : noHashNl v) : ∀ c ∈ quoted v, c ≠ '\n' := by
  intro c hc
  simp only [quoted, List.mem_cons, List.mem_append, List.not_mem_nil, or_false] at hc
  rcases hc with (rfl | hc) | rfl
  · decide
  · exact (h c hc).2
  · decide

theorem clean_bool {v : Str} (h : v = "true".toList ∨ v = "false".toList) : ∀ c ∈ v, c ≠ '\n' := by
  rcases h with rfl | rfl
  · have e : "true".toList = ['t', 'r', 'u', 'e'] := by decide
    rw [e]; decide
  · have e : "false".toList = ['f', 'a', 'l', 's', 'e'] := by decide
    rw [e]; decide

/-- A header content `hdr gap {` is clean when `hdr` has no `\n`. -/
theorem clean_header {d : Deco} (hd : d.ok) {hdr : Str} (hn : ∀ c ∈ hdr, c ≠ '\n') :
    (∀ c ∈ hdr ++ d.gap ++ ['{'], c ≠ '\n') ∧ (hdr ++ d.gap ++ ['{']).getLast? ≠ some '\r' := by
  constructor
  · intro c hc
    simp only [List.mem_append, List.mem_singleton] at hc
    rcases hc with (hc | hc) | rfl
    · exact hn c hc
    · exact (clean_blank (hd.2.2.2.1 c hc)).1
    · decide
  · rw [List.getLast?_append]; simp

theorem clean_brace : (∀ c ∈ ['}'], c ≠ '\n') ∧ (['}'] : Str).getLast? ≠ some '\r' := by
  constructor <;> decide

mutual
theorem clean_renderNode (lay : Layout) (hl : lay.ok) (n : Node) (hwf : WFNode n) (path : List Nat) :
    ∀ l ∈ renderNode lay path n, lineClean l := by
  cases n with
  | number k v =>
    simp only [WFNode] at hwf
    obtain ⟨hv, _⟩ := number_value (k := k) (lay.line path).unit hwf.2
    simp only [renderNode]
    have := clean_kvContent (hl path).1 hwf.1 hv.tight (clean_spellNumber _ _ hwf.2)
    exact clean_mkLines (hl path).1 this.1 this.2
  | boolean k v =>
    simp only [WFNode] at hwf
    simp only [renderNode]
    have := clean_kvContent (hl path).1 hwf.1 (valueOk_bool hwf.2).tight (clean_bool hwf.2)
    exact clean_mkLines (hl path).1 this.1 this.2
  | string k v =>
    simp only [WFNode] at hwf
    simp only [renderNode]
    have := clean_kvContent (hl path).1 hwf.1 (tight_quoted v) (clean_quoted hwf.2)
    exact clean_mkLines (hl path).1 this.1 this.2
  | «section» name cs =>
    simp only [WFNode] at hwf
    rw [renderNode_section]
    have h1 := clean_header (hl path).1 (hdr := name) (fun c hc => (hwf.1.1 c hc).2)
    intro l hl'
    simp only [List.mem_append] at hl'
    rcases hl' with (hl' | hl') | hl'
    · exact clean_mkLines (hl path).1 h1.1 h1.2 l hl'
    · exact clean_renderNodes lay hl cs hwf.2 path 0 l hl'
    · exact clean_mkLines (hl path).2 clean_brace.1 clean_brace.2 l hl'
  | host name cs =>
    simp only [WFNode] at hwf
    rw [renderNode_host]
    have hn : ∀ c ∈ "host".toList ++ ' ' :: (lay.line path).sep ++ quoted name, c ≠ '\n' := by
      intro c hc
      simp only [List.mem_append, List.mem_cons] at hc
      rcases hc with (hc | rfl | hc) | hc
      · rw [host_chars] at hc; simp at hc; rcases hc with rfl | rfl | rfl | rfl <;> decide
      · decide
      · exact (clean_blank ((hl path).1.2.2.1 c hc)).1
      · exact clean_quoted hwf.1 c hc
    have h1 := clean_header (hl path).1 hn
    intro l hl'
    simp only [List.mem_append] at hl'
    rcases hl' with (hl' | hl') | hl'
    · exact clean_mkLines (hl path).1 h1.1 h1.2 l hl'
    · exact clean_renderNodes lay hl cs hwf.2 path 0 l hl'
    · exact clean_mkLines (hl path).2 clean_brace.1 clean_brace.2 l hl'
  | route name cs =>
    simp only [WFNode] at hwf
    rw [renderNode_route]
    have hn : ∀ c ∈ "route".toList ++ ' ' :: (lay.line path).sep ++ name, c ≠ '\n' := by
      intro c hc
      simp only [List.mem_append, List.mem_cons] at hc
      rcases hc with (hc | rfl | hc) | hc
      · rw [route_chars] at hc; simp at hc; rcases hc with rfl | rfl | rfl | rfl | rfl <;> decide
      · decide
      · exact (clean_blank ((hl path).1.2.2.1 c hc)).1
      · exact (hwf.1.1 c hc).2
    have h1 := clean_header (hl path).1 hn
    intro l hl'
    simp only [List.mem_append] at hl'
    rcases hl' with (hl' | hl') | hl'
    · exact clean_mkLines (hl path).1 h1.1 h1.2 l hl'
    · exact clean_renderNodes lay hl cs hwf.2 path 0 l hl'
    · exact clean_mkLines (hl path).2 clean_brace.1 clean_brace.2 l hl'
theorem clean_renderNodes (lay : Layout) (hl : lay.ok) (ns : List Node) (hwf : WFNodes ns)
    (path : List Nat) (i : Nat) : ∀ l ∈ renderNodes lay path i ns, lineClean l := by
  cases ns with
  | nil => intro l h; simp [renderNodes] at h
  | cons n ns =>
    simp only [WFNodes] at hwf
    intro l h
    simp only [renderNodes, List.mem_append] at h
    rcases h with h | h
    · exact clean_renderNode lay hl n hwf.1 (i :: path) l h
    · exact clean_renderNodes lay hl ns hwf.2 path (i + 1) l h
end

/-- Every line of a rendered file is clean. -/
theorem clean_renderLines (lay : Layout) (hl : lay.ok) (cs : List Node) (hwf : WFNodes cs) :
    ∀ l ∈ renderLines lay cs, lineClean l := by
  have hs : (∀ c ∈ serverLine, c ≠ '\n') ∧ serverLine.getLast? ≠ some '\r' := by
    have e : serverLine = ['s', 'e', 'r', 'v', 'e', 'r', ' ', '{'] := by decide
    rw [e]; constructor <;> decide
  intro l h
  rw [renderLines_eq] at h
  simp only [List.mem_append] at h
  rcases h with (h | h) | h
  · exact clean_mkLines (hl []).1 hs.1 hs.2 l h
  · exact clean_renderNodes lay hl cs hwf [] 0 l h
  · exact clean_mkLines (hl []).2 clean_brace.1 clean_brace.2 l h

end Humphrey.Conf
