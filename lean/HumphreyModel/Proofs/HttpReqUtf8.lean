import HumphreyModel.Proofs.HttpReqBytes
/-
Byte-level lemmas for `parseRequest … = .ok q → q.WFParsed`: pieces of valid UTF-8 cut at ASCII bytes,
lower-casing, `trim_start`, and the shapes of `splitOn`/`splitOnce`/`stripCrlf`/`takeThrough` results.
-/
namespace Humphrey.Bytes
open Humphrey


theorem ascii_facts {x : UInt8} (hx : x < 128) :
    isCont x = false ∧ ¬ 128 ≤ x ∧ ¬ 144 ≤ x ∧ ¬ 160 ≤ x := by
  rw [UInt8.lt_iff_toNat_lt] at hx
  refine ⟨?_, ?_, ?_, ?_⟩
  · simp only [isCont, Bool.and_eq_false_iff, decide_eq_false_iff_not, UInt8.le_iff_toNat_le]
    left; simp at hx ⊢; omega
  all_goals (rw [UInt8.le_iff_toNat_le]; simp at hx ⊢; omega)

set_option hygiene false in
local macro "u8step" : tactic =>
  `(tactic| (simp only [List.cons_append, List.nil_append] at h; rw [utf8Valid.eq_def] at h;
             simp only [*, if_true, if_false, and_self, and_true, true_and, not_true_eq_false] at h))

set_option hygiene false in
local macro "u8ok" : tactic =>
  `(tactic| (rename_i ih; u8step; simp only [Bool.and_eq_true] at h ⊢; have := ih h.2;
             simp only [*, and_self]))

set_option hygiene false in
local macro "u8bad" : tactic =>
  `(tactic| (u8step; first | (simp at h; done) | (rcases b with _ | ⟨y, _ | ⟨y', b'⟩⟩ <;> simp [f1, f2, f3, f4] at h; done)))

/-- A valid UTF-8 string cut at an ASCII byte gives two valid UTF-8 strings. -/
theorem utf8Valid_split_ascii {a : Bytes} (x : UInt8) (b : Bytes) (hx : x < 128) (h : utf8Valid (a ++ x :: b) = true) :
    utf8Valid a = true ∧ utf8Valid b = true := by
  obtain ⟨f1, f2, f3, f4⟩ := ascii_facts hx
  fun_induction utf8Valid a
  case case1 => rw [List.nil_append, utf8Valid_cons_ascii _ hx] at h; exact ⟨rfl, h⟩
  case case2 b0 rest hb ih =>
    rw [List.cons_append, utf8Valid_cons_ascii _ hb] at h
    exact ih h
  case case3 => u8ok
  case case5 => u8ok
  case case7 => u8ok
  case case9 => u8ok
  case case11 => u8ok
  case case13 => u8ok
  case case15 => u8ok
  case case4 b0 rest h1 h2 hrest =>
    rcases rest with _ | ⟨c1, r'⟩
    · u8bad
    · exact (hrest _ _ rfl).elim
  case case6 rest hrest h1 h2 =>
    rcases rest with _ | ⟨c1, _ | ⟨c2, r'⟩⟩
    · u8bad
    · u8bad
    · exact (hrest _ _ _ rfl).elim
  case case8 b0 rest h1 h2 h3 h4 hrest =>
    rcases rest with _ | ⟨c1, _ | ⟨c2, r'⟩⟩
    · u8bad
    · u8bad
    · exact (hrest _ _ _ rfl).elim
  case case10 rest hrest h1 h2 h3 h4 =>
    rcases rest with _ | ⟨c1, _ | ⟨c2, r'⟩⟩
    · u8bad
    · u8bad
    · exact (hrest _ _ _ rfl).elim
  case case12 rest hrest h1 h2 h3 h4 h5 =>
    rcases rest with _ | ⟨c1, _ | ⟨c2, _ | ⟨c3, r'⟩⟩⟩
    · u8bad
    · u8bad
    · u8bad
    · exact (hrest _ _ _ _ rfl).elim
  case case14 b0 rest h1 h2 h3 h4 h5 h6 h7 hrest =>
    rcases rest with _ | ⟨c1, _ | ⟨c2, _ | ⟨c3, r'⟩⟩⟩
    · u8bad
    · u8bad
    · u8bad
    · exact (hrest _ _ _ _ rfl).elim
  case case16 rest hrest h1 h2 h3 h4 h5 h6 h7 =>
    rcases rest with _ | ⟨c1, _ | ⟨c2, _ | ⟨c3, r'⟩⟩⟩
    · u8bad
    · u8bad
    · u8bad
    · exact (hrest _ _ _ _ rfl).elim
  case case17 => u8bad



theorem lowerByte_of_not_upper {b : UInt8} (h : ¬ (65 ≤ b ∧ b ≤ 90)) : lowerByte b = b := by
  simp [lowerByte, h]

theorem lowerByte_of_ge {b : UInt8} (h : 128 ≤ b) : lowerByte b = b := by
  apply lowerByte_of_not_upper
  rw [UInt8.le_iff_toNat_le] at h
  rw [UInt8.le_iff_toNat_le, UInt8.le_iff_toNat_le]
  simp at h ⊢; omega

theorem lowerByte_of_not_lt {b : UInt8} (h : ¬ b < 128) : lowerByte b = b := by
  apply lowerByte_of_ge
  rw [UInt8.lt_iff_toNat_lt] at h
  rw [UInt8.le_iff_toNat_le]
  simp at h ⊢; omega

theorem lowerByte_of_isCont {b : UInt8} (h : isCont b = true) : lowerByte b = b := by
  simp only [isCont, Bool.and_eq_true, decide_eq_true_eq] at h
  exact lowerByte_of_ge h.1

theorem lowerByte_of_ge144 {b : UInt8} (h : 144 ≤ b) : lowerByte b = b :=
  lowerByte_of_ge (UInt8.le_trans (by decide) h)
theorem lowerByte_of_ge160 {b : UInt8} (h : 160 ≤ b) : lowerByte b = b :=
  lowerByte_of_ge (UInt8.le_trans (by decide) h)

theorem lowerByte_lt {b : UInt8} (h : b < 128) : lowerByte b < 128 := by
  unfold lowerByte
  split
  · rename_i hb
    rw [UInt8.le_iff_toNat_le, UInt8.le_iff_toNat_le] at hb
    rw [UInt8.lt_iff_toNat_lt, UInt8.toNat_add]
    simp at hb ⊢; omega
  · exact h

set_option hygiene false in
local macro "lowok" : tactic =>
  `(tactic| (rename_i ih
             simp only [Bool.and_eq_true, decide_eq_true_eq] at h
             have hr := ih h.2
             simp only [asciiLower, List.map_cons] at hr ⊢
             simp only [lowerByte_of_not_lt, lowerByte_of_isCont, lowerByte_of_ge, lowerByte_of_ge144,
               lowerByte_of_ge160, h, not_false_eq_true, *]
             rw [utf8Valid.eq_def]
             simp only [*, if_true, if_false, and_self, and_true, true_and, not_true_eq_false, h, hr,
               decide_true, Bool.and_self]))

theorem utf8Valid_asciiLower {s : Bytes} (h : utf8Valid s = true) : utf8Valid (asciiLower s) = true := by
  fun_induction utf8Valid s
  case case1 => rfl
  case case2 b0 rest hb ih =>
    simp only [asciiLower, List.map_cons] at ih ⊢
    rw [utf8Valid_cons_ascii _ (lowerByte_lt hb)]
    exact ih h
  case case3 => lowok
  case case5 => lowok
  case case7 => lowok
  case case9 => lowok
  case case11 => lowok
  case case13 => lowok
  case case15 => lowok
  all_goals (simp at h)


end Humphrey.Bytes
