import HumphreyModel.Proofs.Json

/-!
Helper lemmas for C13, part 2: the number check of the model (`isNumberLexeme`, transcribing
`is_json_number` of parser.rs) against the RFC 8259 §6 grammar of the spec (`NumberLexeme`).
-/
namespace Humphrey.Json
open Humphrey.JsonSpec

theorem isDigit_iff (c : Char) : isDigit c = true ↔ Digit c := by simp [isDigit, Digit]
theorem isDigit19_iff (c : Char) : isDigit19 c = true ↔ Digit19 c := by simp [isDigit19, Digit19]

/-- the list does not start with a digit -/
def NoDigitHead (l : List Char) : Prop := ∀ c r, l = c :: r → isDigit c = false

theorem noDigitHead_nil : NoDigitHead [] := by intro c r h; cases h

theorem noDigitHead_cons {c : Char} {r : List Char} (h : isDigit c = false) : NoDigitHead (c :: r) := by
  intro c' r' e; cases e; exact h

theorem dropDigits_append {ds rest : List Char} (hd : ∀ d ∈ ds, Digit d) (hr : NoDigitHead rest) :
    dropDigits (ds ++ rest) = rest := by
  induction ds with
  | nil =>
    cases rest with
    | nil => rfl
    | cons c r => simp [dropDigits, List.dropWhile_cons, hr c r rfl]
  | cons d ds ih =>
    have h1 : isDigit d = true := (isDigit_iff d).2 (hd d (by simp))
    simp only [dropDigits, List.cons_append, List.dropWhile_cons, h1, if_true]
    exact ih (fun x hx => hd x (by simp [hx]))

theorem dropDigits_split (s : List Char) :
    ∃ ds, (∀ d ∈ ds, Digit d) ∧ s = ds ++ dropDigits s ∧ NoDigitHead (dropDigits s) := by
  induction s with
  | nil => exact ⟨[], by simp, rfl, noDigitHead_nil⟩
  | cons c r ih =>
    by_cases h : isDigit c = true
    · obtain ⟨ds, h1, h2, h3⟩ := ih
      refine ⟨c :: ds, ?_, ?_, ?_⟩
      · intro d hd
        rcases List.mem_cons.1 hd with rfl | hd
        · exact (isDigit_iff _).1 h
        · exact h1 d hd
      · simp only [dropDigits, List.dropWhile_cons, h, if_true, List.cons_append]
        exact congrArg _ h2
      · simpa only [dropDigits, List.dropWhile_cons, h, if_true] using h3
    · have h' : isDigit c = false := by simpa using h
      refine ⟨[], by simp, ?_, ?_⟩
      · simp [dropDigits, List.dropWhile_cons, h']
      · simp only [dropDigits, List.dropWhile_cons, h']
        exact noDigitHead_cons h'

/-! ### completeness of the model's check: every RFC lexeme passes -/

theorem numExp_of_optExp {e : List Char} (h : OptExp e) : numExp e = some [] := by
  cases h with
  | none => rfl
  | @exp c sg ds hc hs hd =>
    obtain ⟨hne, hall⟩ := hd
    cases ds with
    | nil => exact absurd rfl hne
    | cons d ds =>
      have hd1 : isDigit d = true := (isDigit_iff d).2 (hall d (by simp))
      have hrest : dropDigits ds = [] := by
        have := dropDigits_append (ds := ds) (rest := []) (fun x hx => hall x (by simp [hx])) noDigitHead_nil
        simpa using this
      have hc' : (c = 'e' || c = 'E') = true := by rcases hc with rfl | rfl <;> decide
      have hdp : d ≠ '+' := by intro e; subst e; revert hd1; decide
      have hdm : d ≠ '-' := by intro e; subst e; revert hd1; decide
      cases hs with
      | none => simp [numExp, hc', hd1, hrest, hdp, hdm]
      | minus => simp [numExp, hc', hd1, hrest]
      | plus => simp [numExp, hc', hd1, hrest]

theorem optExp_head {e : List Char} (h : OptExp e) : NoDigitHead e ∧ ∀ c r, e = c :: r → c ≠ '.' := by
  cases h with
  | none => exact ⟨noDigitHead_nil, by intro c r h; cases h⟩
  | @exp c sg ds hc hs hd =>
    constructor
    · apply noDigitHead_cons; rcases hc with rfl | rfl <;> decide
    · intro c' r' e; cases e; rcases hc with rfl | rfl <;> decide

theorem numFrac_of_optFrac {f e : List Char} (hf : OptFrac f) (he : OptExp e) :
    numFrac (f ++ e) = some e := by
  cases hf with
  | none =>
    cases e with
    | nil => rfl
    | cons c r =>
      have := (optExp_head he).2 c r rfl
      simp [numFrac, this]
  | @frac ds hd =>
    obtain ⟨hne, hall⟩ := hd
    cases ds with
    | nil => exact absurd rfl hne
    | cons d ds =>
      have hd1 : isDigit d = true := (isDigit_iff d).2 (hall d (by simp))
      have := dropDigits_append (ds := ds) (rest := e) (fun x hx => hall x (by simp [hx])) (optExp_head he).1
      simp [numFrac, hd1, this]

theorem optFrac_optExp_head {f e : List Char} (hf : OptFrac f) (he : OptExp e) : NoDigitHead (f ++ e) := by
  cases hf with
  | none => simpa using (optExp_head he).1
  | frac hd => exact noDigitHead_cons (by decide)

theorem numInt_of_intPart {i rest : List Char} (hi : IntPart i) (hr : NoDigitHead rest) :
    numInt (i ++ rest) = some rest := by
  cases hi with
  | zero => simp [numInt]
  | @nonzero c ds hc hd =>
    have h19 : isDigit19 c = true := (isDigit19_iff c).2 hc
    have hne : c ≠ '0' := by intro e; subst e; revert h19; decide
    simp [numInt, hne, h19, dropDigits_append hd hr]

theorem intPart_head {i : List Char} (hi : IntPart i) : ∃ c r, i = c :: r ∧ Digit c := by
  cases hi with
  | zero => exact ⟨'0', [], rfl, (isDigit_iff _).1 (by decide)⟩
  | @nonzero c ds hc hd => exact ⟨c, ds, rfl, by
      have := (char_le_iff '1' c).1 hc.1
      exact ⟨(char_le_iff _ _).2 (by have : '1'.toNat = 49 := rfl; have : '0'.toNat = 48 := rfl; omega), hc.2⟩⟩

/-- Lemma B: the model's check accepts every RFC 8259 number lexeme. -/
theorem isNumberLexeme_of_numberLexeme {l : List Char} (h : NumberLexeme l) : isNumberLexeme l = true := by
  cases h with
  | @mk m i f e hm hi hf he =>
    have key : (match numInt (i ++ (f ++ e)) with
        | none => false
        | some s => match numFrac s with
          | none => false
          | some s => match numExp s with
            | none => false
            | some s => s.isEmpty) = true := by
      rw [numInt_of_intPart hi (optFrac_optExp_head hf he)]
      simp only [numFrac_of_optFrac hf he, numExp_of_optExp he]
      rfl
    obtain ⟨c, r, hcr, hdc⟩ := intPart_head hi
    cases hm with
    | none =>
      have hne : c ≠ '-' := by
        intro e; subst e; have := (isDigit_iff _).2 hdc; revert this; decide
      simp only [isNumberLexeme, List.nil_append]
      rw [hcr] at key ⊢
      simp only [List.cons_append] at key ⊢
      simp only [hne, if_false]
      exact key
    | minus =>
      simp only [isNumberLexeme, List.cons_append, List.nil_append, if_true]
      exact key

/-! ### soundness of the model's check: what passes is an RFC lexeme -/

theorem numInt_sound {s r : List Char} (h : numInt s = some r) :
    ∃ i, IntPart i ∧ s = i ++ r ∧ (r = [] ∨ True) := by
  cases s with
  | nil => simp [numInt] at h
  | cons c t =>
    simp only [numInt] at h
    split at h
    · rename_i hc; subst hc
      simp only [Option.some.injEq] at h; subst h
      exact ⟨['0'], .zero, rfl, Or.inr trivial⟩
    · split at h
      · rename_i h19
        simp only [Option.some.injEq] at h; subst h
        obtain ⟨ds, hd, hs, _⟩ := dropDigits_split t
        exact ⟨c :: ds, .nonzero ((isDigit19_iff c).1 h19) hd, by rw [List.cons_append, ← hs], Or.inr trivial⟩
      · simp at h

theorem digits1_of {d : Char} {t : List Char} (hd : isDigit d = true) :
    ∃ ds, Digits1 ds ∧ d :: t = ds ++ dropDigits t := by
  obtain ⟨ds, h1, h2, _⟩ := dropDigits_split t
  refine ⟨d :: ds, ⟨by simp, ?_⟩, by rw [List.cons_append, ← h2]⟩
  intro x hx
  rcases List.mem_cons.1 hx with rfl | hx
  · exact (isDigit_iff _).1 hd
  · exact h1 x hx

theorem numFrac_sound {s r : List Char} (h : numFrac s = some r) : ∃ f, OptFrac f ∧ s = f ++ r := by
  cases s with
  | nil => simp only [numFrac, Option.some.injEq] at h; subst h; exact ⟨[], .none, rfl⟩
  | cons c t =>
    simp only [numFrac] at h
    split at h
    · rename_i hc; subst hc
      cases t with
      | nil => simp at h
      | cons d t' =>
        simp only at h
        split at h
        · rename_i hd
          simp only [Option.some.injEq] at h; subst h
          obtain ⟨ds, h1, h2⟩ := digits1_of (t := t') hd
          exact ⟨'.' :: ds, .frac h1, by rw [List.cons_append, ← h2]⟩
        · simp at h
    · simp only [Option.some.injEq] at h; subst h; exact ⟨[], .none, rfl⟩

theorem numExp_sound {s r : List Char} (h : numExp s = some r) : ∃ e, OptExp e ∧ s = e ++ r := by
  cases s with
  | nil => simp only [numExp, Option.some.injEq] at h; subst h; exact ⟨[], .none, rfl⟩
  | cons c t =>
    simp only [numExp] at h
    split at h
    · rename_i hc
      have hc' : c = 'e' ∨ c = 'E' := by simpa using hc
      cases t with
      | nil => simp at h
      | cons sg t' =>
        simp only at h
        by_cases hsg : (sg = '+' || sg = '-') = true
        · simp only [hsg, if_true] at h
          cases t' with
          | nil => simp at h
          | cons d t'' =>
            simp only at h
            split at h
            · rename_i hd
              simp only [Option.some.injEq] at h; subst h
              obtain ⟨ds, h1, h2⟩ := digits1_of (t := t'') hd
              have hs : OptSign [sg] := by
                have : sg = '+' ∨ sg = '-' := by simpa using hsg
                rcases this with rfl | rfl
                · exact .plus
                · exact .minus
              refine ⟨c :: ([sg] ++ ds), .exp hc' hs h1, ?_⟩
              simp only [List.cons_append, List.nil_append, List.append_assoc]
              rw [← h2]
            · simp at h
        · have hsg' : (sg = '+' || sg = '-') = false := by simpa using hsg
          simp only [hsg', Bool.false_eq_true, if_false] at h
          split at h
          · rename_i hd
            simp only [Option.some.injEq] at h; subst h
            obtain ⟨ds, h1, h2⟩ := digits1_of (t := t') hd
            refine ⟨c :: ([] ++ ds), .exp hc' .none h1, ?_⟩
            simp only [List.cons_append, List.nil_append]
            rw [← h2]
          · simp at h
    · simp only [Option.some.injEq] at h; subst h; exact ⟨[], .none, rfl⟩

/-- Lemma A: whatever the model's check accepts is an RFC 8259 number lexeme. -/
theorem numberLexeme_of_isNumberLexeme {l : List Char} (h : isNumberLexeme l = true) : NumberLexeme l := by
  have key : ∀ s, (match numInt s with
        | none => false
        | some s => match numFrac s with
          | none => false
          | some s => match numExp s with
            | none => false
            | some s => s.isEmpty) = true → ∃ i f e, IntPart i ∧ OptFrac f ∧ OptExp e ∧ s = i ++ (f ++ e) := by
    intro s hs
    split at hs
    · simp at hs
    · rename_i s1 h1
      split at hs
      · simp at hs
      · rename_i s2 h2
        split at hs
        · simp at hs
        · rename_i s3 h3
          have : s3 = [] := by simpa using hs
          subst this
          obtain ⟨i, hi, e1, _⟩ := numInt_sound h1
          obtain ⟨f, hf, e2⟩ := numFrac_sound h2
          obtain ⟨e, he, e3⟩ := numExp_sound h3
          refine ⟨i, f, e, hi, hf, he, ?_⟩
          rw [e1, e2, e3]; simp
  cases l with
  | nil => simp [isNumberLexeme, numInt] at h
  | cons c t =>
    by_cases hc : c = '-'
    · subst hc
      simp only [isNumberLexeme, if_true] at h
      obtain ⟨i, f, e, hi, hf, he, hs⟩ := key t h
      have := NumberLexeme.mk .minus hi hf he
      rw [hs]; exact this
    · simp only [isNumberLexeme, hc, if_false] at h
      obtain ⟨i, f, e, hi, hf, he, hs⟩ := key (c :: t) h
      have := NumberLexeme.mk .none hi hf he
      rw [hs]; exact this

theorem isNumberLexeme_iff (l : List Char) : isNumberLexeme l = true ↔ NumberLexeme l :=
  ⟨numberLexeme_of_isNumberLexeme, isNumberLexeme_of_numberLexeme⟩

end Humphrey.Json
