import HumphreyModel.Model.Sha1
import HumphreyModel.Spec.Sha1

/-!
Helper lemmas for C18 (SHA-1): the padded message of `sha1.rs`, read as a bit string, is the padded
message of RFC 3174 §4.
-/
namespace Humphrey.Sha1
open Humphrey.Rfc3174

/-! ### Lengths -/

/-- The three writes into the zeroed vector (`[0..len]`, `[len]`, `[message_len-8..]`) are in range
and do not overlap. -/
theorem paddedLen_ge (n : Nat) : n + 9 ≤ paddedLen n := by unfold paddedLen; omega

theorem paddedLen_mod (n : Nat) : paddedLen n % 64 = 0 := by unfold paddedLen; omega

theorem be64_length (n : Nat) : (be64 n).length = 8 := rfl

theorem pad_length (m : Bytes) : (pad m).length = paddedLen m.length := by
  have := paddedLen_ge m.length
  simp only [pad, List.length_append, List.length_cons, List.length_nil, List.length_replicate, be64_length]
  omega

/-! ### Bytes as bits -/

theorem byteBits_length (b : UInt8) : (byteBits b).length = 8 := rfl

theorem bitsOfBytes_append (a b : List UInt8) : bitsOfBytes (a ++ b) = bitsOfBytes a ++ bitsOfBytes b := by
  induction a with
  | nil => rfl
  | cons x a ih => simp only [List.cons_append, bitsOfBytes, ih, List.append_assoc]

theorem bitsOfBytes_length (a : List UInt8) : (bitsOfBytes a).length = 8 * a.length := by
  induction a with
  | nil => rfl
  | cons x a ih => simp only [bitsOfBytes, List.length_append, byteBits_length, ih, List.length_cons]; omega

theorem byteBits_80 : byteBits 0x80 = true :: List.replicate 7 false := by decide

theorem byteBits_00 : byteBits 0 = List.replicate 8 false := by decide

theorem bitsOfBytes_zeros (z : Nat) : bitsOfBytes (List.replicate z 0) = List.replicate (8 * z) false := by
  induction z with
  | zero => rfl
  | succ z ih =>
    rw [List.replicate_succ, bitsOfBytes, ih, byteBits_00, List.replicate_append_replicate]
    congr 1; omega

/-- The bits of the byte `x mod 256`. -/
theorem byteBits_ofNat (x : Nat) : byteBits (UInt8.ofNat x) =
    [x.testBit 7, x.testBit 6, x.testBit 5, x.testBit 4, x.testBit 3, x.testBit 2, x.testBit 1, x.testBit 0] := by
  simp only [byteBits, UInt8.toNat_ofNat', Nat.testBit_mod_two_pow]
  simp

theorem range64 : List.range 64 = [0, 1, 2, 3, 4, 5, 6, 7, 8, 9, 10, 11, 12, 13, 14, 15, 16, 17, 18, 19, 20,
    21, 22, 23, 24, 25, 26, 27, 28, 29, 30, 31, 32, 33, 34, 35, 36, 37, 38, 39, 40, 41, 42, 43, 44, 45, 46,
    47, 48, 49, 50, 51, 52, 53, 54, 55, 56, 57, 58, 59, 60, 61, 62, 63] := by decide

/-- `to_be_bytes` of a 64-bit value is its 64-bit big-endian bit string. -/
theorem bitsOfBytes_be64 (n : Nat) : bitsOfBytes (be64 n) = bitsOfNat 64 n := by
  have h0 : n = n / 2 ^ 0 := by simp
  unfold be64 bitsOfNat
  rw [range64]
  conv => lhs; rw [h0]
  simp only [bitsOfBytes, byteBits_ofNat, Nat.testBit_div_two_pow, List.map, List.cons_append, List.nil_append,
    List.append_nil, Nat.reduceAdd, Nat.reduceSub]

/-- §4 of RFC 3174 on a whole number of bytes: `1` + zeros is `0x80` followed by zero bytes. -/
theorem padZeros_bytes (n : Nat) : padZeros (8 * n) = 7 + 8 * (paddedLen n - 8 - (n + 1)) := by
  unfold padZeros paddedLen; omega

/-- **Padding.** The padded message built by `sha1.rs` is, bit for bit, the RFC's padded message. -/
theorem pad_eq_rfc (m : Bytes) : bitsOfBytes (pad m) = Rfc3174.pad (bitsOfBytes m) := by
  unfold pad Rfc3174.pad
  simp only [bitsOfBytes_append, bitsOfBytes, bitsOfBytes_zeros, bitsOfBytes_be64, byteBits_80,
    bitsOfBytes_length, padZeros_bytes, List.append_nil]
  have e : m.length * 8 = 8 * m.length := by omega
  rw [e, ← List.replicate_append_replicate]
  simp only [List.append_assoc, List.cons_append, List.nil_append]

theorem padded_length_multiple_of_64 (m : Bytes) : (pad m).length % 64 = 0 := by
  rw [pad_length]; exact paddedLen_mod _

/-- …and of 512 bits, as §4 demands of the padded message. -/
theorem rfc_padded_length (m : Bytes) : (Rfc3174.pad (bitsOfBytes m)).length = 8 * paddedLen m.length := by
  rw [← pad_eq_rfc, bitsOfBytes_length, pad_length]

end Humphrey.Sha1
