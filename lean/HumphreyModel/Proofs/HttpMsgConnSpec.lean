import HumphreyModel.Proofs.HttpMsgConn
/-
`Spec.checkResponse` accepts what the loop writes for a request (up to the recorded CRLF pad).
-/
namespace Humphrey.Http
open Humphrey Humphrey.Bytes

theorem msgHeader_serialize (r : Response) (h : r.WF) (n b v p : Bytes) (c : Nat) :
    Spec.msgHeader ⟨v, c, p,
      r.headers.sorted.map (fun h => (asciiLower h.name.display, h.value)), b⟩ n = r.headers.get ⟨n⟩ := by
  simp only [Spec.msgHeader]
  rw [wire_fields_eq r.headers (fun x hx => (h.headers x hx).name), fields_find, sorted_get_m]

set_option hygiene false in
/-- Closes the framing clauses of `checkResponse` from `f : RespFacts …` in the context. -/
local macro "framing_close" : tactic => `(tactic| (
  rcases f.framing with ⟨h1, h2⟩ | ⟨h1, h2, h3⟩
  · simp only [h1, Option.bind_some, parseUsize_natToBytes_m _ h2]
    by_cases hb : resp.body = []
    · simp [hb]
    · have hl : resp.body.length ≠ 0 := fun h0 => hb (List.length_eq_zero_iff.mp h0)
      simp [hb, hl]
  · simp [h1, h2, h3]))

theorem checkResponse_ok {κ ω : Type} (cfg : ConnCfg κ ω) (req : Request) (ka : Bool) (resp : Response)
    (f : RespFacts cfg req resp) :
    Spec.checkResponse cfg req ka (serializeResponse resp) = none ∨
    Spec.checkResponse cfg req ka (serializeResponse resp) = some "crlf-after-body" := by
  obtain ⟨e, _, _, p3, _⟩ := statusKnown_facts resp.status f.wf.status
  have eD : (⟨hDate.lower⟩ : HName) = hDate := rfl
  have eS : (⟨hServer.lower⟩ : HName) = hServer := rfl
  have eC : (⟨hContentLength.lower⟩ : HName) = hContentLength := rfl
  have hdate : resp.headers.get hDate ≠ none := by
    intro h; have := f.date; rw [h] at this; cases this
  have hserver : resp.headers.get hServer ≠ none := by
    intro h; have := f.server; rw [h] at this; cases this
  rw [Spec.checkResponse, parseMsg_serialize resp f.wf]
  simp only [msgHeader_serialize resp f.wf, eD, eS, eC, e, f.version, p3, ne_eq, not_true_eq_false,
    if_false, Bool.not_true, Bool.false_eq_true, Option.isNone_iff_eq_none, hdate, hserver]
  cases hg : getHandler cfg.app ((req.headers.get hHost).map cfg.decode) (cfg.decode req.uri) with
  | none =>
    have h404 := f.unrouted hg
    have hne : ¬ (True ∧ ¬ resp.status = 404) := by simp [h404]
    simp only [hne, if_false, Bool.not_true, Bool.false_eq_true, List.all_nil]
    framing_close
  | some r =>
    have hc : (r.cors.setHeaders []).all
        (fun h => decide (resp.headers.get ⟨h.name.lower⟩ = some h.value)) = true := by
      simp only [List.all_eq_true, decide_eq_true_eq]
      intro h hh
      exact f.cors r hg h hh
    simp only [reduceCtorEq, false_and, if_false, hc, Bool.not_true, Bool.false_eq_true]
    by_cases hm : req.method = Method.options
    · simp only [hm, if_true, Bool.not_true, Bool.false_eq_true, if_false]
      framing_close
    · simp only [hm, if_false]
      cases hr : cfg.run r.handler req with
      | panic =>
        simp only [Bool.not_true, Bool.false_eq_true, if_false]
        framing_close
      | response x =>
        obtain ⟨q1, q2⟩ := f.handled r x hg hm hr
        have hbool : (decide (resp.status = x.status) &&
            (decide ((if resp.body = [] then [] else resp.body ++ [13, 10]) = x.body) ||
              decide (¬ x.body = [] ∧ (if resp.body = [] then [] else resp.body ++ [13, 10]) = x.body ++ [13, 10]))) = true := by
          simp only [q1, q2, decide_true, Bool.true_and]
          by_cases hb : x.body = [] <;> simp [hb]
        simp only [hbool, Bool.not_true, Bool.false_eq_true, if_false]
        framing_close

end Humphrey.Http
