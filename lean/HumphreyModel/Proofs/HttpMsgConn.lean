import HumphreyModel.Proofs.HttpMsgSer
import HumphreyModel.Model.Conn
import HumphreyModel.Spec.Conn
/-
What the connection loop writes for one request (`respond`) against `Spec.checkResponse`: the
completed response is well-formed, echoes the version, carries Date/Server, the route's CORS
headers, and is framed by Content-Length (or is a bodiless 204).
-/
namespace Humphrey.Http
open Humphrey Humphrey.Bytes

/-! ## Header lists -/

theorem get_append (a b : Headers) (m : HName) : (a ++ b).get m = (a.get m).or (b.get m) := by
  simp only [Headers.get, List.find?_append]
  cases List.find? (fun h => decide (h.name = m)) a <;> simp

theorem get_singleton (n m : HName) (v : Bytes) :
    Headers.get [⟨n, v⟩] m = if n = m then some v else none := by
  by_cases h : n = m <;> simp [Headers.get, List.find?_cons, h]

theorem get_addIfAbsent (hs : Headers) (n m : HName) (v : Bytes) :
    (addIfAbsent hs n v).get m = (hs.get m).or (if n = m then some v else none) := by
  unfold addIfAbsent
  split
  · rename_i h
    by_cases hn : n = m
    · subst hn
      cases hg : hs.get n with
      | none => simp [hg] at h
      | some x => simp
    · simp [hn]
  · rw [get_append, get_singleton]

theorem get_addIfAbsent_some (hs : Headers) (n m : HName) (v x : Bytes) (h : hs.get m = some x) :
    (addIfAbsent hs n v).get m = some x := by
  rw [get_addIfAbsent, h]; rfl

theorem mem_addIfAbsent (hs : Headers) (n : HName) (v : Bytes) (h : Header) :
    h ∈ addIfAbsent hs n v → h ∈ hs ∨ h = ⟨n, v⟩ := by
  unfold addIfAbsent
  split
  · exact fun hh => .inl hh
  · intro hh; simpa using hh

/-! ## CORS -/

def corsA (c : Cors) : Headers :=
  match c.origins with
  | none => [⟨hAcao, [42]⟩]
  | some os => if os.isEmpty then [] else [⟨hAcao, commaJoin os⟩]

def corsB (c : Cors) : Headers :=
  match c.methods with
  | some ms => if ms.isEmpty then [] else [⟨hAcam, commaJoin (ms.map Method.name)⟩]
  | none => []

def corsC (c : Cors) : Headers :=
  match c.headers with
  | none => [⟨hAcah, [42]⟩]
  | some xs => if xs.isEmpty then [] else [⟨hAcah, commaJoin xs⟩]

theorem corsA_get (c : Cors) (m : HName) (hm : m ≠ hAcao) : (corsA c).get m = none := by
  have : ¬ hAcao = m := fun e => hm e.symm
  unfold corsA; split
  · simp [get_singleton, this]
  · split <;> simp [get_singleton, this, Headers.get]

theorem corsB_get (c : Cors) (m : HName) (hm : m ≠ hAcam) : (corsB c).get m = none := by
  have : ¬ hAcam = m := fun e => hm e.symm
  unfold corsB; split
  · split <;> simp [get_singleton, this, Headers.get]
  · simp [Headers.get]

theorem corsC_get (c : Cors) (m : HName) (hm : m ≠ hAcah) : (corsC c).get m = none := by
  have : ¬ hAcah = m := fun e => hm e.symm
  unfold corsC; split
  · simp [get_singleton, this]
  · split <;> simp [get_singleton, this, Headers.get]

theorem corsA_self (c : Cors) : ∀ h ∈ corsA c, (corsA c).get hAcao = some h.value ∧ h.name = hAcao := by
  unfold corsA; split
  · simp [get_singleton]
  · split <;> simp [get_singleton]

theorem corsB_self (c : Cors) : ∀ h ∈ corsB c, (corsB c).get hAcam = some h.value ∧ h.name = hAcam := by
  unfold corsB; split
  · split <;> simp [get_singleton]
  · simp

theorem corsC_self (c : Cors) : ∀ h ∈ corsC c, (corsC c).get hAcah = some h.value ∧ h.name = hAcah := by
  unfold corsC; split
  · simp [get_singleton]
  · split <;> simp [get_singleton]

/-- When the response does not set the CORS headers itself, `set_headers` appends the route's. -/
theorem setHeaders_eq (c : Cors) (hs : Headers) (h1 : hs.get hAcao = none) (h2 : hs.get hAcam = none)
    (h3 : hs.get hAcah = none) : c.setHeaders hs = hs ++ (corsA c ++ (corsB c ++ corsC c)) := by
  have d1 : ¬ hAcao = hAcam := by decide
  have d2 : ¬ hAcao = hAcah := by decide
  have d3 : ¬ hAcam = hAcah := by decide
  obtain ⟨o, m, x⟩ := c
  simp only [Cors.setHeaders, corsA, corsB, corsC]
  rcases o with _ | o <;> rcases m with _ | m <;> rcases x with _ | x <;>
    simp only [h1, h2, h3, Option.isNone_none, if_true, get_append, get_singleton, d1, d2, d3, if_false,
      Option.or_none, List.append_assoc, List.append_nil] <;>
    (repeat' split) <;>
    simp_all [get_append, get_singleton, Headers.get]

theorem setHeaders_nil (c : Cors) : c.setHeaders [] = corsA c ++ (corsB c ++ corsC c) := by
  have := setHeaders_eq c [] rfl rfl rfl
  simpa using this

/-- Every CORS header of the route is what a lookup by its name finds, provided nothing before
them carries one of the three names. -/
theorem cors_lookup (c : Cors) (hs : Headers) (h1 : hs.get hAcao = none) (h2 : hs.get hAcam = none)
    (h3 : hs.get hAcah = none) :
    ∀ h ∈ c.setHeaders [], (hs ++ c.setHeaders []).get h.name = some h.value := by
  intro h hh
  rw [setHeaders_nil] at hh ⊢
  simp only [List.mem_append] at hh
  rcases hh with hh | hh | hh
  · obtain ⟨g, n⟩ := corsA_self c h hh
    rw [n, get_append, h1, get_append, g]; rfl
  · obtain ⟨g, n⟩ := corsB_self c h hh
    rw [n, get_append, h2, get_append, corsA_get c _ (by decide), get_append, g]; rfl
  · obtain ⟨g, n⟩ := corsC_self c h hh
    rw [n, get_append, h3, get_append, corsA_get c _ (by decide), get_append,
      corsB_get c _ (by decide), g]; rfl

theorem cors_other (c : Cors) (m : HName) (h1 : m ≠ hAcao) (h2 : m ≠ hAcam) (h3 : m ≠ hAcah) :
    (c.setHeaders []).get m = none := by
  rw [setHeaders_nil, get_append, get_append, corsA_get c m h1, corsB_get c m h2, corsC_get c m h3]; rfl

end Humphrey.Http

namespace Humphrey.Http
open Humphrey Humphrey.Bytes

/-! ## Hypotheses of the C01 spec theorem: the property's restriction on targets -/

/-- What a handler may return (the property's targets): a status the code knows, well-formed
headers, none of the headers the server computes for framing and CORS, a body whose length is a
`usize`. -/
structure HandlerOk (r : Response) : Prop where
  status : statusKnown r.status = true
  headers : ∀ h ∈ r.headers, h.WF
  no_content_length : r.headers.get hContentLength = none
  no_acao : r.headers.get hAcao = none
  no_acam : r.headers.get hAcam = none
  no_acah : r.headers.get hAcah = none
  body_len : r.body.length < 18446744073709551616

/-- The configuration is well-behaved: handlers return `HandlerOk` responses, the CORS values of
every route that can be selected and the clock text are well-formed header values. -/
structure CfgOk {κ ω : Type} (cfg : ConnCfg κ ω) : Prop where
  handlers : ∀ k req r, cfg.run k req = .response r → HandlerOk r
  cors : ∀ host path e, getHandler cfg.app host path = some e → ∀ h ∈ e.cors.setHeaders [], h.WF
  now : Header.WF ⟨hDate, cfg.now⟩

/-- What the response echoes from the request: the version (non-empty, no SP/CR/LF) and the value
of `Connection` (no CR/LF, no leading SP/TAB). -/
structure ReqOk (req : Request) : Prop where
  version_ne : req.version ≠ []
  version_clean : ∀ b ∈ req.version, b ≠ 32 ∧ b ≠ 13 ∧ b ≠ 10
  connection : ∀ c, req.headers.get hConnection = some c → Header.WF ⟨hConnection, c⟩

/-- What `checkResponse` needs to know about the response written for `req`. -/
structure RespFacts {κ ω : Type} (cfg : ConnCfg κ ω) (req : Request) (resp : Response) : Prop where
  wf : resp.WF
  version : resp.version = req.version
  date : (resp.headers.get hDate).isSome = true
  server : (resp.headers.get hServer).isSome = true
  unrouted : getHandler cfg.app ((req.headers.get hHost).map cfg.decode) (cfg.decode req.uri) = none →
    resp.status = 404
  handled : ∀ e x, getHandler cfg.app ((req.headers.get hHost).map cfg.decode) (cfg.decode req.uri) = some e →
    req.method ≠ .options → cfg.run e.handler req = .response x →
    resp.status = x.status ∧ resp.body = x.body
  cors : ∀ e, getHandler cfg.app ((req.headers.get hHost).map cfg.decode) (cfg.decode req.uri) = some e →
    ∀ h ∈ e.cors.setHeaders [], resp.headers.get h.name = some h.value
  framing : (resp.headers.get hContentLength = some (natToBytes resp.body.length) ∧
      resp.body.length < 18446744073709551616) ∨
    (resp.headers.get hContentLength = none ∧ resp.status = 204 ∧ resp.body = [])

theorem connValue_wf (req : Request) (hr : ReqOk req) :
    Header.WF ⟨hConnection, (req.headers.get hConnection).getD closeValue⟩ := by
  cases hc : req.headers.get hConnection with
  | none => exact ⟨HName.wf_known _ (by decide), by decide, by intro b t e; cases e; decide⟩
  | some c => exact hr.connection c hc

theorem server_wf : Header.WF ⟨hServer, hServerValue⟩ :=
  ⟨HName.wf_known _ (by decide), by decide, by intro b t e; cases e; decide⟩

theorem contentLength_wf (n : Nat) : Header.WF ⟨hContentLength, natToBytes n⟩ := by
  obtain ⟨_, hd, _, _, _⟩ := natToBytes_spec n
  refine ⟨HName.wf_known hContentLength (by decide), ?_, ?_⟩
  · intro b hb
    have := isDigit_facts b (hd b hb); exact ⟨this.2.2.1, this.2.2.2.1⟩
  · intro b t e
    have hb : isDigit b = true := hd b (by simp only at e; rw [e]; simp)
    simp only [isDigit, Bool.and_eq_true, decide_eq_true_eq] at hb
    constructor
    · intro e2; subst e2; revert hb; decide
    · intro e2; subst e2; revert hb; decide

/-- The completed response (`completeResponse`) of a response that is well-formed, has a known
status, sets no Content-Length and whose body length is a `usize`. -/
theorem completeResponse_facts (now : Bytes) (req : Request) (r : Response) (hreq : ReqOk req)
    (hnow : Header.WF ⟨hDate, now⟩) (hs : statusKnown r.status = true) (hh : ∀ h ∈ r.headers, h.WF)
    (hcl : r.headers.get hContentLength = none) :
    (completeResponse now req r).WF ∧ (completeResponse now req r).version = req.version ∧
    (completeResponse now req r).status = r.status ∧ (completeResponse now req r).body = r.body ∧
    ((completeResponse now req r).headers.get hDate).isSome = true ∧
    ((completeResponse now req r).headers.get hServer).isSome = true ∧
    (completeResponse now req r).headers.get hContentLength = some (natToBytes r.body.length) ∧
    ∀ m v, r.headers.get m = some v → (completeResponse now req r).headers.get m = some v := by
  refine ⟨⟨hreq.version_ne, hreq.version_clean, hs, ?_⟩, rfl, rfl, rfl, ?_, ?_, ?_, ?_⟩
  · intro h hm
    simp only [completeResponse] at hm
    rcases mem_addIfAbsent _ _ _ _ hm with hm | rfl
    · rcases mem_addIfAbsent _ _ _ _ hm with hm | rfl
      · rcases mem_addIfAbsent _ _ _ _ hm with hm | rfl
        · rcases mem_addIfAbsent _ _ _ _ hm with hm | rfl
          · exact hh h hm
          · exact connValue_wf req hreq
        · exact server_wf
      · exact hnow
    · exact contentLength_wf _
  · simp only [completeResponse, get_addIfAbsent]
    have d1 : ¬ hConnection = hDate := by decide
    have d2 : ¬ hServer = hDate := by decide
    have d3 : ¬ hContentLength = hDate := by decide
    simp only [d1, d2, d3, if_false, if_true, Option.or_none]
    cases r.headers.get hDate <;> simp
  · simp only [completeResponse, get_addIfAbsent]
    have d1 : ¬ hConnection = hServer := by decide
    have d2 : ¬ hDate = hServer := by decide
    have d3 : ¬ hContentLength = hServer := by decide
    simp only [d1, d2, d3, if_false, if_true, Option.or_none]
    cases r.headers.get hServer <;> simp
  · simp only [completeResponse, get_addIfAbsent, hcl]
    have d1 : ¬ hConnection = hContentLength := by decide
    have d2 : ¬ hServer = hContentLength := by decide
    have d3 : ¬ hDate = hContentLength := by decide
    simp [d1, d2, d3]
  · intro m v hm
    simp only [completeResponse]
    exact get_addIfAbsent_some _ _ _ _ _ (get_addIfAbsent_some _ _ _ _ _
      (get_addIfAbsent_some _ _ _ _ _ (get_addIfAbsent_some _ _ _ _ _ hm)))

theorem errorResponse_404_len : (errorResponse 404).body.length < 18446744073709551616 := by decide

/-- Every response the loop writes for a parsed request satisfies what the spec checks. -/
theorem respond_facts {κ ω : Type} (cfg : ConnCfg κ ω) (hcfg : CfgOk cfg) (req : Request)
    (hreq : ReqOk req) (ka : Bool) (resp : Response) (h : respond cfg req ka = some resp) :
    RespFacts cfg req resp := by
  -- the 404 for an unrouted request
  have h404 : getHandler cfg.app ((req.headers.get hHost).map cfg.decode) (cfg.decode req.uri) = none →
      resp = completeResponse cfg.now req (errorResponse 404) → RespFacts cfg req resp := by
    intro hg e
    obtain ⟨f1, f2, f3, f4, f5, f6, f7, _⟩ := completeResponse_facts cfg.now req (errorResponse 404) hreq
      hcfg.now (by decide) (by intro h hm; simp [errorResponse] at hm) rfl
    subst e
    exact ⟨f1, f2, f5, f6, fun _ => f3, (by intro e x he; rw [hg] at he; cases he),
      (by intro e he; rw [hg] at he; cases he),
      .inl ⟨by rw [f7, f4], by rw [f4]; exact errorResponse_404_len⟩⟩
  unfold respond at h
  simp only at h
  cases hg : getHandler cfg.app ((req.headers.get hHost).map cfg.decode) (cfg.decode req.uri) with
  | none =>
    simp only [hg] at h
    refine h404 hg ?_
    split at h <;> simp at h <;> exact h.symm
  | some e =>
    simp only [hg] at h
    have hc := hcfg.cors _ _ e hg
    by_cases hm : req.method = .options
    · simp only [hm, if_true, Option.some.injEq] at h
      subst h
      have n1 : ∀ v : Bytes, Headers.get [⟨hDate, cfg.now⟩, ⟨hServer, hServerValue⟩, ⟨hConnection, v⟩] hAcao = none := by
        intro v; simp [Headers.get, List.find?_cons, show ¬ hDate = hAcao by decide,
          show ¬ hServer = hAcao by decide, show ¬ hConnection = hAcao by decide]
      have n2 : ∀ v : Bytes, Headers.get [⟨hDate, cfg.now⟩, ⟨hServer, hServerValue⟩, ⟨hConnection, v⟩] hAcam = none := by
        intro v; simp [Headers.get, List.find?_cons, show ¬ hDate = hAcam by decide,
          show ¬ hServer = hAcam by decide, show ¬ hConnection = hAcam by decide]
      have n3 : ∀ v : Bytes, Headers.get [⟨hDate, cfg.now⟩, ⟨hServer, hServerValue⟩, ⟨hConnection, v⟩] hAcah = none := by
        intro v; simp [Headers.get, List.find?_cons, show ¬ hDate = hAcah by decide,
          show ¬ hServer = hAcah by decide, show ¬ hConnection = hAcah by decide]
      have n4 : ∀ v : Bytes, Headers.get [⟨hDate, cfg.now⟩, ⟨hServer, hServerValue⟩, ⟨hConnection, v⟩] hContentLength = none := by
        intro v; simp [Headers.get, List.find?_cons, show ¬ hDate = hContentLength by decide,
          show ¬ hServer = hContentLength by decide, show ¬ hConnection = hContentLength by decide]
      have hse := setHeaders_eq e.cors _ (n1 (if ka then keepAliveValue else closeValue))
        (n2 (if ka then keepAliveValue else closeValue)) (n3 (if ka then keepAliveValue else closeValue))
      rw [← setHeaders_nil] at hse
      refine ⟨⟨hreq.version_ne, hreq.version_clean, (show statusKnown 204 = true by decide), ?_⟩, rfl, ?_, ?_, ?_, ?_, ?_, .inr ⟨?_, rfl, rfl⟩⟩
      · intro h hmem
        simp only [hse, List.mem_append, List.mem_cons, List.not_mem_nil, or_false] at hmem
        rcases hmem with (rfl | rfl | rfl) | hmem
        · exact hcfg.now
        · exact server_wf
        · refine ⟨HName.wf_known hConnection (by decide), ?_, ?_⟩
          · cases ka <;> decide
          · intro b t e; cases ka <;> cases e <;> decide
        · exact hc h hmem
      · simp only [hse, get_append]; simp [Headers.get, List.find?_cons]
      · simp only [hse, get_append]
        simp [Headers.get, List.find?_cons, show ¬ hDate = hServer by decide]
      · intro he; rw [hg] at he; cases he
      · intro e' x he hne; exact absurd hm hne
      · intro e' he h hmem
        rw [hg] at he; simp only [Option.some.injEq] at he; subst he
        simp only [hse]
        exact cors_lookup e.cors _ (n1 _) (n2 _) (n3 _) h hmem
      · simp only [hse, get_append, n4, cors_other e.cors hContentLength (by decide) (by decide) (by decide)]
        rfl
    · simp only [hm, if_false] at h
      cases hrun : cfg.run e.handler req with
      | panic => simp [hrun] at h
      | response x =>
        simp only [hrun, Option.some.injEq] at h
        have hx := hcfg.handlers _ _ _ hrun
        have hse := setHeaders_eq e.cors x.headers hx.no_acao hx.no_acam hx.no_acah
        rw [← setHeaders_nil] at hse
        obtain ⟨f1, f2, f3, f4, f5, f6, f7, f8⟩ := completeResponse_facts cfg.now req
          { x with headers := e.cors.setHeaders x.headers } hreq hcfg.now hx.status
          (by
            intro h hmem
            simp only [hse, List.mem_append] at hmem
            rcases hmem with hmem | hmem
            · exact hx.headers h hmem
            · exact hc h hmem)
          (by
            simp only [hse, get_append, hx.no_content_length,
              cors_other e.cors hContentLength (by decide) (by decide) (by decide)]
            rfl)
        subst h
        refine ⟨f1, f2, f5, f6, ?_, ?_, ?_, .inl ⟨by rw [f7, f4], by rw [f4]; exact hx.body_len⟩⟩
        · intro he; rw [hg] at he; cases he
        · intro e' x' he _ hr'
          rw [hg] at he; simp only [Option.some.injEq] at he; subst he
          rw [hrun] at hr'
          simp only [HandlerResult.response.injEq] at hr'; subst hr'
          exact ⟨f3, f4⟩
        · intro e' he h hmem
          rw [hg] at he; simp only [Option.some.injEq] at he; subst he
          apply f8
          simp only [hse]
          exact cors_lookup e.cors _ hx.no_acao hx.no_acam hx.no_acah h hmem

end Humphrey.Http
