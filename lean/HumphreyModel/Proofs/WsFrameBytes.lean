import HumphreyModel.Model.WsFrame
import HumphreyModel.Spec.WsFrame

/-!
Byte-level facts for C10: header bit fields (finite case analysis), big-endian length fields,
XOR masking.
-/
namespace Humphrey.WsFrame
open Spec

/-! ### Header octets: encoder = RFC figure -/

theorem packHeader0_eq (fin r1 r2 r3 : Bool) (op : Opcode) :
    packHeader0 fin r1 r2 r3 op
      = UInt8.ofNat (128 * bit fin + 64 * bit r1 + 32 * bit r2 + 16 * bit r3 + opcodeCode op) := by
  cases fin <;> cases r1 <;> cases r2 <;> cases r3 <;> cases op <;> decide

theorem headerByte0_eq_octet0 (f : Frame) : headerByte0 f = octet0 f :=
  packHeader0_eq f.fin f.rsv1 f.rsv2 f.rsv3 f.opcode

theorem lenByte_small : ∀ n, n < 126 → ∀ m : Bool,
    (b2u8 m <<< 7) ||| n.toUInt8 = UInt8.ofNat (128 * bit m + n) := by decide

theorem lenByte_126 (m : Bool) : (b2u8 m <<< 7) ||| 126 = UInt8.ofNat (128 * bit m + 126) := by
  cases m <;> decide

theorem lenByte_127 (m : Bool) : (b2u8 m <<< 7) ||| 127 = UInt8.ofNat (128 * bit m + 127) := by
  cases m <;> decide

theorem be16_eq_beBytes (n : Nat) : be16 n = beBytes 2 n := by
  simp [be16, beBytes, Nat.toUInt8]

theorem be64_eq_beBytes (n : Nat) : be64 n = beBytes 8 n := by
  simp [be64, beBytes, Nat.toUInt8, Nat.div_div_eq_div_mul]

/-! ### Header octets: what the decoder extracts -/

theorem packHeader0_decode (fin r1 r2 r3 : Bool) (op : Opcode) :
    (packHeader0 fin r1 r2 r3 op &&& 0x80 != 0) = fin ∧ (packHeader0 fin r1 r2 r3 op &&& 0x40 != 0) = r1 ∧
    (packHeader0 fin r1 r2 r3 op &&& 0x20 != 0) = r2 ∧ (packHeader0 fin r1 r2 r3 op &&& 0x10 != 0) = r3 ∧
    Opcode.ofNat? (packHeader0 fin r1 r2 r3 op &&& 0xF).toNat = some op := by
  cases fin <;> cases r1 <;> cases r2 <;> cases r3 <;> cases op <;> decide

theorem header0_decode (f : Frame) :
    (headerByte0 f &&& 0x80 != 0) = f.fin ∧ (headerByte0 f &&& 0x40 != 0) = f.rsv1 ∧
    (headerByte0 f &&& 0x20 != 0) = f.rsv2 ∧ (headerByte0 f &&& 0x10 != 0) = f.rsv3 ∧
    Opcode.ofNat? (headerByte0 f &&& 0xF).toNat = some f.opcode :=
  packHeader0_decode f.fin f.rsv1 f.rsv2 f.rsv3 f.opcode

theorem lenByte_small_decode : ∀ n, n < 126 → ∀ m : Bool,
    ((((b2u8 m <<< 7) ||| n.toUInt8) &&& 0x80) != 0) = m ∧
    (((b2u8 m <<< 7) ||| n.toUInt8) &&& 0x7F).toNat = n := by decide

theorem lenByte_126_decode (m : Bool) :
    ((((b2u8 m <<< 7) ||| 126) &&& 0x80) != 0) = m ∧ (((b2u8 m <<< 7) ||| 126) &&& 0x7F).toNat = 126 := by
  cases m <;> decide

theorem lenByte_127_decode (m : Bool) :
    ((((b2u8 m <<< 7) ||| 127) &&& 0x80) != 0) = m ∧ (((b2u8 m <<< 7) ||| 127) &&& 0x7F).toNat = 127 := by
  cases m <;> decide

/-! ### Big-endian round trip -/

theorem fromBe_be16 (n : Nat) (h : n < 65536) : fromBe (be16 n) = n := by
  simp [fromBe, be16]; omega

theorem fromBe_be64 (n : Nat) (h : n < 18446744073709551616) : fromBe (be64 n) = n := by
  simp [fromBe, be64]; omega

/-! ### Masking -/

theorem key_get_eq_keyOctet (k : Key) (i : Nat) : k.get (i % 4) = keyOctet k (i % 4) := by
  have h : i % 4 < 4 := Nat.mod_lt _ (by decide)
  generalize i % 4 = m at h
  match m, h with
  | 0, _ => rfl
  | 1, _ => rfl
  | 2, _ => rfl
  | 3, _ => rfl

theorem xorKey_eq_mapIdx (k : Key) (i : Nat) (p : Bytes) :
    xorKey k i p = p.mapIdx (fun j b => b ^^^ keyOctet k ((i + j) % 4)) := by
  induction p generalizing i with
  | nil => simp [xorKey]
  | cons b p ih =>
    simp only [xorKey, List.mapIdx_cons, ih, Nat.add_zero, key_get_eq_keyOctet]
    congr 1
    congr 1
    funext j b
    rw [Nat.add_assoc, Nat.add_comm 1 j]

theorem xorKey_eq_transform (k : Key) (p : Bytes) : xorKey k 0 p = transform k p := by
  simp [xorKey_eq_mapIdx, transform]

theorem xorKey_length (k : Key) (i : Nat) (p : Bytes) : (xorKey k i p).length = p.length := by
  induction p generalizing i with
  | nil => rfl
  | cons b p ih => simp [xorKey, ih]

/-- Masking twice with the same key gives the data back (what makes unmasking work). -/
theorem xorKey_xorKey (k : Key) (i : Nat) (p : Bytes) : xorKey k i (xorKey k i p) = p := by
  induction p generalizing i with
  | nil => rfl
  | cons b p ih => simp [xorKey, ih, UInt8.xor_assoc]

end Humphrey.WsFrame
