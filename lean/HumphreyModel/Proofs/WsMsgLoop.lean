import HumphreyModel.Proofs.WsMsgRead
import HumphreyModel.Spec.WsMsg

/-!
The blocking receive loop run on a client script (a list of well-formed frames, delivered in any
segmentation with any pauses, possibly followed by a truncated frame): one call of `recvLoop` does what
`next` says at the level of frames; the handler loop `recvAll` delivers `Spec.messages` and writes
`Spec.replies`.
-/
set_option linter.unusedSimpArgs false

namespace Humphrey.WsMsg
open Humphrey.WsFrame Humphrey.WsFrame.Spec Humphrey.WsMsg.Spec

theorem encodeFrame_fun : encodeFrame = rfc6455Layout := funext encodeFrame_eq_layout

theorem wire_nil : wire [] = [] := rfl

theorem wire_cons (f : Frame) (fs : List Frame) : wire (f :: fs) = encodeFrame f ++ wire fs := by
  simp [wire, encodeFrame_fun]

theorem reply_eq_new (o : Opcode) (p : Bytes) : reply o p = Frame.new o p := rfl

/-! ### One call at frame level (proof device; `Spec.recvCall` without the schedule) -/

inductive Next
  | message (m : Msg) (rest : List Frame)
  | closed (rest : List Frame)
  | lost

def Next.result : Next → Result
  | .message m _ => .message m.text m.payload
  | .closed _ => .err .connectionClosed
  | .lost => .err .readError

/-- Replies written and outcome of one blocking receive on the frames `fs`, `cur` being the
fragments already collected. -/
def next (cur : Option Msg) : List Frame → List Frame × Next
  | [] => ([], .lost)
  | f :: fs =>
    if f.opcode = .ping then (reply .pong f.payload :: (next cur fs).1, (next cur fs).2)
    else if f.opcode = .pong then next cur fs
    else if f.opcode = .close then ([reply .close f.payload], .closed fs)
    else if f.fin then ([], .message (extend cur f) fs)
    else next (some (extend cur f)) fs

/-- The fragments collected so far, as the specification sees them. -/
def curOf (acc : List Frame) : Option Msg :=
  match acc with
  | [] => none
  | a :: _ => some ⟨a.opcode == .text, (acc.map (·.payload)).flatten⟩

theorem curOf_snoc (acc : List Frame) (g : Frame) :
    curOf (acc ++ [g]) = some (extend (curOf acc) g) := by
  cases acc with
  | nil => simp [curOf, extend]
  | cons a as => simp [curOf, extend]

theorem assemble_snoc (acc : List Frame) (g : Frame) :
    assemble (acc ++ [g]) = .message (extend (curOf acc) g).text (extend (curOf acc) g).payload := by
  cases acc with
  | nil => simp [assemble, curOf, extend]
  | cons a as => simp [assemble, curOf, extend]

theorem wantMore_snoc (acc : List Frame) (g : Frame) : wantMore (acc ++ [g]) = !g.fin := by
  simp [wantMore]

theorem wantMore_nil : wantMore [] = true := rfl

/-! ### `recvLoop` on a script -/

/-- What may follow the complete frames of a script: nothing, or a frame cut short (abrupt
disconnect). Reading there fails with `ReadError`. -/
def Truncated (tail : Bytes) : Prop := (decodeFlat tail).result = .error .readError

theorem truncated_nil : Truncated [] := by
  simp [Truncated, decodeFlat, decodeWith, takeExact]

theorem truncated_prefix (g : Frame) (hwf : g.wf) (n : Nat) (hn : n < (encodeFrame g).length) :
    Truncated ((encodeFrame g).take n) := by
  have h := decodeFlat_take_encode g hwf [] n
  rw [List.append_nil] at h
  unfold Truncated
  rw [h, if_neg (by omega)]

theorem recvLoop_wire (tail : Bytes) (htail : Truncated tail) :
    ∀ (fs : List Frame), (∀ f ∈ fs, f.wf) → ∀ (fuel : Nat) (c : Conn) (acc : List Frame),
      fs.length + 2 ≤ fuel → wantMore acc = true → Delivers c.inbound (wire fs ++ tail) →
      ∃ c', recvLoop fuel c acc = ((next (curOf acc) fs).2.result, c') ∧
        c'.outbound = c.outbound ++ (next (curOf acc) fs).1.map rfc6455Layout ∧
        c'.closed = c.closed ∧
        (match (next (curOf acc) fs).2 with
         | .message _ rest => Delivers c'.inbound (wire rest ++ tail)
         | .closed rest => Delivers c'.inbound (wire rest ++ tail)
         | .lost => c'.inbound = []) := by
  intro fs
  induction fs with
  | nil =>
    intro _ fuel c acc hfuel hwm hdel
    obtain ⟨k, rfl⟩ : ∃ k, fuel = k + 1 := ⟨fuel - 1, by omega⟩
    rw [wire_nil, List.nil_append] at hdel
    have hr := readFrame_error_of_flat hdel htail
    refine ⟨{ c with inbound := [] }, ?_, by simp [next], rfl, by simp [next]⟩
    simp [recvLoop, hwm, hr, next, Next.result, RecvErr.ofWs, afterError]
  | cons f fs ih =>
    intro hwf fuel c acc hfuel hwm hdel
    obtain ⟨k, rfl⟩ : ∃ k, fuel = k + 1 := ⟨fuel - 1, by omega⟩
    have hk : fs.length + 2 ≤ k := by simp only [List.length_cons] at hfuel; omega
    rw [wire_cons, List.append_assoc] at hdel
    obtain ⟨s', hr, hdel'⟩ := readFrame_encode f (hwf f (by simp)) _ hdel
    have hwf' : ∀ g ∈ fs, g.wf := fun g hg => hwf g (List.mem_cons_of_mem _ hg)
    have hop : f.normKey.opcode = f.opcode := rfl
    have hpl : f.normKey.payload = f.payload := rfl
    have hfin : f.normKey.fin = f.fin := rfl
    by_cases hping : f.opcode = .ping
    · obtain ⟨c', e, ho, hc, hi⟩ := ih hwf' k
        ({ c with inbound := s' }.write (encodeFrame (Frame.new .pong f.payload))) acc hk hwm hdel'
      refine ⟨c', ?_, ?_, ?_, ?_⟩
      · simp only [recvLoop, hwm, if_true, hr, onFrame, hop, hpl, hping, next]
        exact e
      · rw [ho]; simp [next, hping, Conn.write, encodeFrame_fun, reply_eq_new]
      · rw [hc]; rfl
      · simpa [next, hping] using hi
    · by_cases hpong : f.opcode = .pong
      · obtain ⟨c', e, ho, hc, hi⟩ := ih hwf' k
          { c with inbound := s', pongs := c.pongs + 1 } acc hk hwm hdel'
        refine ⟨c', ?_, ?_, ?_, ?_⟩
        · simp only [recvLoop, hwm, if_true, hr, onFrame, hop, hping, hpong, if_false, next]
          exact e
        · rw [ho]; simp [next, hping, hpong]
        · rw [hc]
        · simpa [next, hping, hpong] using hi
      · by_cases hclose : f.opcode = .close
        · refine ⟨{ c with inbound := s' }.write (encodeFrame (Frame.new .close f.payload)),
            ?_, ?_, rfl, ?_⟩
          · simp [recvLoop, hwm, hr, onFrame, hop, hpl, hping, hpong, hclose, next, Next.result]
          · simp [next, hping, hpong, hclose, Conn.write, encodeFrame_fun, reply_eq_new]
          · simpa [next, hping, hpong, hclose, Conn.write] using hdel'
        · by_cases hf : f.fin = true
          · refine ⟨{ c with inbound := s' }, ?_, ?_, rfl, ?_⟩
            · obtain ⟨j, rfl⟩ : ∃ j, k = j + 1 := ⟨k - 1, by omega⟩
              simp only [recvLoop, hwm, if_true, hr, onFrame, hop, hping, hpong, hclose, if_false,
                wantMore_snoc, hfin, hf, Bool.not_true, assemble_snoc, next, Next.result]
              simp [extend, hop, hpl]
            · simp [next, hping, hpong, hclose, hf]
            · simpa [next, hping, hpong, hclose, hf] using hdel'
          · have hwm' : wantMore (acc ++ [f.normKey]) = true := by
              rw [wantMore_snoc, hfin]; simpa using hf
            obtain ⟨c', e, ho, hc, hi⟩ := ih hwf' k { c with inbound := s' } (acc ++ [f.normKey]) hk
              hwm' hdel'
            have hcur : curOf (acc ++ [f.normKey]) = some (extend (curOf acc) f) := by
              rw [curOf_snoc]; cases h : curOf acc <;> simp [extend, hop, hpl]
            rw [hcur] at e ho hi
            refine ⟨c', ?_, ?_, ?_, ?_⟩
            · simp only [recvLoop, hwm, if_true, hr, onFrame, hop, hping, hpong, hclose, if_false,
                next, hf]
              exact e
            · rw [ho]; simp [next, hping, hpong, hclose, hf]
            · rw [hc]
            · simpa [next, hping, hpong, hclose, hf] using hi

end Humphrey.WsMsg
