import HumphreyModel.Model.WsMsg
import HumphreyModel.Proofs.WsFrameMain

/-!
Reading frames from the scripted socket of `Model/WsMsg.lean`: a blocking `read_exact` delivers the
next `n` bytes of the data still to come, whatever the segmentation and wherever the `notYet` moments
sit; hence (C10's `decodeWith_sim` and `decodeFlat_take_encode`) a blocking frame read returns the
client's frame and leaves exactly the bytes after it.
-/
namespace Humphrey.WsMsg
open Humphrey.WsFrame

/-- No scripted `read` returns 0 bytes before the end of the stream. -/
def NonEmptyData (s : List Ev) : Prop := ∀ b, Ev.data b ∈ s → b ≠ []

/-- The script `s` delivers the byte string `bs` (in any segmentation, with any pauses). -/
def Delivers (s : List Ev) (bs : Bytes) : Prop := NonEmptyData s ∧ dataBytes s = bs

theorem NonEmptyData.tail {e : Ev} {s : List Ev} (h : NonEmptyData (e :: s)) : NonEmptyData s :=
  fun b hb => h b (List.mem_cons_of_mem _ hb)

theorem readExactEv_flat (n : Nat) (s : List Ev) (h : NonEmptyData s) :
    (readExactEv n s = none ∧ (dataBytes s).length < n) ∨
    ∃ s', readExactEv n s = some ((dataBytes s).take n, s') ∧ n ≤ (dataBytes s).length ∧
      dataBytes s' = (dataBytes s).drop n ∧ NonEmptyData s' := by
  induction s generalizing n with
  | nil =>
    cases n with
    | zero => right; exact ⟨[], by simp [readExactEv, dataBytes], by simp, by simp, h⟩
    | succ n => left; simp [readExactEv, dataBytes]
  | cons e cs ih =>
    have hcs : NonEmptyData cs := h.tail
    cases n with
    | zero => right; exact ⟨e :: cs, by simp [readExactEv], by simp, by simp, h⟩
    | succ n =>
      cases e with
      | notYet =>
        rcases ih (n + 1) hcs with ⟨hn, hlt⟩ | ⟨s', hs, hle, hfl, hne⟩
        · left; exact ⟨by simp [readExactEv, hn], by simpa [dataBytes] using hlt⟩
        · right; exact ⟨s', by simp [readExactEv, hs, dataBytes], by simpa [dataBytes] using hle,
            by simpa [dataBytes] using hfl, hne⟩
      | data c =>
        have hc : c ≠ [] := h c (by simp)
        have hlen : c.length ≠ 0 := by
          intro h0; exact hc (List.eq_nil_of_length_eq_zero h0)
        by_cases hle : c.length ≤ n + 1
        · rcases ih (n + 1 - c.length) hcs with ⟨hn, hlt⟩ | ⟨s', hs, hle', hfl, hne⟩
          · left
            refine ⟨by simp [readExactEv, hlen, hle, hn], ?_⟩
            simp only [dataBytes, List.length_append]; omega
          · right
            refine ⟨s', ?_, ?_, ?_, hne⟩
            · simp only [readExactEv, hlen, hle, if_true, if_false, hs, dataBytes]
              rw [List.take_append, List.take_of_length_le hle]
            · simp only [dataBytes, List.length_append]; omega
            · rw [hfl]; simp only [dataBytes]
              rw [List.drop_append, List.drop_of_length_le hle, List.nil_append]
        · right
          have hgt : n + 1 < c.length := by omega
          refine ⟨.data (c.drop (n + 1)) :: cs, ?_, ?_, ?_, ?_⟩
          · simp only [readExactEv, hlen, hle, if_false, dataBytes]
            rw [List.take_append_of_le_length (by omega)]
          · simp only [dataBytes, List.length_append]; omega
          · simp only [dataBytes]
            rw [List.drop_append_of_le_length (by omega)]
          · intro d hd
            rcases List.mem_cons.mp hd with hd | hd
            · cases hd
              intro h0
              have : (c.drop (n + 1)).length = 0 := by rw [h0]; rfl
              simp only [List.length_drop] at this; omega
            · exact hcs d hd

/-- The scripted socket and the flat byte string it delivers are related streams (C10's `Sim`). -/
theorem readExactEv_takeExact_sim : Sim Delivers readExactEv takeExact := by
  intro n s bs ⟨hne, hfl⟩
  subst hfl
  rcases readExactEv_flat n s hne with ⟨e, hlt⟩ | ⟨s', e, hle, hfl, hne'⟩
  · left; exact ⟨e, by unfold takeExact; rw [if_neg (by omega)]⟩
  · right; exact ⟨_, s', _, e, by unfold takeExact; rw [if_pos hle], hne', hfl⟩

/-- A blocking frame read does what the flat decoder does on the bytes still to come. -/
theorem readFrame_flat (s : List Ev) (h : NonEmptyData s) :
    ResRel Delivers (decodeWith readExactEv s) (decodeFlat (dataBytes s)) :=
  decodeWith_sim readExactEv_takeExact_sim ⟨h, rfl⟩

theorem readFrame_error_of_flat {s : List Ev} {bs : Bytes} (h : Delivers s bs) {e : WsErr}
    (hf : (decodeFlat bs).result = .error e) : readFrame s = .error e := by
  obtain ⟨hne, rfl⟩ := h
  obtain ⟨_, ⟨e', h1, h2⟩ | ⟨f, a, b, _, h2, _⟩⟩ := readFrame_flat s hne
  · rw [hf] at h2; cases h2; exact h1
  · rw [hf] at h2; cases h2

theorem readFrame_ok_of_flat {s : List Ev} {bs : Bytes} (h : Delivers s bs) {f : Frame} {tl : Bytes}
    (hf : (decodeFlat bs).result = .ok (f, tl)) :
    ∃ rest, readFrame s = .ok (f, rest) ∧ Delivers rest tl := by
  obtain ⟨hne, rfl⟩ := h
  obtain ⟨_, ⟨e', _, h2⟩ | ⟨f', a, b, h1, h2, hrel⟩⟩ := readFrame_flat s hne
  · rw [hf] at h2; cases h2
  · rw [hf] at h2; cases h2; exact ⟨a, h1, hrel⟩

/-- **Frame read on a client frame.** Whatever the delivery, a blocking frame read returns the
client's frame (payload unmasked) and leaves exactly the bytes that follow it. -/
theorem readFrame_encode {s : List Ev} (f : Frame) (hwf : f.wf) (tail : Bytes)
    (h : Delivers s (encodeFrame f ++ tail)) :
    ∃ rest, readFrame s = .ok (f.normKey, rest) ∧ Delivers rest tail := by
  apply readFrame_ok_of_flat h
  have h' := decodeFlat_take_encode f hwf tail (encodeFrame f ++ tail).length
  rw [List.take_length] at h'
  rw [h', if_pos (by simp)]
  simp

/-- Results of a frame read depend only on the bytes delivered, not on segmentation or pauses. -/
theorem readFrame_delivery_independent (s₁ s₂ : List Ev) (bs : Bytes) (h₁ : Delivers s₁ bs)
    (h₂ : Delivers s₂ bs) :
    (∃ e, readFrame s₁ = .error e ∧ readFrame s₂ = .error e) ∨
    ∃ f r₁ r₂ tl, readFrame s₁ = .ok (f, r₁) ∧ readFrame s₂ = .ok (f, r₂) ∧ Delivers r₁ tl ∧
      Delivers r₂ tl := by
  cases hf : (decodeFlat bs).result with
  | error e => exact .inl ⟨e, readFrame_error_of_flat h₁ hf, readFrame_error_of_flat h₂ hf⟩
  | ok p =>
    obtain ⟨f, tl⟩ := p
    obtain ⟨r₁, e₁, d₁⟩ := readFrame_ok_of_flat h₁ hf
    obtain ⟨r₂, e₂, d₂⟩ := readFrame_ok_of_flat h₂ hf
    exact .inr ⟨f, r₁, r₂, tl, e₁, e₂, d₁, d₂⟩

/-- A stream that has delivered everything: only pauses are left, and a frame read fails. -/
theorem readFrame_nil {s : List Ev} (h : Delivers s []) : readFrame s = .error .readError := by
  apply readFrame_error_of_flat h
  simp [decodeFlat, decodeWith, takeExact]

/-! ### Scripts without pauses are C10's chunk scripts -/

theorem readExactEv_map_data (n : Nat) (cs : List Bytes) :
    readExactEv n (cs.map Ev.data) = (readExact n cs).map (fun p => (p.1, p.2.map Ev.data)) := by
  induction cs generalizing n with
  | nil => cases n <;> simp [readExactEv, readExact]
  | cons c cs ih =>
    cases n with
    | zero => simp [readExactEv, readExact]
    | succ n =>
      simp only [List.map_cons, readExactEv, readExact]
      by_cases h0 : c.length = 0
      · simp [h0]
      · by_cases hle : c.length ≤ n + 1
        · simp only [h0, hle, if_true, if_false, ih]
          cases readExact (n + 1 - c.length) cs <;> simp
        · simp [h0, hle]

/-- On a script without `notYet` moments the socket's `read_exact` and C10's `readExact` are related
streams… -/
theorem readExactEv_readExact_sim :
    Sim (fun (s : List Ev) (cs : List Bytes) => s = cs.map Ev.data) readExactEv readExact := by
  intro n s cs h
  subst h
  rw [readExactEv_map_data]
  cases hr : readExact n cs with
  | none => left; simp
  | some p => right; exact ⟨p.1, p.2.map Ev.data, p.2, by simp, by simp, rfl⟩

/-- …so a frame read there is C10's `decodeFrame` on the chunks (same frame or error, the chunks left
over are the events left over). -/
theorem readFrame_chunks (cs : List Bytes) :
    match decodeFrame cs with
    | .error e => readFrame (cs.map Ev.data) = .error e
    | .ok (f, r) => readFrame (cs.map Ev.data) = .ok (f, r.map Ev.data) := by
  obtain ⟨_, ⟨e, h1, h2⟩ | ⟨f, a, b, h1, h2, hab⟩⟩ :=
    decodeWith_sim readExactEv_readExact_sim (a := cs.map Ev.data) (b := cs) rfl
  · unfold decodeFrame decodeFrameFull; rw [h2]; exact h1
  · unfold decodeFrame decodeFrameFull; rw [h2]; subst hab; exact h1

end Humphrey.WsMsg
