import HumphreyModel.Proofs.ConfCfg
import HumphreyModel.Spec.ConfModel

/-!
C15, part C: `Config::from_tree` never panics. The only panicking operations of `from_tree` are the
`get_compulsory(..).unwrap()` calls of `parse_route` (the model's `.panic` arms of
`parseRouteOne`): they would fire on a key that is present in the flattened map but bound to a
section-like node. `flatten` only ever binds scalar nodes, so they cannot.
-/
namespace Humphrey.Conf

/-- Every binding of the map is a scalar node. -/
def cfgrt_Scalars (m : Map) : Prop := ∀ p ∈ m, (p.2.getString).isSome = true

theorem cfgrt_get_scalar {m : Map} (h : cfgrt_Scalars m) {key : Str} {n : Node}
    (hg : m.get key = some n) : n.getString.isSome = true := by
  induction m with
  | nil => cases hg
  | cons p m ih =>
    obtain ⟨k', v⟩ := p
    simp only [Map.get] at hg
    split at hg
    · cases hg; exact h _ (List.mem_cons_self)
    · exact ih (fun q hq => h q (by simp [hq])) hg

mutual
theorem cfgrt_flattenNode_scalars (level : List Str) (n : Node) (m : Map) (h : cfgrt_Scalars m) :
    cfgrt_Scalars (flattenNode level n m) := by
  cases n with
  | number k v => intro p hp; simp only [flattenNode, List.mem_cons] at hp; rcases hp with rfl | hp; rfl; exact h p hp
  | boolean k v => intro p hp; simp only [flattenNode, List.mem_cons] at hp; rcases hp with rfl | hp; rfl; exact h p hp
  | string k v => intro p hp; simp only [flattenNode, List.mem_cons] at hp; rcases hp with rfl | hp; rfl; exact h p hp
  | «section» name cs =>
    simp only [flattenNode]
    split
    · exact h
    · exact cfgrt_flattenList_scalars _ cs m h
  | host name cs => simpa [flattenNode] using h
  | route name cs => simpa [flattenNode] using h
theorem cfgrt_flattenList_scalars (level : List Str) (ns : List Node) (m : Map) (h : cfgrt_Scalars m) :
    cfgrt_Scalars (flattenList level ns m) := by
  cases ns with
  | nil => simpa [flattenList] using h
  | cons n ns =>
    simp only [flattenList]
    exact cfgrt_flattenList_scalars level ns _ (cfgrt_flattenNode_scalars level n m h)
end

theorem cfgrt_getOwned_some {m : Map} (h : cfgrt_Scalars m) {key : Str}
    (hg : (m.get key).isSome = true) : ∃ s, getOwned m key = some s := by
  obtain ⟨n, hn⟩ := Option.isSome_iff_exists.mp hg
  obtain ⟨s, hs⟩ := Option.isSome_iff_exists.mp (cfgrt_get_scalar h hn)
  exact ⟨s, by simp [getOwned, hn, hs]⟩

theorem cfgrt_parseRouteOne_ne_panic (wild : Str) {conf : Map} (h : cfgrt_Scalars conf) :
    parseRouteOne wild conf ≠ .panic := by
  unfold parseRouteOne
  simp only
  split
  · rename_i hg; obtain ⟨s, hs⟩ := cfgrt_getOwned_some h hg; rw [hs]; simp
  · split
    · rename_i hg; obtain ⟨s, hs⟩ := cfgrt_getOwned_some h hg; rw [hs]; simp
    · split
      · rename_i hg; obtain ⟨s, hs⟩ := cfgrt_getOwned_some h hg; rw [hs]
        simp only
        split
        · simp
        · split <;> simp
      · split
        · rename_i hg; obtain ⟨s, hs⟩ := cfgrt_getOwned_some h hg; rw [hs]; simp
        · split <;> simp

theorem cfgrt_parseRoutePats_ne_panic (ws : List Str) {conf : Map} (h : cfgrt_Scalars conf) :
    parseRoutePats ws conf ≠ .panic := by
  induction ws with
  | nil => simp [parseRoutePats]
  | cons w ws ih =>
    unfold parseRoutePats
    split
    · split
      · simp
      · simp
      · rename_i hp; exact absurd hp ih
    · simp
    · rename_i hp; exact absurd hp (cfgrt_parseRouteOne_ne_panic _ h)

theorem cfgrt_parseRoutes_ne_panic (ns : List Node) : parseRoutes ns ≠ .panic := by
  induction ns with
  | nil => simp [parseRoutes]
  | cons n ns ih =>
    cases n with
    | route wild inner =>
      unfold parseRoutes
      split
      · split
        · simp
        · simp
        · rename_i hp; exact absurd hp ih
      · simp
      · rename_i hp
        exact absurd hp (cfgrt_parseRoutePats_ne_panic _
          (cfgrt_flattenList_scalars [] inner [] (fun p hp => by cases hp)))
    | number k v => simpa [parseRoutes] using ih
    | boolean k v => simpa [parseRoutes] using ih
    | string k v => simpa [parseRoutes] using ih
    | «section» name cs => simpa [parseRoutes] using ih
    | host name cs => simpa [parseRoutes] using ih

theorem cfgrt_parseHosts_ne_panic (ns : List Node) : parseHosts ns ≠ .panic := by
  induction ns with
  | nil => simp [parseHosts]
  | cons n ns ih =>
    cases n with
    | host wild inner =>
      unfold parseHosts
      split
      · split
        · simp
        · simp
        · rename_i hp; exact absurd hp ih
      · simp
      · rename_i hp; exact absurd hp (cfgrt_parseRoutes_ne_panic _)
    | number k v => simpa [parseHosts] using ih
    | boolean k v => simpa [parseHosts] using ih
    | string k v => simpa [parseHosts] using ih
    | «section» name cs => simpa [parseHosts] using ih
    | route name cs => simpa [parseHosts] using ih

theorem cfgrt_getOptionalParsed_ne_panic {α ε : Type} (m : Map) (key : Str) (d : α)
    (parse : Str → Option α) (e : ε) : getOptionalParsed m key d parse e ≠ .panic := by
  unfold getOptionalParsed
  split
  · simp
  · split <;> simp

theorem cfgrt_loadBlacklist_ne_panic (fs : FS) (p : Option Str) : loadBlacklist fs p ≠ .panic := by
  unfold loadBlacklist
  split
  · simp
  · split
    · simp
    · simp
    · split <;> simp

theorem cfgrt_fromTree_ne_panic (fs : FS) (tree : Node) : fromTree fs tree ≠ .panic := by
  unfold fromTree
  simp only
  split
  · simp
  · rename_i h; exact absurd h (cfgrt_getOptionalParsed_ne_panic _ _ _ _ _)
  split
  · simp
  · rename_i h; exact absurd h (cfgrt_getOptionalParsed_ne_panic _ _ _ _ _)
  split
  · simp
  · rename_i h; exact absurd h (cfgrt_getOptionalParsed_ne_panic _ _ _ _ _)
  split
  · simp
  split
  · simp
  · rename_i h; exact absurd h (cfgrt_loadBlacklist_ne_panic _ _)
  split
  · simp
  split
  · simp
  · rename_i h; exact absurd h (cfgrt_getOptionalParsed_ne_panic _ _ _ _ _)
  split
  · simp
  · rename_i h; exact absurd h (cfgrt_getOptionalParsed_ne_panic _ _ _ _ _)
  split
  · simp
  · rename_i h; exact absurd h (cfgrt_getOptionalParsed_ne_panic _ _ _ _ _)
  split
  · simp
  · rename_i h; exact absurd h (cfgrt_getOptionalParsed_ne_panic _ _ _ _ _)
  split
  · simp
  · rename_i h; exact absurd h (cfgrt_parseRoutes_ne_panic _)
  split
  · simp
  · rename_i h; exact absurd h (cfgrt_parseHosts_ne_panic _)
  simp

end Humphrey.Conf
