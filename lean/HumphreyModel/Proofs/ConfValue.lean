import HumphreyModel.Proofs.ConfNum
import HumphreyModel.Proofs.GlobMain

/-! Quoted strings, byte slices and the value typing of `parse_section`. -/
namespace Humphrey.Conf
open Humphrey.Glob

theorem takeBytes_append (a b : Str) : takeBytes (a ++ b) (utf8Len a) = some a := by
  induction a with
  | nil => cases b <;> simp [takeBytes, utf8Len]
  | cons c a ih =>
    have hp := Char.utf8Size_pos c
    simp only [List.cons_append, utf8Len]
    obtain ⟨k, hk⟩ : ∃ k, c.utf8Size + utf8Len a = k + 1 := ⟨c.utf8Size + utf8Len a - 1, by omega⟩
    rw [hk, takeBytes]
    have h1 : c.utf8Size ≤ k + 1 := by omega
    have h2 : k + 1 - c.utf8Size = utf8Len a := by omega
    simp [h1, h2, ih]

theorem innerSlice_quoted (v : Str) : innerSlice (quoted v) = some v := by
  have hq : ('"' : Char).utf8Size = 1 := by decide
  have e : quoted v = ('"' :: v) ++ ['"'] := by simp [quoted]
  have hl : utf8Len (quoted v) - 1 = utf8Len ('"' :: v) := by
    rw [e, utf8Len_append]; simp [utf8Len, hq]
  unfold innerSlice byteSlice
  rw [hl]
  have h1 : 1 ≤ utf8Len ('"' :: v) := by simp [utf8Len, hq]
  rw [e, takeBytes_append]
  simp only [h1, if_true, Option.bind_some]
  simp [dropBytes, hq]

theorem wildcard_quoted (v : Str) : wildcardMatch quotePat (quoted v) = true := by
  rw [Props.wildcard_iff]
  refine .lit (by decide) (glob_star_drop v.length ?_)
  have e : (v ++ ['"']).drop v.length = ['"'] := by simp
  show Glob ['"'] ((v ++ ['"']).drop v.length)
  rw [e]
  exact .lit (by decide) .nil
where Props.wildcard_iff : ∀ {p t : List Char}, wildcardMatch p t = true ↔ Glob p t :=
  fun {p t} => matchNoStar_spec p t

theorem wildcard_quote_shape {x : Str} (h : wildcardMatch quotePat x = true) : ∃ v, x = quoted v := by
  have hg : Glob quotePat x := (matchNoStar_spec _ _).mp h
  have hg' : Glob (['"'] ++ ['*', '"']) x := hg
  obtain ⟨y, rfl, hy⟩ := (glob_lits_append (l := ['"']) (by intro c hc; simp at hc; subst hc; decide)).mp hg'
  obtain ⟨k, _, hk⟩ := glob_star.mp hy
  -- the rest after the star is exactly one quotation mark
  cases hd : y.drop k with
  | nil => rw [hd] at hk; exact absurd hk (glob_lit_nil (by decide))
  | cons d r =>
    rw [hd] at hk
    obtain ⟨hdq, hr⟩ := (glob_lit_cons (by decide)).mp hk
    have hr' : r = [] := glob_nil_left.mp hr
    subst hr' hdq
    refine ⟨y.take k, ?_⟩
    have : y = y.take k ++ y.drop k := (List.take_append_drop k y).symm
    rw [hd] at this
    simp [quoted, ← this]

theorem wildcard_false_of_head {c : Char} {r : Str} (hc : c ≠ '"') :
    wildcardMatch quotePat (c :: r) = false := by
  have h1 : ¬ ('"' : Char) = c := fun e => hc e.symm
  simp [wildcardMatch, quotePat, matchNoStar, h1]

theorem typeValue_string (k v : Str) : typeValue k (quoted v) = .ok (.string k v) := by
  simp [typeValue, wildcard_quoted, innerSlice_quoted]

/-- Text that parses as an `i64` starts with a sign or a digit. -/
theorem parseI64_head {v : Str} {i : Int} (h : parseI64 v = some i) :
    ∃ c r, v = c :: r ∧ (c = '+' ∨ c = '-' ∨ IsDigit c) := by
  cases v with
  | nil => simp [parseI64] at h
  | cons c r =>
    refine ⟨c, r, rfl, ?_⟩
    by_cases h1 : c = '+'
    · exact Or.inl h1
    · by_cases h2 : c = '-'
      · exact Or.inr (Or.inl h2)
      · right; right
        simp only [parseI64, h1, h2, if_false] at h
        cases hp : parseDigits (c :: r) with
        | none => rw [hp] at h; cases h
        | some n =>
          simp only [parseDigits, List.isEmpty_cons, Bool.false_eq_true, if_false, parseNatAux] at hp
          cases hd : digitVal c with
          | none => rw [hd] at hp; cases hp
          | some d => exact isDigit_of_digitVal hd

theorem typeValue_number {k v : Str} (h : (parseI64 v).isSome = true) :
    typeValue k v = .ok (.number k v) := by
  obtain ⟨i, hi⟩ := Option.isSome_iff_exists.mp h
  obtain ⟨c, r, rfl, hc⟩ := parseI64_head hi
  have hq : c ≠ '"' := by
    rcases hc with rfl | rfl | hd
    · decide
    · decide
    · exact hd.ne_of_toNat (by decide)
  simp [typeValue, wildcard_false_of_head hq, hi]

theorem typeValue_bool {k v : Str} (h : v = "true".toList ∨ v = "false".toList) :
    typeValue k v = .ok (.boolean k v) := by
  rcases h with rfl | rfl
  · have e : "true".toList = ['t', 'r', 'u', 'e'] := by decide
    rw [e]
    have h1 : wildcardMatch quotePat ['t', 'r', 'u', 'e'] = false := by decide
    have h2 : parseI64 ['t', 'r', 'u', 'e'] = none := by decide
    have h3 : parseBool ['t', 'r', 'u', 'e'] = some true := by decide
    simp [typeValue, h1, h2, h3]
  · have e : "false".toList = ['f', 'a', 'l', 's', 'e'] := by decide
    rw [e]
    have h1 : wildcardMatch quotePat ['f', 'a', 'l', 's', 'e'] = false := by decide
    have h2 : parseI64 ['f', 'a', 'l', 's', 'e'] = none := by decide
    have h3 : parseBool ['f', 'a', 'l', 's', 'e'] = some false := by decide
    simp [typeValue, h1, h2, h3]

theorem parseBool_digit_head {c : Char} {r : Str} (hc : IsDigit c) : parseBool (c :: r) = none := by
  have h1 : c ≠ 't' := hc.ne_of_toNat (by decide)
  have h2 : c ≠ 'f' := hc.ne_of_toNat (by decide)
  simp [parseBool, h1, h2]

theorem showInt_ofNat (n : Nat) : showInt (n : Int) = showNat n := by
  simp [showInt]

/-- A number written with a unit is typed as the number of bytes. -/
theorem typeValue_unit {k : Str} {q m : Nat} {u : Char} (hu : unitFactor u = some m)
    (h : q * m < 2 ^ 63) : typeValue k (showNat q ++ [u]) = .ok (.number k (showNat (q * m))) := by
  obtain ⟨c, r, hcr, hd⟩ := showNat_head q
  obtain ⟨_, hud, _⟩ := unit_cases hu
  have hq : c ≠ '"' := hd.ne_of_toNat (by decide)
  have h1 : wildcardMatch quotePat (showNat q ++ [u]) = false := by
    rw [hcr]; exact wildcard_false_of_head hq
  have h2 : parseI64 (showNat q ++ [u]) = none := parseI64_snoc_none hud
  have h3 : parseBool (showNat q ++ [u]) = none := by rw [hcr]; exact parseBool_digit_head hd
  simp only [typeValue, h1, h2, h3, parseSize_unit hu h, Bool.false_eq_true, if_false,
    Option.isSome_none, showInt_ofNat]

/-! ### no panics in the value typing and the header classification -/

theorem typeValue_ne_panic (k v : Str) : typeValue k v ≠ .panic := by
  unfold typeValue
  split
  · rename_i h
    obtain ⟨w, rfl⟩ := wildcard_quote_shape h
    simp [innerSlice_quoted]
  · split
    · simp
    · split
      · simp
      · split <;> simp

theorem quoted_of_ends {raw : Str} (h2 : 2 ≤ utf8Len raw) (hh : raw.head? = some '"')
    (hl : raw.getLast? = some '"') : ∃ v, raw = quoted v := by
  cases raw with
  | nil => simp at hh
  | cons c t =>
    simp at hh; subst hh
    rcases List.eq_nil_or_concat t with rfl | ⟨t', l, ht⟩
    · simp [utf8Len] at h2
      have : ('"' : Char).utf8Size = 1 := by decide
      omega
    · rw [List.concat_eq_append] at ht
      subst ht
      refine ⟨t', ?_⟩
      have : ('"' :: (t' ++ [l])).getLast? = some l := by
        have e : '"' :: (t' ++ [l]) = ('"' :: t') ++ [l] := rfl
        rw [e, List.getLast?_append]; simp
      rw [this] at hl
      cases hl
      simp [quoted]

theorem classify_ne_panic (sn : Str) : classify sn ≠ .panic := by
  unfold classify
  dsimp only
  split
  · simp
  · split
    · split
      · rename_i h
        simp only [Bool.and_eq_true, decide_eq_true_eq, beq_iff_eq] at h
        obtain ⟨⟨h2, hh⟩, hl⟩ := h
        obtain ⟨v, hv⟩ := quoted_of_ends h2 hh hl
        rw [hv, innerSlice_quoted]
        simp
      · split <;> simp
    · simp

end Humphrey.Conf
