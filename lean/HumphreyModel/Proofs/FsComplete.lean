import HumphreyModel.Proofs.FsHandlers
/-!
Completeness lemmas for C06: a request that denotes the path of an object inside the directory is
resolved to exactly that object (`tryFindPath_file`, `tryFindPath_directory`, `tryFindPath_index`).
-/
namespace Humphrey.Fs
open Humphrey Humphrey.Fs.Spec

/-! ### Path texts of plain names -/

theorem splitOn_no_sep {sep : UInt8} {s : Bytes} (h : sep ∉ s) : Bytes.splitOn sep s = [s] := by
  induction s with
  | nil => simp [Bytes.splitOn]
  | cons b rest ih =>
    simp only [List.mem_cons, not_or] at h
    have hb : b ≠ sep := fun e => h.1 e.symm
    simp [Bytes.splitOn, hb, ih h.2]

theorem joinPath_cons_cons (n m : Name) (rest : List Name) :
    joinPath (n :: m :: rest) = n ++ 47 :: joinPath (m :: rest) := by simp [joinPath]

theorem components_joinPath {cs : List Name} (hne : cs ≠ []) (h : ∀ n ∈ cs, 47 ∉ n) :
    components (joinPath cs) = cs := by
  induction cs with
  | nil => exact absurd rfl hne
  | cons n rest ih =>
    cases rest with
    | nil => simpa [joinPath, components] using splitOn_no_sep (h n (by simp))
    | cons m rest =>
      rw [joinPath_cons_cons]
      unfold components at ih ⊢
      rw [splitOn_append_sep, splitOn_no_sep (h n (by simp)),
        ih (by simp) (fun x hx => h x (List.mem_cons_of_mem _ hx))]
      simp

theorem components_slashPath_append {cs : List Name} (h : ∀ n ∈ cs, 47 ∉ n) {f : Bytes} (hf : 47 ∉ f) :
    components (slashPath cs ++ f) = cs ++ [f] := by
  induction cs with
  | nil => simpa [slashPath, components] using splitOn_no_sep hf
  | cons n rest ih =>
    simp only [slashPath, List.append_assoc, List.cons_append]
    unfold components at ih ⊢
    rw [splitOn_append_sep, splitOn_no_sep (h n (by simp)),
      ih (fun x hx => h x (List.mem_cons_of_mem _ hx))]
    simp

theorem joinPath_last {cs : List Name} (hne : cs ≠ []) (h : ∀ n ∈ cs, n ≠ [] ∧ 47 ∉ n) :
    joinPath cs ≠ [] ∧ endsWithSlash (joinPath cs) = false := by
  induction cs with
  | nil => exact absurd rfl hne
  | cons n rest ih =>
    cases rest with
    | nil =>
      obtain ⟨hn, hs⟩ := h n (by simp)
      refine ⟨by simpa [joinPath] using hn, ?_⟩
      simp only [joinPath, endsWithSlash]
      cases hl : n.getLast? with
      | none => simp
      | some x =>
        have : x ∈ n := List.mem_of_getLast? hl
        have hx : x ≠ 47 := fun e => hs (e ▸ this)
        simp [hx]
    | cons m rest =>
      obtain ⟨h1, h2⟩ := ih (by simp) (fun x hx => h x (List.mem_cons_of_mem _ hx))
      rw [joinPath_cons_cons]
      refine ⟨by simp, ?_⟩
      unfold endsWithSlash at h2 ⊢
      rw [List.getLast?_append]
      cases hl : (47 :: joinPath (m :: rest)).getLast? with
      | none => simp at hl
      | some x =>
        rw [List.getLast?_cons_of_ne_nil h1] at hl
        simp only [Option.some_or]
        rw [← hl]; exact h2

theorem slashPath_last (cs : List Name) : endsWithSlash (slashPath cs) = true ∨ slashPath cs = [] := by
  induction cs with
  | nil => right; rfl
  | cons n rest ih =>
    left
    simp only [slashPath, endsWithSlash]
    rw [List.getLast?_append]
    rcases ih with h | h
    · unfold endsWithSlash at h
      have h' : (slashPath rest).getLast? = some 47 := by simpa using h
      have hne : slashPath rest ≠ [] := by intro e; simp [e] at h'
      rw [List.getLast?_cons_of_ne_nil hne, h']; simp
    · simp [h]

/-! ### Walking down plain names -/

theorem plain_contains_zero {n : Name} (h : 0 ∉ n) : n.contains 0 = false := by
  simpa using h

/-- From a reachable place, plain names that exist below it are walked one by one. -/
theorem walk_down {world : Node} {cs : List Name} (hplain : ∀ n ∈ cs, PlainName n ∧ n ≠ [46, 46])
    {cur : List Name} {n0 m : Node} (hcur : lookup world cur = some n0) (hobj : lookup n0 cs = some m) :
    walk world cur cs = some (cur ++ cs) := by
  induction cs generalizing cur n0 with
  | nil => simp [walk_nil]
  | cons c cs ih =>
    cases n0 with
    | file _ => simp at hobj
    | dir es =>
      rw [lookup_dir_cons] at hobj
      cases hf : findEntry c es with
      | none => simp [hf] at hobj
      | some ch =>
        simp only [hf, Option.bind_some] at hobj
        obtain ⟨⟨hne, -, h0, hdot⟩, hdd⟩ := hplain c (by simp)
        have hnext : lookup world (cur ++ [c]) = some ch := by
          rw [lookup_append, hcur]; simp [lookup_dir_cons, hf]
        have hstep : step world cur c = some (cur ++ [c]) := by
          unfold step
          simp [hcur, h0, hne, hdot, hdd, hnext]
        rw [walk_cons, hstep]
        simp only [Option.bind_some]
        rw [ih (fun x hx => hplain x (List.mem_cons_of_mem _ hx)) hnext hobj]
        simp

/-- `metadata(directory/<plain path>)` is the object at that path. -/
theorem metadata_down {world : Node} {d : Bytes} {dirPath : List Name} {dnode : Node}
    (hdir : canonicalDir world d = some dirPath) (hdn : lookup world dirPath = some dnode)
    {comps : List Name} (hplain : ∀ n ∈ comps, PlainName n ∧ n ≠ [46, 46]) {m : Node}
    (hobj : lookup dnode comps = some m) {r : Bytes} (hr : components r = comps) :
    metadata world (d ++ [47] ++ r) = some (dirPath ++ comps, m) := by
  unfold metadata
  unfold canonicalDir at hdir
  rw [components_join, walk_append, hdir, hr]
  simp only [Option.bind_some]
  have hl : lookup world (dirPath ++ comps) = some m := by
    rw [lookup_append, hdn]; simpa using hobj
  rw [walk_down hplain hdn hobj]
  simp [hl]

/-- `metadata(directory/<plain path>/<f>)`: whatever the directory at the plain path holds under `f`. -/
theorem metadata_entry {world : Node} {d : Bytes} {dirPath : List Name} {dnode : Node}
    (hdir : canonicalDir world d = some dirPath) (hdn : lookup world dirPath = some dnode)
    {cs : List Name} (hplain : ∀ n ∈ cs, PlainName n ∧ n ≠ [46, 46]) {es : List (Name × Node)}
    (hobj : lookup dnode cs = some (.dir es)) {f : Name} (hf : PlainName f ∧ f ≠ [46, 46])
    {r : Bytes} (hr : components r = cs ++ [f]) :
    metadata world (d ++ [47] ++ r) = (findEntry f es).map (fun n => (dirPath ++ cs ++ [f], n)) := by
  cases hfe : findEntry f es with
  | some n =>
    have hobj' : lookup dnode (cs ++ [f]) = some n := by
      rw [lookup_append, hobj]; simp [lookup_dir_cons, hfe]
    have hp : ∀ x ∈ cs ++ [f], PlainName x ∧ x ≠ [46, 46] := by
      intro x hx
      rcases List.mem_append.mp hx with hx | hx
      · exact hplain x hx
      · simp at hx; subst hx; exact hf
    rw [metadata_down hdir hdn hp hobj' hr]
    simp
  | none =>
    have hcur : lookup world (dirPath ++ cs) = some (.dir es) := by
      rw [lookup_append, hdn]; simpa using hobj
    have hnext : lookup world (dirPath ++ cs ++ [f]) = none := by
      rw [lookup_append, hcur]; simp [lookup_dir_cons, hfe]
    obtain ⟨⟨hne, -, h0, hdot⟩, hdd⟩ := hf
    have hstep : step world (dirPath ++ cs) f = none := by
      unfold step
      rw [List.append_assoc] at hnext
      simp [hcur, h0, hne, hdot, hdd, hnext]
    unfold metadata
    unfold canonicalDir at hdir
    rw [components_join, walk_append, hdir, hr]
    simp only [Option.bind_some]
    rw [walk_append, walk_down hplain hdn hobj]
    simp [walk_cons, hstep]

/-- Names of the request path are not `..` when the decoded text has no `..`. -/
theorem names_not_dotdot {path : Bytes} {cs : List Name} (hdd : hasDotDot path = false)
    (hc : ∀ n ∈ cs, n ∈ components path) (hplain : ∀ n ∈ cs, PlainName n) :
    ∀ n ∈ cs, PlainName n ∧ n ≠ [46, 46] :=
  fun n hn => ⟨hplain n hn, no_dotdot_component hdd n (hc n hn)⟩

/-- **`try_find_path` finds the object at a plain path** requested without trailing slash: a regular
file is located at its canonical path, a directory is reported as such. -/
theorem tryFindPath_plain {world : Node} {dir req : Bytes} {index : List Bytes} {d : Bytes}
    {dirPath : List Name} {dnode : Node} {cs : List Name} {obj : Node}
    (hdec : Percent.decode req = some d) (hutf : Bytes.utf8Valid d = true)
    (hdd : hasDotDot d = false) (hcol : 58 ∉ d)
    (hpath : trimStartSlash d = joinPath cs) (hne : cs ≠ []) (hplain : ∀ n ∈ cs, PlainName n)
    (hdir : canonicalDir world (trimEndSlash dir) = some dirPath)
    (hdn : lookup world dirPath = some dnode) (hobj : lookup dnode cs = some obj) :
    tryFindPath world dir req index =
      match obj with
      | .file _ => some (.file (dirPath ++ cs))
      | .dir _ => some .directory := by
  have h47 : ∀ n ∈ cs, 47 ∉ n := fun n hn => (hplain n hn).2.1
  have hcomp := components_joinPath hne h47
  have hrp : hasDotDot (joinPath cs) = false := hpath ▸ hasDotDot_trimStartSlash hdd
  have hp := names_not_dotdot hrp (fun n hn => by rw [hcomp]; exact hn) hplain
  obtain ⟨hne', hslash⟩ := joinPath_last hne (fun n hn => ⟨(hplain n hn).1, h47 n hn⟩)
  have hempty : (joinPath cs).isEmpty = false := by simpa using hne'
  have hmeta := metadata_down hdir hdn hp hobj hcomp
  unfold tryFindPath
  simp only [hdec, hutf, hdd, hpath, hslash, hempty, hmeta]
  have hc : d.contains 58 = false := by simpa using hcol
  simp only [hc]
  cases obj <;> simp

/-- **The index rule of `try_find_path`**: a directory requested in its slash form. -/
theorem tryFindPath_index {world : Node} {dir req : Bytes} {d : Bytes}
    {dirPath : List Name} {dnode : Node} {cs : List Name} {es : List (Name × Node)}
    (hdec : Percent.decode req = some d) (hutf : Bytes.utf8Valid d = true)
    (hdd : hasDotDot d = false) (hcol : 58 ∉ d)
    (hpath : trimStartSlash d = slashPath cs) (hplain : ∀ n ∈ cs, PlainName n)
    (hdir : canonicalDir world (trimEndSlash dir) = some dirPath)
    (hdn : lookup world dirPath = some dnode) (hobj : lookup dnode cs = some (.dir es)) :
    tryFindPath world dir req indexFiles =
      (indexOf es).map (fun nc => Located.file (dirPath ++ cs ++ [nc.1])) := by
  have h47 : ∀ n ∈ cs, 47 ∉ n := fun n hn => (hplain n hn).2.1
  have hrp : hasDotDot (slashPath cs) = false := hpath ▸ hasDotDot_trimStartSlash hdd
  have hcomp0 : components (slashPath cs) = cs ++ [[]] := by
    simpa using components_slashPath_append h47 (f := []) (by simp)
  have hp := names_not_dotdot hrp (fun n hn => by rw [hcomp0]; simp [hn]) hplain
  have hbr : (endsWithSlash (slashPath cs) || (slashPath cs).isEmpty) = true := by
    rcases slashPath_last cs with h | h <;> simp [h]
  have hc : d.contains 58 = false := by simpa using hcol
  have hhtml : PlainName indexHtml ∧ indexHtml ≠ [46, 46] := by
    refine ⟨⟨?_, ?_, ?_, ?_⟩, ?_⟩ <;> decide
  have hhtm : PlainName indexHtm ∧ indexHtm ≠ [46, 46] := by
    refine ⟨⟨?_, ?_, ?_, ?_⟩, ?_⟩ <;> decide
  have m1 := metadata_entry hdir hdn hp hobj hhtml
    (r := slashPath cs ++ indexHtml) (components_slashPath_append h47 (by decide))
  have m2 := metadata_entry hdir hdn hp hobj hhtm
    (r := slashPath cs ++ indexHtm) (components_slashPath_append h47 (by decide))
  simp only [List.append_assoc] at m1 m2
  unfold tryFindPath
  simp only [hdec, hutf, hdd, hpath, hc, hbr]
  simp only [indexFiles, findIndex, List.append_assoc]
  change (match metadata world (trimEndSlash dir ++ ([47] ++ (slashPath cs ++ indexHtml))) with
    | some (canon, .file _) => some (Located.file canon)
    | _ => match metadata world (trimEndSlash dir ++ ([47] ++ (slashPath cs ++ indexHtm))) with
      | some (canon, .file _) => some (Located.file canon)
      | _ => none) = _
  rw [m1, m2]
  unfold indexOf
  rw [← findEntry_eq_entryOf, ← findEntry_eq_entryOf]
  cases h1 : findEntry indexHtml es with
  | some n1 =>
    cases n1 with
    | file c1 => simp
    | dir e1 =>
      cases h2 : findEntry indexHtm es with
      | some n2 => cases n2 <;> simp
      | none => simp
  | none =>
    cases h2 : findEntry indexHtm es with
    | some n2 => cases n2 <;> simp
    | none => simp

/-! ### Route prefixes -/

theorem stripPrefix_append (pre tail : List Char) : stripPrefix pre (pre ++ tail) = some tail := by
  induction pre with
  | nil => simp [stripPrefix]
  | cons a pre ih => simp [stripPrefix, ih]

theorem stripStarSuffix_snoc (pre : List Char) : stripStarSuffix (pre ++ ['*']) = pre := by
  simp [stripStarSuffix]

theorem stripMatched_append {pre : List Char} (h : '*' ∉ pre) (rest tail : List Char) :
    stripMatched (pre ++ '*' :: rest) (pre ++ tail) = some tail := by
  induction pre with
  | nil => simp [stripMatched]
  | cons a pre ih =>
    simp only [List.mem_cons, not_or] at h
    have ha : a ≠ '*' := fun e => h.1 e.symm
    simp [stripMatched, ha, ih h.2]

/-! ### Extensions -/

theorem splitLastDot_none {e : Bytes} (h : 46 ∉ e) (pre : Bytes) : splitLastDot e pre = none := by
  induction e generalizing pre with
  | nil => simp [splitLastDot]
  | cons b rest ih =>
    simp only [List.mem_cons, not_or] at h
    have hb : b ≠ 46 := fun e => h.1 e.symm
    simp [splitLastDot, ih h.2, hb]

theorem splitLastDot_spec (before e pre : Bytes) (h : 46 ∉ e) :
    splitLastDot (before ++ 46 :: e) pre = some (pre.reverse ++ before, e) := by
  induction before generalizing pre with
  | nil => simp [splitLastDot, splitLastDot_none h]
  | cons x bs ih => simp [splitLastDot, ih]

/-- `Path::extension` agrees with the specification's notion of extension. -/
theorem nameExtension_of_hasExt {name e : Bytes} (h : HasExt name e) (hdd : name ≠ [46, 46]) :
    nameExtension name = some e := by
  obtain ⟨before, hb, rfl, he⟩ := h
  unfold nameExtension
  simp [hdd, splitLastDot_spec before e [] he, hb]

theorem canonExtension_snoc (p : List Name) (name : Name) :
    canonExtension (p ++ [name]) = nameExtension name := by
  simp [canonExtension]

theorem hasDotDot_cons_ne {a : UInt8} (h : a ≠ 46) (s : Bytes) : hasDotDot (a :: s) = hasDotDot s := by
  cases s with
  | nil => simp [hasDotDot]
  | cons b r => rw [hasDotDot_cons_cons]; simp [h]

/-! ### Handlers on proper paths -/

/-- `serve_dir`, file requested by a spelling of its path. -/
theorem serveDir_file {world : Node} {dir : Bytes} {pre tail route : List Char} {d : Bytes}
    {dirPath : List Name} {dnode : Node} {init : List Name} {name : Name} {c : Bytes}
    (hroute : stripStarSuffix route = pre)
    (hdec : Percent.decode (utf8 tail) = some d) (hutf : Bytes.utf8Valid d = true)
    (hdd : hasDotDot d = false) (hcol : 58 ∉ d)
    (hpath : trimStartSlash d = joinPath (init ++ [name]))
    (hplain : ∀ n ∈ init ++ [name], PlainName n)
    (hdir : canonicalDir world (trimEndSlash dir) = some dirPath)
    (hdn : lookup world dirPath = some dnode) (hobj : lookup dnode (init ++ [name]) = some (.file c)) :
    serveDir world dir (pre ++ tail) route =
      .ok ((nameExtension name).map mimeFromExtension) c (dirPath ++ (init ++ [name])) := by
  have hfind := tryFindPath_plain (index := indexFiles) hdec hutf hdd hcol hpath (by simp) hplain hdir hdn hobj
  have hl : lookup world (dirPath ++ (init ++ [name])) = some (.file c) := by
    rw [lookup_append, hdn]; simpa using hobj
  unfold serveDir
  simp only [hroute, stripPrefix_append, Option.getD_some, hfind, hl]
  rw [← List.append_assoc, canonExtension_snoc]
  cases nameExtension name <;> simp

/-- `serve_dir`, directory requested without trailing slash. -/
theorem serveDir_redirect {world : Node} {dir : Bytes} {pre tail route : List Char} {d : Bytes}
    {dirPath : List Name} {dnode : Node} {cs : List Name} {es : List (Name × Node)}
    (hroute : stripStarSuffix route = pre)
    (hdec : Percent.decode (utf8 tail) = some d) (hutf : Bytes.utf8Valid d = true)
    (hdd : hasDotDot d = false) (hcol : 58 ∉ d)
    (hpath : trimStartSlash d = joinPath cs) (hne : cs ≠ []) (hplain : ∀ n ∈ cs, PlainName n)
    (hdir : canonicalDir world (trimEndSlash dir) = some dirPath)
    (hdn : lookup world dirPath = some dnode) (hobj : lookup dnode cs = some (.dir es)) :
    serveDir world dir (pre ++ tail) route = .moved (utf8 (pre ++ tail) ++ [47]) := by
  have hfind := tryFindPath_plain (index := indexFiles) hdec hutf hdd hcol hpath hne hplain hdir hdn hobj
  unfold serveDir
  simp only [hroute, stripPrefix_append, Option.getD_some, hfind]

theorem indexOf_mem {es : List (Name × Node)} {n : Name} {c : Bytes} (h : indexOf es = some (n, c)) :
    (n = indexHtml ∨ n = indexHtm) ∧ entryOf es n = some (.file c) := by
  unfold indexOf at h
  split at h
  · simp only [Option.some.injEq, Prod.mk.injEq] at h
    obtain ⟨rfl, rfl⟩ := h
    rename_i h1
    exact ⟨.inl rfl, h1⟩
  · split at h
    · simp only [Option.some.injEq, Prod.mk.injEq] at h
      obtain ⟨rfl, rfl⟩ := h
      rename_i h2
      exact ⟨.inr rfl, h2⟩
    · simp at h

theorem textHtml_of_index {n : Name} (h : n = indexHtml ∨ n = indexHtm) :
    (nameExtension n).map mimeFromExtension = some [116, 101, 120, 116, 47, 104, 116, 109, 108] := by
  rcases h with rfl | rfl <;> decide

/-- `serve_dir`, directory requested in its slash form: the index rule. -/
theorem serveDir_index {world : Node} {dir : Bytes} {pre tail route : List Char} {d : Bytes}
    {dirPath : List Name} {dnode : Node} {cs : List Name} {es : List (Name × Node)}
    (hroute : stripStarSuffix route = pre)
    (hdec : Percent.decode (utf8 tail) = some d) (hutf : Bytes.utf8Valid d = true)
    (hdd : hasDotDot d = false) (hcol : 58 ∉ d)
    (hpath : trimStartSlash d = slashPath cs) (hplain : ∀ n ∈ cs, PlainName n)
    (hdir : canonicalDir world (trimEndSlash dir) = some dirPath)
    (hdn : lookup world dirPath = some dnode) (hobj : lookup dnode cs = some (.dir es)) :
    serveDir world dir (pre ++ tail) route =
      match indexOf es with
      | some (n, c) => .ok (some [116, 101, 120, 116, 47, 104, 116, 109, 108]) c (dirPath ++ cs ++ [n])
      | none => .notFound := by
  have hfind := tryFindPath_index hdec hutf hdd hcol hpath hplain hdir hdn hobj
  unfold serveDir
  simp only [hroute, stripPrefix_append, Option.getD_some, hfind]
  cases hio : indexOf es with
  | none => simp
  | some nc =>
    obtain ⟨n, c⟩ := nc
    obtain ⟨hn, he⟩ := indexOf_mem hio
    have hl : lookup world (dirPath ++ cs ++ [n]) = some (.file c) := by
      rw [List.append_assoc, lookup_append, hdn]
      simp only [Option.bind_some]
      rw [lookup_append, hobj]
      simp [lookup_dir_cons, findEntry_eq_entryOf, he]
    simp only [Option.map_some, hl, canonExtension_snoc]
    have := textHtml_of_index hn
    cases hx : nameExtension n with
    | none => simp [hx] at this
    | some e => simp [hx] at this; simp [this]

end Humphrey.Fs
