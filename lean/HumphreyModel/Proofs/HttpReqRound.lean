import HumphreyModel.Proofs.HttpReqParse
import HumphreyModel.Proofs.HttpReqSort
/-
C02 round trip: the serialisation of a parsed request is the rendering of a (core-)well-formed request
whose denotation is the original request with its headers stably sorted.
-/
namespace Humphrey.Http
open Humphrey Humphrey.Bytes Humphrey.IO

/-! ## Displayed header names -/

/-- Every spelling in the (generated) table is a colon- and LF-free UTF-8 string that lower-cases to
its key. Re-checked against the running code's table on every run. -/
theorem header_table_display_ok : ∀ row ∈ Generated.headerTable,
    avoids [COLON, LF] row.2.1 ∧ utf8Valid row.2.1 = true ∧ asciiLower row.2.1 = row.1 := by decide +kernel

theorem lookup_mem {l d : Bytes} {c : Nat} : ∀ {t : List (Bytes × Bytes × Nat)},
    lookup l t = some (d, c) → (l, d, c) ∈ t
  | [], h => by simp [lookup] at h
  | (k, d', c') :: rest, h => by
    simp only [lookup] at h
    split at h
    · rename_i e
      injection h with h; injection h with h1 h2
      subst e; subst h1; subst h2; simp
    · exact List.mem_cons_of_mem _ (lookup_mem h)

theorem display_ok (n : HName) (h1 : avoids [COLON, LF] n.lower) (h2 : utf8Valid n.lower = true)
    (h3 : asciiLower n.lower = n.lower) :
    avoids [COLON, LF] n.display ∧ utf8Valid n.display = true ∧ asciiLower n.display = n.lower := by
  unfold HName.display
  cases hl : lookup n.lower Generated.headerTable with
  | none => exact ⟨h1, h2, h3⟩
  | some p =>
    obtain ⟨d, c⟩ := p
    exact header_table_display_ok _ (lookup_mem hl)

/-! ## Serialisation as rendering -/

/-- The request a serialisation spells out. -/
def toWf (q : Request) : WfReq :=
  { method := q.method, path := q.uri,
    query := if q.query.isEmpty then none else some q.query,
    version := q.version,
    headers := q.headers.sorted.map (fun h => ⟨h.name.display, [SP], h.value⟩),
    body := q.content }

theorem intercalate_append_sep {α} (sep : List α) : ∀ (l : List (List α)), l ≠ [] →
    sep.intercalate l ++ sep = (l.map (· ++ sep)).flatten
  | [], h => absurd rfl h
  | [x], _ => by simp [List.intercalate]
  | x :: y :: zs, _ => by
    have ih := intercalate_append_sep sep (y :: zs) (by simp)
    simp [List.intercalate] at ih ⊢
    rw [ih]

theorem toWf_startLine (q : Request) :
    (toWf q).startLine = q.method.name ++ [SP] ++ q.uri ++
      (if q.query.isEmpty then [] else [63] ++ q.query) ++ [SP] ++ q.version ++ crlf := by
  simp only [WfReq.startLine, WfReq.target, toWf]
  cases q.query.isEmpty <;> simp [QMARK]

theorem toWf_renderHeaders (q : Request) :
    renderHeaders (toWf q).headers =
      ((q.headers.sorted.map (fun h => h.name.display ++ [58, SP] ++ h.value)).map (· ++ crlf)).flatten := by
  simp only [renderHeaders, toWf, List.map_map]
  congr 1
  apply List.map_congr_left
  intro h _
  simp [WfHeader.render, COLON]

/-- With at least one header the serialisation is the rendering. -/
theorem serialize_eq_render (q : Request) (hne : q.headers ≠ []) :
    serializeRequest q = (toWf q).render := by
  have hl : q.headers.sorted.map (fun h => h.name.display ++ [58, SP] ++ h.value) ≠ [] := by
    intro e
    rw [List.map_eq_nil_iff, sorted_eq_nil] at e
    exact hne e
  have h1 := intercalate_append_sep crlf _ hl
  unfold serializeRequest WfReq.render
  rw [toWf_startLine, toWf_renderHeaders, ← h1]
  simp [toWf]

/-- With no header the serialiser writes one CRLF too many (`start CRLF "" CRLF CRLF`). -/
theorem serialize_eq_render_nil (q : Request) (hnil : q.headers = []) :
    serializeRequest q = (toWf q).startLine ++ crlf ++ crlf ++ q.content.getD [] := by
  unfold serializeRequest
  rw [toWf_startLine, hnil]
  simp [Headers.sorted, List.intercalate]

/-! ## What the serialisation denotes -/

theorem toWf_denote_headers (q : Request) (hq : q.WFParsed) :
    (toWf q).headers.map WfHeader.denote = q.headers.sorted := by
  simp only [toWf, List.map_map]
  conv => rhs; rw [← List.map_id q.headers.sorted]
  apply List.map_congr_left
  intro h hh
  have hm : h ∈ q.headers := mem_sorted.mp hh
  have := (display_ok h.name (hq.name_chars h hm) (hq.name_utf8 h hm) (hq.name_lower h hm)).2.2
  simp only [Function.comp, WfHeader.denote, HName.ofName, this, id]

theorem toWf_core (q : Request) (hq : q.WFParsed) : (toWf q).Core where
  path_chars := hq.uri_chars
  path_utf8 := hq.uri_utf8
  query_chars := by
    intro x hx
    simp only [toWf] at hx
    split at hx
    · cases hx
    · injection hx with hx; subst hx; exact ⟨hq.query_chars, hq.query_utf8⟩
  version_nonempty := hq.version_nonempty
  version_chars := hq.version_chars
  version_utf8 := hq.version_utf8
  headers := by
    intro w hw
    simp only [toWf, List.mem_map] at hw
    obtain ⟨h, hh, rfl⟩ := hw
    have hm : h ∈ q.headers := mem_sorted.mp hh
    have hd := display_ok h.name (hq.name_chars h hm) (hq.name_utf8 h hm) (hq.name_lower h hm)
    exact ⟨hd.1, hd.2.1, by simp [HTAB], hq.value_chars h hm, hq.value_utf8 h hm,
      hq.value_trimmed h hm⟩
  content_length := by
    have e : clValue (toWf q).headers = q.headers.get hContentLength := by
      rw [← get_contentLength_denote, toWf_denote_headers q hq, sorted_get]
    rw [e]
    exact hq.content_length

theorem fromHeaders_congr (p : Bytes → Option Ip) (t : Bytes → Bytes) (hs hs' : Headers) (peer : Ip)
    (port : Nat) (h : hs.get hXff = hs'.get hXff) :
    Address.fromHeaders p t hs peer port = Address.fromHeaders p t hs' peer port := by
  simp only [Address.fromHeaders, h]

end Humphrey.Http
