import HumphreyModel.Proofs.TruncCut
/-
Truncation (C09), chunked framing: the chunk decoder on a proper prefix of a chunked body
(`Spec.renderChunkedBody`), and the response parser on a proper prefix of a whole chunked message
(`Spec.renderChunked`).
-/
namespace Humphrey.Http
open Humphrey Humphrey.Bytes Humphrey.IO

/-! ## `read_exact` on the flat stream -/

theorem trunc_readExact_short (n : Nat) (s : Bytes) (h : s.length < n) : flatReadExact n s = none := by
  unfold flatReadExact; rw [if_neg (by omega)]

theorem trunc_readExact_append (a b : Bytes) : flatReadExact a.length (a ++ b) = some (a, b) := by
  simp [flatReadExact]

/-! ## One chunk -/

/-- A size line without LF is the last thing on the stream: whatever it says, the reads after it fail. -/
theorem trunc_chunk_noLF (q : Bytes) (h : ∀ b ∈ q, b ≠ 10) : ∃ e, parseChunk flatSource q = .err e := by
  simp only [parseChunk, flatSource, LF, trunc_readUntil_noLF q h]
  by_cases hu : utf8Valid q
  · simp only [hu, Bool.not_true, Bool.false_eq_true, if_false]
    cases hp : parseHexUsize (trimEnd q) with
    | none => exact ⟨_, rfl⟩
    | some n =>
      cases n with
      | zero => exact ⟨.stream, by simp [flatReadExact]⟩
      | succ n => exact ⟨.stream, by simp [flatReadExact]⟩
  · exact ⟨.response, by simp [hu]⟩

theorem trunc_hex_line (hex : Bytes) (n : Nat) (hs : Spec.HexSpells hex n) (hn : n < 18446744073709551616)
    (t : Bytes) :
    flatReadUntil 10 (hex ++ 13 :: 10 :: t) = (hex ++ [13, 10], t) ∧
    utf8Valid (hex ++ [13, 10]) = true ∧ parseHexUsize (trimEnd (hex ++ [13, 10])) = some n ∧
    ∀ b ∈ hex, b ≠ 10 := by
  obtain ⟨h0, hv⟩ := hs
  have hd := hexValue_digits hex 0 _ hv
  have hnl : ∀ b ∈ hex, b ≠ 10 := fun b hb => (hexDigit_facts b (hd b hb)).2.1
  refine ⟨flatReadUntil_line _ _ hnl, ?_, ?_, hnl⟩
  · exact utf8Valid_ascii_m _ (by
      intro b hb
      simp only [List.mem_append, List.mem_cons, List.not_mem_nil, or_false] at hb
      rcases hb with hb | rfl | rfl
      · exact (hexDigit_facts b (hd b hb)).2.2.2.2.2.2.2
      · decide
      · decide)
  · rw [trimEnd_hex_crlf hex h0 hd]
    cases hh : hex with
    | nil => exact absurd hh h0
    | cons x xs =>
      have hx : x ≠ 43 := (hexDigit_facts x (hd x (by simp [hh]))).2.2.2.2.2.2.1
      rw [hh] at hv
      unfold parseHexUsize
      split
      · rename_i heq; simp at heq; exact absurd heq.1 hx
      · simp [hv, hn]

/-- After a complete last-chunk size line: the final CRLF is read with `read_exact(2)`. -/
theorem trunc_chunk_line_zero (last : Bytes) (hs : Spec.HexSpells last 0) (t : Bytes) :
    parseChunk flatSource (last ++ 13 :: 10 :: t) =
      match flatReadExact 2 t with
      | none => .err .stream
      | some (_, s2) => .ok (none, s2) := by
  obtain ⟨hr, hu, hp, _⟩ := trunc_hex_line last 0 hs (by omega) t
  simp only [parseChunk, flatSource, LF, hr, hu, Bool.not_true, Bool.false_eq_true, if_false, hp]
  rcases flatReadExact 2 t with _ | ⟨_, _⟩ <;> rfl

/-- After a complete size line announcing `n > 0` bytes: `read_exact(n)`, then `read_exact(2)`. -/
theorem trunc_chunk_line_pos (hex : Bytes) (n : Nat) (hs : Spec.HexSpells hex n) (hpos : n ≠ 0)
    (hn : n < 18446744073709551616) (t : Bytes) :
    parseChunk flatSource (hex ++ 13 :: 10 :: t) =
      match flatReadExact n t with
      | none => .err .stream
      | some (data, s2) =>
        match flatReadExact 2 s2 with
        | none => .err .stream
        | some (_, s3) => .ok (some data, s3) := by
  obtain ⟨hr, hu, hp, _⟩ := trunc_hex_line hex n hs hn t
  obtain ⟨k, rfl⟩ : ∃ k, n = k + 1 := ⟨n - 1, by omega⟩
  simp only [parseChunk, flatSource, LF, hr, hu, Bool.not_true, Bool.false_eq_true, if_false, hp]
  rcases flatReadExact (k + 1) t with _ | ⟨_, s2⟩
  · rfl
  · simp only
    rcases flatReadExact 2 s2 with _ | ⟨_, _⟩ <;> rfl

/-! ## The chunk section cut short -/

theorem trunc_renderBody_cons (p : Bytes × Bytes) (ps : List (Bytes × Bytes)) (last : Bytes) :
    Spec.renderChunkedBody (p :: ps) last =
      p.1 ++ 13 :: 10 :: (p.2 ++ 13 :: 10 :: Spec.renderChunkedBody ps last) := by
  simp [Spec.renderChunkedBody, Spec.renderChunk]

/-- **The chunk decoder on any proper prefix of a chunked body is an error** (a cut in a size line, in
chunk data, in the CRLF after the data, in the last-chunk line or in the final CRLF). -/
theorem trunc_chunks_cut (parts : List (Bytes × Bytes)) (last : Bytes)
    (hparts : ∀ p ∈ parts, Spec.HexSpells p.1 p.2.length ∧ p.2 ≠ [] ∧ p.2.length < 18446744073709551616)
    (hlast : Spec.HexSpells last 0) (k : Nat) (hk : k < (Spec.renderChunkedBody parts last).length)
    (fuel : Nat) (acc : Bytes) :
    ∃ e, parseChunks flatSource fuel ((Spec.renderChunkedBody parts last).take k) acc = .err e := by
  induction parts generalizing k fuel acc with
  | nil =>
    cases fuel with
    | zero => exact ⟨_, rfl⟩
    | succ fuel =>
      have e : Spec.renderChunkedBody [] last = last ++ 13 :: 10 :: [13, 10] := by
        simp [Spec.renderChunkedBody]
      rw [e] at hk ⊢
      obtain ⟨_, _, _, hnl⟩ := trunc_hex_line last 0 hlast (by omega) []
      by_cases hlt : k < last.length + 2
      · obtain ⟨e', he⟩ := trunc_chunk_noLF _ (trunc_take_noLF last [13, 10] hnl k hlt)
        exact ⟨e', by simp only [parseChunks, he]⟩
      · have e2 : last ++ 13 :: 10 :: [13, 10] = (last ++ [13, 10]) ++ [13, 10] := by simp
        rw [e2, trunc_take_ge _ _ _ (by simp; omega)]
        have e3 : (last ++ [13, 10]) ++ List.take (k - (last ++ [13, 10]).length) [13, 10] =
            last ++ 13 :: 10 :: List.take (k - (last ++ [13, 10]).length) [13, 10] := by simp
        rw [e3]
        have hshort : flatReadExact 2 (List.take (k - (last ++ [13, 10]).length) ([13, 10] : Bytes)) = none :=
          trunc_readExact_short _ _ (by
            simp only [List.length_take, List.length_append, List.length_cons, List.length_nil] at hk ⊢
            omega)
        exact ⟨.stream, by simp only [parseChunks, trunc_chunk_line_zero last hlast, hshort]⟩
  | cons p ps ih =>
    cases fuel with
    | zero => exact ⟨_, rfl⟩
    | succ fuel =>
      obtain ⟨h1, h2, h3⟩ := hparts p (by simp)
      have hpos : p.2.length ≠ 0 := by
        intro h0; exact h2 (List.eq_nil_of_length_eq_zero h0)
      obtain ⟨_, _, _, hnl⟩ := trunc_hex_line p.1 p.2.length h1 h3 []
      rw [trunc_renderBody_cons] at hk ⊢
      by_cases hlt : k < p.1.length + 2
      · obtain ⟨e', he⟩ := trunc_chunk_noLF _
          (trunc_take_noLF p.1 (p.2 ++ 13 :: 10 :: Spec.renderChunkedBody ps last) hnl k hlt)
        exact ⟨e', by simp only [parseChunks, he]⟩
      · have e2 : p.1 ++ 13 :: 10 :: (p.2 ++ 13 :: 10 :: Spec.renderChunkedBody ps last) =
            (p.1 ++ [13, 10]) ++ (p.2 ++ 13 :: 10 :: Spec.renderChunkedBody ps last) := by simp
        rw [e2, trunc_take_ge _ _ _ (by simp; omega)]
        generalize hj : k - (p.1 ++ [13, 10]).length = j
        have hjk : k = p.1.length + 2 + j := by
          simp only [List.length_append, List.length_cons, List.length_nil] at hj; omega
        have e3 : ∀ t : Bytes, (p.1 ++ [13, 10]) ++ t = p.1 ++ 13 :: 10 :: t := by intro t; simp
        rw [e3]
        simp only [List.length_append, List.length_cons] at hk
        by_cases hj1 : j < p.2.length
        · -- the cut falls in the chunk data
          have hshort : flatReadExact p.2.length
              (List.take j (p.2 ++ 13 :: 10 :: Spec.renderChunkedBody ps last)) = none :=
            trunc_readExact_short _ _ (by simp only [List.length_take]; omega)
          exact ⟨.stream, by simp only [parseChunks, trunc_chunk_line_pos p.1 _ h1 hpos h3, hshort]⟩
        · rw [trunc_take_ge _ _ _ (by omega)]
          by_cases hj2 : j < p.2.length + 2
          · -- the cut falls in the CRLF after the data
            have hshort : flatReadExact 2
                (List.take (j - p.2.length) (13 :: 10 :: Spec.renderChunkedBody ps last)) = none :=
              trunc_readExact_short _ _ (by simp only [List.length_take]; omega)
            exact ⟨.stream, by
              simp only [parseChunks, trunc_chunk_line_pos p.1 _ h1 hpos h3, trunc_readExact_append, hshort]⟩
          · -- the chunk is complete: continue with the next
            have e4 : List.take (j - p.2.length) (13 :: 10 :: Spec.renderChunkedBody ps last) =
                [13, 10] ++ List.take (j - p.2.length - 2) (Spec.renderChunkedBody ps last) := by
              have : j - p.2.length = (j - p.2.length - 2) + 2 := by omega
              rw [this]; simp
            have hr2 : flatReadExact 2
                ([13, 10] ++ List.take (j - p.2.length - 2) (Spec.renderChunkedBody ps last)) =
                some ([13, 10], List.take (j - p.2.length - 2) (Spec.renderChunkedBody ps last)) :=
              trunc_readExact_append [13, 10] _
            obtain ⟨e', he⟩ := ih (fun q hq => hparts q (by simp [hq])) (j - p.2.length - 2) (by omega)
              fuel (acc ++ p.2)
            exact ⟨e', by
              simp only [parseChunks, trunc_chunk_line_pos p.1 _ h1 hpos h3, trunc_readExact_append, e4,
                hr2, he]⟩

/-- The body reader of a chunked message on a proper prefix of the chunked body. -/
theorem trunc_body_chunked (c : Nat) (hs : Headers) (hte : hs.get hTransferEncoding = some chunkedValue)
    (parts : List (Bytes × Bytes)) (last : Bytes)
    (hparts : ∀ p ∈ parts, Spec.HexSpells p.1 p.2.length ∧ p.2 ≠ [] ∧ p.2.length < 18446744073709551616)
    (hlast : Spec.HexSpells last 0) (k : Nat) (hk : k < (Spec.renderChunkedBody parts last).length) :
    ∃ e, parseBody flatSource c hs ((Spec.renderChunkedBody parts last).take k) = .err e := by
  obtain ⟨e, he⟩ := trunc_chunks_cut parts last hparts hlast k hk
    (flatSource.remaining ((Spec.renderChunkedBody parts last).take k) + 1) []
  exact ⟨e, by simp only [parseBody, hte, if_true, he]⟩

/-! ## The whole chunked message -/

theorem trunc_renderChunked_eq (version code phrase : Bytes) (hs : Headers)
    (parts : List (Bytes × Bytes)) (last : Bytes) :
    Spec.renderChunked version code phrase (hs.map headerLine) parts last =
      truncHead (version ++ 32 :: (code ++ 32 :: phrase)) hs ++ Spec.renderChunkedBody parts last := by
  simp [Spec.renderChunked, truncHead, List.flatMap_map]

/-- **Every proper prefix of a chunked message is an error.** Hypotheses as in `chunked_decode`. -/
theorem trunc_chunked_cut (version phrase : Bytes) (code : Nat) (hs₁ hs₂ : Headers)
    (parts : List (Bytes × Bytes)) (last : Bytes)
    (hver : ∀ b ∈ version, b ≠ 32 ∧ b ≠ 10) (hph : ∀ b ∈ phrase, b ≠ 10) (hk : statusKnown code = true)
    (hu : utf8Valid (version ++ 32 :: (natToBytes code ++ 32 :: phrase) ++ [13, 10]) = true)
    (hw : ∀ h ∈ hs₁ ++ hs₂, h.WF ∧ utf8Valid (headerLine h ++ [13, 10]) = true ∧
      wsPrefixLen h.value = 0 ∧ h.name ≠ hTransferEncoding)
    (hparts : ∀ p ∈ parts, Spec.HexSpells p.1 p.2.length ∧ p.2 ≠ [] ∧ p.2.length < 18446744073709551616)
    (hlast : Spec.HexSpells last 0) (n : Nat)
    (hn : n < (Spec.renderChunked version (natToBytes code) phrase
        ((hs₁ ++ teHeader :: hs₂).map headerLine) parts last).length) :
    ∃ e, parseResponse flatSource
      ((Spec.renderChunked version (natToBytes code) phrase
        ((hs₁ ++ teHeader :: hs₂).map headerLine) parts last).take n) = .err e := by
  obtain ⟨_, n2, _, _, _⟩ := natToBytes_spec code
  obtain ⟨t1, t2, t3⟩ := te_header_ok
  have hall : ∀ h ∈ hs₁ ++ teHeader :: hs₂,
      h.WF ∧ utf8Valid (headerLine h ++ [13, 10]) = true ∧ wsPrefixLen h.value = 0 := by
    intro h hh
    simp only [List.mem_append, List.mem_cons] at hh
    rcases hh with hh | rfl | hh
    · have := hw h (by simp [hh]); exact ⟨this.1, this.2.1, this.2.2.1⟩
    · exact ⟨t1, t2, t3⟩
    · have := hw h (by simp [hh]); exact ⟨this.1, this.2.1, this.2.2.1⟩
  have hline : ∀ b ∈ version ++ 32 :: (natToBytes code ++ 32 :: phrase), b ≠ 10 := by
    intro b hb
    simp only [List.mem_append, List.mem_cons] at hb
    rcases hb with hb | rfl | hb | rfl | hb
    · exact (hver b hb).2
    · decide
    · exact (isDigit_facts b (n2 b hb)).2.2.2.1
    · decide
    · exact hph b hb
  have hte : (hs₁ ++ teHeader :: hs₂).get hTransferEncoding = some chunkedValue := by
    have := get_none_of_names hs₁ hTransferEncoding (fun x hx => (hw x (by simp [hx])).2.2.2)
    simp only [Headers.get, Option.map_eq_none_iff] at this
    simp [Headers.get, List.find?_append, this, teHeader]
  rw [trunc_renderChunked_eq] at hn ⊢
  exact trunc_message_cut _ version code (hs₁ ++ teHeader :: hs₂) _ hline
    (parseStatusLine_generic version phrase code (fun b hb => (hver b hb).1) hk hu)
    (fun h hm => (hall h hm).1) (fun h hm => (hall h hm).2.1) (fun h hm => (hall h hm).2.2)
    (fun j hj => trunc_body_chunked code _ hte parts last hparts hlast j hj) n hn

end Humphrey.Http
