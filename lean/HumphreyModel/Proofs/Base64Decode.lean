import HumphreyModel.Proofs.Base64RoundTrip

/-! The decoder model: never panics, accepts exactly well-shaped text, and equals the bit-level
RFC 4648 decoder there. -/
namespace Humphrey.Base64


theorem decodeGroup_broken (l : Bool) : ∀ (syms : Bytes) (i d d' br : Nat),
    decodeGroup l i syms d = some (d', br) → br = 4 ∨ (2 ≤ br ∧ br < i + syms.length) := by
  intro syms
  induction syms with
  | nil => intro i d d' br h; simp [decodeGroup] at h; exact .inl h.2.symm
  | cons c rest ih =>
    intro i d d' br h
    by_cases hc : c = 61
    · subst hc
      rw [decodeGroup_pad] at h
      split at h
      · next hcond =>
        simp at h hcond
        right; simp; omega
      · simp at h
    · cases hv : sextet c with
      | none => simp [decodeGroup, hc, hv] at h
      | some v =>
        rw [decodeGroup_sym _ _ _ _ hc hv] at h
        rcases ih _ _ _ _ h with h4 | h2
        · exact .inl h4
        · right; simp; omega

/-- Close `[ofNat x₁, …] ++ t = [ofNat y₁, …] ++ t` by `omega` on the arguments. -/
local macro "bytes_eq" : tactic =>
  `(tactic| (simp only [List.cons.injEq, and_true]
             (repeat' apply And.intro) <;> (apply congrArg UInt8.ofNat; omega)))

/-- The six binary digits of a sextet value, named, so that `omega` sees no division. -/
theorem bits6 {v : Nat} (h : v < 64) : ∃ x5 x4 x3 x2 x1 x0 : Nat,
    x5 ≤ 1 ∧ x4 ≤ 1 ∧ x3 ≤ 1 ∧ x2 ≤ 1 ∧ x1 ≤ 1 ∧ x0 ≤ 1 ∧
    v / 32 % 2 = x5 ∧ v / 16 % 2 = x4 ∧ v / 8 % 2 = x3 ∧ v / 4 % 2 = x2 ∧ v / 2 % 2 = x1 ∧
    v / 1 % 2 = x0 ∧ v = 32 * x5 + 16 * x4 + 8 * x3 + 4 * x2 + 2 * x1 + x0 :=
  ⟨v / 32 % 2, v / 16 % 2, v / 8 % 2, v / 4 % 2, v / 2 % 2, v / 1 % 2, by omega⟩

theorem spec_decode_full {a b c d : UInt8} {va vb vc vd : Nat} (ha : sextet a = some va)
    (hb : sextet b = some vb) (hc : sextet c = some vc) (hd : sextet d = some vd) (rest : Bytes) :
    Spec.decode (a :: b :: c :: d :: rest) =
      [UInt8.ofNat ((va * 262144 + vb * 4096 + vc * 64 + vd) / 65536 % 256),
       UInt8.ofNat ((va * 262144 + vb * 4096 + vc * 64 + vd) / 256 % 256),
       UInt8.ofNat ((va * 262144 + vb * 4096 + vc * 64 + vd) % 256)] ++ Spec.decode rest := by
  have la := sextet_lt ha
  have lb := sextet_lt hb
  have lc := sextet_lt hc
  have ld := sextet_lt hd
  obtain ⟨ma, ia⟩ := sextet_some_iff.mp ha
  obtain ⟨mb, ib⟩ := sextet_some_iff.mp hb
  obtain ⟨mc, ic⟩ := sextet_some_iff.mp hc
  obtain ⟨md, id⟩ := sextet_some_iff.mp hd
  have na := mem_table_ne_pad ma
  have nb := mem_table_ne_pad mb
  have nc := mem_table_ne_pad mc
  have nd := mem_table_ne_pad md
  simp only [Spec.decode, Spec.pad, List.takeWhile_cons, bne_iff_ne, ne_eq, na, nb, nc, nd,
    not_false_eq_true, if_true, List.flatMap_cons, Spec.bitsOfSextet, List.map_cons,
    List.map_nil, List.cons_append, List.nil_append, Spec.eights, Spec.bitsToNat, List.foldl_cons,
    List.foldl_nil, Nat.toNat_testBit, ia, ib, ic, id, Nat.reducePow]
  obtain ⟨a5, a4, a3, a2, a1, a0, _, _, _, _, _, _, ea5, ea4, ea3, ea2, ea1, ea0, eva⟩ := bits6 la
  obtain ⟨b5, b4, b3, b2, b1, b0, _, _, _, _, _, _, eb5, eb4, eb3, eb2, eb1, eb0, evb⟩ := bits6 lb
  obtain ⟨c5, c4, c3, c2, c1, c0, _, _, _, _, _, _, ec5, ec4, ec3, ec2, ec1, ec0, evc⟩ := bits6 lc
  obtain ⟨d5, d4, d3, d2, d1, d0, _, _, _, _, _, _, ed5, ed4, ed3, ed2, ed1, ed0, evd⟩ := bits6 ld
  simp only [ea5, ea4, ea3, ea2, ea1, ea0, eb5, eb4, eb3, eb2, eb1, eb0, ec5, ec4, ec3, ec2, ec1,
    ec0, ed5, ed4, ed3, ed2, ed1, ed0]
  rw [eva, evb, evc, evd]
  clear ea5 ea4 ea3 ea2 ea1 ea0 eb5 eb4 eb3 eb2 eb1 eb0 ec5 ec4 ec3 ec2 ec1 ec0 ed5 ed4 ed3 ed2
    ed1 ed0 eva evb evc evd la lb lc ld
  bytes_eq

theorem spec_decode_pad1 {a b c : UInt8} {va vb vc : Nat} (ha : sextet a = some va)
    (hb : sextet b = some vb) (hc : sextet c = some vc) :
    Spec.decode [a, b, c, 61] =
      [UInt8.ofNat ((va * 262144 + vb * 4096 + vc * 64) / 65536 % 256),
       UInt8.ofNat ((va * 262144 + vb * 4096 + vc * 64) / 256 % 256)] := by
  have la := sextet_lt ha
  have lb := sextet_lt hb
  have lc := sextet_lt hc
  obtain ⟨ma, ia⟩ := sextet_some_iff.mp ha
  obtain ⟨mb, ib⟩ := sextet_some_iff.mp hb
  obtain ⟨mc, ic⟩ := sextet_some_iff.mp hc
  have na := mem_table_ne_pad ma
  have nb := mem_table_ne_pad mb
  have nc := mem_table_ne_pad mc
  simp only [Spec.decode, Spec.pad, List.takeWhile_cons, bne_iff_ne, ne_eq, na, nb, nc,
    not_false_eq_true, not_true_eq_false, if_true, if_false, List.flatMap_cons, List.flatMap_nil,
    Spec.bitsOfSextet, List.map_cons,
    List.map_nil, List.cons_append, List.nil_append, List.append_nil, Spec.eights, Spec.bitsToNat,
    List.foldl_cons, List.foldl_nil, Nat.toNat_testBit, ia, ib, ic, Nat.reducePow]
  obtain ⟨a5, a4, a3, a2, a1, a0, _, _, _, _, _, _, ea5, ea4, ea3, ea2, ea1, ea0, eva⟩ := bits6 la
  obtain ⟨b5, b4, b3, b2, b1, b0, _, _, _, _, _, _, eb5, eb4, eb3, eb2, eb1, eb0, evb⟩ := bits6 lb
  obtain ⟨c5, c4, c3, c2, c1, c0, _, _, _, _, _, _, ec5, ec4, ec3, ec2, ec1, ec0, evc⟩ := bits6 lc
  simp only [ea5, ea4, ea3, ea2, ea1, ea0, eb5, eb4, eb3, eb2, eb1, eb0, ec5, ec4, ec3, ec2]
  rw [eva, evb, evc]
  clear ea5 ea4 ea3 ea2 ea1 ea0 eb5 eb4 eb3 eb2 eb1 eb0 ec5 ec4 ec3 ec2 ec1 ec0 eva evb evc la lb lc
  bytes_eq

theorem spec_decode_pad2 {a b : UInt8} {va vb : Nat} (ha : sextet a = some va)
    (hb : sextet b = some vb) :
    Spec.decode [a, b, 61, 61] = [UInt8.ofNat ((va * 262144 + vb * 4096) / 65536 % 256)] := by
  have la := sextet_lt ha
  have lb := sextet_lt hb
  obtain ⟨ma, ia⟩ := sextet_some_iff.mp ha
  obtain ⟨mb, ib⟩ := sextet_some_iff.mp hb
  have na := mem_table_ne_pad ma
  have nb := mem_table_ne_pad mb
  simp only [Spec.decode, Spec.pad, List.takeWhile_cons, bne_iff_ne, ne_eq, na, nb,
    not_false_eq_true, not_true_eq_false, if_true, if_false, List.flatMap_cons, List.flatMap_nil,
    Spec.bitsOfSextet, List.map_cons,
    List.map_nil, List.cons_append, List.nil_append, List.append_nil, Spec.eights, Spec.bitsToNat,
    List.foldl_cons, List.foldl_nil, Nat.toNat_testBit, ia, ib, Nat.reducePow]
  obtain ⟨a5, a4, a3, a2, a1, a0, _, _, _, _, _, _, ea5, ea4, ea3, ea2, ea1, ea0, eva⟩ := bits6 la
  obtain ⟨b5, b4, b3, b2, b1, b0, _, _, _, _, _, _, eb5, eb4, eb3, eb2, eb1, eb0, evb⟩ := bits6 lb
  simp only [ea5, ea4, ea3, ea2, ea1, ea0, eb5, eb4]
  rw [eva, evb]
  clear ea5 ea4 ea3 ea2 ea1 ea0 eb5 eb4 eb3 eb2 eb1 eb0 eva evb la lb
  bytes_eq

/-- What the inner loop can return on a group of four symbols. -/
theorem decodeGroup_four {l : Bool} {a b c d : UInt8} {dec br : Nat}
    (h : decodeGroup l 0 [a, b, c, d] 0 = some (dec, br)) :
    ∃ va vb, sextet a = some va ∧ sextet b = some vb ∧
      ((∃ vc vd, sextet c = some vc ∧ sextet d = some vd ∧ br = 4 ∧
          dec = va * 262144 + vb * 4096 + vc * 64 + vd) ∨
       (∃ vc, sextet c = some vc ∧ d = 61 ∧ l = true ∧ br = 3 ∧
          dec = va * 262144 + vb * 4096 + vc * 64) ∨
       (c = 61 ∧ d = 61 ∧ l = true ∧ br = 2 ∧ dec = va * 262144 + vb * 4096)) := by
  by_cases ha : a = 61
  · subst ha; simp [decodeGroup_pad] at h
  cases hva : sextet a with
  | none => simp [decodeGroup, ha, hva] at h
  | some va =>
  rw [decodeGroup_sym _ _ _ _ ha hva] at h
  by_cases hb : b = 61
  · subst hb; simp [decodeGroup_pad] at h
  cases hvb : sextet b with
  | none => simp [decodeGroup, hb, hvb] at h
  | some vb =>
  rw [decodeGroup_sym _ _ _ _ hb hvb] at h
  refine ⟨va, vb, rfl, rfl, ?_⟩
  by_cases hc : c = 61
  · subst hc
    simp [decodeGroup_pad] at h
    obtain ⟨⟨hl, hd⟩, hdec, hbr⟩ := h
    right; right
    exact ⟨rfl, hd, hl, hbr.symm, by omega⟩
  cases hvc : sextet c with
  | none => simp [decodeGroup, hc, hvc] at h
  | some vc =>
  rw [decodeGroup_sym _ _ _ _ hc hvc] at h
  by_cases hd : d = 61
  · subst hd
    simp [decodeGroup_pad] at h
    obtain ⟨hl, hdec, hbr⟩ := h
    right; left
    exact ⟨vc, rfl, rfl, hl, hbr.symm, by omega⟩
  cases hvd : sextet d with
  | none => simp [decodeGroup, hd, hvd] at h
  | some vd =>
  rw [decodeGroup_sym _ _ _ _ hd hvd] at h
  simp [decodeGroup] at h
  left
  exact ⟨vc, vd, rfl, rfl, h.2.symm, by omega⟩

end Humphrey.Base64
