import HumphreyModel.Proofs.ConfModelMap
import HumphreyModel.Proofs.ConfStr

/-!
C15, part B: `parse_route` / `parse_host` read the route and host sections of `Cfg.toTree` back.
-/
namespace Humphrey.Conf

/-! ### `split(',')` of comma-joined pieces -/

theorem cfgrt_splitAll_none {c : Char} {a : Str} (h : ∀ x ∈ a, x ≠ c) : splitAll c a = [a] := by
  induction a with
  | nil => rfl
  | cons d a ih =>
    have hd : d ≠ c := h d (by simp)
    simp only [splitAll, hd, if_false, ih (fun x hx => h x (by simp [hx]))]

theorem cfgrt_splitAll_append {c : Char} {a : Str} (h : ∀ x ∈ a, x ≠ c) (rest : Str) :
    splitAll c (a ++ c :: rest) = a :: splitAll c rest := by
  induction a with
  | nil => simp [splitAll]
  | cons d a ih =>
    have hd : d ≠ c := h d (by simp)
    simp only [List.cons_append, splitAll, hd, if_false, ih (fun x hx => h x (by simp [hx]))]

theorem cfgrt_splitAll_joinComma (ps : List Str) (hne : ps ≠ []) (h : ∀ p ∈ ps, ∀ x ∈ p, x ≠ ',') :
    splitAll ',' (joinComma ps) = ps := by
  induction ps with
  | nil => exact absurd rfl hne
  | cons p ps ih =>
    cases ps with
    | nil => simpa [joinComma] using cfgrt_splitAll_none (h p (by simp))
    | cons q qs =>
      simp only [joinComma]
      rw [cfgrt_splitAll_append (h p (by simp)), ih (by simp) (fun r hr => h r (by simp [hr]))]

/-! ### one route -/

/-- The flattened map of the keys inside a route section. -/
theorem cfgrt_route_conf (r : RouteCfg) :
    flattenList [] (r.target.nodes ++ strKey wsKey r.websocket) [] =
      cfgrt_optB wsKey (r.websocket.map (Node.string wsKey)) ++ flattenList [] r.target.nodes [] := by
  rw [cfgrt_flattenList_append, cfgrt_flatten_strKey]
  simp [joinDots]

theorem cfgrt_getOwned_ws (o : Option Str) (m : Map) (hm : Map.get m wsKey = none) :
    getOwned (cfgrt_optB wsKey (o.map (Node.string wsKey)) ++ m) "websocket".toList = o := by
  have e : "websocket".toList = wsKey := by decide
  rw [e, getOwned, cfgrt_get_optB_eq]
  cases o with
  | none => simp [hm]
  | some w => simp [Node.getString]

theorem cfgrt_parseRouteOne (r : RouteCfg) (hw : r.target = .websocketOnly → r.websocket.isSome = true)
    (hts : ∀ ts mode, r.target = .proxy ts mode → ts ≠ [] ∧ ∀ t ∈ ts, ∀ x ∈ t, x ≠ ',') (p : Str) :
    parseRouteOne p (flattenList [] (r.target.nodes ++ strKey wsKey r.websocket) []) = .ok (r.config p) := by
  rw [cfgrt_route_conf]
  obtain ⟨pats, target, ws⟩ := r
  simp only at hw hts ⊢
  cases target with
  | file path =>
    cases ws <;>
      simp [parseRouteOne, Target.nodes, flattenList, flattenNode, joinDots, cfgrt_optB, Map.get, getOwned,
        Node.getString, wsKey, RouteCfg.config]
  | directory path =>
    cases ws <;>
      simp [parseRouteOne, Target.nodes, flattenList, flattenNode, joinDots, cfgrt_optB, Map.get, getOwned,
        Node.getString, wsKey, RouteCfg.config]
  | redirect path =>
    cases ws <;>
      simp [parseRouteOne, Target.nodes, flattenList, flattenNode, joinDots, cfgrt_optB, Map.get, getOwned,
        Node.getString, wsKey, RouteCfg.config]
  | websocketOnly =>
    cases ws with
    | none => simp at hw
    | some w =>
      simp [parseRouteOne, Target.nodes, flattenList, cfgrt_optB, Map.get, getOwned,
        Node.getString, wsKey, RouteCfg.config]
  | proxy ts mode =>
    obtain ⟨hne, hc⟩ := hts ts mode rfl
    have hsplit := cfgrt_splitAll_joinComma ts hne hc
    cases ws <;> cases mode with
    | none =>
      simp [parseRouteOne, Target.nodes, strKey, flattenList, flattenNode, joinDots, cfgrt_optB, Map.get, getOwned,
        getOptional, Node.getString, wsKey, RouteCfg.config, hsplit]
    | some md =>
      cases md <;>
      simp [parseRouteOne, Target.nodes, strKey, flattenList, flattenNode, joinDots, cfgrt_optB, Map.get, getOwned,
        getOptional, Node.getString, wsKey, RouteCfg.config, hsplit, LbMode.text]

theorem cfgrt_okPattern_noComma {ps : List Str} (h : ∀ p ∈ ps, okPattern p) :
    ∀ p ∈ ps, ∀ x ∈ p, x ≠ ',' := fun p hp x hx => ((h p hp).2 x hx).1

theorem cfgrt_parseRoutePats (r : RouteCfg) (hw : r.target = .websocketOnly → r.websocket.isSome = true)
    (hts : ∀ ts mode, r.target = .proxy ts mode → ts ≠ [] ∧ ∀ t ∈ ts, ∀ x ∈ t, x ≠ ',')
    (ps : List Str) (hps : ∀ p ∈ ps, tight p) :
    parseRoutePats ps (flattenList [] (r.target.nodes ++ strKey wsKey r.websocket) []) =
      .ok (ps.map r.config) := by
  induction ps with
  | nil => rfl
  | cons p ps ih =>
    simp only [parseRoutePats, trim_tight (Or.inr (hps p (by simp))), cfgrt_parseRouteOne r hw hts,
      ih (fun q hq => hps q (by simp [hq])), List.map_cons]

theorem cfgrt_target_proxy {r : RouteCfg} (h : r.target.WF) :
    ∀ ts mode, r.target = .proxy ts mode → ts ≠ [] ∧ ∀ t ∈ ts, ∀ x ∈ t, x ≠ ',' := by
  intro ts mode e
  rw [e] at h
  exact ⟨h.1, fun t ht x hx => ((h.2 t ht) x hx).1⟩

/-- `parse_route` on the section of a well-formed route gives its configurations. -/
theorem cfgrt_parseRoute (r : RouteCfg) (h : r.WF) :
    parseRoute (joinComma r.patterns) (flattenList [] (r.target.nodes ++ strKey wsKey r.websocket) []) =
      .ok r.configs := by
  unfold parseRoute
  rw [cfgrt_splitAll_joinComma _ h.nonempty (cfgrt_okPattern_noComma h.patterns)]
  exact cfgrt_parseRoutePats r h.wsOnly (cfgrt_target_proxy h.target) _ (fun p hp => (h.patterns p hp).1)

theorem cfgrt_parseRoutes_routeNodes (rs : List RouteCfg) (h : ∀ r ∈ rs, r.WF) :
    parseRoutes (routeNodes rs) = .ok (routeConfigs rs) := by
  induction rs with
  | nil => rfl
  | cons r rs ih =>
    simp only [routeNodes, RouteCfg.toNode, parseRoutes, cfgrt_parseRoute r (h r (by simp)),
      ih (fun q hq => h q (by simp [hq])), routeConfigs]

theorem cfgrt_parseRoutes_items (is : List Item) (h : ∀ i ∈ is, i.WF) :
    parseRoutes (itemNodes is) = .ok (defaultRoutes is) := by
  induction is with
  | nil => rfl
  | cons i is ih =>
    have ih' := ih (fun q hq => h q (by simp [hq]))
    cases i with
    | route r =>
      have hr : r.WF := h (.route r) (by simp)
      simp only [itemNodes, Item.toNode, RouteCfg.toNode, parseRoutes, cfgrt_parseRoute r hr, ih', defaultRoutes]
    | host hc =>
      simp only [itemNodes, Item.toNode, HostCfg.toNode, parseRoutes, ih', defaultRoutes]

theorem cfgrt_parseHosts_items (is : List Item) (h : ∀ i ∈ is, i.WF) :
    parseHosts (itemNodes is) = .ok (hostConfigs is) := by
  induction is with
  | nil => rfl
  | cons i is ih =>
    have ih' := ih (fun q hq => h q (by simp [hq]))
    cases i with
    | route r =>
      simp only [itemNodes, Item.toNode, RouteCfg.toNode, parseHosts, ih', hostConfigs]
    | host hc =>
      have hh : hc.WF := h (.host hc) (by simp)
      simp only [itemNodes, Item.toNode, HostCfg.toNode, parseHosts, cfgrt_parseRoutes_routeNodes _ hh.routes,
        ih', hostConfigs, HostCfg.config]

/-! ### the scalar part of the `server` section holds no routes or hosts -/

/-- Scalar or plain section. -/
def cfgrt_plain : Node → Bool
  | .number _ _ => true
  | .boolean _ _ => true
  | .string _ _ => true
  | .section _ _ => true
  | _ => false

theorem cfgrt_parseRoutes_plain (a b : List Node) (h : ∀ n ∈ a, cfgrt_plain n = true) :
    parseRoutes (a ++ b) = parseRoutes b := by
  induction a with
  | nil => rfl
  | cons n a ih =>
    have hn := h n (by simp)
    have ih' := ih (fun q hq => h q (by simp [hq]))
    cases n <;> simp_all [parseRoutes, cfgrt_plain]

theorem cfgrt_parseHosts_plain (a b : List Node) (h : ∀ n ∈ a, cfgrt_plain n = true) :
    parseHosts (a ++ b) = parseHosts b := by
  induction a with
  | nil => rfl
  | cons n a ih =>
    have hn := h n (by simp)
    have ih' := ih (fun q hq => h q (by simp [hq]))
    cases n <;> simp_all [parseHosts, cfgrt_plain]

theorem cfgrt_plain_strKey (key : Str) (o : Option Str) : ∀ n ∈ strKey key o, cfgrt_plain n = true := by
  cases o <;> simp [strKey, cfgrt_plain]

theorem cfgrt_plain_numKey (key : Str) (o : Option Nat) : ∀ n ∈ numKey key o, cfgrt_plain n = true := by
  cases o <;> simp [numKey, cfgrt_plain]

theorem cfgrt_plain_boolKey (key : Str) (o : Option Bool) : ∀ n ∈ boolKey key o, cfgrt_plain n = true := by
  cases o <;> simp [boolKey, cfgrt_plain]

theorem cfgrt_plain_optSection (name : Str) (cs : List Node) :
    ∀ n ∈ optSection name cs, cfgrt_plain n = true := by
  unfold optSection
  split <;> simp [cfgrt_plain]

theorem cfgrt_plain_scalarNodes (c : Cfg) : ∀ n ∈ c.scalarNodes, cfgrt_plain n = true := by
  intro n hn
  simp only [Cfg.scalarNodes, List.mem_append] at hn
  rcases hn with ((((((hn | hn) | hn) | hn) | hn) | hn) | hn) | hn
  · exact cfgrt_plain_strKey _ _ n hn
  · exact cfgrt_plain_numKey _ _ n hn
  · exact cfgrt_plain_numKey _ _ n hn
  · exact cfgrt_plain_strKey _ _ n hn
  · exact cfgrt_plain_numKey _ _ n hn
  · exact cfgrt_plain_optSection _ _ n hn
  · exact cfgrt_plain_optSection _ _ n hn
  · exact cfgrt_plain_optSection _ _ n hn

theorem cfgrt_parseRoutes_children (c : Cfg) (h : ∀ i ∈ c.items, i.WF) :
    parseRoutes c.toTree.sectionChildren = .ok (defaultRoutes c.items) := by
  simp only [Cfg.toTree, Node.sectionChildren, Cfg.children]
  rw [cfgrt_parseRoutes_plain _ _ (cfgrt_plain_scalarNodes c), cfgrt_parseRoutes_items _ h]

theorem cfgrt_parseHosts_children (c : Cfg) (h : ∀ i ∈ c.items, i.WF) :
    parseHosts c.toTree.sectionChildren = .ok (hostConfigs c.items) := by
  simp only [Cfg.toTree, Node.sectionChildren, Cfg.children]
  rw [cfgrt_parseHosts_plain _ _ (cfgrt_plain_scalarNodes c), cfgrt_parseHosts_items _ h]

end Humphrey.Conf
