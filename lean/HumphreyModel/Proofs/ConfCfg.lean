import HumphreyModel.Model.Conf

/-! `Config::from_tree`: what acceptance implies, and the route validation rules. -/
namespace Humphrey.Conf

theorem getOptionalParsed_ok {α ε : Type} {m : Map} {key : Str} {dflt : α} {parse : Str → Option α}
    {e : ε} {a : α} (h : getOptionalParsed m key dflt parse e = .ok a) :
    (m.get key = none ∧ a = dflt) ∨ ∃ n s, m.get key = some n ∧ n.scalar = some s ∧ parse s = some a := by
  unfold getOptionalParsed at h
  split at h
  · left; rename_i hn; cases h; exact ⟨hn, rfl⟩
  · right
    rename_i n hn
    split at h
    · rename_i a' ha
      cases h
      cases hs : n.scalar with
      | none => rw [hs] at ha; cases ha
      | some s => rw [hs] at ha; exact ⟨n, s, hn, hs, ha⟩
    · cases h

/-- What an accepted configuration guarantees about the enumerated and numeric keys. -/
theorem fromTree_ok_facts (fs : FS) (tree : Node) (c : Config) (h : fromTree fs tree = .ok c) :
    (getOptional (flattenNode [] tree []) (k "server.blacklist.mode") (k "block") = k "block" ∨
      getOptional (flattenNode [] tree []) (k "server.blacklist.mode") (k "block") = k "forbidden") ∧
    getOptionalParsed (flattenNode [] tree []) (k "server.port") 80 (parseUnsigned 16) CfgErr.port = .ok c.port ∧
    getOptionalParsed (flattenNode [] tree []) (k "server.threads") 32 (parseUnsigned 64) CfgErr.threads = .ok c.threads ∧
    1 ≤ c.threads ∧
    getOptionalParsed (flattenNode [] tree []) (k "server.log.level") LogLevel.warn parseLogLevel CfgErr.logLevel = .ok c.logLevel ∧
    getOptionalParsed (flattenNode [] tree []) (k "server.cache.size") 0 (parseUnsigned 64) CfgErr.cacheSize = .ok c.cacheSize ∧
    getOptionalParsed (flattenNode [] tree []) (k "server.cache.time") 0 (parseUnsigned 64) CfgErr.cacheTime = .ok c.cacheTime ∧
    parseRoutes tree.sectionChildren = .ok c.defaultHost.routes ∧
    parseHosts tree.sectionChildren = .ok c.hosts := by
  unfold fromTree at h
  simp only at h
  split at h <;> try (cases h; done)
  rename_i _ _ hport
  split at h <;> try (cases h; done)
  rename_i _ _ hthreads
  split at h <;> try (cases h; done)
  split at h <;> try (cases h; done)
  rename_i hge
  split at h <;> try (cases h; done)
  split at h <;> try (cases h; done)
  rename_i _ _ hmode
  split at h <;> try (cases h; done)
  rename_i _ _ hlevel
  split at h <;> try (cases h; done)
  split at h <;> try (cases h; done)
  rename_i _ _ hsize
  split at h <;> try (cases h; done)
  rename_i _ _ htime
  split at h <;> try (cases h; done)
  rename_i _ _ hroutes
  split at h <;> try (cases h; done)
  rename_i _ _ hhosts
  cases h
  refine ⟨?_, hport, hthreads, Nat.not_lt.mp hge, hlevel, hsize, htime, hroutes, hhosts⟩
  by_cases h1 : getOptional (flattenNode [] tree []) (k "server.blacklist.mode") (k "block") = k "block"
  · exact Or.inl h1
  · by_cases h2 : getOptional (flattenNode [] tree []) (k "server.blacklist.mode") (k "block") = k "forbidden"
    · exact Or.inr h2
    · rw [if_neg h1, if_neg h2] at hmode; cases hmode

theorem splitAll_ne_nil (c : Char) (s : Str) : ∃ a r, splitAll c s = a :: r := by
  cases s with
  | nil => exact ⟨[], [], rfl⟩
  | cons d s =>
    simp only [splitAll]
    split
    · exact ⟨_, _, rfl⟩
    · split <;> exact ⟨_, _, rfl⟩

/-- A route with none of `file`, `directory`, `proxy`, `redirect`, `websocket`. -/
theorem parseRoute_without_target (wild : Str) (conf : Map)
    (h1 : conf.get "file".toList = none) (h2 : conf.get "directory".toList = none)
    (h3 : conf.get "proxy".toList = none) (h4 : conf.get "redirect".toList = none)
    (h5 : conf.get "websocket".toList = none) : parseRoute wild conf = .err .routeTarget := by
  obtain ⟨a, r, ha⟩ := splitAll_ne_nil ',' wild
  unfold parseRoute
  rw [ha]
  unfold parseRoutePats parseRouteOne
  simp only [h1, h2, h3, h4, h5, Option.isSome_none, Bool.false_eq_true, if_false, Bool.not_false, if_true]

/-- A proxy route whose balancer mode is neither `round-robin` nor `random`. -/
theorem parseRoute_bad_lb_mode (wild : Str) (conf : Map) (n : Node) (t : Str)
    (h1 : conf.get "file".toList = none) (h2 : conf.get "directory".toList = none)
    (h3 : conf.get "proxy".toList = some n) (ht : n.getString = some t)
    (hm1 : getOptional conf "load_balancer_mode".toList "round-robin".toList ≠ "round-robin".toList)
    (hm2 : getOptional conf "load_balancer_mode".toList "round-robin".toList ≠ "random".toList) :
    parseRoute wild conf = .err .lbMode := by
  obtain ⟨a, r, ha⟩ := splitAll_ne_nil ',' wild
  unfold parseRoute
  rw [ha]
  unfold parseRoutePats parseRouteOne
  simp only [h1, h2, h3, getOwned, ht, hm1, hm2, Option.isSome_none, Option.isSome_some, Bool.false_eq_true,
    if_false, if_true, Option.bind_some]

end Humphrey.Conf
