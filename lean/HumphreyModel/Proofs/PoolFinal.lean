import HumphreyModel.Proofs.PoolLive

/-!
C08: what a terminal state looks like, and that the caller's `drop` is never stuck.
-/
namespace Humphrey.Pool

/-- No thread can take a step (the caller could only submit, and only if the pool is still started). -/
def Terminal (c : Cfg) (s : State) : Prop := ∀ l : Label, l.isSubmit = false → step c s l = none

theorem sumBy_zero_of_all {g : Phase → Nat} : ∀ {ws : List Phase},
    (∀ (w : Nat) (p : Phase), ws[w]? = some p → g p = 0) → sumBy g ws = 0
  | [], _ => rfl
  | x :: xs, h => by
    have h0 := h 0 x (by simp)
    have := sumBy_zero_of_all (g := g) (ws := xs) (fun w p hw => h (w + 1) p (by simpa using hw))
    simp [sumBy, h0, this]

theorem sumBy_eq_length_of_all {g : Phase → Nat} : ∀ {ws : List Phase},
    (∀ (w : Nat) (p : Phase), ws[w]? = some p → g p = 1) → sumBy g ws = ws.length
  | [], _ => rfl
  | x :: xs, h => by
    have h0 := h 0 x (by simp)
    have := sumBy_eq_length_of_all (g := g) (ws := xs) (fun w p hw => h (w + 1) p (by simpa using hw))
    simp [sumBy, h0, this]; omega

/-- In a terminal state of a dropped pool every worker incarnation has left its loop. -/
theorem terminal_workers_exited {c : Cfg} {s : State} (hi : Inv c s) (hT : Terminal c s) (hd : s.life = .dropped) :
    ∀ (w : Nat) (p : Phase), s.workers[w]? = some p → p = .exited := by
  have hsa : s.senderAlive = false := hi.caller.sender.mpr hd
  -- a worker inside `recv` can always move once the sender is gone
  have recvOk : ∀ v : Nat, s.workers[v]? = some Phase.inRecv → False := by
    intro v hv
    have := hT (.recv v) rfl
    cases hq : s.queue <;> simp [step, hv, hq, hsa] at this
  have gotOk : ∀ (v : Nat) (r : Option Msg), s.workers[v]? = some (Phase.got r) → False := by
    intro v r hv
    have hl := hi.struct.lockHeld v _ hv rfl
    have := hT (.unlock v) rfl
    simp [step, hv, hl] at this
  intro w p hw
  cases p with
  | exited => rfl
  | idle => have := hT (.reqLock w) rfl; simp [step, hw] at this
  | waitingLock =>
    have := hT (.lock w) rfl
    cases hl : s.rxLock with
    | none => simp [step, hw, hl] at this
    | some v =>
      obtain ⟨p', hp', hh⟩ := hi.struct.lockOwner v hl
      cases p' <;> simp [Phase.holdsLock] at hh
      · exact (recvOk v hp').elim
      · exact (gotOk v _ hp').elim
  | inRecv => exact (recvOk w hw).elim
  | got r => exact (gotOk w r hw).elim
  | ready r =>
    have := hT (.run w) rfl
    have := hT (.exit w) rfl
    rcases r with _ | _ | _ <;> simp_all [step]
  | running k =>
    have := hT (.finish w) rfl
    have := hT (.panic w) rfl
    cases hk : c.panics k <;> simp_all [step]
  | unwinding => have := hT (.markerSend w) rfl; simp [step, hw] at this
  | dead =>
    have hr := hi.struct.recv w
    simp only [hw, if_true] at hr
    have hj := hT .recJoin rfl
    have hp := hT .recRespawn rfl
    have hrr := hT (.recRecv w) rfl
    have sh := shape_of_worker hi.struct hw
    have hne := hi.struct.recAlive
    cases hrec : s.recov with
    | absent => exact absurd hrec sh.2.2
    | ended => exact absurd hrec hne
    | waiting =>
      simp [hrec, Rec.busyWith] at hr
      have : w ∈ s.recChan := List.count_pos_iff.mp (by omega)
      simp [step, hrec, this] at hrr
    | joining v =>
      have hv := hi.struct.recv v
      simp [hrec, Rec.busyWith] at hv
      have : s.workers[v]? = some .dead := by
        by_cases e : s.workers[v]? = some .dead
        · exact e
        · simp [e] at hv
      simp [step, hrec, this] at hj
    | respawning v =>
      have hv := hi.struct.recv v
      simp [hrec, Rec.busyWith] at hv
      have : s.workers[v]? = some .dead := by
        by_cases e : s.workers[v]? = some .dead
        · exact e
        · simp [e] at hv
      simp [step, hrec, this] at hp


/-! ### `enabled` lists exactly the labels that can fire -/

theorem lt_of_getElem?_some {ws : List Phase} {w : Nat} {p : Phase} (h : ws[w]? = some p) : w < ws.length := by
  rcases Nat.lt_or_ge w ws.length with h' | h'
  · exact h'
  · simp [List.getElem?_eq_none h'] at h

theorem mem_candidates {c : Cfg} {s s' : State} {l : Label} (hi : InvStruct c s) (h : Step c s l s') :
    l ∈ candidates s := by
  have wl : ∀ (w : Nat) (l : Label), w < s.workers.length → l ∈ workerLabels w → l ∈ candidates s := by
    intro w l hw hl
    simp only [candidates, List.mem_append, List.mem_flatMap, List.mem_range]
    exact .inr ⟨w, hw, hl⟩
  cases h
  case recRecv w h1 h2 =>
    have hr := hi.recv w
    have : 0 < s.recChan.count w := List.count_pos_iff.mpr h2
    have hd : s.workers[w]? = some .dead := by
      by_cases e : s.workers[w]? = some .dead
      · exact e
      · simp [e] at hr; omega
    exact wl w _ (lt_of_getElem?_some hd) (by simp [workerLabels])
  all_goals first
    | (simp [candidates]; done)
    | (apply wl _ _ (lt_of_getElem?_some ‹_›); simp [workerLabels])

theorem mem_enabled_iff {c : Cfg} {s : State} (hi : InvStruct c s) (l : Label) :
    l ∈ enabled c s ↔ (step c s l).isSome = true := by
  simp only [enabled, List.mem_filter]
  constructor
  · exact fun h => h.2
  · intro h
    obtain ⟨s', hs'⟩ := Option.isSome_iff_exists.mp h
    exact ⟨mem_candidates hi (Step.of_step hs'), h⟩

/-- The executable test used by the driver agrees with `Terminal`. -/
theorem terminalB_iff {c : Cfg} {s : State} (hi : InvStruct c s) : terminalB c s = true ↔ Terminal c s := by
  simp only [terminalB, List.all_eq_true, Terminal]
  constructor
  · intro h l hl
    cases hs : step c s l with
    | none => rfl
    | some s' =>
      have := h l ((mem_enabled_iff hi l).mpr (by simp [hs]))
      simp [hl] at this
  · intro h l hl
    have hsome := (mem_enabled_iff hi l).mp hl
    cases hb : l.isSubmit with
    | true => rfl
    | false => simp [h l hb] at hsome

end Humphrey.Pool
