import HumphreyModel.Props.C04
/-
Helper definitions and lemmas for the WebSocket half of C04 (`Props/C04Ws.lean`): the declarative
reading of "first WebSocket route whose pattern matches", bridges between the `find?`s of
`wsHandler` and the declarative `FirstSuch` / `Glob` statements, and the fact that the request parser
never leaves a `?` in the path it hands to routing.
-/
namespace Humphrey.Http
open Humphrey Humphrey.Glob

/-- The first WebSocket route of `routes` (pairs pattern × handler) whose pattern matches `path`. -/
def FirstWsRoute {ω : Type} (routes : List (List Char × ω)) (path : List Char) (r : List Char × ω) : Prop :=
  FirstSuch (fun r => Glob r.1 path) routes r

/-- No WebSocket route of `routes` matches `path`. -/
def NoWsRoute {ω : Type} (routes : List (List Char × ω)) (path : List Char) : Prop :=
  ∀ r ∈ routes, ¬ Glob r.1 path

/-- No sub-application's host pattern matches `host`. -/
def NoHost {κ ω : Type} (subs : List (SubApp κ ω)) (host : List Char) : Prop :=
  ∀ s ∈ subs, ¬ Glob s.host host

theorem routeWs_firstHost_iff {κ ω : Type} (subs : List (SubApp κ ω)) (h : List Char) (s : SubApp κ ω) :
    FirstHost subs h s ↔ subs.find? (fun s => wildcardMatch s.host h) = some s := by
  rw [find?_some_iff_firstSuch]
  simp only [FirstHost, FirstSuch, wildcard_match_iff_glob]

theorem routeWs_noHost_iff {κ ω : Type} (subs : List (SubApp κ ω)) (h : List Char) :
    NoHost subs h ↔ subs.find? (fun s => wildcardMatch s.host h) = none := by
  rw [find?_none_iff]
  simp only [NoHost, wildcard_match_iff_glob]

theorem routeWs_firstWsRoute_iff {ω : Type} (routes : List (List Char × ω)) (path : List Char)
    (r : List Char × ω) :
    FirstWsRoute routes path r ↔ routes.find? (fun r => wildcardMatch r.1 path) = some r := by
  rw [find?_some_iff_firstSuch]
  simp only [FirstWsRoute, FirstSuch, wildcard_match_iff_glob]

theorem routeWs_noWsRoute_iff {ω : Type} (routes : List (List Char × ω)) (path : List Char) :
    NoWsRoute routes path ↔ routes.find? (fun r => wildcardMatch r.1 path) = none := by
  rw [find?_none_iff]
  simp only [NoWsRoute, wildcard_match_iff_glob]

/-- `splitn(2, '?')`: the part before the first `?` contains no `?`. -/
theorem routeWs_splitOnce_fst (s : Bytes) : (63 : UInt8) ∉ (Bytes.splitOnce 63 s).1 := by
  induction s with
  | nil => simp [Bytes.splitOnce]
  | cons b rest ih =>
    simp only [Bytes.splitOnce]
    split
    · simp
    · rename_i hb
      simp only [List.mem_cons, not_or]
      exact ⟨fun e => hb e.symm, ih⟩

/-- The request a successful `parseRequest` returns carries the `uri` of its start line. -/
theorem routeWs_parseRequest_uri {σ : Type} (S : Source σ) (env : Env) (s : σ) (req : Request) (s' : σ)
    (h : parseRequest S env s = .ok (req, s')) :
    ∃ line m q v, parseStartLine line = some (m, req.uri, q, v) := by
  unfold parseRequest at h
  split at h
  · cases h
  · rename_i first s1 _
    generalize S.readUntil Bytes.LF s1 = p at h
    obtain ⟨line, s2⟩ := p
    simp only at h
    split at h
    · cases h
    · rename_i method uri query version hsl
      refine ⟨first ++ line, method, query, version, ?_⟩
      have : req.uri = uri := by
        split at h
        · cases h
        · cases h
        · split at h
          · simp only [Outcome.ok.injEq, Prod.mk.injEq] at h; rw [← h.1]
          · split at h
            · cases h
            · split at h
              · cases h
              · simp only [Outcome.ok.injEq, Prod.mk.injEq] at h; rw [← h.1]
      rw [this]; exact hsl

end Humphrey.Http
