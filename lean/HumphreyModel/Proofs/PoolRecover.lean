import HumphreyModel.Proofs.PoolConc

/-!
C08: after panics the recovery thread alone brings every worker id back to a usable incarnation,
without touching anything else.
-/
namespace Humphrey.Pool

def Phase.broken : Phase → Bool
  | .unwinding | .dead => true
  | _ => false

def Label.isRecovery : Label → Bool
  | .markerSend _ | .recRecv _ | .recJoin | .recRespawn => true
  | _ => false

def brokenRank : Phase → Nat
  | .unwinding => 4
  | .dead => 3
  | _ => 0

def recRank (s : State) : Nat :=
  sumBy brokenRank s.workers + (match s.recov with | .waiting => 2 | .joining _ => 1 | _ => 0)

/-- Nothing but broken workers (and the recovery thread's own bookkeeping) differs. -/
structure Untouched (s s' : State) : Prop where
  queue : s'.queue = s.queue
  lock : s'.rxLock = s.rxLock
  len : s'.workers.length = s.workers.length
  workers : ∀ (v : Nat) (p : Phase), s.workers[v]? = some p → p.broken = false → s'.workers[v]? = some p
  logs : s'.submitted = s.submitted ∧ s'.dequeued = s.dequeued ∧ s'.started = s.started ∧
    s'.finished = s.finished ∧ s'.panicked = s.panicked
  life : s'.life = s.life ∧ s'.caller = s.caller ∧ s'.senderAlive = s.senderAlive

theorem Untouched.refl (s : State) : Untouched s s := ⟨rfl, rfl, rfl, fun _ _ h _ => h, ⟨rfl, rfl, rfl, rfl, rfl⟩, ⟨rfl, rfl, rfl⟩⟩

theorem Untouched.trans {a b d : State} (h1 : Untouched a b) (h2 : Untouched b d) : Untouched a d :=
  ⟨h2.queue.trans h1.queue, h2.lock.trans h1.lock, h2.len.trans h1.len,
   fun v p hv hb => h2.workers v p (h1.workers v p hv hb) hb,
   ⟨h2.logs.1.trans h1.logs.1, h2.logs.2.1.trans h1.logs.2.1, h2.logs.2.2.1.trans h1.logs.2.2.1,
    h2.logs.2.2.2.1.trans h1.logs.2.2.2.1, h2.logs.2.2.2.2.trans h1.logs.2.2.2.2⟩,
   ⟨h2.life.1.trans h1.life.1, h2.life.2.1.trans h1.life.2.1, h2.life.2.2.trans h1.life.2.2⟩⟩

theorem untouched_setW {s : State} {w : Nat} {p q : Phase} (hw : s.workers[w]? = some p) (hb : p.broken = true)
    (s' : State) (hws : s'.workers = s.workers.set w q) (hq : s'.queue = s.queue) (hl : s'.rxLock = s.rxLock)
    (hlogs : s'.submitted = s.submitted ∧ s'.dequeued = s.dequeued ∧ s'.started = s.started ∧
      s'.finished = s.finished ∧ s'.panicked = s.panicked)
    (hlife : s'.life = s.life ∧ s'.caller = s.caller ∧ s'.senderAlive = s.senderAlive) : Untouched s s' := by
  refine ⟨hq, hl, by simp [hws], ?_, hlogs, hlife⟩
  intro v p' hv hb'
  rw [hws, getElem?_set_workers hw]
  by_cases e : w = v
  · subst e; simp [hw] at hv; subst hv; simp [hb] at hb'
  · simp [e, hv]

/-- As long as some worker is unwinding or dead, the recovery machinery has an enabled step that makes progress
and touches nothing else. -/
theorem recovery_progress {c : Cfg} {s : State} (hi : InvStruct c s) {w : Nat} {p : Phase}
    (hw : s.workers[w]? = some p) (hb : p.broken = true) :
    ∃ l s', l.isRecovery = true ∧ step c s l = some s' ∧ recRank s' < recRank s ∧ Untouched s s' := by
  have sh := shape_of_worker hi hw
  have dead_of : ∀ v, s.recov.busyWith v = true → s.workers[v]? = some .dead := by
    intro v hv
    have := hi.recv v
    by_cases e : s.workers[v]? = some .dead
    · exact e
    · simp [e, hv] at this
  cases hrec : s.recov with
  | absent => exact absurd hrec sh.2.2
  | ended => exact absurd hrec hi.recAlive
  | joining v =>
    have hv := dead_of v (by simp [hrec, Rec.busyWith])
    exact ⟨.recJoin, { s with recov := .respawning v }, rfl, by simp [step, hrec, hv], by simp [recRank, hrec],
      ⟨rfl, rfl, rfl, fun _ _ h _ => h, ⟨rfl, rfl, rfl, rfl, rfl⟩, ⟨rfl, rfl, rfl⟩⟩⟩
  | respawning v =>
    have hv := dead_of v (by simp [hrec, Rec.busyWith])
    refine ⟨.recRespawn, { setW s v .idle with recov := .waiting }, rfl, by simp [step, hrec, hv], ?_,
      untouched_setW hv rfl _ rfl rfl rfl ⟨rfl, rfl, rfl, rfl, rfl⟩ ⟨rfl, rfl, rfl⟩⟩
    have := sumBy_pos_of_mem (g := brokenRank) hv
    simp [recRank, hrec, setW, sumBy_set' _ hv, brokenRank] at *; omega
  | waiting =>
    cases p <;> simp [Phase.broken] at hb
    · -- unwinding: the marker is sent
      refine ⟨.markerSend w, { setW s w .dead with recChan := s.recChan ++ [w] }, rfl, by simp [step, hw], ?_,
        untouched_setW hw rfl _ rfl rfl rfl ⟨rfl, rfl, rfl, rfl, rfl⟩ ⟨rfl, rfl, rfl⟩⟩
      have := sumBy_pos_of_mem (g := brokenRank) hw
      simp [recRank, hrec, setW, sumBy_set' _ hw, brokenRank] at *; omega
    · -- dead: its id is in the channel
      have hr := hi.recv w
      simp [hw, hrec, Rec.busyWith] at hr
      have hm : w ∈ s.recChan := List.count_pos_iff.mp (by omega)
      exact ⟨.recRecv w, { s with recov := .joining w, recChan := s.recChan.erase w }, rfl,
        by simp [step, hrec, hm], by simp [recRank, hrec],
        ⟨rfl, rfl, rfl, fun _ _ h _ => h, ⟨rfl, rfl, rfl, rfl, rfl⟩, ⟨rfl, rfl, rfl⟩⟩⟩

theorem recovery_restores_aux {c : Cfg} : ∀ (n : Nat) (s : State), Reachable c s → recRank s ≤ n →
    ∃ ls s', ls.all Label.isRecovery = true ∧ run c s ls = some s' ∧ Untouched s s' ∧
      ∀ (v : Nat) (p : Phase), s'.workers[v]? = some p → p.broken = false
  | n, s, hr, hn => by
    by_cases hex : ∃ (w : Nat) (p : Phase), s.workers[w]? = some p ∧ p.broken = true
    · obtain ⟨w, p, hw, hb⟩ := hex
      obtain ⟨l, s1, hl, hs1, hlt, hu⟩ := recovery_progress (InvStruct.of_reachable hr) hw hb
      cases n with
      | zero => omega
      | succ n =>
        obtain ⟨ls, s', h1, h2, h3, h4⟩ := recovery_restores_aux n s1 (hr.step hs1) (by omega)
        refine ⟨l :: ls, s', by simp [hl, h1], ?_, hu.trans h3, h4⟩
        simp only [run, runWith, hs1]; exact h2
    · refine ⟨[], s, rfl, rfl, Untouched.refl s, ?_⟩
      intro v p hv
      cases hb : p.broken
      · rfl
      · exact absurd ⟨v, p, hv, hb⟩ hex

theorem usable_or_exited_of_not_broken : ∀ {ws : List Phase},
    (∀ (v : Nat) (p : Phase), ws[v]? = some p → p.broken = false) → usableCount ws + exitedCount ws = ws.length
  | [], _ => rfl
  | x :: xs, h => by
    have h0 := h 0 x (by simp)
    have ih := usable_or_exited_of_not_broken (ws := xs) (fun w p hw => h (w + 1) p (by simpa using hw))
    simp only [usableCount, exitedCount] at ih ⊢
    cases x <;> simp [Phase.broken] at h0 <;> simp [List.filter_cons, Phase.usable, Phase.isExited] <;> omega

end Humphrey.Pool
