import HumphreyModel.Proofs.HttpMsgConnSpec
import HumphreyModel.Proofs.HttpSim
/-
The connection loop (`serveLoop`) in lockstep with the executable specification (`Spec.checkLoop`).
-/
namespace Humphrey.Http
open Humphrey Humphrey.Bytes Humphrey.IO

/-! ## `parseRequest` consumes input -/

theorem takeThrough_split {d : UInt8} {s pre post : Bytes} (h : takeThrough d s = some (pre, post)) :
    s = pre ++ post := by
  induction s generalizing pre with
  | nil => simp [takeThrough] at h
  | cons x xs ih =>
    simp only [takeThrough] at h
    by_cases hx : x = d
    · simp only [hx, if_true, Option.some.injEq, Prod.mk.injEq] at h
      obtain ⟨rfl, rfl⟩ := h; simp [hx]
    · simp only [hx, if_false] at h
      cases hr : takeThrough d xs with
      | none => simp [hr] at h
      | some p =>
        obtain ⟨p1, p2⟩ := p
        simp only [hr, Option.some.injEq, Prod.mk.injEq] at h
        obtain ⟨rfl, rfl⟩ := h
        simp [ih hr]

theorem flatReadUntil_suffix (d : UInt8) (s : Bytes) : (flatReadUntil d s).2 <:+ s := by
  unfold flatReadUntil
  cases h : takeThrough d s with
  | none => simp
  | some p =>
    obtain ⟨pre, post⟩ := p
    have := takeThrough_split h
    exact ⟨pre, this.symm⟩

theorem flatReadExact_suffix {n : Nat} {s a t : Bytes} (h : flatReadExact n s = some (a, t)) :
    t <:+ s ∧ t.length + n = s.length := by
  unfold flatReadExact at h
  split at h
  · simp only [Option.some.injEq, Prod.mk.injEq] at h
    obtain ⟨rfl, rfl⟩ := h
    exact ⟨List.drop_suffix n s, by simp; omega⟩
  · cases h

theorem parseHeaders_flat_suffix (fuel : Nat) (s : Bytes) (acc hs : Headers) (s' : Bytes)
    (h : parseHeaders flatSource fuel s acc = .ok (hs, s')) : s' <:+ s := by
  induction fuel generalizing s acc with
  | zero => simp [parseHeaders] at h
  | succ fuel ih =>
    simp only [parseHeaders] at h
    have hs1 : (flatSource.readUntil LF s).2 <:+ s := flatReadUntil_suffix _ _
    split at h
    · simp only [Outcome.ok.injEq, Prod.mk.injEq] at h
      rw [← h.2]; exact hs1
    · split at h
      · exact (ih _ _ h).trans hs1
      · cases h
      · cases h

theorem parseRequest_flat_shrinks (env : Env) (s : Bytes) (req : Request) (s' : Bytes)
    (h : parseRequest flatSource env s = .ok (req, s')) : s' <:+ s ∧ s'.length < s.length := by
  unfold parseRequest at h
  cases h1 : flatSource.readExact 1 s with
  | none => simp [h1] at h
  | some p =>
    obtain ⟨first, s1⟩ := p
    obtain ⟨a1, a2⟩ := flatReadExact_suffix (show flatReadExact 1 s = some (first, s1) from h1)
    have b1 : (flatSource.readUntil LF s1).2 <:+ s1 := flatReadUntil_suffix _ _
    simp only [h1] at h
    split at h
    · cases h
    · split at h
      · cases h
      · cases h
      · rename_i hs3 s3 hh
        have c1 : s3 <:+ (flatSource.readUntil LF s1).2 := parseHeaders_flat_suffix _ _ _ _ _ hh
        have c2 : s3 <:+ s := (c1.trans b1).trans a1
        have c3 : s3.length ≤ s1.length := (c1.trans b1).length_le
        split at h
        · simp only [Outcome.ok.injEq, Prod.mk.injEq] at h
          rw [← h.2]; exact ⟨c2, by omega⟩
        · split at h
          · cases h
          · split at h
            · cases h
            · rename_i body s4 hx
              obtain ⟨d1, d2⟩ := flatReadExact_suffix (show flatReadExact _ s3 = some (body, s4) from hx)
              simp only [Outcome.ok.injEq, Prod.mk.injEq] at h
              rw [← h.2]; exact ⟨d1.trans c2, by omega⟩

theorem parseRequest_reader_shrinks (env : Env) (t : Reader) (req : Request) (t' : Reader)
    (h : parseRequest readerSource env t = .ok (req, t')) :
    t'.rest <:+ t.rest ∧ t'.rest.length < t.rest.length := by
  rcases OutRel.elim' (parseRequest_sim reader_flat_sim env t t.rest rfl) with
    ⟨a, t₁, t₂, e₁, e₂, ht⟩ | ⟨e, e₁, _⟩ | ⟨e₁, _⟩
  · rw [h] at e₁
    simp only [Outcome.ok.injEq, Prod.mk.injEq] at e₁
    obtain ⟨rfl, rfl⟩ := e₁
    rw [ht]
    exact parseRequest_flat_shrinks env _ _ _ e₂
  · rw [h] at e₁; cases e₁
  · rw [h] at e₁; cases e₁

/-! ## One step of the loop and of the spec, in a common vocabulary -/

/-- The keep-alive decision of the loop. -/
def kaOf (req : Request) : Bool :=
  match req.headers.get hConnection with
  | some c => decide (asciiLower c = keepAliveLower)
  | none => false

/-- The dispatch log after this request. -/
def dOf {κ ω : Type} (cfg : ConnCfg κ ω) (req : Request) (d : List Request) : List Request :=
  if (getHandler cfg.app ((req.headers.get hHost).map cfg.decode) (cfg.decode req.uri)).isSome ∧
      req.method ≠ .options then d ++ [req] else d

theorem serveLoop_request {σ κ ω : Type} (S : Source σ) (idle : σ → Option σ) (cfg : ConnCfg κ ω)
    (fuel : Nat) (s s' : σ) (req : Request) (w : List Bytes) (d : List Request)
    (hi : (if cfg.timeout then idle s else none) = none)
    (hp : parseRequest S cfg.env s = .ok (req, s'))
    (hu : req.headers.get hUpgrade ≠ some websocketValue) :
    serveLoop S idle cfg (fuel + 1) s w d =
      match respond cfg req (kaOf req) with
      | none => ⟨w, dOf cfg req d, none, .handlerPanicked, s'⟩
      | some resp =>
        if kaOf req then serveLoop S idle cfg fuel s' (w ++ [serializeResponse resp]) (dOf cfg req d)
        else ⟨w ++ [serializeResponse resp], dOf cfg req d, none, .closed, s'⟩ := by
  simp only [serveLoop, hi, hp, hu, if_false]
  cases hc : req.headers.get hConnection with
  | none =>
    simp only [kaOf, hc, dOf]
    cases respond cfg req false <;> simp
  | some c =>
    simp only [kaOf, hc, dOf]
    cases respond cfg req (decide (asciiLower c = keepAliveLower)) <;> simp

/-- `done` of the spec. -/
def padVerdict (pad : Bool) : Option String := if pad then some "crlf-after-body" else none

theorem padVerdict_ok (pad : Bool) : padVerdict pad = none ∨ padVerdict pad = some "crlf-after-body" := by
  cases pad <;> simp [padVerdict]

theorem errorResponse_wf (c : Nat) (h : statusKnown c = true) : (errorResponse c).WF :=
  ⟨(show http11 ≠ [] by decide), (show ∀ b ∈ http11, b ≠ 32 ∧ b ≠ 13 ∧ b ≠ 10 by decide), h,
    by intro x hx; simp [errorResponse] at hx⟩

theorem parseMsg_error (c : Nat) (h : statusKnown c = true) :
    ∃ m, Spec.parseMsg (serializeResponse (errorResponse c)) = some m ∧ m.code = c := by
  refine ⟨_, parseMsg_serialize _ (errorResponse_wf c h), ?_⟩
  exact (statusKnown_facts c h).1

theorem checkLoop_idle {κ ω : Type} (cfg : ConnCfg κ ω) (idle : Reader → Option Reader) (fuel : Nat)
    (s s' : Reader) (pad : Bool) (hi : (if cfg.timeout then idle s else none) = some s') :
    Spec.checkLoop cfg idle (fuel + 1) s [serializeResponse (errorResponse 408)] false pad = padVerdict pad := by
  obtain ⟨m, hm, hc⟩ := parseMsg_error 408 (by decide)
  simp [Spec.checkLoop, hi, hm, hc, padVerdict]

theorem checkLoop_error {κ ω : Type} (cfg : ConnCfg κ ω) (idle : Reader → Option Reader) (fuel : Nat)
    (s : Reader) (pad : Bool) (hi : (if cfg.timeout then idle s else none) = none) (code : Nat)
    (hp : (parseRequest readerSource cfg.env s = .err .request ∧ code = 400) ∨
      (parseRequest readerSource cfg.env s = .err .timeout ∧ code = 408)) :
    Spec.checkLoop cfg idle (fuel + 1) s [serializeResponse (errorResponse code)] false pad = padVerdict pad := by
  rcases hp with ⟨hp, rfl⟩ | ⟨hp, rfl⟩
  · obtain ⟨m, hm, hc⟩ := parseMsg_error 400 (by decide)
    simp [Spec.checkLoop, hi, hp, hm, hc, padVerdict]
  · obtain ⟨m, hm, hc⟩ := parseMsg_error 408 (by decide)
    simp [Spec.checkLoop, hi, hp, hm, hc, padVerdict]

theorem checkLoop_nothing {κ ω : Type} (cfg : ConnCfg κ ω) (idle : Reader → Option Reader) (fuel : Nat)
    (s : Reader) (pad : Bool) (hi : (if cfg.timeout then idle s else none) = none)
    (hp : parseRequest readerSource cfg.env s = .panic ∨
      parseRequest readerSource cfg.env s = .err .disconnected ∨
      parseRequest readerSource cfg.env s = .err .stream) :
    Spec.checkLoop cfg idle (fuel + 1) s [] false pad = padVerdict pad := by
  rcases hp with hp | hp | hp <;> simp [Spec.checkLoop, hi, hp, padVerdict]

theorem checkLoop_upgrade {κ ω : Type} (cfg : ConnCfg κ ω) (idle : Reader → Option Reader) (fuel : Nat)
    (s s' : Reader) (req : Request) (pad panicked : Bool)
    (hi : (if cfg.timeout then idle s else none) = none)
    (hp : parseRequest readerSource cfg.env s = .ok (req, s'))
    (hu : req.headers.get hUpgrade = some websocketValue) :
    Spec.checkLoop cfg idle (fuel + 1) s [] panicked pad = padVerdict pad := by
  simp [Spec.checkLoop, hi, hp, hu, padVerdict]

theorem checkLoop_handlerPanic {κ ω : Type} (cfg : ConnCfg κ ω) (idle : Reader → Option Reader) (fuel : Nat)
    (s s' : Reader) (req : Request) (pad ka : Bool)
    (hi : (if cfg.timeout then idle s else none) = none)
    (hp : parseRequest readerSource cfg.env s = .ok (req, s'))
    (hu : req.headers.get hUpgrade ≠ some websocketValue)
    (hr : respond cfg req ka = none) :
    Spec.checkLoop cfg idle (fuel + 1) s [] true pad = padVerdict pad := by
  cases hg : getHandler cfg.app ((req.headers.get hHost).map cfg.decode) (cfg.decode req.uri) with
  | none => simp [respond, hg] at hr
  | some e =>
    by_cases hm : req.method = .options
    · simp [respond, hg, hm] at hr
    · cases hrun : cfg.run e.handler req with
      | response x => simp [respond, hg, hm, hrun] at hr
      | panic => simp [Spec.checkLoop, hi, hp, hu, hg, hm, hrun, padVerdict]

theorem checkLoop_response {κ ω : Type} (cfg : ConnCfg κ ω) (idle : Reader → Option Reader) (fuel : Nat)
    (s s' : Reader) (req : Request) (pad panicked ka : Bool) (resp : Response) (w : Bytes) (rest : List Bytes)
    (hi : (if cfg.timeout then idle s else none) = none)
    (hp : parseRequest readerSource cfg.env s = .ok (req, s'))
    (hu : req.headers.get hUpgrade ≠ some websocketValue)
    (hr : respond cfg req ka = some resp) :
    Spec.checkLoop cfg idle (fuel + 1) s (w :: rest) panicked pad =
      (if (Spec.checkResponse cfg req (kaOf req) w).isSome ∧
          Spec.checkResponse cfg req (kaOf req) w ≠ some "crlf-after-body" then
        Spec.checkResponse cfg req (kaOf req) w
      else if kaOf req then
        Spec.checkLoop cfg idle fuel s' rest panicked (pad || (Spec.checkResponse cfg req (kaOf req) w).isSome)
      else if rest.isEmpty ∧ !panicked then
        padVerdict (pad || (Spec.checkResponse cfg req (kaOf req) w).isSome)
      else some "bytes-after-close") := by
  cases hg : getHandler cfg.app ((req.headers.get hHost).map cfg.decode) (cfg.decode req.uri) with
  | none =>
    cases hc : req.headers.get hConnection with
    | none => simp [Spec.checkLoop, hi, hp, hu, hg, kaOf, hc, padVerdict]
    | some c =>
      by_cases hk : asciiLower c = [107, 101, 101, 112, 45, 97, 108, 105, 118, 101] <;>
        simp [Spec.checkLoop, hi, hp, hu, hg, kaOf, hc, padVerdict, keepAliveLower, Spec.lowerKeepAlive, hk]
  | some e =>
    by_cases hm : req.method = .options
    · cases hc : req.headers.get hConnection with
      | none => simp [Spec.checkLoop, hi, hp, hu, hg, hm, kaOf, hc, padVerdict]
      | some c =>
        by_cases hk : asciiLower c = [107, 101, 101, 112, 45, 97, 108, 105, 118, 101] <;>
          simp [Spec.checkLoop, hi, hp, hu, hg, hm, kaOf, hc, padVerdict, keepAliveLower,
            Spec.lowerKeepAlive, hk]
    · cases hrun : cfg.run e.handler req with
      | panic => simp [respond, hg, hm, hrun] at hr
      | response x =>
        cases hc : req.headers.get hConnection with
        | none => simp [Spec.checkLoop, hi, hp, hu, hg, hm, hrun, kaOf, hc, padVerdict]
        | some c =>
          by_cases hk : asciiLower c = [107, 101, 101, 112, 45, 97, 108, 105, 118, 101] <;>
            simp [Spec.checkLoop, hi, hp, hu, hg, hm, hrun, kaOf, hc, padVerdict, keepAliveLower,
              Spec.lowerKeepAlive, hk]

end Humphrey.Http

namespace Humphrey.Http
open Humphrey Humphrey.Bytes Humphrey.IO

/-! ## Lockstep -/

/-- The loop and the spec walk the client stream together: whatever the loop adds to `written`
from reader state `s` on is accepted by `checkLoop` started at `s` (any two fuels that exceed the
bytes left; any pad flag). `s0` is the whole client stream; `hreq` speaks about the requests that
parse from its suffixes. -/
theorem loop_meets_spec {κ ω : Type} (cfg : ConnCfg κ ω) (hcfg : CfgOk cfg) (s0 : Bytes)
    (hreq : ∀ (t : Reader) (req : Request) (t' : Reader), t.rest <:+ s0 →
      parseRequest readerSource cfg.env t = .ok (req, t') → ReqOk req) :
    ∀ (f1 f2 : Nat) (s : Reader) (w : List Bytes) (d : List Request) (pad : Bool),
      s.rest <:+ s0 → s.rest.length < f1 → s.rest.length < f2 →
      ∃ out, (serveLoop readerSource readerIdle cfg f1 s w d).written = w ++ out ∧
        (Spec.checkLoop cfg readerIdle f2 s out
            (decide ((serveLoop readerSource readerIdle cfg f1 s w d).disposition = .handlerPanicked)) pad = none ∨
         Spec.checkLoop cfg readerIdle f2 s out
            (decide ((serveLoop readerSource readerIdle cfg f1 s w d).disposition = .handlerPanicked)) pad =
              some "crlf-after-body") := by
  intro f1
  induction f1 with
  | zero => intro f2 s w d pad _ h; omega
  | succ f1 ih =>
    intro f2 s w d pad hsuf hl1 hl2
    obtain ⟨f2, rfl⟩ : ∃ k, f2 = k + 1 := ⟨f2 - 1, by omega⟩
    cases hi : (if cfg.timeout then readerIdle s else none) with
    | some s' =>
      refine ⟨[serializeResponse (errorResponse 408)], by simp [serveLoop, hi], ?_⟩
      simp only [serveLoop, hi, reduceCtorEq, decide_false]
      rw [checkLoop_idle cfg readerIdle f2 s s' pad hi]
      exact padVerdict_ok pad
    | none =>
      cases hp : parseRequest readerSource cfg.env s with
      | panic =>
        refine ⟨[], by simp [serveLoop, hi, hp], ?_⟩
        simp only [serveLoop, hi, hp, reduceCtorEq, decide_false]
        rw [checkLoop_nothing cfg readerIdle f2 s pad hi (.inl hp)]
        exact padVerdict_ok pad
      | err e =>
        cases e with
        | request =>
          refine ⟨[serializeResponse (errorResponse 400)], by simp [serveLoop, hi, hp], ?_⟩
          simp only [serveLoop, hi, hp, reduceCtorEq, decide_false]
          rw [checkLoop_error cfg readerIdle f2 s pad hi 400 (.inl ⟨hp, rfl⟩)]
          exact padVerdict_ok pad
        | timeout =>
          refine ⟨[serializeResponse (errorResponse 408)], by simp [serveLoop, hi, hp], ?_⟩
          simp only [serveLoop, hi, hp, reduceCtorEq, decide_false]
          rw [checkLoop_error cfg readerIdle f2 s pad hi 408 (.inr ⟨hp, rfl⟩)]
          exact padVerdict_ok pad
        | disconnected =>
          refine ⟨[], by simp [serveLoop, hi, hp], ?_⟩
          simp only [serveLoop, hi, hp, reduceCtorEq, decide_false]
          rw [checkLoop_nothing cfg readerIdle f2 s pad hi (.inr (.inl hp))]
          exact padVerdict_ok pad
        | stream =>
          refine ⟨[], by simp [serveLoop, hi, hp], ?_⟩
          simp only [serveLoop, hi, hp, reduceCtorEq, decide_false]
          rw [checkLoop_nothing cfg readerIdle f2 s pad hi (.inr (.inr hp))]
          exact padVerdict_ok pad
      | ok p =>
        obtain ⟨req, s'⟩ := p
        by_cases hu : req.headers.get hUpgrade = some websocketValue
        · refine ⟨[], by simp [serveLoop, hi, hp, hu], ?_⟩
          rw [checkLoop_upgrade cfg readerIdle f2 s s' req pad _ hi hp hu]
          exact padVerdict_ok pad
        · rw [serveLoop_request readerSource readerIdle cfg f1 s s' req w d hi hp hu]
          cases hresp : respond cfg req (kaOf req) with
          | none =>
            refine ⟨[], by simp, ?_⟩
            simp only [decide_true]
            rw [checkLoop_handlerPanic cfg readerIdle f2 s s' req pad _ hi hp hu hresp]
            exact padVerdict_ok pad
          | some resp =>
            have hok := checkResponse_ok cfg req (kaOf req) resp
              (respond_facts cfg hcfg req (hreq s req s' hsuf hp) _ resp hresp)
            have hnot : ¬ ((Spec.checkResponse cfg req (kaOf req) (serializeResponse resp)).isSome = true ∧
                Spec.checkResponse cfg req (kaOf req) (serializeResponse resp) ≠ some "crlf-after-body") := by
              rcases hok with h | h <;> simp [h]
            obtain ⟨hsuf', hlt⟩ := parseRequest_reader_shrinks cfg.env s req s' hp
            cases hka : kaOf req with
            | true =>
              simp only [if_true]
              obtain ⟨out, ho1, ho2⟩ := ih f2 s' (w ++ [serializeResponse resp]) (dOf cfg req d)
                (pad || (Spec.checkResponse cfg req (kaOf req) (serializeResponse resp)).isSome)
                (hsuf'.trans hsuf) (by omega) (by omega)
              refine ⟨serializeResponse resp :: out, by simp [ho1], ?_⟩
              rw [checkLoop_response cfg readerIdle f2 s s' req pad _ _ resp _ out hi hp hu hresp]
              rw [hka] at ho2 hnot
              simp only [hka, if_true]
              rw [if_neg hnot]
              exact ho2
            | false =>
              refine ⟨[serializeResponse resp], by simp, ?_⟩
              rw [checkLoop_response cfg readerIdle f2 s s' req pad _ _ resp _ [] hi hp hu hresp]
              rw [hka] at hnot
              simp only [hka, Bool.false_eq_true, List.isEmpty_nil, reduceCtorEq,
                decide_false, Bool.not_false, and_self, if_true, if_false]
              rw [if_neg hnot]
              exact padVerdict_ok _

end Humphrey.Http
