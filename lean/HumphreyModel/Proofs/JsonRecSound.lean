import HumphreyModel.Proofs.JsonRecValue

/-!
Helper lemmas for `recognise_iff_json_text` (C13), part 3: soundness of the executable acceptor.
Whatever `recValue` / `recElems` / `recMembers` consume with the unpaired-surrogate flag `false`
on exit is derivable in the inductive family `J`, with exactly the depth returned; the flag was
`false` on entry (it is never reset).
The codec must read every number lexeme (`LawfulCodec.parse_total`), because `J.number` asks for
the denotation of the lexeme.
-/
namespace Humphrey.JsonSpec
open Humphrey.Json

variable {N : Type}

theorem rec_sound_aux (C : NumCodec N) (hC : ∀ l, NumberLexeme l → ∃ n, C.parse l = some n) :
    ∀ fuel : Nat,
    (∀ s lone d r, recValue fuel s lone = some (d, false, r) →
      lone = false ∧ ∃ t v, s = t ++ r ∧ J C .value t v d) ∧
    (∀ s lone dmax D r, recElems fuel s lone dmax = some (D, false, r) →
      lone = false ∧ ∃ t vs d, s = t ++ ']' :: r ∧ J C .elems t (.array vs) d ∧ D = max dmax d) ∧
    (∀ s lone dmax D r, recMembers fuel s lone dmax = some (D, false, r) →
      lone = false ∧ ∃ t ms d, s = t ++ '}' :: r ∧ J C .members t (.object ms) d ∧ D = max dmax d) := by
  intro fuel
  induction fuel with
  | zero =>
    refine ⟨?_, ?_, ?_⟩
    · intro s lone d r h; simp [recValue] at h
    · intro s lone dmax D r h; simp [recElems] at h
    · intro s lone dmax D r h; simp [recMembers] at h
  | succ f ih =>
    obtain ⟨ihV, ihA, ihO⟩ := ih
    refine ⟨?_, ?_, ?_⟩
    · -- value
      intro s lone d r h
      rw [recValue.eq_def] at h
      simp only at h
      split at h
      · simp at h
      · -- string
        rename_i tl
        cases hrs : recString ('"' :: tl) lone with
        | none => simp [hrs] at h
        | some p =>
          obtain ⟨l, r'⟩ := p
          simp only [hrs, Option.map_some, Option.some.injEq, Prod.mk.injEq] at h
          obtain ⟨rfl, rfl, rfl⟩ := h
          obtain ⟨hl, t, str, hs, hb⟩ := rec_string_sound hrs
          refine ⟨hl, '"' :: (t ++ ['"']), .string str, ?_, .string hb⟩
          rw [hs]; simp
      · -- array
        rename_i r0
        obtain ⟨w, hw, hr0⟩ := rec_skipWs_split r0
        split at h
        · rename_i r1 hsk
          simp only [Option.some.injEq, Prod.mk.injEq] at h
          obtain ⟨rfl, rfl, rfl⟩ := h
          refine ⟨rfl, '[' :: (w ++ [']']), .array [], ?_, .arrayEmpty hw⟩
          rw [hr0, hsk]; simp
        · cases hre : recElems f (skipWs r0) lone 0 with
          | none => simp [hre] at h
          | some p =>
            obtain ⟨d', l, r'⟩ := p
            simp only [hre, Option.map_some, Option.some.injEq, Prod.mk.injEq] at h
            obtain ⟨rfl, rfl, rfl⟩ := h
            obtain ⟨hl, t, vs, d, hs, hj, hd⟩ := ihA _ _ _ _ _ hre
            have hd' : d' = d := by omega
            subst hd'
            refine ⟨hl, '[' :: ((w ++ t) ++ [']']), .array vs, ?_, .array (rec_elems_ws_prefix hw hj)⟩
            rw [hr0, hs]; simp
      · -- object
        rename_i r0
        obtain ⟨w, hw, hr0⟩ := rec_skipWs_split r0
        split at h
        · rename_i r1 hsk
          simp only [Option.some.injEq, Prod.mk.injEq] at h
          obtain ⟨rfl, rfl, rfl⟩ := h
          refine ⟨rfl, '{' :: (w ++ ['}']), .object [], ?_, .objectEmpty hw⟩
          rw [hr0, hsk]; simp
        · cases hre : recMembers f (skipWs r0) lone 0 with
          | none => simp [hre] at h
          | some p =>
            obtain ⟨d', l, r'⟩ := p
            simp only [hre, Option.map_some, Option.some.injEq, Prod.mk.injEq] at h
            obtain ⟨rfl, rfl, rfl⟩ := h
            obtain ⟨hl, t, ms, d, hs, hj, hd⟩ := ihO _ _ _ _ _ hre
            have hd' : d' = d := by omega
            subst hd'
            refine ⟨hl, '{' :: ((w ++ t) ++ ['}']), .object ms, ?_, .object (rec_members_ws_prefix hw hj)⟩
            rw [hr0, hs]; simp
      · -- true
        rename_i tl
        cases hsw : startsWith ['t', 'r', 'u', 'e'] ('t' :: tl) with
        | none => simp [hsw] at h
        | some r' =>
          simp only [hsw, Option.map_some, Option.some.injEq, Prod.mk.injEq] at h
          obtain ⟨rfl, rfl, rfl⟩ := h
          exact ⟨rfl, _, _, rec_startsWith_sound hsw, .true⟩
      · -- false
        rename_i tl
        cases hsw : startsWith ['f', 'a', 'l', 's', 'e'] ('f' :: tl) with
        | none => simp [hsw] at h
        | some r' =>
          simp only [hsw, Option.map_some, Option.some.injEq, Prod.mk.injEq] at h
          obtain ⟨rfl, rfl, rfl⟩ := h
          exact ⟨rfl, _, _, rec_startsWith_sound hsw, .false⟩
      · -- null
        rename_i tl
        cases hsw : startsWith ['n', 'u', 'l', 'l'] ('n' :: tl) with
        | none => simp [hsw] at h
        | some r' =>
          simp only [hsw, Option.map_some, Option.some.injEq, Prod.mk.injEq] at h
          obtain ⟨rfl, rfl, rfl⟩ := h
          exact ⟨rfl, _, _, rec_startsWith_sound hsw, .null⟩
      · -- number
        cases hn : recNumber s with
        | none => simp [hn] at h
        | some r' =>
          simp only [hn, Option.map_some, Option.some.injEq, Prod.mk.injEq] at h
          obtain ⟨rfl, rfl, rfl⟩ := h
          obtain ⟨l, hl, hs⟩ := rec_number_sound hn
          obtain ⟨n, hp⟩ := hC l hl
          exact ⟨rfl, l, .number n, hs, .number hl hp⟩
    · -- elems
      intro s lone dmax D r h
      rw [recElems] at h
      cases hv : recValue f s lone with
      | none => simp [hv] at h
      | some p =>
        obtain ⟨d1, lone1, r1⟩ := p
        simp only [hv] at h
        obtain ⟨w2, hw2, hr1⟩ := rec_skipWs_split r1
        split at h
        · rename_i r2 hsk
          obtain ⟨w3, hw3, hr2⟩ := rec_skipWs_split r2
          obtain ⟨rfl, t', vs, d', hs', hj', hD⟩ := ihA _ _ _ _ _ h
          obtain ⟨hl, t, v, hs, hj⟩ := ihV _ _ _ _ hv
          refine ⟨hl, [] ++ (t ++ (w2 ++ ',' :: (w3 ++ t'))), v :: vs, max d1 d', ?_,
            .elemsCons ws_nil hj hw2 (rec_elems_ws_prefix hw3 hj'), by omega⟩
          rw [hs, hr1, hsk, hr2, hs']; simp
        · rename_i r2 hsk
          simp only [Option.some.injEq, Prod.mk.injEq] at h
          obtain ⟨rfl, rfl, rfl⟩ := h
          obtain ⟨hl, t, v, hs, hj⟩ := ihV _ _ _ _ hv
          refine ⟨hl, [] ++ (t ++ w2), [v], d1, ?_, .elemsOne ws_nil hj hw2, rfl⟩
          rw [hs, hr1, hsk]; simp
        · simp at h
    · -- members
      intro s lone dmax D r h
      rw [recMembers] at h
      cases hk : recString s lone with
      | none => simp [hk] at h
      | some p =>
        obtain ⟨lone1, r1⟩ := p
        simp only [hk] at h
        obtain ⟨w2, hw2, hr1⟩ := rec_skipWs_split r1
        split at h
        · rename_i r2 hsk
          obtain ⟨w3, hw3, hr2⟩ := rec_skipWs_split r2
          cases hv : recValue f (skipWs r2) lone1 with
          | none => simp [hv] at h
          | some p =>
            obtain ⟨d1, lone2, r3⟩ := p
            simp only [hv] at h
            obtain ⟨w4, hw4, hr3⟩ := rec_skipWs_split r3
            split at h
            · rename_i r4 hsk4
              obtain ⟨w5, hw5, hr4⟩ := rec_skipWs_split r4
              obtain ⟨rfl, t', ms, d', hs', hj', hD⟩ := ihO _ _ _ _ _ h
              obtain ⟨rfl, t, v, hs, hj⟩ := ihV _ _ _ _ hv
              obtain ⟨hl, k, key, hks, hkb⟩ := rec_string_sound hk
              refine ⟨hl, [] ++ '"' :: (k ++ '"' :: (w2 ++ ':' :: (w3 ++ (t ++ (w4 ++ ',' :: (w5 ++ t')))))),
                (key, v) :: ms, max d1 d', ?_,
                .membersCons ws_nil hkb hw2 hw3 hj hw4 (rec_members_ws_prefix hw5 hj'), by omega⟩
              rw [hks, hr1, hsk, hr2, hs, hr3, hsk4, hr4, hs']; simp
            · rename_i r4 hsk4
              simp only [Option.some.injEq, Prod.mk.injEq] at h
              obtain ⟨rfl, rfl, rfl⟩ := h
              obtain ⟨rfl, t, v, hs, hj⟩ := ihV _ _ _ _ hv
              obtain ⟨hl, k, key, hks, hkb⟩ := rec_string_sound hk
              refine ⟨hl, [] ++ '"' :: (k ++ '"' :: (w2 ++ ':' :: (w3 ++ (t ++ w4)))),
                [(key, v)], d1, ?_, .membersOne ws_nil hkb hw2 hw3 hj hw4, rfl⟩
              rw [hks, hr1, hsk, hr2, hs, hr3, hsk4]; simp
            · simp at h
        · simp at h

end Humphrey.JsonSpec
