import HumphreyModel.Proofs.WsMsgNb
import HumphreyModel.Proofs.WsMsgSession

/-!
Everything written after the handshake is a sequence of unmasked frames — for ANY inbound bytes (also
garbage) and any sequence of calls. Plus the fuel of the loops, and `Spec.replies`/`Spec.messages`
around a given Ping or Close.
-/
set_option linter.unusedSimpArgs false

namespace Humphrey.WsMsg
open Humphrey.WsFrame Humphrey.WsFrame.Spec Humphrey.WsMsg.Spec

/-- `post` extends `pre` by the layouts of frames of the form `reply opcode payload` (FIN set, RSV
clear, not masked, length field = payload length). -/
def FrameWrites (pre post : List Bytes) : Prop :=
  ∃ fs : List Frame, (∀ f ∈ fs, ∃ o p, f = reply o p) ∧ post = pre ++ fs.map rfc6455Layout

theorem FrameWrites.refl (a : List Bytes) : FrameWrites a a := ⟨[], by simp, by simp⟩

theorem FrameWrites.of_eq {a b : List Bytes} (h : b = a) : FrameWrites a b := by
  subst h; exact .refl _

theorem FrameWrites.trans {a b c : List Bytes} (h1 : FrameWrites a b) (h2 : FrameWrites b c) :
    FrameWrites a c := by
  obtain ⟨f1, w1, e1⟩ := h1
  obtain ⟨f2, w2, e2⟩ := h2
  refine ⟨f1 ++ f2, ?_, by rw [e2, e1]; simp⟩
  intro f hf
  rcases List.mem_append.mp hf with h | h
  · exact w1 f h
  · exact w2 f h

theorem FrameWrites.write (c : Conn) (o : Opcode) (p : Bytes) :
    FrameWrites c.outbound (c.write (encodeFrame (Frame.new o p))).outbound :=
  ⟨[reply o p], by intro f hf; exact ⟨o, p, by simpa using hf⟩,
    by simp [Conn.write, encodeFrame_fun, reply_eq_new]⟩

theorem onFrame_writes (c : Conn) (acc : List Frame) (f : Frame) :
    match onFrame c acc f with
    | .done _ c1 => FrameWrites c.outbound c1.outbound
    | .next c1 _ => FrameWrites c.outbound c1.outbound := by
  rcases onFrame_cases c acc f with ⟨_, e⟩ | ⟨_, e⟩ | ⟨_, e⟩ | ⟨_, _, _, e⟩ <;> rw [e]
  · exact .write _ _ _
  · exact .refl _
  · exact .write _ _ _
  · exact .refl _

theorem recvLoopNb_writes (fuel : Nat) : ∀ (c : Conn) (acc : List Frame) (isFirst : Bool),
    FrameWrites c.outbound (recvLoopNb fuel c acc isFirst).2.outbound := by
  induction fuel with
  | zero => intro c acc isFirst; exact .refl _
  | succ k ih =>
    intro c acc isFirst
    have cont : ∀ (s2 : List Ev) (f : Frame) (g : Conn → List Frame → Result × Conn),
        (∀ c1 acc1, FrameWrites c1.outbound (g c1 acc1).2.outbound) →
        FrameWrites c.outbound
          (match onFrame { c with inbound := s2 } acc f with
           | .done r c => (r, c)
           | .next c frames => g c frames).2.outbound := by
      intro s2 f g hg
      have hw := onFrame_writes { c with inbound := s2 } acc f
      cases hon : onFrame { c with inbound := s2 } acc f with
      | done r1 c1 => rw [hon] at hw; exact hw
      | next c1 acc1 => rw [hon] at hw; exact hw.trans (hg c1 acc1)
    by_cases hwm : wantMore acc = true
    · cases isFirst with
      | true =>
        simp only [recvLoopNb, hwm, if_true]
        cases hnb : nbHeader c.inbound with
        | nothing s => exact .refl _
        | failed => exact .refl _
        | header h0 h1 s =>
          simp only
          cases hin : (innerWith readExactEv s h0 h1).result with
          | error e => exact .refl _
          | ok p =>
            obtain ⟨f, s2⟩ := p
            exact cont s2 f _ (fun c1 acc1 => ih c1 acc1 _)
      | false =>
        simp only [recvLoopNb, hwm, if_true, Bool.false_eq_true, if_false]
        cases hrf : readFrame c.inbound with
        | error e => exact .refl _
        | ok p =>
          obtain ⟨f, s2⟩ := p
          exact cont s2 f _ (fun c1 acc1 => ih c1 acc1 _)
    · simp only [recvLoopNb, hwm, if_false, Bool.false_eq_true]
      exact .refl _

theorem noteClosed_outbound (p : Result × Conn) : (noteClosed p).2.outbound = p.2.outbound := by
  unfold noteClosed; split <;> rfl

theorem recvNonblocking_writes (c : Conn) :
    FrameWrites c.outbound (recvNonblocking c).2.outbound := by
  unfold recvNonblocking; rw [noteClosed_outbound]; exact recvLoopNb_writes _ _ _ _

theorem recvBlocking_writes (c : Conn) : FrameWrites c.outbound (recvBlocking c).2.outbound := by
  unfold recvBlocking; rw [noteClosed_outbound, ← recvLoopNb_false]; exact recvLoopNb_writes _ _ _ _

theorem messageToFrame_eq (t : Bool) (p : Bytes) :
    messageToFrame t p = rfc6455Layout (reply (if t then .text else .binary) p) := by
  cases t <;> simp [messageToFrame, encodeFrame_fun, reply_eq_new]

theorem apply_writes (c : Conn) (o : Op) : FrameWrites c.outbound (c.apply o).outbound := by
  cases o with
  | recv => exact recvBlocking_writes c
  | recvNonblocking => exact recvNonblocking_writes c
  | ping => exact .write _ _ _
  | send t p => exact ⟨[reply (if t then .text else .binary) p],
      by intro f hf; exact ⟨_, _, by simpa using hf⟩,
      by simp [Conn.apply, send, Conn.write, messageToFrame_eq]⟩

theorem dropStream_writes (c : Conn) : FrameWrites c.outbound (dropStream c).outbound := by
  unfold dropStream; split
  · exact .refl _
  · exact .write _ _ _

theorem foldl_apply_writes (ops : List Op) : ∀ c : Conn,
    FrameWrites c.outbound (ops.foldl Conn.apply c).outbound := by
  induction ops with
  | nil => intro c; exact .refl _
  | cons o os ih => intro c; exact (apply_writes c o).trans (ih _)

/-! ### The loops never run out of fuel -/

theorem recvLoop_fuel_ok (k : Nat) : ∀ (c : Conn) (acc : List Frame),
    evSize c.inbound + 2 ≤ k → (recvLoop k c acc).1 ≠ .outOfFuel := by
  induction k with
  | zero => intro c acc h; omega
  | succ j ih =>
    intro c acc h
    by_cases hwm : wantMore acc = true
    · simp only [recvLoop, hwm, if_true]
      cases hrf : readFrame c.inbound with
      | error e => simp
      | ok p =>
        obtain ⟨f, s2⟩ := p
        simp only
        have hs := readFrame_size hrf
        cases hon : onFrame { c with inbound := s2 } acc f with
        | done r1 c1 => rw [onFrame_done hon]; simp
        | next c1 acc1 =>
          have hi : c1.inbound = s2 := onFrame_inbound hon
          exact ih c1 acc1 (by rw [hi]; omega)
    · simp [recvLoop, hwm, assemble]

/-! ### `replies` and `messages` around a frame -/

theorem replies_append (pre : List Frame) (hpre : hasClose pre = false) (rest : List Frame) :
    replies (pre ++ rest) = replies pre ++ replies rest := by
  induction pre with
  | nil => simp [replies]
  | cons f fs ih =>
    simp only [hasClose, List.any_cons, Bool.or_eq_false_iff] at hpre
    have ih' := ih (by simpa [hasClose] using hpre.2)
    cases hop : f.opcode <;> simp_all [replies]

theorem messagesFrom_append_close (pre : List Frame) (hpre : hasClose pre = false) (cl : Frame)
    (hcl : cl.opcode = .close) (post : List Frame) (cur : Option Msg) :
    messagesFrom cur (pre ++ cl :: post) = messagesFrom cur pre := by
  induction pre generalizing cur with
  | nil => simp [messagesFrom, hcl]
  | cons f fs ih =>
    simp only [hasClose, List.any_cons, Bool.or_eq_false_iff] at hpre
    have ih' := fun cur => ih (by simpa [hasClose] using hpre.2) cur
    cases hop : f.opcode <;> simp_all [messagesFrom]

theorem hasClose_append (a b : List Frame) : hasClose (a ++ b) = (hasClose a || hasClose b) := by
  simp [hasClose]

/-! ### Vocabulary of the property statements -/

/-- A client script: any list of frames whose length field is the payload length (< 2^64). Opcodes,
FIN/RSV bits, masking keys, payloads and their sizes are arbitrary. -/
def ClientScript (fs : List Frame) : Prop := ∀ f ∈ fs, f.wf

/-- The connection `c` is about to receive the script `fs` — in any segmentation, with any pauses —
followed by `tail`, which is nothing or a frame cut short by an abrupt disconnect. -/
def Arrives (c : Conn) (fs : List Frame) (tail : Bytes) : Prop :=
  Delivers c.inbound (wire fs ++ tail) ∧ Truncated tail

/-- The handshake response of `handler.rs` as bytes. -/
theorem handshakeResponse_bytes (v : Bytes) :
    Http.serializeResponse ⟨http11, 101,
      [⟨Http.hUpgrade, websocketValue⟩, ⟨Http.hConnection, upgradeValue⟩, ⟨hSecAccept, v⟩], []⟩
    = [72, 84, 84, 80, 47, 49, 46, 49, 32, 49, 48, 49, 32, 83, 119, 105, 116, 99, 104, 105, 110, 103,
       32, 80, 114, 111, 116, 111, 99, 111, 108, 115, 13, 10,            -- HTTP/1.1 101 Switching Protocols
       67, 111, 110, 110, 101, 99, 116, 105, 111, 110, 58, 32, 85, 112, 103, 114, 97, 100, 101, 13, 10,  -- Connection: Upgrade
       85, 112, 103, 114, 97, 100, 101, 58, 32, 119, 101, 98, 115, 111, 99, 107, 101, 116, 13, 10,       -- Upgrade: websocket
       115, 101, 99, 45, 119, 101, 98, 115, 111, 99, 107, 101, 116, 45, 97, 99, 99, 101, 112, 116,
       58, 32] ++ v ++ [13, 10, 13, 10] := by                             -- sec-websocket-accept: v
  have e1 : Http.statusCodeOut 101 = 101 := by decide
  have e2 : Http.reasonPhrase 101 = [83, 119, 105, 116, 99, 104, 105, 110, 103, 32, 80, 114, 111,
      116, 111, 99, 111, 108, 115] := by decide
  have e3 : Http.Headers.sorted [⟨Http.hUpgrade, websocketValue⟩, ⟨Http.hConnection, upgradeValue⟩,
        ⟨hSecAccept, v⟩]
      = [⟨Http.hConnection, upgradeValue⟩, ⟨Http.hUpgrade, websocketValue⟩, ⟨hSecAccept, v⟩] := by
    have l1 : Http.hConnection.lt Http.hUpgrade = true := by decide
    have l2 : hSecAccept.lt Http.hConnection = false := by decide
    have l3 : hSecAccept.lt Http.hUpgrade = false := by decide
    simp [Http.Headers.sorted, Http.insertSorted, l1, l2, l3]
  have d1 : Http.hConnection.display = [67, 111, 110, 110, 101, 99, 116, 105, 111, 110] := by decide
  have d2 : Http.hUpgrade.display = [85, 112, 103, 114, 97, 100, 101] := by decide
  have d3 : hSecAccept.display = hSecAccept.lower := by decide
  have n1 : Bytes.natToBytes 101 = [49, 48, 49] := by decide
  simp only [Http.serializeResponse, e1, e2, e3, n1, List.flatMap_cons, List.flatMap_nil, d1, d2, d3]
  simp [http11, Bytes.SP, Bytes.crlf, hSecAccept, upgradeValue, websocketValue]

end Humphrey.WsMsg
