import HumphreyModel.Proofs.Auth
/-
The simulation relation between the `Vec<User>` database and the abstract token / password maps, and
the proof that every operation preserves it with equal outputs.
-/
namespace Humphrey.Auth
set_option linter.unusedSectionVars false
set_option linter.unusedSimpArgs false
set_option linter.unusedVariables false

section
variable {U T H P S Pep : Type} [DecidableEq U] [DecidableEq T] [DecidableEq P]

/-- `Rel hs cfg db a`: the database `db` represents the abstract state `a`.
* uids are pairwise distinct;
* user `u` stores session `(t, e)` exactly when the token map sends `t` to `(u, e)`
  (so the token map is `absSess db`, see `Rel.absSess_eq`, and no two users share a token);
* `pw u` is the password `u`'s stored hash was made from (with the configured pepper);
* everything in the maps has been drawn. -/
structure Rel (hs : HashScheme P S Pep H) (cfg : Config Pep) (db : Db U T H) (a : Spec.State U T P) :
    Prop where
  uids : UidsDistinct db
  sess : ∀ u t e, sessOf db u = some (t, e) ↔ a.sess t = some (u, e)
  pwNone : ∀ u, a.pw u = none → getUserByUid db u = none
  pwSome : ∀ u p, a.pw u = some p →
    ∃ x salt, getUserByUid db u = some x ∧ x.pwHash = hs.hash p salt cfg.pepper
  drawnT : ∀ t u e, a.sess t = some (u, e) → t ∈ a.drawnToks
  drawnU : ∀ u p, a.pw u = some p → u ∈ a.drawnUids

/-- The token map read off the database: the first user holding `t`, with the expiry stored there. -/
def absSess (db : Db U T H) (t : T) : Option (U × Nat) :=
  match getUserByToken db t with
  | some x => match x.session with
    | some (_, e) => some (x.uid, e)
    | none => none
  | none => none

variable {hs : HashScheme P S Pep H} {cfg : Config Pep} {db : Db U T H} {a : Spec.State U T P}

theorem Rel.exists_iff (hr : Rel hs cfg db a) (u : U) : (getUserByUid db u).isSome = (a.pw u).isSome := by
  cases h : a.pw u with
  | none => simp [hr.pwNone u h]
  | some p => obtain ⟨x, _, hx, _⟩ := hr.pwSome u p h; simp [hx]

/-- What a token lookup finds, in both worlds. -/
theorem Rel.lookupTok (hr : Rel hs cfg db a) (t : T) :
    (getUserByToken db t = none ∧ a.sess t = none) ∨
    (∃ x e, getUserByToken db t = some x ∧ x.session = some (t, e) ∧ a.sess t = some (x.uid, e) ∧
      getUserByUid db x.uid = some x) := by
  cases h : getUserByToken db t with
  | none =>
    left
    refine ⟨rfl, ?_⟩
    cases hs' : a.sess t with
    | none => rfl
    | some ue =>
      obtain ⟨u, e⟩ := ue
      have h1 := (hr.sess u t e).mpr hs'
      unfold sessOf at h1
      cases hx : getUserByUid db u with
      | none => simp [hx] at h1
      | some x =>
        simp [hx] at h1
        exact absurd h1 (getUserByToken_none h x (getUserByUid_some hx).1 e)
  | some x =>
    right
    obtain ⟨hmem, e, he⟩ := getUserByToken_some h
    have hx := getUserByUid_of_mem hr.uids hmem
    refine ⟨x, e, rfl, he, ?_, hx⟩
    apply (hr.sess x.uid t e).mp
    simp [sessOf, hx, he]

/-- The functional half of the refinement: the token map *is* `absSess db`. -/
theorem Rel.absSess_eq (hr : Rel hs cfg db a) (t : T) : absSess db t = a.sess t := by
  unfold absSess
  rcases hr.lookupTok t with ⟨h1, h2⟩ | ⟨x, e, h1, h2, h3, _⟩
  · simp [h1, h2]
  · simp [h1, h2, h3]

/-- A state with the same maps and at least the same drawn values is represented by the same database. -/
theorem Rel.of_eq (hr : Rel hs cfg db a) (a' : Spec.State U T P) (hpw : ∀ u, a'.pw u = a.pw u)
    (hsess : ∀ t, a'.sess t = a.sess t) (hT : ∀ t, t ∈ a.drawnToks → t ∈ a'.drawnToks)
    (hU : ∀ u, u ∈ a.drawnUids → u ∈ a'.drawnUids) : Rel hs cfg db a' where
  uids := hr.uids
  sess u t e := by rw [hsess]; exact hr.sess u t e
  pwNone u h := hr.pwNone u (by rw [← hpw]; exact h)
  pwSome u p h := hr.pwSome u p (by rw [← hpw]; exact h)
  drawnT t u e h := hT t (hr.drawnT t u e (by rw [← hsess]; exact h))
  drawnU u p h := hU u (hr.drawnU u p (by rw [← hpw]; exact h))

/-- Writing a new session for an existing user: `update_user` succeeds and the result represents any
abstract state whose token map is the old one with that user's entry replaced. -/
theorem Rel.setSession (hr : Rel hs cfg db a) {x : User U T H} {u : U} (hx : getUserByUid db u = some x)
    (s : Option (T × Nat)) (a' : Spec.State U T P) (hpw : ∀ u, a'.pw u = a.pw u)
    (hsess : ∀ u' t e, (if u' = u then s else sessOf db u') = some (t, e) ↔ a'.sess t = some (u', e))
    (hT : ∀ t u e, a'.sess t = some (u, e) → t ∈ a'.drawnToks)
    (hU : ∀ u, u ∈ a.drawnUids → u ∈ a'.drawnUids) :
    ∃ db', updateUser db { x with session := s } = .ok db' ∧ Rel hs cfg db' a' := by
  have hxu : x.uid = u := (getUserByUid_some hx).2
  have hex : getUserByUid db ({ x with session := s } : User U T H).uid ≠ none := by
    simp [hxu, hx]
  obtain ⟨db', hup, hget, hmap⟩ := updateUser_spec db { x with session := s } hex
  refine ⟨db', hup, ?_⟩
  have hget' : ∀ u', getUserByUid db' u' =
      if u' = u then some { x with session := s } else getUserByUid db u' := by
    intro u'; rw [hget u']; simp [hxu]
  have hsessOf : ∀ u', sessOf db' u' = if u' = u then s else sessOf db u' := by
    intro u'
    unfold sessOf
    rw [hget' u']
    by_cases h : u' = u <;> simp [h]
  refine ⟨uidsDistinct_of_map_eq hmap hr.uids, ?_, ?_, ?_, hT, ?_⟩
  · intro u' t e; rw [hsessOf u']; exact hsess u' t e
  · intro u' h
    have := hr.pwNone u' (by rw [← hpw]; exact h)
    rw [hget' u']
    by_cases hu : u' = u
    · subst hu; rw [hx] at this; cases this
    · simp [hu, this]
  · intro u' p h
    obtain ⟨y, salt, hy, hh⟩ := hr.pwSome u' p (by rw [← hpw]; exact h)
    rw [hget' u']
    by_cases hu : u' = u
    · subst hu
      rw [hx] at hy
      cases hy
      exact ⟨{ x with session := s }, salt, by simp, hh⟩
    · exact ⟨y, salt, by simp [hu, hy], hh⟩
  · intro u' p h
    exact hU u' (hr.drawnU u' p (by rw [← hpw]; exact h))

/-- A user's stored session, seen from the abstract side. -/
theorem Rel.sessOf_of_user (hr : Rel hs cfg db a) {x : User U T H} {u : U}
    (hx : getUserByUid db u = some x) : sessOf db u = x.session := by
  simp [sessOf, hx]

/-- `hasLive` computes "the user holds a live token". -/
theorem Rel.hasLive_eq (hr : Rel hs cfg db a) {x : User U T H} {u : U}
    (hx : getUserByUid db u = some x) (now : Nat) :
    Spec.hasLive a now u = hasValidSession now x := by
  rw [Bool.eq_iff_iff]
  unfold Spec.hasLive hasValidSession
  rw [List.any_eq_true]
  constructor
  · rintro ⟨t, _, ht⟩
    simp only [decide_eq_true_eq] at ht
    unfold Spec.live at ht
    cases hs' : a.sess t with
    | none => simp [hs'] at ht
    | some ue =>
      obtain ⟨u', e⟩ := ue
      simp only [hs'] at ht
      by_cases hlt : now < e
      · simp [hlt] at ht
        subst ht
        have := (hr.sess u' t e).mpr hs'
        rw [hr.sessOf_of_user hx] at this
        simp [this, sessionValid, hlt]
      · simp [hlt] at ht
  · intro h
    cases hs' : x.session with
    | none => simp [hs'] at h
    | some te =>
      obtain ⟨t, e⟩ := te
      simp [hs', sessionValid] at h
      have h1 : a.sess t = some (u, e) := (hr.sess u t e).mp (by rw [hr.sessOf_of_user hx, hs'])
      refine ⟨t, hr.drawnT t u e h1, ?_⟩
      simp [Spec.live, h1, h]

end
end Humphrey.Auth
