import HumphreyModel.Proofs.JsonSer
import HumphreyModel.Proofs.JsonSound

/-!
Helper lemmas for `recognise_iff_json_text` (C13), part 1: the lexical layer of the executable
acceptor `JsonSpec.recognise` (whitespace, literals, numbers, strings) against the inductive
grammar of `Spec/Json.lean`. Core Lean only.

All lemma names carry the prefix `rec_`.
-/
namespace Humphrey.JsonSpec
open Humphrey.Json

/-! ### whitespace -/

theorem rec_wsChar_iff (c : Char) : wsChar c = true ↔ WsChar c := by
  have e1 : ' '.toNat = 32 := rfl
  have e2 : '\t'.toNat = 9 := rfl
  have e3 : '\n'.toNat = 10 := rfl
  have e4 : '\r'.toNat = 13 := rfl
  simp only [wsChar, WsChar, char_eq_iff, e1, e2, e3, e4]
  simp [or_assoc]

theorem rec_wsChar_eq (c : Char) : wsChar c = isWhitespace c := by
  cases h : isWhitespace c with
  | true => exact (rec_wsChar_iff c).2 ((isWhitespace_iff c).1 h)
  | false =>
    cases h' : wsChar c with
    | false => rfl
    | true =>
      have := (isWhitespace_iff c).2 ((rec_wsChar_iff c).1 h')
      rw [h] at this; cases this

theorem rec_skipWs_append {w : List Char} (x : List Char) (hw : Ws w) : skipWs (w ++ x) = skipWs x := by
  induction w with
  | nil => rfl
  | cons c w ih =>
    have hc : wsChar c = true := (rec_wsChar_iff c).2 (hw c (by simp))
    simp only [List.cons_append, skipWs, hc, if_true]
    exact ih (fun x hx => hw x (by simp [hx]))

theorem rec_skipWs_nonws {c : Char} (r : List Char) (h : wsChar c = false) : skipWs (c :: r) = c :: r := by
  simp [skipWs, h]

theorem rec_skipWs_ws {w : List Char} (hw : Ws w) : skipWs w = [] := by
  have := rec_skipWs_append [] hw
  simpa [skipWs] using this

theorem rec_skipWs_split (s : List Char) : ∃ w, Ws w ∧ s = w ++ skipWs s := by
  induction s with
  | nil => exact ⟨[], ws_nil, rfl⟩
  | cons c r ih =>
    cases h : wsChar c with
    | true =>
      obtain ⟨w, hw, hs⟩ := ih
      refine ⟨c :: w, ?_, ?_⟩
      · intro x hx
        rcases List.mem_cons.1 hx with rfl | hx
        · exact (rec_wsChar_iff _).1 h
        · exact hw x hx
      · simp only [skipWs, h, if_true, List.cons_append]
        exact congrArg _ hs
    | false => exact ⟨[], ws_nil, by simp [skipWs, h]⟩

/-! ### literal names -/

theorem rec_startsWith_sound {p s r : List Char} (h : startsWith p s = some r) : s = p ++ r := by
  induction p generalizing s with
  | nil => simp only [startsWith, Option.some.injEq] at h; simp [h]
  | cons a p ih =>
    cases s with
    | nil => simp [startsWith] at h
    | cons b s =>
      simp only [startsWith] at h
      split at h
      · rename_i hab; subst hab
        rw [ih h]; rfl
      · simp at h

theorem rec_startsWith_append (p r : List Char) : startsWith p (p ++ r) = some r := by
  induction p with
  | nil => cases r <;> rfl
  | cons a p ih => simp [startsWith, ih]

/-! ### numbers: `recNumber` is the composition of the three (already verified) scanners -/

theorem rec_digit_eq (c : Char) : digit c = isDigit c := by
  have e0 : '0'.toNat = 48 := rfl
  have e9 : '9'.toNat = 57 := rfl
  simp only [digit, isDigit, char_le_iff, e0, e9]

theorem rec_skipDigits_eq (s : List Char) : skipDigits s = dropDigits s := by
  induction s with
  | nil => rfl
  | cons c r ih =>
    simp only [skipDigits, dropDigits, List.dropWhile_cons, rec_digit_eq]
    split
    · exact ih
    · rfl

/-- `1*DIGIT` of the model's scanners, as a function -/
def rec_digits1 : List Char → Option (List Char)
  | [] => none
  | d :: r => if isDigit d then some (dropDigits r) else none

theorem rec_recDigits1_eq (s : List Char) : recDigits1 s = rec_digits1 s := by
  cases s with
  | nil => rfl
  | cons c r => simp only [recDigits1, rec_digits1, rec_digit_eq, rec_skipDigits_eq]

/-- the four phases of `recNumber`, with the same source text as in the spec -/
def rec_stripMinus (s : List Char) : List Char :=
  match s with
  | '-' :: r => r
  | s => s

def rec_intScan (s : List Char) : Option (List Char) :=
  match s with
  | [] => none
  | c :: r => if c.toNat = 0x30 then some r else if 0x31 ≤ c.toNat && c.toNat ≤ 0x39 then some (skipDigits r) else none

def rec_fracScan (s : List Char) : Option (List Char) :=
  match s with
  | '.' :: r => recDigits1 r
  | s => some s

def rec_expScan (s : List Char) : Option (List Char) :=
  match s with
  | e :: r =>
    if e = 'e' || e = 'E' then
      match r with
      | '+' :: r => recDigits1 r
      | '-' :: r => recDigits1 r
      | r => recDigits1 r
    else some s
  | [] => some []

def rec_numberAux (s : List Char) : Option (List Char) :=
  match rec_intScan (rec_stripMinus s) with
  | none => none
  | some s =>
    match rec_fracScan s with
    | none => none
    | some s => rec_expScan s

theorem rec_number_unfold (s : List Char) : recNumber s = rec_numberAux s := rfl

theorem rec_stripMinus_cons (c : Char) (r : List Char) :
    rec_stripMinus (c :: r) = if c = '-' then r else c :: r := by
  by_cases hc : c = '-'
  · subst hc; rfl
  · simp only [hc, if_false]
    unfold rec_stripMinus
    split
    · rename_i h; cases h; exact absurd rfl hc
    · rfl

theorem rec_intScan_eq (s : List Char) : rec_intScan s = numInt s := by
  cases s with
  | nil => rfl
  | cons c r =>
    have e0 : '0'.toNat = 48 := rfl
    have e1 : '1'.toNat = 49 := rfl
    have e9 : '9'.toNat = 57 := rfl
    simp only [rec_intScan, numInt, isDigit19, char_le_iff, char_eq_iff, e0, e1, e9, rec_skipDigits_eq]

theorem rec_fracScan_eq (s : List Char) : rec_fracScan s = numFrac s := by
  cases s with
  | nil => rfl
  | cons c r =>
    by_cases hc : c = '.'
    · subst hc
      simp only [numFrac, if_true]
      cases r with
      | nil => rfl
      | cons d r' =>
        show recDigits1 (d :: r') = _
        simp only [recDigits1, rec_digit_eq, rec_skipDigits_eq]
    · simp only [numFrac, hc, if_false]
      unfold rec_fracScan
      split
      · rename_i h; cases h; exact absurd rfl hc
      · rfl

theorem rec_expScan_eq (s : List Char) : rec_expScan s = numExp s := by
  cases s with
  | nil => rfl
  | cons c r =>
    by_cases hce : (c = 'e' || c = 'E') = true
    · simp only [rec_expScan, numExp, hce, if_true]
      cases r with
      | nil => rfl
      | cons sg r' =>
        by_cases h1 : sg = '+'
        · subst h1
          cases r' with
          | nil => rfl
          | cons d r'' =>
            show recDigits1 (d :: r'') = _
            simp [recDigits1, rec_digit_eq, rec_skipDigits_eq]
        · by_cases h2 : sg = '-'
          · subst h2
            cases r' with
            | nil => rfl
            | cons d r'' =>
              show recDigits1 (d :: r'') = _
              simp [recDigits1, rec_digit_eq, rec_skipDigits_eq]
          · split
            · rename_i h; cases h; exact absurd rfl h1
            · rename_i h; cases h; exact absurd rfl h2
            · simp [recDigits1, rec_digit_eq, rec_skipDigits_eq, h1, h2]
    · simp only [rec_expScan, numExp, hce]
      rfl

theorem rec_number_eq (s : List Char) :
    recNumber s = (numInt (rec_stripMinus s)).bind fun a => (numFrac a).bind numExp := by
  rw [rec_number_unfold, rec_numberAux, rec_intScan_eq]
  cases numInt (rec_stripMinus s) with
  | none => rfl
  | some a =>
    simp only [Option.bind_some, rec_fracScan_eq]
    cases numFrac a with
    | none => rfl
    | some b => simp only [Option.bind_some, rec_expScan_eq]

/-- what may follow a number lexeme without extending it -/
def RecNumFollow (l : List Char) : Prop :=
  ∀ c r, l = c :: r → isDigit c = false ∧ c ≠ '.' ∧ c ≠ 'e' ∧ c ≠ 'E'

theorem rec_follow_of_delim {l : List Char} (h : Delim l) : RecNumFollow l := by
  intro c r hl
  have hc := h c r hl
  have hlit : ¬ (isLiteral c = true) := by simp [hc]
  rw [isLiteral_iff] at hlit
  have e0 : '0'.toNat = 48 := rfl
  have e9 : '9'.toNat = 57 := rfl
  refine ⟨?_, ?_, ?_, ?_⟩
  · cases hd : isDigit c with
    | false => rfl
    | true =>
      simp only [isDigit, char_le_iff, e0, e9, Bool.and_eq_true, decide_eq_true_eq] at hd
      omega
  · rw [Ne, char_eq_iff]; have : '.'.toNat = 46 := rfl; omega
  · rw [Ne, char_eq_iff]; have : 'e'.toNat = 101 := rfl; omega
  · rw [Ne, char_eq_iff]; have : 'E'.toNat = 69 := rfl; omega

theorem rec_follow_noDigit {l : List Char} (h : RecNumFollow l) : NoDigitHead l :=
  fun c r e => (h c r e).1

theorem rec_numExp_append {e rest : List Char} (he : OptExp e) (hr : RecNumFollow rest) :
    numExp (e ++ rest) = some rest := by
  cases he with
  | none =>
    cases rest with
    | nil => rfl
    | cons c r =>
      obtain ⟨_, _, h1, h2⟩ := hr c r rfl
      simp [numExp, h1, h2]
  | @exp c sg ds hc hs hd =>
    obtain ⟨hne, hall⟩ := hd
    cases ds with
    | nil => exact absurd rfl hne
    | cons d ds =>
      have hd1 : isDigit d = true := (isDigit_iff d).2 (hall d (by simp))
      have hrest : dropDigits (ds ++ rest) = rest :=
        dropDigits_append (fun x hx => hall x (by simp [hx])) (rec_follow_noDigit hr)
      have hc' : (c = 'e' || c = 'E') = true := by rcases hc with rfl | rfl <;> decide
      have hdp : d ≠ '+' := by intro e; subst e; revert hd1; decide
      have hdm : d ≠ '-' := by intro e; subst e; revert hd1; decide
      cases hs with
      | none => simp [numExp, hc', hd1, hrest, hdp, hdm]
      | minus => simp [numExp, hc', hd1, hrest]
      | plus => simp [numExp, hc', hd1, hrest]

theorem rec_optExp_follow {e rest : List Char} (he : OptExp e) (hr : RecNumFollow rest) :
    NoDigitHead (e ++ rest) ∧ ∀ c r, e ++ rest = c :: r → c ≠ '.' := by
  cases he with
  | none => exact ⟨rec_follow_noDigit hr, fun c r h => (hr c r h).2.1⟩
  | @exp c sg ds hc hs hd =>
    constructor
    · apply noDigitHead_cons; rcases hc with rfl | rfl <;> decide
    · intro c' r' e; cases e; rcases hc with rfl | rfl <;> decide

theorem rec_numFrac_append {f e rest : List Char} (hf : OptFrac f) (he : OptExp e) (hr : RecNumFollow rest) :
    numFrac (f ++ (e ++ rest)) = some (e ++ rest) := by
  cases hf with
  | none =>
    cases h : e ++ rest with
    | nil => rfl
    | cons c r =>
      have := (rec_optExp_follow he hr).2 c r h
      simp [numFrac, this]
  | @frac ds hd =>
    obtain ⟨hne, hall⟩ := hd
    cases ds with
    | nil => exact absurd rfl hne
    | cons d ds =>
      have hd1 : isDigit d = true := (isDigit_iff d).2 (hall d (by simp))
      have := dropDigits_append (ds := ds) (rest := e ++ rest) (fun x hx => hall x (by simp [hx]))
        (rec_optExp_follow he hr).1
      simp [numFrac, hd1, this]

theorem rec_frac_exp_noDigit {f e rest : List Char} (hf : OptFrac f) (he : OptExp e) (hr : RecNumFollow rest) :
    NoDigitHead (f ++ (e ++ rest)) := by
  cases hf with
  | none => simpa using (rec_optExp_follow he hr).1
  | frac hd => exact noDigitHead_cons (by decide)

/-- Completeness of `recNumber`: a lexeme followed by something that does not extend it. -/
theorem rec_number_complete {l rest : List Char} (hl : NumberLexeme l) (hr : RecNumFollow rest) :
    recNumber (l ++ rest) = some rest := by
  cases hl with
  | @mk m i f e hm hi hf he =>
    have hstrip : rec_stripMinus ((m ++ (i ++ (f ++ e))) ++ rest) = i ++ (f ++ (e ++ rest)) := by
      obtain ⟨c, r, hcr, hdc⟩ := intPart_head hi
      cases hm with
      | none =>
        have hne : c ≠ '-' := by
          intro e; subst e; have := (isDigit_iff _).2 hdc; revert this; decide
        subst hcr
        simp [rec_stripMinus_cons, hne]
      | minus => simp [rec_stripMinus_cons]
    rw [rec_number_eq, hstrip, numInt_of_intPart hi (rec_frac_exp_noDigit hf he hr)]
    simp only [Option.bind_some, rec_numFrac_append hf he hr, rec_numExp_append he hr]

/-- Soundness of `recNumber`: what it consumes is a number lexeme. -/
theorem rec_number_sound {s r : List Char} (h : recNumber s = some r) :
    ∃ l, NumberLexeme l ∧ s = l ++ r := by
  rw [rec_number_eq] at h
  cases h1 : numInt (rec_stripMinus s) with
  | none => simp [h1] at h
  | some a =>
    simp only [h1, Option.bind_some] at h
    cases h2 : numFrac a with
    | none => simp [h2] at h
    | some b =>
      simp only [h2, Option.bind_some] at h
      obtain ⟨i, hi, e1, _⟩ := numInt_sound h1
      obtain ⟨f, hf, e2⟩ := numFrac_sound h2
      obtain ⟨e, he, e3⟩ := numExp_sound h
      have hs' : rec_stripMinus s = i ++ (f ++ e) ++ r := by rw [e1, e2, e3]; simp
      cases s with
      | nil =>
        obtain ⟨c, r', hcr, _⟩ := intPart_head hi
        subst hcr
        have : rec_stripMinus [] = [] := rfl
        rw [this] at hs'; simp at hs'
      | cons c t =>
        by_cases hc : c = '-'
        · subst hc
          simp only [rec_stripMinus_cons, if_true] at hs'
          refine ⟨['-'] ++ (i ++ (f ++ e)), .mk .minus hi hf he, ?_⟩
          rw [hs']; simp
        · simp only [rec_stripMinus_cons, hc, if_false] at hs'
          refine ⟨[] ++ (i ++ (f ++ e)), .mk .none hi hf he, ?_⟩
          rw [hs']; simp

/-! ### strings -/

theorem rec_hexdig_of {c : Char} {v : Nat} (h : HexDigit c v) : hexdig c = some v := by
  unfold HexDigit at h
  unfold hexdig
  have e0 : '0'.toNat = 48 := rfl
  have e9 : '9'.toNat = 57 := rfl
  have ea : 'a'.toNat = 97 := rfl
  have ef : 'f'.toNat = 102 := rfl
  have eA : 'A'.toNat = 65 := rfl
  have eF : 'F'.toNat = 70 := rfl
  simp only [char_le_iff, e0, e9, ea, ef, eA, eF] at h
  simp only [Bool.and_eq_true, decide_eq_true_eq]
  rcases h with ⟨h1, h2, rfl⟩ | ⟨h1, h2, rfl⟩ | ⟨h1, h2, rfl⟩
  · rw [if_pos ⟨h1, h2⟩]
  · rw [if_neg (by omega), if_neg (by omega), if_pos ⟨h1, h2⟩]
    congr 1; omega
  · rw [if_neg (by omega), if_pos ⟨h1, h2⟩]
    congr 1; omega

theorem rec_hexDigit_of {c : Char} {v : Nat} (h : hexdig c = some v) : HexDigit c v := by
  unfold hexdig at h
  unfold HexDigit
  have e0 : '0'.toNat = 48 := rfl
  have e9 : '9'.toNat = 57 := rfl
  have ea : 'a'.toNat = 97 := rfl
  have ef : 'f'.toNat = 102 := rfl
  have eA : 'A'.toNat = 65 := rfl
  have eF : 'F'.toNat = 70 := rfl
  simp only [char_le_iff, e0, e9, ea, ef, eA, eF]
  simp only [Bool.and_eq_true, decide_eq_true_eq] at h
  split at h
  · rename_i h1; simp only [Option.some.injEq] at h; exact Or.inl ⟨h1.1, h1.2, h.symm⟩
  · split at h
    · rename_i h1; simp only [Option.some.injEq] at h
      exact Or.inr (Or.inr ⟨h1.1, h1.2, by omega⟩)
    · split at h
      · rename_i h1; simp only [Option.some.injEq] at h
        exact Or.inr (Or.inl ⟨h1.1, h1.2, by omega⟩)
      · simp at h

theorem rec_hex4_of {h : List Char} {n : Nat} (hh : Hex4 h n) (t : List Char) :
    recHex4 (h ++ t) = some (n, t) := by
  cases hh with
  | mk ha hb hc hd =>
    simp only [List.cons_append, List.nil_append, recHex4, rec_hexdig_of ha, rec_hexdig_of hb,
      rec_hexdig_of hc, rec_hexdig_of hd, Option.bind_some, Option.some.injEq, Prod.mk.injEq, and_true]
    omega

theorem rec_Hex4_of {s r : List Char} {n : Nat} (h : recHex4 s = some (n, r)) :
    ∃ hx, Hex4 hx n ∧ s = hx ++ r := by
  match s, h with
  | a :: b :: c :: d :: rest, h =>
    simp only [recHex4] at h
    cases ha : hexdig a with
    | none => simp [ha] at h
    | some x =>
      cases hb : hexdig b with
      | none => simp [ha, hb] at h
      | some y =>
        cases hc : hexdig c with
        | none => simp [ha, hb, hc] at h
        | some z =>
          cases hd : hexdig d with
          | none => simp [ha, hb, hc, hd] at h
          | some w =>
            simp only [ha, hb, hc, hd, Option.bind_some, Option.some.injEq, Prod.mk.injEq] at h
            obtain ⟨hn, rfl⟩ := h
            have hh := Hex4.mk (rec_hexDigit_of ha) (rec_hexDigit_of hb) (rec_hexDigit_of hc)
              (rec_hexDigit_of hd)
            have : ((x * 16 + y) * 16 + z) * 16 + w = n := by omega
            rw [this] at hh
            exact ⟨[a, b, c, d], hh, rfl⟩


theorem rec_chars_quote (f : Nat) (r : List Char) (lone : Bool) :
    recChars (f + 1) ('"' :: r) lone = some (lone, r) := by
  rw [recChars.eq_def]; rfl

theorem rec_chars_raw (f : Nat) {c : Char} (r : List Char) (lone : Bool) (hc : Unescaped c) :
    recChars (f + 1) (c :: r) lone = recChars f r lone := by
  obtain ⟨h1, h2⟩ := unescaped_ne hc
  have h3 : 0x20 ≤ c.toNat := by unfold Unescaped at hc; omega
  rw [recChars.eq_def]
  simp [h1, h2, h3]

theorem rec_chars_esc (f : Nat) {e c : Char} (r : List Char) (lone : Bool) (he : SimpleEscape e c) :
    recChars (f + 1) ('\\' :: e :: r) lone = recChars f r lone := by
  rw [recChars.eq_def]
  cases he <;> simp

theorem rec_chars_u (f : Nat) {h : List Char} {n : Nat} (r : List Char) (lone : Bool) (hh : Hex4 h n)
    (hn : n < 0xD800 ∨ 0xDFFF < n) :
    recChars (f + 1) ('\\' :: 'u' :: (h ++ r)) lone = recChars f r lone := by
  rw [recChars.eq_def]
  have h1 : ¬ (0xD800 ≤ n ∧ n ≤ 0xDBFF) := by omega
  have h2 : ¬ (0xDC00 ≤ n ∧ n ≤ 0xDFFF) := by omega
  simp [rec_hex4_of hh, h1, h2]

theorem rec_chars_pair (f : Nat) {h1 h2 : List Char} {hi lo : Nat} (r : List Char) (lone : Bool)
    (hh1 : Hex4 h1 hi) (hh2 : Hex4 h2 lo) (a1 : 0xD800 ≤ hi) (a2 : hi ≤ 0xDBFF) (a3 : 0xDC00 ≤ lo) (a4 : lo ≤ 0xDFFF) :
    recChars (f + 1) ('\\' :: 'u' :: (h1 ++ '\\' :: 'u' :: (h2 ++ r))) lone = recChars f r lone := by
  rw [recChars.eq_def]
  simp [rec_hex4_of hh1, rec_hex4_of hh2, a1, a2, a3, a4]

/-- Completeness for strings: the text of a `StrBody` followed by the closing quote is consumed,
the unpaired-surrogate flag is left as it was. -/
theorem rec_chars_complete {t s : List Char} (h : StrBody t s) :
    ∀ (fuel : Nat) (rest : List Char) (lone : Bool), t.length < fuel →
      recChars fuel (t ++ '"' :: rest) lone = some (lone, rest) := by
  induction h with
  | nil =>
    intro fuel rest lone hf
    obtain ⟨f, rfl⟩ : ∃ f, fuel = f + 1 := ⟨fuel - 1, by omega⟩
    exact rec_chars_quote f rest lone
  | @raw c t s hc _ ih =>
    intro fuel rest lone hf
    simp only [List.length_cons] at hf
    obtain ⟨f, rfl⟩ : ∃ f, fuel = f + 1 := ⟨fuel - 1, by omega⟩
    rw [List.cons_append, rec_chars_raw f _ lone hc]
    exact ih f rest lone (by omega)
  | @esc e c t s he _ ih =>
    intro fuel rest lone hf
    simp only [List.length_cons] at hf
    obtain ⟨f, rfl⟩ : ∃ f, fuel = f + 1 := ⟨fuel - 1, by omega⟩
    rw [List.cons_append, List.cons_append, rec_chars_esc f _ lone he]
    exact ih f rest lone (by omega)
  | @u h t s n hh hn _ ih =>
    intro fuel rest lone hf
    simp only [List.length_cons, List.length_append] at hf
    obtain ⟨f, rfl⟩ : ∃ f, fuel = f + 1 := ⟨fuel - 1, by omega⟩
    rw [List.cons_append, List.cons_append, List.append_assoc, rec_chars_u f _ lone hh hn]
    exact ih f rest lone (by omega)
  | @pair h1 h2 t s hi lo hh1 hh2 a1 a2 a3 a4 _ ih =>
    intro fuel rest lone hf
    simp only [List.length_cons, List.length_append] at hf
    obtain ⟨f, rfl⟩ : ∃ f, fuel = f + 1 := ⟨fuel - 1, by omega⟩
    have e : ('\\' :: 'u' :: (h1 ++ '\\' :: 'u' :: (h2 ++ t))) ++ '"' :: rest =
        '\\' :: 'u' :: (h1 ++ '\\' :: 'u' :: (h2 ++ (t ++ '"' :: rest))) := by simp
    rw [e, rec_chars_pair f _ lone hh1 hh2 a1 a2 a3 a4]
    exact ih f rest lone (by omega)

theorem rec_simpleEscape_of {e : Char}
    (h : e = '"' ∨ e = '\\' ∨ e = '/' ∨ e = 'b' ∨ e = 'f' ∨ e = 'n' ∨ e = 'r' ∨ e = 't') :
    ∃ c, SimpleEscape e c := by
  rcases h with rfl | rfl | rfl | rfl | rfl | rfl | rfl | rfl
  · exact ⟨_, .quote⟩
  · exact ⟨_, .backslash⟩
  · exact ⟨_, .slash⟩
  · exact ⟨_, .b⟩
  · exact ⟨_, .f⟩
  · exact ⟨_, .n⟩
  · exact ⟨_, .r⟩
  · exact ⟨_, .t⟩

theorem rec_unescaped_of {c : Char} (h1 : c ≠ '"') (h2 : c ≠ '\\') (h3 : 0x20 ≤ c.toNat) : Unescaped c := by
  have e1 : '"'.toNat = 0x22 := rfl
  have e2 : '\\'.toNat = 0x5C := rfl
  have := toNat_lt c
  rw [Ne, char_eq_iff, e1] at h1
  rw [Ne, char_eq_iff, e2] at h2
  unfold Unescaped
  omega

theorem rec_chars_sound : ∀ (fuel : Nat) (s : List Char) (lone : Bool) (r : List Char),
    recChars fuel s lone = some (false, r) →
    lone = false ∧ ∃ t str, s = t ++ '"' :: r ∧ StrBody t str := by
  intro fuel
  induction fuel with
  | zero => intro s lone r h; simp [recChars] at h
  | succ f ih =>
    intro s lone r h
    cases s with
    | nil => simp [recChars] at h
    | cons c s' =>
      rw [recChars.eq_def] at h
      simp only at h
      split at h
      · -- closing quote
        rename_i hc; subst hc
        simp only [Option.some.injEq, Prod.mk.injEq] at h
        obtain ⟨rfl, rfl⟩ := h
        exact ⟨rfl, [], [], rfl, .nil⟩
      · rename_i hq
        split at h
        · -- escape
          rename_i hb; subst hb
          cases s' with
          | nil => simp at h
          | cons e s'' =>
            simp only at h
            split at h
            · rename_i he
              obtain ⟨x, hx⟩ := rec_simpleEscape_of (by simpa [or_assoc] using he)
              obtain ⟨hl, t, str, rfl, hb⟩ := ih _ _ _ h
              exact ⟨hl, '\\' :: e :: t, x :: str, rfl, .esc hx hb⟩
            · split at h
              · rename_i hu; subst hu
                split at h
                · simp at h
                · rename_i n r1 hx
                  obtain ⟨hx4, hh, rfl⟩ := rec_Hex4_of hx
                  split at h
                  · -- high surrogate
                    rename_i hhi
                    split at h
                    · rename_i r2
                      split at h
                      · rename_i m r3 hx2
                        obtain ⟨hy4, hh2, rfl⟩ := rec_Hex4_of hx2
                        split at h
                        · rename_i hlo
                          obtain ⟨hl, t, str, rfl, hb⟩ := ih _ _ _ h
                          refine ⟨hl, '\\' :: 'u' :: (hx4 ++ '\\' :: 'u' :: (hy4 ++ t)), _, by simp,
                            .pair hh hh2 ?_ ?_ ?_ ?_ hb⟩ <;> simp at hhi hlo <;> omega
                        · exact absurd (ih _ _ _ h).1 (by decide)
                      · exact absurd (ih _ _ _ h).1 (by decide)
                    · exact absurd (ih _ _ _ h).1 (by decide)
                  · split at h
                    · exact absurd (ih _ _ _ h).1 (by decide)
                    · rename_i hnh hnl
                      obtain ⟨hl, t, str, rfl, hb⟩ := ih _ _ _ h
                      refine ⟨hl, '\\' :: 'u' :: (hx4 ++ t), _, by simp, .u hh ?_ hb⟩
                      simp at hnh hnl; omega
              · simp at h
        · rename_i hb
          split at h
          · rename_i h20
            obtain ⟨hl, t, str, rfl, hbd⟩ := ih _ _ _ h
            exact ⟨hl, c :: t, c :: str, rfl, .raw (rec_unescaped_of hq hb h20) hbd⟩
          · simp at h

/-- `string`, completeness -/
theorem rec_string_complete {t s : List Char} (h : StrBody t s) (rest : List Char) (lone : Bool) :
    recString ('"' :: (t ++ '"' :: rest)) lone = some (lone, rest) := by
  show recChars ((t ++ '"' :: rest).length + 1) (t ++ '"' :: rest) lone = _
  exact rec_chars_complete h _ rest lone (by simp only [List.length_append, List.length_cons]; omega)

/-- `string`, soundness (flag `false` on exit: no escape denoting an unpaired surrogate was read) -/
theorem rec_string_sound {s r : List Char} {lone : Bool} (h : recString s lone = some (false, r)) :
    lone = false ∧ ∃ t str, s = '"' :: (t ++ '"' :: r) ∧ StrBody t str := by
  unfold recString at h
  split at h
  · obtain ⟨hl, t, str, rfl, hb⟩ := rec_chars_sound _ _ _ _ h
    exact ⟨hl, t, str, rfl, hb⟩
  · simp at h

end Humphrey.JsonSpec
