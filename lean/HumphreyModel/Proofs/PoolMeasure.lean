import HumphreyModel.Proofs.PoolInv

/-!
Termination measure for the pool's transition system (C08): a weighted sum whose weights encode the
lexicographic order (lifecycle ≫ queued messages ≫ position of each worker in its loop / of the recovery
thread / of the caller in `drop`). Every step other than `submit` makes it strictly smaller.
-/
namespace Humphrey.Pool

def Phase.rank : Phase → Nat
  | .exited => 0
  | .ready none => 1
  | .got none => 2
  | .inRecv => 3
  | .waitingLock => 4
  | .idle => 5
  | .dead => 6
  | .unwinding => 10
  | .running _ => 11
  | .ready (some _) => 12
  | .got (some _) => 13

def Rec.rank : Rec → Nat
  | .joining _ => 2
  | .respawning _ => 1
  | _ => 0

def Caller.rank : Caller → Nat
  | .idle => 4
  | .dropRec => 3
  | .dropThreads => 2
  | .dropTx => 1
  | .done => 0

def lifeRank (c : Cfg) : Life → Nat
  | .created => 5 * c.n + 13
  | .started => 12
  | _ => 0

/-- One queued message is worth a whole trip of a worker through its loop (11). -/
def measure (c : Cfg) (s : State) : Nat :=
  11 * s.queue.length + sumBy Phase.rank s.workers + 3 * s.recChan.length + s.recov.rank + s.caller.rank
    + lifeRank c s.life

theorem measure_step {c : Cfg} {s s' : State} {l : Label} (st : Step c s l s') :
    (l.isSubmit = false → measure c s' < measure c s) ∧ (l.isSubmit = true → measure c s' = measure c s + 11) := by
  cases st <;> simp only [Label.isSubmit] <;> refine ⟨?_, ?_⟩ <;> intro hl <;> try (simp at hl; done)
  case start.refine_1 h1 h2 =>
    simp [measure, h1, h2, lifeRank, sumBy_replicate, Phase.rank, Rec.rank]; omega
  case submit.refine_2 => simp [measure]; omega
  case stop.refine_1 h1 h2 => simp [measure, h1, lifeRank]; omega
  case reqLock.refine_1 hw =>
    have := sumBy_pos_of_mem (g := Phase.rank) hw
    simp [measure, setW, sumBy_set' _ hw, Phase.rank] at *; omega
  case lock.refine_1 hw h2 =>
    have := sumBy_pos_of_mem (g := Phase.rank) hw
    simp [measure, setW, sumBy_set' _ hw, Phase.rank] at *; omega
  case recvMsg.refine_1 hw hq =>
    have := sumBy_pos_of_mem (g := Phase.rank) hw
    simp [measure, setW, sumBy_set' _ hw, Phase.rank, hq] at *; omega
  case recvErr.refine_1 hw hq h3 =>
    have := sumBy_pos_of_mem (g := Phase.rank) hw
    simp [measure, setW, sumBy_set' _ hw, Phase.rank] at *; omega
  case unlock.refine_1 w r hw h2 =>
    have := sumBy_pos_of_mem (g := Phase.rank) hw
    cases r <;> simp [measure, setW, sumBy_set' _ hw, Phase.rank] at * <;> omega
  case run.refine_1 hw =>
    have := sumBy_pos_of_mem (g := Phase.rank) hw
    simp [measure, setW, sumBy_set' _ hw, Phase.rank] at *; omega
  case exitErr.refine_1 hw =>
    have := sumBy_pos_of_mem (g := Phase.rank) hw
    simp [measure, setW, sumBy_set' _ hw, Phase.rank] at *; omega
  case exitShutdown.refine_1 hw =>
    have := sumBy_pos_of_mem (g := Phase.rank) hw
    simp [measure, setW, sumBy_set' _ hw, Phase.rank] at *; omega
  case finish.refine_1 hw h2 =>
    have := sumBy_pos_of_mem (g := Phase.rank) hw
    simp [measure, setW, sumBy_set' _ hw, Phase.rank] at *; omega
  case panic.refine_1 hw h2 =>
    have := sumBy_pos_of_mem (g := Phase.rank) hw
    simp [measure, setW, sumBy_set' _ hw, Phase.rank] at *; omega
  case markerSend.refine_1 hw =>
    have := sumBy_pos_of_mem (g := Phase.rank) hw
    simp [measure, setW, sumBy_set' _ hw, Phase.rank] at *; omega
  case recRecv.refine_1 w h1 h2 =>
    have := List.length_erase_of_mem h2
    have : 0 < s.recChan.length := List.length_pos_of_mem h2
    simp [measure, h1, Rec.rank] at *; omega
  case recJoin.refine_1 h1 hw => simp [measure, h1, Rec.rank]
  case recRespawn.refine_1 h1 hw =>
    have := sumBy_pos_of_mem (g := Phase.rank) hw
    simp [measure, setW, sumBy_set' _ hw, Phase.rank, h1, Rec.rank] at *; omega
  case dropBegin.refine_1 h1 h2 => simp [measure, h1, Caller.rank]
  case dropDetachRecovery.refine_1 h1 =>
    simp only [measure, afterRecoveryHandle, h1]
    split <;> simp [Caller.rank]
  case dropDetach.refine_1 h1 h2 => simp [measure, h1, Caller.rank]
  case dropSender.refine_1 h1 =>
    simp [measure, h1, Caller.rank]
    cases s.life <;> simp [lifeRank] <;> omega

def submits (ls : List Label) : Nat := (ls.filter Label.isSubmit).length
def otherSteps (ls : List Label) : Nat := (ls.filter (fun l => !l.isSubmit)).length

theorem run_measure {c : Cfg} : ∀ (ls : List Label) (s s' : State), run c s ls = some s' →
    otherSteps ls + measure c s' ≤ measure c s + 11 * submits ls
  | [], s, s', h => by simp [run, runWith] at h; subst h; simp [otherSteps, submits]
  | l :: ls, s, s', h => by
    simp only [run, runWith] at h
    cases hl : step c s l with
    | none => simp [hl] at h
    | some s1 =>
      simp only [hl] at h
      have ih := run_measure ls s1 s' h
      have m := measure_step (Step.of_step hl)
      cases hs : l.isSubmit
      · have := m.1 hs; simp [otherSteps, submits, hs] at *; omega
      · have := m.2 hs; simp [otherSteps, submits, hs] at *; omega

end Humphrey.Pool
