import HumphreyModel.Proofs.JsonTyped
import HumphreyModel.Proofs.JsonTypedMacro

/-!
Helper lemmas for C14, part 4: shapes, and the token trees written by the generators.
-/
namespace Humphrey.JsonTyped
open Humphrey.Json (Value)

/-! ### what `derive(IntoJson)` / `json_map!` write evaluates to the object of the members -/

theorem expandObject_deriveToks : ∀ (ms acc : List (Key × Value Num)),
    expandObject (deriveToks ms) acc true = some (acc ++ ms)
  | [], acc => by simp [deriveToks, expandObject]
  | (k, v) :: ms, acc => by
    simp only [deriveToks, expandObject, keyOf]
    rw [expandObject_deriveToks ms]
    simp

theorem expandObject_mapToks : ∀ (ms acc : List (Key × Value Num)),
    expandObject (mapToks ms) acc true = some (acc ++ ms)
  | [], acc => by simp [mapToks, expandObject]
  | [(k, v)], acc => by simp [mapToks, expandObject, keyOf]
  | (k, v) :: m :: ms, acc => by
    simp only [mapToks, expandObject, keyOf]
    rw [expandObject_mapToks (m :: ms)]
    simp

theorem expandTok_deriveToks (ms : List (Key × Value Num)) :
    expandTok (.group .brace (deriveToks ms)) = some (.object ms) := by
  cases ms with
  | nil => simp [deriveToks, expandTok]
  | cons m ms =>
    obtain ⟨k, v⟩ := m
    have h := expandObject_deriveToks ((k, v) :: ms) []
    simp only [deriveToks, List.nil_append] at h
    simp [deriveToks, expandTok, h]

theorem expandTok_mapToks (ms : List (Key × Value Num)) :
    expandTok (.group .brace (mapToks ms)) = some (.object ms) := by
  match ms with
  | [] => simp [mapToks, expandTok]
  | [(k, v)] =>
    have h := expandObject_mapToks [(k, v)] []
    simp only [mapToks, List.nil_append] at h
    simp [mapToks, expandTok, h]
  | (k, v) :: m :: ms =>
    have h := expandObject_mapToks ((k, v) :: m :: ms) []
    simp only [mapToks, List.nil_append] at h
    simp [mapToks, expandTok, h]

/-! ### shapes -/

theorem toJsonFields_keys : ∀ (fs : List (Key × Ty)) (vs : List TVal), hasTyFields fs vs = true →
    (toJsonFields fs vs).map (·.1) = fs.map (·.1)
  | [], [], _ => by simp [toJsonFields]
  | [], _ :: _, h => by simp [hasTyFields] at h
  | _ :: _, [], h => by simp [hasTyFields] at h
  | (k, t) :: fs, v :: vs, h => by
    simp only [hasTyFields, Bool.and_eq_true] at h
    simp [toJsonFields, toJsonFields_keys fs vs h.2]

mutual
theorem shapeOk_toJson : (ty : Ty) → ∀ (v : TVal), hasTy ty v = true → shapeOk ty (toJson ty v) = true
  | .bool, v, ht => by
    cases v <;> simp [hasTy] at ht
    simp [toJson, shapeOk]
  | .num k, v, ht => by
    cases v <;> simp [hasTy] at ht <;> simp [toJson, shapeOk]
  | .str, v, ht => by
    cases v <;> simp [hasTy] at ht
    simp [toJson, shapeOk]
  | .opt t, v, ht => by
    cases v <;> simp only [hasTy, Bool.false_eq_true] at ht
    · simp [toJson, shapeOk]
    · rename_i w
      have ih := shapeOk_toJson t w ht
      simp only [toJson]
      generalize toJson t w = j at ih
      cases j <;> simp_all [shapeOk]
  | .vec t, v, ht => by
    cases v <;> simp only [hasTy, Bool.false_eq_true] at ht
    rename_i vs
    simp only [toJson, shapeOk, List.all_map, List.all_eq_true]
    intro w hw
    exact shapeOk_toJson t w (by simpa using (List.all_eq_true.mp ht) w hw)
  | .named fs, v, ht => by
    cases v <;> simp only [hasTy, Bool.false_eq_true] at ht
    rename_i vs
    simp only [toJson, shapeOk]
    exact shapeFields_toJson fs vs ht
  | .tuple ts, v, ht => by
    cases v <;> simp only [hasTy, Bool.false_eq_true] at ht
    rename_i vs
    simp only [toJson, shapeOk]
    exact shapeTuple_toJson ts vs ht
  | .enum names, v, ht => by
    cases v <;> simp only [hasTy, Bool.false_eq_true, decide_eq_true_eq] at ht
    rename_i i
    simp only [toJson, shapeOk]
    rw [List.getD_eq_getElem?_getD, List.getElem?_eq_getElem ht]
    simp
theorem shapeFields_toJson : (fs : List (Key × Ty)) → ∀ (vs : List TVal), hasTyFields fs vs = true →
    shapeFields fs (toJsonFields fs vs) = true
  | [], [], _ => by simp [toJsonFields, shapeFields]
  | [], _ :: _, h => by simp [hasTyFields] at h
  | _ :: _, [], h => by simp [hasTyFields] at h
  | (k, t) :: fs, v :: vs, h => by
    simp only [hasTyFields, Bool.and_eq_true] at h
    simp [toJsonFields, shapeFields, shapeOk_toJson t v h.1, shapeFields_toJson fs vs h.2]
theorem shapeTuple_toJson : (ts : List Ty) → ∀ (vs : List TVal), hasTyTuple ts vs = true →
    shapeTuple ts (toJsonTuple ts vs) = true
  | [], [], _ => by simp [toJsonTuple, shapeTuple]
  | [], _ :: _, h => by simp [hasTyTuple] at h
  | _ :: _, [], h => by simp [hasTyTuple] at h
  | t :: ts, v :: vs, h => by
    simp only [hasTyTuple, Bool.and_eq_true] at h
    simp [toJsonTuple, shapeTuple, shapeOk_toJson t v h.1, shapeTuple_toJson ts vs h.2]
end

end Humphrey.JsonTyped
