import HumphreyModel.Proofs.WsMsgLoop

/-!
From one receive call to the whole conversation: `next` against `Spec.messages`/`Spec.replies`, fuel,
`recvBlocking`, the handler loop `recvAll` and `serve`.
-/
set_option linter.unusedSimpArgs false

namespace Humphrey.WsMsg
open Humphrey.WsFrame Humphrey.WsFrame.Spec Humphrey.WsMsg.Spec

/-! ### `next` and the specification -/

theorem next_messages (cur : Option Msg) (fs : List Frame) :
    messagesFrom cur fs = match (next cur fs).2 with
      | .message m rest => m :: messagesFrom none rest
      | .closed _ => []
      | .lost => [] := by
  induction fs generalizing cur with
  | nil => simp [next, messagesFrom]
  | cons f fs ih =>
    cases hop : f.opcode <;> simp [next, messagesFrom, hop] <;>
      first
        | exact ih _
        | (by_cases hf : f.fin = true <;> simp [hf, ih])

theorem next_replies (cur : Option Msg) (fs : List Frame) :
    replies fs = (next cur fs).1 ++ match (next cur fs).2 with
      | .message _ rest => replies rest
      | .closed _ => []
      | .lost => [] := by
  induction fs generalizing cur with
  | nil => simp [next, replies]
  | cons f fs ih =>
    cases hop : f.opcode <;> simp [next, replies, hop] <;>
      first
        | exact ih _
        | (by_cases hf : f.fin = true <;> simp [hf] <;> exact ih _)

theorem next_hasClose (cur : Option Msg) (fs : List Frame) :
    hasClose fs = match (next cur fs).2 with
      | .message _ rest => hasClose rest
      | .closed _ => true
      | .lost => false := by
  induction fs generalizing cur with
  | nil => simp [next, hasClose]
  | cons f fs ih =>
    have ih' := fun cur => ih cur
    simp only [hasClose] at ih' ⊢
    cases hop : f.opcode <;> simp [next, hop] <;>
      first
        | exact ih' _
        | (by_cases hf : f.fin = true <;> simp [hf] <;> exact ih' _)

theorem next_rest (cur : Option Msg) (fs : List Frame) :
    match (next cur fs).2 with
    | .message _ rest => (∀ g ∈ rest, g ∈ fs) ∧ rest.length < fs.length
    | .closed rest => ∀ g ∈ rest, g ∈ fs
    | .lost => True := by
  induction fs generalizing cur with
  | nil => simp [next]
  | cons f fs ih =>
    have weaken : ∀ cur, match (next cur fs).2 with
        | .message _ rest => (∀ g ∈ rest, g ∈ f :: fs) ∧ rest.length < (f :: fs).length
        | .closed rest => ∀ g ∈ rest, g ∈ f :: fs
        | .lost => True := by
      intro cur
      have h := ih cur
      cases hn : (next cur fs).2 with
      | message m rest =>
        rw [hn] at h
        exact ⟨fun g hg => List.mem_cons_of_mem _ (h.1 g hg), by simp only [List.length_cons]; omega⟩
      | closed rest => rw [hn] at h; exact fun g hg => List.mem_cons_of_mem _ (h g hg)
      | lost => trivial
    cases hop : f.opcode <;> simp only [next, hop, reduceCtorEq, if_false, if_true] <;>
      first
        | exact weaken _
        | exact fun g hg => List.mem_cons_of_mem _ hg
        | (by_cases hf : f.fin = true
           · simp only [hf, if_true]
             exact ⟨fun g hg => List.mem_cons_of_mem _ hg, by simp⟩
           · simp only [hf, if_false]
             exact weaken _)

/-! ### Fuel -/

theorem dataBytes_length_le_evSize (s : List Ev) : (dataBytes s).length ≤ evSize s := by
  induction s with
  | nil => simp [dataBytes, evSize]
  | cons e s ih => cases e <;> simp [dataBytes, evSize] <;> omega

theorem wire_length_ge (fs : List Frame) : 2 * fs.length ≤ (wire fs).length := by
  induction fs with
  | nil => simp [wire]
  | cons f fs ih =>
    have : (wire (f :: fs)).length = (rfc6455Layout f).length + (wire fs).length := by
      simp [wire]
    have h2 : 2 ≤ (rfc6455Layout f).length := by simp [rfc6455Layout]
    simp only [List.length_cons]; omega

theorem fuel_ok {c : Conn} {fs : List Frame} {tail : Bytes}
    (h : Delivers c.inbound (wire fs ++ tail)) : fs.length + 2 ≤ fuelFor c := by
  have h1 := dataBytes_length_le_evSize c.inbound
  have h2 := wire_length_ge fs
  rw [h.2, List.length_append] at h1
  unfold fuelFor; omega

/-! ### One `recv` -/

def Next.isClosed : Next → Bool
  | .closed _ => true
  | _ => false

theorem recvBlocking_wire (tail : Bytes) (htail : Truncated tail) (fs : List Frame)
    (hwf : ∀ f ∈ fs, f.wf) (c : Conn) (hdel : Delivers c.inbound (wire fs ++ tail)) :
    ∃ c', recvBlocking c = ((next none fs).2.result, c') ∧
      c'.outbound = c.outbound ++ (next none fs).1.map rfc6455Layout ∧
      c'.closed = (c.closed || (next none fs).2.isClosed) ∧
      (match (next none fs).2 with
       | .message _ rest => Delivers c'.inbound (wire rest ++ tail)
       | .closed rest => Delivers c'.inbound (wire rest ++ tail)
       | .lost => c'.inbound = []) := by
  obtain ⟨c', e, ho, hc, hi⟩ := recvLoop_wire tail htail fs hwf (fuelFor c) c [] (fuel_ok hdel)
    wantMore_nil hdel
  have hcur : curOf [] = none := rfl
  rw [hcur] at e ho hi
  unfold recvBlocking noteClosed
  rw [e]
  cases hn : (next none fs).2 with
  | message m rest =>
    rw [hn] at hi
    exact ⟨c', by simp [Next.result], ho, by simp [Next.isClosed, hc], hi⟩
  | closed rest =>
    rw [hn] at hi
    exact ⟨{ c' with closed := true }, by simp [Next.result], ho, by simp [Next.isClosed], hi⟩
  | lost =>
    rw [hn] at hi
    exact ⟨c', by simp [Next.result], ho, by simp [Next.isClosed, hc], hi⟩

/-! ### The handler loop -/

def msgPair (m : Msg) : Bool × Bytes := (m.text, m.payload)

/-- How the conversation ends for `recv`: the client's Close, or the end of the stream. -/
def ending (fs : List Frame) : Result :=
  .err (if hasClose fs then .connectionClosed else .readError)

theorem recvAll_wire (tail : Bytes) (htail : Truncated tail) :
    ∀ (n : Nat) (fs : List Frame), fs.length ≤ n → (∀ f ∈ fs, f.wf) → ∀ (fuel : Nat) (c : Conn),
      fs.length + 1 ≤ fuel → Delivers c.inbound (wire fs ++ tail) →
      ∃ c', recvAll fuel c = ((messages fs).map msgPair, ending fs, c') ∧
        c'.outbound = c.outbound ++ (replies fs).map rfc6455Layout ∧
        c'.closed = (c.closed || hasClose fs) := by
  intro n
  induction n with
  | zero =>
    intro fs hlen hwf fuel c hfuel hdel
    have hfs : fs = [] := List.eq_nil_of_length_eq_zero (by omega)
    subst hfs
    obtain ⟨k, rfl⟩ : ∃ k, fuel = k + 1 := ⟨fuel - 1, by simp at hfuel; omega⟩
    obtain ⟨c', e, ho, hc, _⟩ := recvBlocking_wire tail htail [] hwf c hdel
    refine ⟨c', ?_, by simpa [next, replies] using ho, by simpa [next, hasClose, Next.isClosed] using hc⟩
    simp [recvAll, e, next, Next.result, messages, messagesFrom, ending, hasClose]
  | succ n ih =>
    intro fs hlen hwf fuel c hfuel hdel
    obtain ⟨k, rfl⟩ : ∃ k, fuel = k + 1 := ⟨fuel - 1, by omega⟩
    obtain ⟨c1, e, ho, hc, hi⟩ := recvBlocking_wire tail htail fs hwf c hdel
    have hm := next_messages none fs
    have hr := next_replies none fs
    have hcl := next_hasClose none fs
    have hrest := next_rest none fs
    cases hn : (next none fs).2 with
    | message m rest =>
      rw [hn] at hi hm hr hcl hrest e hc
      obtain ⟨hsub, hlt⟩ := hrest
      obtain ⟨c', e', ho', hc'⟩ := ih rest (by omega) (fun g hg => hwf g (hsub g hg)) k c1
        (by omega) hi
      refine ⟨c', ?_, ?_, ?_⟩
      · simp only [recvAll, e, Next.result, e']
        simp [messages, hm, msgPair, ending, hcl]
      · rw [ho', ho, hr]; simp
      · rw [hc', hc, hcl]; simp [Next.isClosed]
    | closed rest =>
      rw [hn] at hm hr hcl e hc
      refine ⟨c1, ?_, ?_, ?_⟩
      · simp [recvAll, e, Next.result, messages, hm, ending, hcl]
      · rw [ho, hr]; simp
      · rw [hc, hcl]; simp [Next.isClosed]
    | lost =>
      rw [hn] at hm hr hcl e hc
      refine ⟨c1, ?_, ?_, ?_⟩
      · simp [recvAll, e, Next.result, messages, hm, ending, hcl]
      · rw [ho, hr]; simp
      · rw [hc, hcl]; simp [Next.isClosed]

/-- **The whole conversation** (`while let Ok(m) = stream.recv() {…}`, then the stream is dropped). -/
theorem serve_wire (tail : Bytes) (htail : Truncated tail) (fs : List Frame) (hwf : ∀ f ∈ fs, f.wf)
    (c : Conn) (hcl : c.closed = false) (hdel : Delivers c.inbound (wire fs ++ tail)) :
    ∃ c', serve c = ((messages fs).map msgPair, ending fs, c') ∧
      c'.outbound = c.outbound ++ (replies fs).map rfc6455Layout ++
        (if hasClose fs then [] else [rfc6455Layout (reply .close [])]) := by
  have hfuel : fs.length + 1 ≤ fuelFor c := by have := fuel_ok hdel; omega
  obtain ⟨c', e, ho, hc⟩ := recvAll_wire tail htail fs.length fs (Nat.le_refl _) hwf (fuelFor c) c
    hfuel hdel
  rw [hcl, Bool.false_or] at hc
  refine ⟨dropStream c', by simp [serve, e], ?_⟩
  unfold dropStream
  cases hh : hasClose fs with
  | true => rw [hh] at hc; simp [hc, ho]
  | false =>
    rw [hh] at hc
    simp [hc, ho, Conn.write, encodeFrame_fun, reply_eq_new]

end Humphrey.WsMsg
