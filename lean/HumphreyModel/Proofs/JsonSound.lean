import HumphreyModel.Proofs.JsonComplete

/-!
Helper lemmas for C13, part 6: soundness of the parser model — whatever it accepts is an
RFC 8259 text (relation `J`) denoting the value returned, nested no deeper than `maxDepth`.
-/
namespace Humphrey.Json
open Humphrey.JsonSpec

theorem mem_takeWhile_imp' {p : Char → Bool} {l : List Char} {c : Char} (h : c ∈ l.takeWhile p) : p c = true := by
  induction l with
  | nil => simp at h
  | cons x xs ih =>
    rw [List.takeWhile_cons] at h
    split at h
    · rcases List.mem_cons.1 h with rfl | h
      · assumption
      · exact ih h
    · simp at h

theorem flush_split (s : List Char) : ∃ w, Ws w ∧ s = w ++ flushWhitespace s := by
  refine ⟨s.takeWhile isWhitespace, ?_, ?_⟩
  · intro c hc
    exact (isWhitespace_iff c).1 (mem_takeWhile_imp' hc)
  · simp [flushWhitespace, List.takeWhile_append_dropWhile]

theorem ws_append {a b : List Char} (ha : Ws a) (hb : Ws b) : Ws (a ++ b) := by
  intro c hc
  rcases List.mem_append.1 hc with h | h
  · exact ha c h
  · exact hb c h

/-! ### strings -/

theorem simpleEscape_sound {e c : Char} (h : simpleEscape e = some c) : SimpleEscape e c := by
  unfold simpleEscape at h
  split at h
  · rename_i he; subst he; simp only [Option.some.injEq] at h; subst h; exact .quote
  split at h
  · rename_i he; subst he; simp only [Option.some.injEq] at h; subst h; exact .backslash
  split at h
  · rename_i he; subst he; simp only [Option.some.injEq] at h; subst h; exact .slash
  split at h
  · rename_i he; subst he; simp only [Option.some.injEq] at h; subst h; exact .b
  split at h
  · rename_i he; subst he; simp only [Option.some.injEq] at h; subst h; exact .f
  split at h
  · rename_i he; subst he; simp only [Option.some.injEq] at h; subst h; exact .n
  split at h
  · rename_i he; subst he; simp only [Option.some.injEq] at h; subst h; exact .r
  split at h
  · rename_i he; subst he; simp only [Option.some.injEq] at h; subst h; exact .t
  · simp at h

/-- one escape, as a step of `StrBody` -/
theorem parseEscape_sound {s r : List Char} {x : Char} (h : parseEscape s = some (x, r)) :
    ∃ e, s = e ++ r ∧ ∀ t str, StrBody t str → StrBody ('\\' :: (e ++ t)) (x :: str) := by
  cases s with
  | nil => simp [parseEscape] at h
  | cons c rest =>
    simp only [parseEscape] at h
    split at h
    · rename_i hc; subst hc
      simp only [parseUnicodeEscape] at h
      split at h
      · simp at h
      · rename_i code rest1 h1
        obtain ⟨hx, hh, rfl⟩ := Hex4_of_hex4 h1
        split at h
        · rename_i hns
          simp only [Option.some.injEq, Prod.mk.injEq] at h
          obtain ⟨rfl, rfl⟩ := h
          refine ⟨'u' :: hx, by simp, ?_⟩
          intro t str hb
          have := StrBody.u hh hns hb
          simpa using this
        · rename_i hsur
          match rest1, h with
          | b :: u :: rest2, h =>
            simp only [parseLowSurrogate] at h
            split at h
            · rename_i hbu
              obtain ⟨rfl, rfl⟩ := hbu
              split at h
              · simp at h
              · rename_i code2 rest3 h2
                obtain ⟨hx2, hh2, rfl⟩ := Hex4_of_hex4 h2
                split at h
                · rename_i hlo
                  simp only [Option.some.injEq, Prod.mk.injEq] at h
                  obtain ⟨rfl, rfl⟩ := h
                  refine ⟨'u' :: (hx ++ '\\' :: 'u' :: hx2), by simp, ?_⟩
                  intro t str hb
                  have := StrBody.pair hh hh2 (by omega) hlo.1 hlo.2.1 hlo.2.2 hb
                  simpa using this
                · simp at h
            · simp at h
    · split at h
      · rename_i y hy
        simp only [Option.some.injEq, Prod.mk.injEq] at h
        obtain ⟨rfl, rfl⟩ := h
        refine ⟨[c], rfl, ?_⟩
        intro t str hb
        exact .esc (simpleEscape_sound hy) hb
      · simp at h

theorem parseString_sound : ∀ (n : Nat) (s : List Char), s.length ≤ n → ∀ str r,
    parseString s = some (str, r) → ∃ t, s = t ++ '"' :: r ∧ StrBody t str := by
  intro n
  induction n with
  | zero =>
    intro s hs str r h
    have : s = [] := by cases s <;> simp_all
    subst this
    simp [parseString_nil] at h
  | succ n ih =>
    intro s hs str r h
    cases s with
    | nil => simp [parseString_nil] at h
    | cons c rest =>
      rw [parseString_cons] at h
      split at h
      · rename_i hc; subst hc
        split at h
        · simp at h
        · rename_i x rest' he
          have hlen := parseEscape_length he
          obtain ⟨e, rfl, hstep⟩ := parseEscape_sound he
          cases hps : parseString rest' with
          | none => simp [hps] at h
          | some p =>
            obtain ⟨str', r'⟩ := p
            simp only [hps, consResult_some, Option.some.injEq, Prod.mk.injEq] at h
            obtain ⟨rfl, rfl⟩ := h
            obtain ⟨t, rfl, hb⟩ := ih rest' (by simp only [List.length_cons] at hs; omega) str' r' hps
            exact ⟨'\\' :: (e ++ t), by simp, hstep t str' hb⟩
      · split at h
        · rename_i hq; subst hq
          simp only [Option.some.injEq, Prod.mk.injEq] at h
          obtain ⟨rfl, rfl⟩ := h
          exact ⟨[], rfl, .nil⟩
        · split at h
          · rename_i hu
            cases hps : parseString rest with
            | none => simp [hps] at h
            | some p =>
              obtain ⟨str', r'⟩ := p
              simp only [hps, consResult_some, Option.some.injEq, Prod.mk.injEq] at h
              obtain ⟨rfl, rfl⟩ := h
              obtain ⟨t, rfl, hb⟩ := ih rest (by simp only [List.length_cons] at hs; omega) str' r' hps
              exact ⟨c :: t, by simp, .raw ((unescaped_iff c).1 hu) hb⟩
          · simp at h

theorem parseString_sound' {s str r : List Char} (h : parseString s = some (str, r)) :
    ∃ t, s = t ++ '"' :: r ∧ StrBody t str :=
  parseString_sound s.length s (Nat.le_refl _) str r h

/-! ### literals -/

theorem parseLiteral_sound {N : Type} {C : NumCodec N} {c : Char} {s r : List Char} {v : Value N}
    (h : parseLiteral C c s = some (v, r)) : ∃ t, c :: s = t ++ r ∧ J C .value t v 0 := by
  have hsplit : c :: s = (c :: s.takeWhile isLiteral) ++ s.dropWhile isLiteral := by
    simp [List.takeWhile_append_dropWhile]
  simp only [parseLiteral] at h
  split at h
  · rename_i ht
    simp only [Option.some.injEq, Prod.mk.injEq] at h
    obtain ⟨rfl, rfl⟩ := h
    exact ⟨_, hsplit, by rw [ht]; exact .null⟩
  split at h
  · rename_i ht
    simp only [Option.some.injEq, Prod.mk.injEq] at h
    obtain ⟨rfl, rfl⟩ := h
    exact ⟨_, hsplit, by rw [ht]; exact .true⟩
  split at h
  · rename_i ht
    simp only [Option.some.injEq, Prod.mk.injEq] at h
    obtain ⟨rfl, rfl⟩ := h
    exact ⟨_, hsplit, by rw [ht]; exact .false⟩
  split at h
  · rename_i hnum
    split at h
    · rename_i n hp
      simp only [Option.some.injEq, Prod.mk.injEq] at h
      obtain ⟨rfl, rfl⟩ := h
      exact ⟨_, hsplit, .number (numberLexeme_of_isNumberLexeme hnum) hp⟩
    · simp at h
  · simp at h

/-! ### values -/

/-- what an accepted run of the array loop has read -/
def ArrPost {N : Type} (C : NumCodec N) (depth : Nat) (first : Bool) (s : List Char)
    (vs : List (Value N)) (r : List Char) : Prop :=
  (first = true ∧ vs = [] ∧ ∃ w, Ws w ∧ s = w ++ ']' :: r) ∨
  (∃ t d, s = t ++ ']' :: r ∧ J C .elems t (.array vs) d ∧ depth + d ≤ maxDepth)

/-- what an accepted run of the object loop has read, by loop state -/
def ObjPost {N : Type} (C : NumCodec N) (depth : Nat) (empty tc : Bool) (s : List Char)
    (ms : List (List Char × Value N)) (r : List Char) : Prop :=
  (tc = false ∧ ms = [] ∧ ∃ w, Ws w ∧ s = w ++ '}' :: r) ∨
  ((tc = true ∨ empty = true) ∧ ∃ t d, s = t ++ '}' :: r ∧ J C .members t (.object ms) d ∧
    depth + d ≤ maxDepth) ∨
  (tc = false ∧ empty = false ∧ ∃ w t d, Ws w ∧ s = w ++ ',' :: (t ++ '}' :: r) ∧
    J C .members t (.object ms) d ∧ depth + d ≤ maxDepth)

def ValPost {N : Type} (C : NumCodec N) (depth : Nat) (s : List Char) (v : Value N) (r : List Char) : Prop :=
  ∃ w t d, s = w ++ (t ++ r) ∧ Ws w ∧ J C .value t v d ∧ depth + d ≤ maxDepth

theorem sound_aux {N : Type} (C : NumCodec N) : ∀ fuel : Nat,
    (∀ depth s v r, depth ≤ maxDepth → parseValue C fuel depth s = some (v, r) → ValPost C depth s v r) ∧
    (∀ depth first s vs r, depth ≤ maxDepth → parseArrayLoop C fuel depth first s = some (vs, r) →
      ArrPost C depth first s vs r) ∧
    (∀ depth empty tc s ms r, depth ≤ maxDepth → parseObjectLoop C fuel depth empty tc s = some (ms, r) →
      ObjPost C depth empty tc s ms r) := by
  intro fuel
  induction fuel with
  | zero =>
    refine ⟨?_, ?_, ?_⟩
    · intro depth s v r _ h; simp [parseValue] at h
    · intro depth first s vs r _ h; simp [parseArrayLoop] at h
    · intro depth empty tc s ms r _ h; simp [parseObjectLoop] at h
  | succ f ih =>
    obtain ⟨ihV, ihA, ihO⟩ := ih
    refine ⟨?_, ?_, ?_⟩
    · -- parse_value
      intro depth s v r hdep h
      obtain ⟨w, hw, hs⟩ := flush_split s
      rw [parseValue] at h
      cases hfl : flushWhitespace s with
      | nil => simp [hfl] at h
      | cons c rest =>
        rw [hfl] at hs
        simp only [hfl] at h
        split at h
        · -- string
          rename_i hc; subst hc
          split at h
          · simp at h
          · rename_i str r' hps
            simp only [Option.some.injEq, Prod.mk.injEq] at h
            obtain ⟨rfl, rfl⟩ := h
            obtain ⟨t, rfl, hb⟩ := parseString_sound' hps
            exact ⟨w, '"' :: (t ++ ['"']), 0, by simp [hs], hw, .string hb, by omega⟩
        split at h
        · -- array
          rename_i hc; subst hc
          split at h
          · simp at h
          · rename_i hne
            split at h
            · simp at h
            · rename_i xs r' hpa
              simp only [Option.some.injEq, Prod.mk.injEq] at h
              obtain ⟨rfl, rfl⟩ := h
              rcases ihA (depth + 1) true rest xs _ (by omega) hpa with ⟨_, rfl, w', hw', rfl⟩ | ⟨t, d, rfl, hj, hb⟩
              · exact ⟨w, '[' :: (w' ++ [']']), 1, by simp [hs], hw, .arrayEmpty hw', by omega⟩
              · exact ⟨w, '[' :: (t ++ [']']), d + 1, by simp [hs], hw, .array hj, by omega⟩
        split at h
        · -- object
          rename_i hc; subst hc
          split at h
          · simp at h
          · rename_i hne
            split at h
            · simp at h
            · rename_i ms r' hpo
              simp only [Option.some.injEq, Prod.mk.injEq] at h
              obtain ⟨rfl, rfl⟩ := h
              rcases ihO (depth + 1) true false rest ms _ (by omega) hpo with
                ⟨_, rfl, w', hw', rfl⟩ | ⟨_, t, d, rfl, hj, hb⟩ | ⟨_, he, _⟩
              · exact ⟨w, '{' :: (w' ++ ['}']), 1, by simp [hs], hw, .objectEmpty hw', by omega⟩
              · exact ⟨w, '{' :: (t ++ ['}']), d + 1, by simp [hs], hw, .object hj, by omega⟩
              · cases he
        · -- literal
          obtain ⟨t, ht, hj⟩ := parseLiteral_sound h
          exact ⟨w, t, 0, by rw [hs, ht], hw, hj, by omega⟩
    · -- parse_array loop
      intro depth first s vs r hdep h
      obtain ⟨w, hw, hs⟩ := flush_split s
      rw [parseArrayLoop] at h
      cases hfl : flushWhitespace s with
      | nil => simp [hfl] at h
      | cons c rest =>
        rw [hfl] at hs
        simp only [hfl] at h
        split at h
        · rename_i hc; subst hc
          split at h
          · rename_i hfirst
            simp only [Option.some.injEq, Prod.mk.injEq] at h
            obtain ⟨rfl, rfl⟩ := h
            exact Or.inl ⟨hfirst, rfl, w, hw, hs⟩
          · simp at h
        · split at h
          · simp at h
          · rename_i v s1 hpv
            obtain ⟨w', t, d, hs1, hw', hj, hb⟩ := ihV depth (c :: rest) v s1 hdep hpv
            obtain ⟨w2, hw2, hs2⟩ := flush_split s1
            cases hfl2 : flushWhitespace s1 with
            | nil => simp [hfl2] at h
            | cons c1 rest1 =>
              rw [hfl2] at hs2
              simp only [hfl2] at h
              split at h
              · rename_i hc1; subst hc1
                split at h
                · simp at h
                · rename_i vs' r' hpl
                  simp only [Option.some.injEq, Prod.mk.injEq] at h
                  obtain ⟨rfl, rfl⟩ := h
                  rcases ihA depth false rest1 vs' _ hdep hpl with ⟨hf, _⟩ | ⟨t', d', rfl, hj', hb'⟩
                  · cases hf
                  · refine Or.inr ⟨(w ++ w') ++ (t ++ (w2 ++ ',' :: t')), max d d', ?_,
                      .elemsCons (ws_append hw hw') hj hw2 hj', by omega⟩
                    rw [hs, hs1, hs2]; simp
              · split at h
                · rename_i hc1; subst hc1
                  simp only [Option.some.injEq, Prod.mk.injEq] at h
                  obtain ⟨rfl, rfl⟩ := h
                  refine Or.inr ⟨(w ++ w') ++ (t ++ w2), d, ?_, .elemsOne (ws_append hw hw') hj hw2, hb⟩
                  rw [hs, hs1, hs2]; simp
                · simp at h
    · -- parse_object loop
      intro depth empty tc s ms r hdep h
      obtain ⟨w, hw, hs⟩ := flush_split s
      rw [parseObjectLoop] at h
      cases hfl : flushWhitespace s with
      | nil => simp [hfl] at h
      | cons c rest =>
        rw [hfl] at hs
        simp only [hfl] at h
        split at h
        · rename_i hc; subst hc
          split at h
          · simp at h
          · rename_i htc
            simp only [Option.some.injEq, Prod.mk.injEq] at h
            obtain ⟨rfl, rfl⟩ := h
            exact Or.inl ⟨by simpa using htc, rfl, w, hw, hs⟩
        split at h
        · rename_i hc; subst hc
          split at h
          · simp at h
          · rename_i htc
            split at h
            · simp at h
            · rename_i hem
              rcases ihO depth empty true rest ms r hdep h with ⟨hf, _⟩ | ⟨_, t, d, rfl, hj, hb⟩ | ⟨hf, _⟩
              · cases hf
              · exact Or.inr (Or.inr ⟨by simpa using htc, by simpa using hem, w, t, d, hw, hs, hj, hb⟩)
              · cases hf
        · split at h
          · simp at h
          · rename_i hst
            split at h
            · simp at h
            · rename_i hq
              have hq' : c = '"' := by simpa using hq
              subst hq'
              split at h
              · simp at h
              · rename_i key s1 hps
                obtain ⟨k, rfl, hk⟩ := parseString_sound' hps
                obtain ⟨w2, hw2, hs2⟩ := flush_split s1
                cases hfl2 : flushWhitespace s1 with
                | nil => simp [hfl2] at h
                | cons sep s2 =>
                  rw [hfl2] at hs2
                  simp only [hfl2] at h
                  split at h
                  · simp at h
                  · rename_i hsep
                    have hsep' : sep = ':' := by simpa using hsep
                    subst hsep'
                    split at h
                    · simp at h
                    · rename_i v s3 hpv
                      obtain ⟨w3, hw3, hs3⟩ := flush_split s2
                      obtain ⟨w', t, d, hs4, hw', hj, hb⟩ := ihV depth (flushWhitespace s2) v s3 hdep hpv
                      split at h
                      · simp at h
                      · rename_i ms' r' hpo
                        simp only [Option.some.injEq, Prod.mk.injEq] at h
                        obtain ⟨rfl, rfl⟩ := h
                        have hstate : tc = true ∨ empty = true := by
                          revert hst; cases tc <;> cases empty <;> simp
                        rcases ihO depth false false s3 ms' _ hdep hpo with
                          ⟨_, rfl, w4, hw4, rfl⟩ | ⟨hf, _⟩ | ⟨_, _, w4, t', d', hw4, rfl, hj', hb'⟩
                        · refine Or.inr (Or.inl ⟨hstate, _, d, ?_,
                            .membersOne hw hk hw2 (ws_append hw3 hw') hj hw4, hb⟩)
                          rw [hs, hs2, hs3, hs4]; simp
                        · rcases hf with hf | hf <;> cases hf
                        · refine Or.inr (Or.inl ⟨hstate, _, max d d', ?_,
                            .membersCons hw hk hw2 (ws_append hw3 hw') hj hw4 hj', by omega⟩)
                          rw [hs, hs2, hs3, hs4]; simp

end Humphrey.Json
