import HumphreyModel.Model.Percent
import HumphreyModel.Spec.Percent

/-! Helper lemmas for the percent-encoding half of C18. The finite facts (256 byte values,
16 hex digits) are checked by kernel evaluation (`decide`) over `Fin 256` / `Fin 16`. -/
namespace Humphrey.Percent

theorem byte_cases {P : UInt8 → Prop} (h : ∀ n : Fin 256, P (UInt8.ofNat n.val)) (b : UInt8) : P b := by
  have := h ⟨b.toNat, b.toNat_lt⟩
  simpa using this

set_option maxRecDepth 100000 in
theorem unreserved_table : ∀ n : Fin 256,
    unreservedChars.contains (UInt8.ofNat n.val) = Spec.unreserved (UInt8.ofNat n.val) := by decide

/-- The model's table of unreserved characters is the RFC 3986 §2.3 set. -/
theorem contains_eq_unreserved (b : UInt8) : unreservedChars.contains b = Spec.unreserved b :=
  byte_cases (P := fun b => unreservedChars.contains b = Spec.unreserved b) unreserved_table b

set_option maxRecDepth 100000 in
theorem hexVal_table : ∀ n : Fin 256,
    hexVal (UInt8.ofNat n.val) = Spec.hexDigitValue (UInt8.ofNat n.val) := by decide

/-- `to_digit(16)` on a byte is the RFC's HEXDIG value. -/
theorem hexVal_eq_spec (c : UInt8) : hexVal c = Spec.hexDigitValue c :=
  byte_cases (P := fun c => hexVal c = Spec.hexDigitValue c) hexVal_table c

theorem hexUpper_table : ∀ n : Fin 16,
    hexUpper n.val = Spec.upperHexDigits.getD n.val 0 ∧ hexVal (hexUpper n.val) = some n.val := by
  decide

theorem hexUpper_eq_spec {n : Nat} (h : n < 16) : hexUpper n = Spec.upperHexDigits.getD n 0 :=
  (hexUpper_table ⟨n, h⟩).1

theorem hexVal_hexUpper {n : Nat} (h : n < 16) : hexVal (hexUpper n) = some n :=
  (hexUpper_table ⟨n, h⟩).2

theorem hexVal_lt {c : UInt8} {v : Nat} (h : hexVal c = some v) : v < 16 := by
  unfold hexVal at h
  split at h
  · simp at h; omega
  · split at h
    · simp at h; omega
    · split at h
      · simp at h; omega
      · simp at h

theorem hexVal_percent : hexVal 37 = none := by decide

theorem unreserved_ne_percent {b : UInt8} (h : unreservedChars.contains b = true) : b ≠ 37 := by
  rintro rfl
  revert h
  decide

end Humphrey.Percent
