import HumphreyModel.Model.Cache
import HumphreyModel.Spec.Cache

/-!
Helper definitions and lemmas for C16: running a history on the model (`step`, `run`), the inductive
invariant (`Inv`) and its preservation by `set`/`get`.
-/
namespace Humphrey.Cache
open Humphrey.CacheSpec

/-! ## Running a history on the model -/

/-- One operation of a history on the concrete cache. A lookup leaves the cache unchanged (`get` takes
`&self`) but may panic. -/
def step (c : Cache) : Op → Outcome Cache
  | .set t r h b m => set t c r h b m
  | .get t r h => match get t c r h with
    | .ok _ => .ok c
    | .panic => .panic

/-- A whole history, stopping at the first panic. -/
def run (c : Cache) : List Op → Outcome Cache
  | [] => .ok c
  | op :: ops => match step c op with
    | .ok c' => run c' ops
    | .panic => .panic

/-- `c` is the state of a cache built with the given limits after the history `ops`. -/
def Reachable (limit timeLimit : Nat) (ops : List Op) (c : Cache) : Prop :=
  run (empty limit timeLimit) ops = .ok c

/-- Sum of the lengths of the stored items. -/
def totalLen : List Item → Nat
  | [] => 0
  | it :: rest => it.data.length + totalLen rest

def key (it : Item) : Key := (it.route, it.host)

def val (it : Item) : Val := (it.data, it.mime, it.time)

/-- No two stored items have the same (route, host). -/
def UniqueKeys (d : List Item) : Prop := d.Pairwise (fun a b => key a ≠ key b)

/-! ## Basic list facts -/

theorem isKey_iff (r : String) (h : Nat) (it : Item) : isKey r h it = true ↔ key it = (r, h) := by
  simp [isKey, key, Prod.ext_iff]

theorem totalLen_append (a b : List Item) : totalLen (a ++ b) = totalLen a + totalLen b := by
  induction a with
  | nil => simp [totalLen]
  | cons x a ih => simp [totalLen, ih, Nat.add_assoc]

theorem find_some {r : String} {h : Nat} {d : List Item} {it : Item} (hf : find r h d = some it) :
    it ∈ d ∧ key it = (r, h) := by
  induction d with
  | nil => simp [find] at hf
  | cons x d ih =>
    simp only [find] at hf
    split at hf
    · next hk =>
      cases hf
      exact ⟨List.mem_cons_self, (isKey_iff r h _).mp hk⟩
    · exact ⟨List.mem_cons_of_mem _ (ih hf).1, (ih hf).2⟩

theorem find_none {r : String} {h : Nat} {d : List Item} (hf : find r h d = none) :
    ∀ it ∈ d, key it ≠ (r, h) := by
  induction d with
  | nil => simp
  | cons x d ih =>
    simp only [find] at hf
    split at hf
    · cases hf
    · next hk =>
      intro it hit
      rcases List.mem_cons.mp hit with rfl | hit
      · exact fun e => hk ((isKey_iff r h _).mpr e)
      · exact ih hf it hit

theorem find_eq_none_of {r : String} {h : Nat} {d : List Item} (hn : ∀ it ∈ d, key it ≠ (r, h)) :
    find r h d = none := by
  induction d with
  | nil => rfl
  | cons x d ih =>
    have hx : isKey r h x = false := by
      cases hk : isKey r h x with
      | false => rfl
      | true => exact absurd ((isKey_iff r h x).mp hk) (hn x List.mem_cons_self)
    simp only [find, hx]
    exact ih (fun it hit => hn it (List.mem_cons_of_mem _ hit))

/-- A lookup in `d ++ [x]` where nothing in `d` has the key finds `x`. -/
theorem find_append_new {r : String} {h : Nat} {d : List Item} {x : Item}
    (hn : ∀ it ∈ d, key it ≠ (r, h)) (hx : key x = (r, h)) : find r h (d ++ [x]) = some x := by
  induction d with
  | nil => simp [find, (isKey_iff r h x).mpr hx]
  | cons y d ih =>
    have hy : isKey r h y = false := by
      cases hk : isKey r h y with
      | false => rfl
      | true => exact absurd ((isKey_iff r h y).mp hk) (hn y List.mem_cons_self)
    simp only [List.cons_append, find, hy]
    exact ih (fun it hit => hn it (List.mem_cons_of_mem _ hit))

theorem remove_sublist (r : String) (h : Nat) (d : List Item) : (remove r h d).Sublist d := by
  induction d with
  | nil => exact List.Sublist.refl _
  | cons x d ih =>
    simp only [remove]
    split
    · exact List.sublist_cons_self x d
    · exact ih.cons_cons x

theorem totalLen_remove {r : String} {h : Nat} {d : List Item} {old : Item}
    (hf : find r h d = some old) : totalLen (remove r h d) + old.data.length = totalLen d := by
  induction d with
  | nil => simp [find] at hf
  | cons x d ih =>
    simp only [find] at hf
    simp only [remove]
    split at hf
    · next hk => cases hf; simp [hk, totalLen, Nat.add_comm]
    · next hk =>
      have := ih hf
      rw [if_neg hk]
      simp only [totalLen]
      omega

/-- With unique keys, erasing the first entry for a key leaves no entry for it. -/
theorem remove_no_key {r : String} {h : Nat} {d : List Item} (hu : UniqueKeys d) :
    ∀ it ∈ remove r h d, key it ≠ (r, h) := by
  induction d with
  | nil => simp [remove]
  | cons x d ih =>
    have hu' := List.pairwise_cons.mp hu
    simp only [remove]
    split
    · next hk =>
      intro it hit e
      exact hu'.1 it hit (((isKey_iff r h x).mp hk).trans e.symm)
    · next hk =>
      intro it hit
      rcases List.mem_cons.mp hit with rfl | hit
      · exact fun e => hk ((isKey_iff r h _).mpr e)
      · exact ih hu'.2 it hit

theorem uniqueKeys_snoc {d : List Item} {x : Item} (hu : UniqueKeys d)
    (hn : ∀ it ∈ d, key it ≠ key x) : UniqueKeys (d ++ [x]) := by
  unfold UniqueKeys
  rw [List.pairwise_append]
  refine ⟨hu, List.pairwise_singleton _ _, ?_⟩
  intro a ha b hb
  rw [List.mem_singleton] at hb
  subst hb
  exact hn a ha

/-! ## The eviction loop -/

/-- When the counter is the sum of the lengths, a successful eviction leaves a suffix of the deque,
the counter still exact, and room for the new item. -/
theorem evict_ok {len limit : Nat} {size : Nat} {d : List Item} {size' : Nat} {d' : List Item}
    (hs : size = totalLen d) (he : evict len limit size d = .ok (size', d')) :
    size' = totalLen d' ∧ size' + len ≤ limit ∧ ∃ pre, d = pre ++ d' := by
  induction d generalizing size with
  | nil =>
    simp only [evict] at he
    split at he
    · cases he
    · cases he
      exact ⟨hs, by omega, [], rfl⟩
  | cons x d ih =>
    simp only [evict] at he
    split at he
    · split at he
      · cases he
      · have hs' : size - x.data.length = totalLen d := by simp only [totalLen] at hs; omega
        obtain ⟨h1, h2, pre, h3⟩ := ih hs' he
        exact ⟨h1, h2, x :: pre, by simp [h3]⟩
    · cases he
      exact ⟨hs, by omega, [], rfl⟩

/-- The eviction loop cannot panic when the counter is exact and the new item fits the limit. -/
theorem evict_no_panic {len limit : Nat} {size : Nat} {d : List Item}
    (hs : size = totalLen d) (hl : len ≤ limit) : evict len limit size d ≠ .panic := by
  induction d generalizing size with
  | nil =>
    simp only [evict, totalLen] at *
    subst hs
    split
    · omega
    · simp
  | cons x d ih =>
    simp only [evict]
    split
    · split
      · simp only [totalLen] at hs; omega
      · exact ih (by simp only [totalLen] at hs; omega)
    · simp

/-- The eviction loop panics whenever the new item is larger than the limit (counter exact): it
empties the deque and then indexes `data[0]`. -/
theorem evict_panic_of_gt {len limit : Nat} {size : Nat} {d : List Item}
    (hs : size = totalLen d) (hl : limit < len) : evict len limit size d = .panic := by
  induction d generalizing size with
  | nil =>
    simp only [evict]
    split
    · rfl
    · omega
  | cons x d ih =>
    simp only [evict]
    split
    · split
      · rfl
      · exact ih (by simp only [totalLen] at hs; omega)
    · omega

/-! ## The invariant -/

/-- Inductive invariant of the cache after the history `hist`. -/
structure Inv (hist : List Op) (c : Cache) : Prop where
  /-- the counter is the sum of the stored lengths -/
  size_eq : c.size = totalLen c.data
  /-- the counter never exceeds the limit -/
  bound : c.size ≤ c.limit
  /-- at most one entry per key -/
  unique : UniqueKeys c.data
  /-- every stored entry is the last store for its key -/
  latest : ∀ it ∈ c.data, absRun hist (key it) = some (val it)

theorem absRun_snoc (hist : List Op) (op : Op) : absRun (hist ++ [op]) = absStep (absRun hist) op := by
  simp [absRun, List.foldl_append]

theorem inv_empty (limit timeLimit : Nat) : Inv [] (empty limit timeLimit) :=
  ⟨rfl, Nat.zero_le _, List.Pairwise.nil, by simp [empty]⟩

/-- Shape of the state after a successful `set`: limits unchanged, a sub-list of the old entries
without the key, followed by the new entry. -/
theorem set_shape {t : Nat} {c c' : Cache} {r : String} {h : Nat} {b : List UInt8} {m : Nat}
    (hsz : c.size = totalLen c.data) (hu : UniqueKeys c.data) (hs : set t c r h b m = .ok c') :
    c'.limit = c.limit ∧ c'.timeLimit = c.timeLimit ∧ c'.size = totalLen c'.data ∧ c'.size ≤ c.limit ∧
    ∃ kept, c'.data = kept ++ [⟨r, h, m, t, b⟩] ∧ kept.Sublist c.data ∧
      ∀ it ∈ kept, key it ≠ (r, h) := by
  unfold set at hs
  split at hs
  · cases hs
  · next size₁ data₁ hev =>
    obtain ⟨h1, h2, pre, h3⟩ := evict_ok hsz hev
    have hsub : data₁.Sublist c.data := by rw [h3]; exact List.sublist_append_right pre data₁
    have hu₁ : UniqueKeys data₁ := List.Pairwise.sublist hsub hu
    simp only at hs
    split at hs
    · next old hfind =>
      have htl := totalLen_remove hfind
      split at hs
      · cases hs
      · cases hs
        refine ⟨rfl, rfl, ?_, ?_, remove r h data₁, rfl, (remove_sublist r h data₁).trans hsub,
          remove_no_key hu₁⟩
        · simp only [totalLen_append, totalLen]; omega
        · simp only; omega
    · next hfind =>
      cases hs
      refine ⟨rfl, rfl, ?_, ?_, data₁, rfl, hsub, find_none hfind⟩
      · simp only [totalLen_append, totalLen]; omega
      · simp only; omega

/-- `set` preserves the invariant (for the history extended by that `set`). -/
theorem inv_set {hist : List Op} {t : Nat} {c c' : Cache} {r : String} {h : Nat} {b : List UInt8}
    {m : Nat} (hi : Inv hist c) (hs : set t c r h b m = .ok c') :
    Inv (hist ++ [.set t r h b m]) c' := by
  obtain ⟨hl, _, hsz, hb, kept, hd, hsub, hnk⟩ := set_shape hi.size_eq hi.unique hs
  refine ⟨hsz, by omega, ?_, ?_⟩
  · rw [hd]
    exact uniqueKeys_snoc (List.Pairwise.sublist hsub hi.unique) (fun it hit => hnk it hit)
  · intro it hit
    rw [hd, List.mem_append, List.mem_singleton] at hit
    rw [absRun_snoc]
    rcases hit with hit | rfl
    · have := hi.latest it (hsub.subset hit)
      simp only [absStep, hnk it hit, if_false, this]
    · simp [absStep, key, val]

/-- One step of a history preserves the invariant. -/
theorem inv_step {hist : List Op} {c c' : Cache} {op : Op} (hi : Inv hist c)
    (hs : step c op = .ok c') : Inv (hist ++ [op]) c' := by
  cases op with
  | set t r h b m => exact inv_set hi hs
  | get t r h =>
    simp only [step] at hs
    split at hs
    · cases hs
      exact ⟨hi.size_eq, hi.bound, hi.unique, by
        intro it hit; rw [absRun_snoc]; exact hi.latest it hit⟩
    · cases hs

/-- The invariant holds along every run. -/
theorem inv_run {hist ops : List Op} {c c' : Cache} (hi : Inv hist c) (hr : run c ops = .ok c') :
    Inv (hist ++ ops) c' := by
  induction ops generalizing hist c with
  | nil => simp only [run] at hr; cases hr; simpa using hi
  | cons op ops ih =>
    simp only [run] at hr
    split at hr
    · next c₁ hstep =>
      have := ih (inv_step hi hstep) hr
      simpa using this
    · cases hr

/-- Every reachable state satisfies the invariant. -/
theorem inv_reachable {limit timeLimit : Nat} {ops : List Op} {c : Cache}
    (hr : Reachable limit timeLimit ops c) : Inv ops c := by
  simpa using inv_run (inv_empty limit timeLimit) hr

/-- The limits never change. -/
theorem run_limits {ops : List Op} {c c' : Cache} (hsz : c.size = totalLen c.data)
    (hu : UniqueKeys c.data) (hr : run c ops = .ok c') :
    c'.limit = c.limit ∧ c'.timeLimit = c.timeLimit := by
  induction ops generalizing c with
  | nil => simp only [run] at hr; cases hr; exact ⟨rfl, rfl⟩
  | cons op ops ih =>
    simp only [run] at hr
    split at hr
    · next c₁ hstep =>
      cases op with
      | set t r h b m =>
        obtain ⟨h1, h2, h3, _, kept, hd, hsub, hnk⟩ := set_shape hsz hu hstep
        have hu₁ : UniqueKeys c₁.data := by
          rw [hd]; exact uniqueKeys_snoc (List.Pairwise.sublist hsub hu) (fun it hit => hnk it hit)
        have := ih h3 hu₁ hr
        exact ⟨this.1.trans h1, this.2.trans h2⟩
      | get t r h =>
        simp only [step] at hstep
        split at hstep
        · cases hstep; exact ih hsz hu hr
        · cases hstep
    · cases hr

/-! ## Lookups -/

/-- What a successful lookup returns: a stored entry for exactly that key, not from the future and
not older than the time limit. -/
theorem get_some {now : Nat} {c : Cache} {r : String} {h : Nat} {it : Item}
    (hg : get now c r h = .ok (some it)) :
    it ∈ c.data ∧ key it = (r, h) ∧ it.time ≤ now ∧ now - it.time ≤ c.timeLimit := by
  unfold get at hg
  split at hg
  · next it' hf =>
    split at hg
    · cases hg
    · split at hg
      · cases hg
      · cases hg
        exact ⟨(find_some hf).1, (find_some hf).2, by omega, by omega⟩
  · cases hg

/-- `get` panics only when the entry for the key was stored "in the future". -/
theorem get_no_panic {now : Nat} {c : Cache} {r : String} {h : Nat}
    (ht : ∀ it ∈ c.data, it.time ≤ now) : get now c r h ≠ .panic := by
  unfold get
  split
  · next it hf =>
    have := ht it (find_some hf).1
    split
    · omega
    · split <;> simp
  · simp

/-! ## Absence of panics along a history with a non-decreasing clock -/

/-- In a state satisfying the invariant, storing an item that fits the limit does not panic. -/
theorem set_no_panic {hist : List Op} {c : Cache} (hi : Inv hist c) (t : Nat) (r : String) (h : Nat)
    {b : List UInt8} (m : Nat) (hsize : b.length ≤ c.limit) : ∃ c', set t c r h b m = .ok c' := by
  cases hs : set t c r h b m with
  | ok c' => exact ⟨c', rfl⟩
  | panic =>
    exfalso
    unfold set at hs
    split at hs
    · next hev => exact evict_no_panic hi.size_eq hsize hev
    · next size₁ data₁ hev =>
      obtain ⟨h1, _, _, _⟩ := evict_ok hi.size_eq hev
      simp only at hs
      split at hs
      · next old hfind =>
        have := totalLen_remove hfind
        split at hs
        · omega
        · cases hs
      · cases hs

theorem step_no_panic {hist : List Op} {c : Cache} {op : Op} (hi : Inv hist c)
    (hsize : op.storeLen ≤ c.limit) (ht : ∀ it ∈ c.data, it.time ≤ op.time) :
    ∃ c', step c op = .ok c' := by
  cases op with
  | set t r h b m => exact set_no_panic hi t r h m hsize
  | get t r h =>
    simp only [step]
    cases hg : get t c r h with
    | ok o => exact ⟨c, rfl⟩
    | panic => exact absurd hg (get_no_panic ht)

theorem run_no_panic {hist ops : List Op} {c : Cache} (hi : Inv hist c)
    (hsize : SizesWithin c.limit ops)
    (hclock : ClockMonotone ops)
    (ht : ∀ it ∈ c.data, ∀ op ∈ ops, it.time ≤ op.time) :
    ∃ c', run c ops = .ok c' := by
  induction ops generalizing hist c with
  | nil => exact ⟨c, rfl⟩
  | cons op ops ih =>
    have hclock' : (∀ a ∈ ops, op.time ≤ a.time) ∧ ClockMonotone ops := by
      simpa [ClockMonotone] using hclock
    obtain ⟨c₁, hstep⟩ := step_no_panic hi (hsize op List.mem_cons_self)
      (fun it hit => ht it hit op List.mem_cons_self)
    simp only [run, hstep]
    have hi₁ := inv_step hi hstep
    have hlim : c₁.limit = c.limit ∧ ∀ it ∈ c₁.data, it ∈ c.data ∨ it.time = op.time := by
      cases op with
      | set t r h b m =>
        obtain ⟨h1, _, _, _, kept, hd, hsub, _⟩ := set_shape hi.size_eq hi.unique hstep
        refine ⟨h1, ?_⟩
        intro it hit
        rw [hd, List.mem_append, List.mem_singleton] at hit
        rcases hit with hit | rfl
        · exact Or.inl (hsub.subset hit)
        · exact Or.inr rfl
      | get t r h =>
        simp only [step] at hstep
        split at hstep
        · cases hstep; exact ⟨rfl, fun it hit => Or.inl hit⟩
        · cases hstep
    refine ih hi₁ ?_ ?_ ?_
    · rw [hlim.1]; exact fun o ho => hsize o (List.mem_cons_of_mem _ ho)
    · exact hclock'.2
    · intro it hit o ho
      rcases hlim.2 it hit with hold | hnew
      · exact ht it hold o (List.mem_cons_of_mem _ ho)
      · rw [hnew]; exact hclock'.1 o ho

end Humphrey.Cache
