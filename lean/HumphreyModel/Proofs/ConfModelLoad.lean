import HumphreyModel.Proofs.ConfModelRoutes
import HumphreyModel.Proofs.ConfNum

/-!
C15, part B: `Config::from_tree` on the tree of a model gives the normalised model.
-/
namespace Humphrey.Conf

theorem cfgrt_parseUnsigned_showNat {bits n : Nat} (h : n < 2 ^ bits) :
    parseUnsigned bits (showNat n) = some n := by
  obtain ⟨c, r, hcr, hd⟩ := showNat_head n
  have hp := parseDigits_showNat n
  rw [hcr] at hp ⊢
  have h1 : c ≠ '+' := hd.ne_of_toNat (by decide)
  simp only [parseUnsigned, h1, if_false, hp, h, if_true]

theorem cfgrt_parseLogLevel_text (l : LogLevel) : parseLogLevel l.text = some l := by
  cases l <;> decide

theorem cfgrt_parseBool_text (b : Bool) : parseBool (boolText b) = some b := by
  cases b <;> decide

section getters
variable {ε : Type} {m : Map} {key kk : Str}

theorem cfgrt_gop_num {o : Option Nat}
    (hg : Map.get m key = o.map (fun n => Node.number kk (showNat n))) {bits : Nat}
    (hb : ∀ n, o = some n → n < 2 ^ bits) (d : Nat) (e : ε) :
    getOptionalParsed m key d (parseUnsigned bits) e = .ok (o.getD d) := by
  unfold getOptionalParsed
  rw [hg]
  cases o with
  | none => rfl
  | some n => simp [Node.scalar, Node.getString, cfgrt_parseUnsigned_showNat (hb n rfl)]

theorem cfgrt_getOwned_str {o : Option Str} (hg : Map.get m key = o.map (Node.string kk)) :
    getOwned m key = o := by
  unfold getOwned
  rw [hg]
  cases o <;> simp [Node.getString]

end getters

/-! ### the look-ups -/

theorem cfgrt_get_address (c : Cfg) : Map.get (cfgrt_serverMap c) (k "server.address") =
    c.address.map (Node.string ['a', 'd', 'd', 'r', 'e', 's', 's']) := by
  unfold cfgrt_serverMap
  simp (disch := decide) only [cfgrt_get_optB_ne, cfgrt_get_optB_eq, Map.get]
  cases c.address <;> rfl

theorem cfgrt_get_port (c : Cfg) : Map.get (cfgrt_serverMap c) (k "server.port") =
    c.port.map (fun n => Node.number ['p', 'o', 'r', 't'] (showNat n)) := by
  unfold cfgrt_serverMap
  simp (disch := decide) only [cfgrt_get_optB_ne, cfgrt_get_optB_eq, Map.get]
  cases c.port <;> rfl

theorem cfgrt_get_threads (c : Cfg) : Map.get (cfgrt_serverMap c) (k "server.threads") =
    c.threads.map (fun n => Node.number ['t', 'h', 'r', 'e', 'a', 'd', 's'] (showNat n)) := by
  unfold cfgrt_serverMap
  simp (disch := decide) only [cfgrt_get_optB_ne, cfgrt_get_optB_eq, Map.get]
  cases c.threads <;> rfl

theorem cfgrt_get_websocket (c : Cfg) : Map.get (cfgrt_serverMap c) (k "server.websocket") =
    c.websocket.map (Node.string wsKey) := by
  unfold cfgrt_serverMap
  simp (disch := decide) only [cfgrt_get_optB_ne, cfgrt_get_optB_eq, Map.get]
  cases c.websocket <;> rfl

theorem cfgrt_get_timeout (c : Cfg) : Map.get (cfgrt_serverMap c) (k "server.timeout") =
    c.timeout.map (fun n => Node.number ['t', 'i', 'm', 'e', 'o', 'u', 't'] (showNat n)) := by
  unfold cfgrt_serverMap
  simp (disch := decide) only [cfgrt_get_optB_ne, cfgrt_get_optB_eq, Map.get]
  cases c.timeout <;> rfl

theorem cfgrt_get_blfile (c : Cfg) : Map.get (cfgrt_serverMap c) (k "server.blacklist.file") =
    (c.blacklist.map (·.1)).map (Node.string ['f', 'i', 'l', 'e']) := by
  unfold cfgrt_serverMap
  simp (disch := decide) only [cfgrt_get_optB_ne, cfgrt_get_optB_eq, Map.get]
  cases c.blacklist <;> rfl

theorem cfgrt_get_blmode (c : Cfg) : Map.get (cfgrt_serverMap c) (k "server.blacklist.mode") =
    (c.blacklistMode.map BlacklistMode.text).map (Node.string ['m', 'o', 'd', 'e']) := by
  unfold cfgrt_serverMap
  simp (disch := decide) only [cfgrt_get_optB_ne, cfgrt_get_optB_eq, Map.get]
  cases c.blacklistMode <;> rfl

theorem cfgrt_get_level (c : Cfg) : Map.get (cfgrt_serverMap c) (k "server.log.level") =
    (c.logLevel.map LogLevel.text).map (Node.string ['l', 'e', 'v', 'e', 'l']) := by
  unfold cfgrt_serverMap
  simp (disch := decide) only [cfgrt_get_optB_ne, cfgrt_get_optB_eq, Map.get]
  cases c.logLevel <;> rfl

theorem cfgrt_get_console (c : Cfg) : Map.get (cfgrt_serverMap c) (k "server.log.console") =
    c.logConsole.map (fun b => Node.boolean ['c', 'o', 'n', 's', 'o', 'l', 'e'] (boolText b)) := by
  unfold cfgrt_serverMap
  simp (disch := decide) only [cfgrt_get_optB_ne, cfgrt_get_optB_eq, Map.get]
  cases c.logConsole <;> rfl

theorem cfgrt_get_logfile (c : Cfg) : Map.get (cfgrt_serverMap c) (k "server.log.file") =
    c.logFile.map (Node.string ['f', 'i', 'l', 'e']) := by
  unfold cfgrt_serverMap
  simp (disch := decide) only [cfgrt_get_optB_ne, cfgrt_get_optB_eq, Map.get]
  cases c.logFile <;> rfl

theorem cfgrt_get_size (c : Cfg) : Map.get (cfgrt_serverMap c) (k "server.cache.size") =
    c.cacheSize.map (fun n => Node.number ['s', 'i', 'z', 'e'] (showNat n)) := by
  unfold cfgrt_serverMap
  simp (disch := decide) only [cfgrt_get_optB_ne, cfgrt_get_optB_eq, Map.get]
  cases c.cacheSize <;> rfl

theorem cfgrt_get_time (c : Cfg) : Map.get (cfgrt_serverMap c) (k "server.cache.time") =
    c.cacheTime.map (fun n => Node.number ['t', 'i', 'm', 'e'] (showNat n)) := by
  unfold cfgrt_serverMap
  simp (disch := decide) only [cfgrt_get_optB_ne, cfgrt_get_optB_eq, Map.get]
  cases c.cacheTime <;> rfl

/-! ### the typed getters on the map of a model -/

theorem cfgrt_level (c : Cfg) :
    getOptionalParsed (cfgrt_serverMap c) (k "server.log.level") LogLevel.warn parseLogLevel CfgErr.logLevel =
      .ok (c.logLevel.getD .warn) := by
  unfold getOptionalParsed
  rw [cfgrt_get_level]
  cases c.logLevel with
  | none => rfl
  | some l => simp [Node.scalar, Node.getString, cfgrt_parseLogLevel_text]

theorem cfgrt_console (c : Cfg) :
    getOptionalParsed (cfgrt_serverMap c) (k "server.log.console") true parseBool CfgErr.logConsole =
      .ok (c.logConsole.getD true) := by
  unfold getOptionalParsed
  rw [cfgrt_get_console]
  cases c.logConsole with
  | none => rfl
  | some b => simp [Node.scalar, Node.getString, cfgrt_parseBool_text]

theorem cfgrt_mode (c : Cfg) :
    (if getOptional (cfgrt_serverMap c) (k "server.blacklist.mode") (k "block") = k "block"
       then some BlacklistMode.block
     else if getOptional (cfgrt_serverMap c) (k "server.blacklist.mode") (k "block") = k "forbidden"
       then some BlacklistMode.forbidden else none) = some (c.blacklistMode.getD .block) := by
  unfold getOptional
  rw [cfgrt_getOwned_str (cfgrt_get_blmode c)]
  cases c.blacklistMode with
  | none => simp
  | some md =>
    have e1 : BlacklistMode.text .block = k "block" := by decide
    have e2 : BlacklistMode.text .forbidden = k "forbidden" := by decide
    have e3 : k "forbidden" ≠ k "block" := by decide
    cases md
    · simp only [Option.map_some, Option.getD_some, e1, if_true]
    · simp only [Option.map_some, Option.getD_some, e2, if_neg e3, if_true]

theorem cfgrt_blacklist_loads {fs : FS} {c : Cfg} (h : c.WF fs) :
    loadBlacklist fs (getOwned (cfgrt_serverMap c) (k "server.blacklist.file")) =
      .ok (match c.blacklist with | some (_, ips) => ips | none => []) := by
  rw [cfgrt_getOwned_str (cfgrt_get_blfile c)]
  cases hb : c.blacklist with
  | none => rfl
  | some pi =>
    obtain ⟨p, ips⟩ := pi
    exact (h.blacklist p ips hb).2

/-- **`from_tree` reads the tree of a model back as the normalised model.** -/
theorem cfgrt_load_render (fs : FS) (c : Cfg) (hc : c.WF fs) : fromTree fs c.toTree = .ok c.normalise := by
  have hport := cfgrt_gop_num (m := cfgrt_serverMap c) (cfgrt_get_port c) hc.port 80 CfgErr.port
  have hthreads := cfgrt_gop_num (m := cfgrt_serverMap c) (bits := 64) (cfgrt_get_threads c)
    (fun n hn => Nat.lt_trans (hc.threads n hn).2 (by decide)) 32 CfgErr.threads
  have htimeout := cfgrt_gop_num (m := cfgrt_serverMap c) (bits := 64) (cfgrt_get_timeout c)
    (fun n hn => Nat.lt_trans (hc.timeout n hn) (by decide)) 0 CfgErr.timeout
  have hsize := cfgrt_gop_num (m := cfgrt_serverMap c) (bits := 64) (cfgrt_get_size c)
    (fun n hn => Nat.lt_trans (hc.cacheSize n hn) (by decide)) 0 CfgErr.cacheSize
  have htime := cfgrt_gop_num (m := cfgrt_serverMap c) (bits := 64) (cfgrt_get_time c)
    (fun n hn => Nat.lt_trans (hc.cacheTime n hn) (by decide)) 0 CfgErr.cacheTime
  have hpos : ¬ c.threads.getD 32 < 1 := by
    cases ht : c.threads with
    | none => decide
    | some t => have := (hc.threads t ht).1; simp only [Option.getD_some]; omega
  have haddr : getOptional (cfgrt_serverMap c) (k "server.address") (k "0.0.0.0") =
      c.address.getD "0.0.0.0".toList := by
    unfold getOptional; rw [cfgrt_getOwned_str (cfgrt_get_address c)]; rfl
  have hto : (if c.timeout.getD 0 > 0 then some (c.timeout.getD 0) else none) =
      (match c.timeout with | some t => if t > 0 then some t else none | none => none) := by
    cases c.timeout <;> simp
  unfold fromTree
  simp only [cfgrt_flatten_toTree, hport, hthreads, htimeout, if_neg hpos, cfgrt_blacklist_loads hc,
    cfgrt_mode, cfgrt_level, cfgrt_console, hsize, htime, cfgrt_parseRoutes_children c hc.items,
    cfgrt_parseHosts_children c hc.items, haddr, hto, cfgrt_getOwned_str (cfgrt_get_websocket c),
    cfgrt_getOwned_str (cfgrt_get_logfile c)]
  rfl

end Humphrey.Conf
