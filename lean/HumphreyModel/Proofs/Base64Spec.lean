import HumphreyModel.Proofs.Base64

/-! The encoder model equals the bit-level RFC 4648 encoder. -/
namespace Humphrey.Base64

open Spec in
/-- Symbols (before padding) of the bit-level encoder. -/
def specSyms (bs : Bytes) : Bytes :=
  (sixes (bs.flatMap bitsOfByte)).map (fun g => table.getD (bitsToNat g) 0)

theorem spec_encode_eq (bs : Bytes) :
    Spec.encode bs = specSyms bs ++ List.replicate ((4 - (specSyms bs).length % 4) % 4) Spec.pad := rfl

theorem specSyms_group (a b c : UInt8) (rest : Bytes) :
    specSyms (a :: b :: c :: rest) =
      (groupIndices a.toNat b.toNat c.toNat).map sym ++ specSyms rest := by
  have ha := a.toNat_lt
  have hb := b.toNat_lt
  have hc := c.toNat_lt
  obtain ⟨h0, h1, h2, h3, -, -⟩ := groupIndices_lt ha hb hc
  simp only [specSyms, List.flatMap_cons, Spec.bitsOfByte, List.map_cons, List.map_nil,
    List.cons_append, List.nil_append, Spec.sixes, groupIndices, Spec.bitsToNat, List.foldl_cons,
    List.foldl_nil, Nat.toNat_testBit, sym_eq_table h0, sym_eq_table h1, sym_eq_table h2,
    sym_eq_table h3]
  simp only [Nat.reducePow]
  congr 1
  · congr 1; omega
  congr 1
  · congr 1; omega
  congr 1
  · congr 1; omega
  congr 1
  congr 1; omega

theorem specSyms_one (a : UInt8) :
    specSyms [a] = [sym (a.toNat / 4), sym (a.toNat % 4 * 16)] := by
  have ha := a.toNat_lt
  obtain ⟨h0, -, -, -, h4, -⟩ := groupIndices_lt ha ha ha
  simp only [specSyms, List.flatMap_cons, List.flatMap_nil, Spec.bitsOfByte, List.map_cons,
    List.map_nil, List.cons_append, List.nil_append, List.append_nil, Spec.sixes, Spec.bitsToNat,
    List.foldl_cons, List.foldl_nil, Nat.toNat_testBit, sym_eq_table h0, sym_eq_table h4,
    List.length_cons, List.length_nil, List.replicate, Nat.reduceAdd, Nat.reduceSub,
    Bool.toNat_false, Nat.reducePow]
  congr 1
  · congr 1; omega
  congr 1
  congr 1; omega

theorem specSyms_two (a b : UInt8) :
    specSyms [a, b] =
      [sym (a.toNat / 4), sym (a.toNat % 4 * 16 + b.toNat / 16), sym (b.toNat % 16 * 4)] := by
  have ha := a.toNat_lt
  have hb := b.toNat_lt
  obtain ⟨h0, h1, -, -, -, h5⟩ := groupIndices_lt ha hb ha
  simp only [specSyms, List.flatMap_cons, List.flatMap_nil, Spec.bitsOfByte, List.map_cons,
    List.map_nil, List.cons_append, List.nil_append, List.append_nil, Spec.sixes, Spec.bitsToNat,
    List.foldl_cons, List.foldl_nil, Nat.toNat_testBit, sym_eq_table h0, sym_eq_table h1,
    sym_eq_table h5, List.length_cons, List.length_nil, List.replicate, Nat.reduceAdd,
    Nat.reduceSub, Bool.toNat_false, Nat.reducePow]
  congr 1
  · congr 1; omega
  congr 1
  · congr 1; omega
  congr 1
  congr 1; omega

theorem encode_eq_spec' (bs : Bytes) : encode bs = Spec.encode bs := by
  induction bs using encode.induct with
  | case1 a b c rest ih =>
    rw [encode, ih, spec_encode_eq, spec_encode_eq, specSyms_group, List.append_assoc]
    congr 3
    simp [groupIndices]
    omega
  | case2 a => rw [encode, spec_encode_eq, specSyms_one]; rfl
  | case3 a b => rw [encode, spec_encode_eq, specSyms_two]; rfl
  | case4 => rfl

end Humphrey.Base64
