import HumphreyModel.Proofs.ConfModelRoutes
import HumphreyModel.Proofs.ConfClean

/-!
C15: the blacklist list file (`load_list_file` + the address loop): a file holding one dotted-quad
address per line loads as exactly those addresses. This discharges the file-system hypothesis of
`Cfg.WF.blacklist` for generated list files.
-/
namespace Humphrey.Conf

theorem cfgrt_showNat_small {n : Nat} (h : n < 10) : showNat n = [digitChar n] := by
  rw [showNat_unfold, if_pos h]

theorem cfgrt_showNat_len {n : Nat} (h : n < 1000) : 1 ≤ (showNat n).length ∧ (showNat n).length ≤ 3 := by
  rw [showNat_unfold]
  split
  · simp
  · rw [showNat_unfold (n / 10)]
    split
    · simp
    · rw [cfgrt_showNat_small (show n / 10 / 10 < 10 by omega)]
      simp

theorem cfgrt_digitChar_nz {d : Nat} (h1 : 1 ≤ d) (h2 : d < 10) : digitChar d ≠ '0' := by
  have : d = 1 ∨ d = 2 ∨ d = 3 ∨ d = 4 ∨ d = 5 ∨ d = 6 ∨ d = 7 ∨ d = 8 ∨ d = 9 := by omega
  rcases this with rfl | rfl | rfl | rfl | rfl | rfl | rfl | rfl | rfl <;> decide

theorem cfgrt_showNat_head_nz {n : Nat} (h : 1 ≤ n) : (showNat n).head? ≠ some '0' := by
  induction n using Nat.strongRecOn with
  | _ n ih =>
    rw [showNat_unfold]
    split
    · rename_i hlt
      simp only [List.head?_cons, ne_eq, Option.some.injEq]
      exact cfgrt_digitChar_nz h hlt
    · rename_i hge
      have hne := showNat_ne_nil (n / 10)
      have e : (showNat (n / 10) ++ [digitChar (n % 10)]).head? = (showNat (n / 10)).head? := by
        cases hs : showNat (n / 10) with
        | nil => exact absurd hs hne
        | cons c r => rfl
      rw [e]
      exact ih (n / 10) (by omega) (by omega)

theorem cfgrt_parseOctet_showNat {a : Nat} (h : a ≤ 255) : parseOctet (showNat a) = some a := by
  obtain ⟨h1, h3⟩ := cfgrt_showNat_len (show a < 1000 by omega)
  have hz : ¬ ((showNat a).length > 1 ∧ (showNat a).head? = some '0') := by
    intro ⟨hl, hh⟩
    by_cases ha : a < 10
    · rw [cfgrt_showNat_small ha] at hl; simp at hl
    · exact cfgrt_showNat_head_nz (by omega) hh
  unfold parseOctet
  rw [if_neg (by omega), if_neg hz, parseDigits_showNat]
  simp [h]

theorem cfgrt_digits_no_dot (n : Nat) : ∀ x ∈ showNat n, x ≠ '.' :=
  fun x hx => (showNat_all_digits n x hx).ne_of_toNat (by decide)

theorem cfgrt_parseIpv4_text {i : Ip4} (h : i.ok) : parseIpv4 i.text = some i.text := by
  obtain ⟨ha, hb, hc, hd⟩ := h
  have hs : splitAll '.' i.text = [showNat i.a, showNat i.b, showNat i.c, showNat i.d] := by
    unfold Ip4.text
    have e : showNat i.a ++ '.' :: showNat i.b ++ '.' :: showNat i.c ++ '.' :: showNat i.d =
        showNat i.a ++ '.' :: (showNat i.b ++ '.' :: (showNat i.c ++ '.' :: showNat i.d)) := by simp
    rw [e, cfgrt_splitAll_append (cfgrt_digits_no_dot _), cfgrt_splitAll_append (cfgrt_digits_no_dot _),
      cfgrt_splitAll_append (cfgrt_digits_no_dot _), cfgrt_splitAll_none (cfgrt_digits_no_dot _)]
  unfold parseIpv4
  rw [hs]
  simp only [cfgrt_parseOctet_showNat ha, cfgrt_parseOctet_showNat hb, cfgrt_parseOctet_showNat hc,
    cfgrt_parseOctet_showNat hd]
  simp [Ip4.text]

theorem cfgrt_parseIps_texts (ips : List Ip4) (h : ∀ i ∈ ips, i.ok) :
    parseIps (ips.map Ip4.text) = some (ips.map Ip4.text) := by
  induction ips with
  | nil => rfl
  | cons i ips ih =>
    simp only [List.map_cons, parseIps, cfgrt_parseIpv4_text (h i (by simp)),
      ih (fun j hj => h j (by simp [hj]))]

theorem cfgrt_ip_text_clean (i : Ip4) : (∀ x ∈ i.text, cleanCh x) ∧ i.text ≠ [] := by
  have hd : ∀ n, ∀ x ∈ showNat n, cleanCh x := fun n x hx =>
    ⟨(showNat_all_digits n x hx).ne_of_toNat (by decide), (showNat_all_digits n x hx).ne_of_toNat (by decide)⟩
  constructor
  · intro x hx
    simp only [Ip4.text, List.mem_append, List.mem_cons] at hx
    rcases hx with ((hx | rfl | hx) | rfl | hx) | rfl | hx
    · exact hd _ x hx
    · exact ⟨by decide, by decide⟩
    · exact hd _ x hx
    · exact ⟨by decide, by decide⟩
    · exact hd _ x hx
    · exact ⟨by decide, by decide⟩
    · exact hd _ x hx
  · have := showNat_ne_nil i.a
    simp [Ip4.text, this]

/-- **A generated list file loads as its addresses.** -/
theorem cfgrt_loadBlacklist_text (fs : FS) (p : Str) (ips : List Ip4) (h : ∀ i ∈ ips, i.ok)
    (hfs : fs p = .text (blacklistText ips)) : loadBlacklist fs (some p) = .ok (ips.map Ip4.text) := by
  have hl : splitLines (blacklistText ips) = ips.map Ip4.text := by
    unfold blacklistText
    cases ips with
    | nil => rfl
    | cons i ips =>
      apply splitLines_joinLines
      · simp
      · intro l hl
        obtain ⟨j, _, rfl⟩ := List.mem_map.mp hl
        exact clean_of_all (cfgrt_ip_text_clean j).1
      · intro e
        obtain ⟨j, _, hj⟩ := List.mem_map.mp (List.mem_of_getLast? e)
        exact (cfgrt_ip_text_clean j).2 hj
  unfold loadBlacklist
  simp only [hfs, hl, cfgrt_parseIps_texts ips h]

end Humphrey.Conf
