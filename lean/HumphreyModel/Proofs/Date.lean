import HumphreyModel.Model.Date
import HumphreyModel.Spec.Date

/-!
Helper lemmas for C18 (dates): one lemma per block of `DateTime.from`, the month loop as a
12-way case table, and facts about the specification itself.
-/
set_option linter.unusedSimpArgs false
namespace Humphrey.Date
open Humphrey.Date.Spec

/-! ### The specification's own sanity: `daysBeforeYear` is the running sum of year lengths -/

theorem isLeap_iff (y : Int) : isLeap y = true ↔ (y % 4 = 0 ∧ y % 100 ≠ 0) ∨ y % 400 = 0 := by
  simp [isLeap]

theorem daysBeforeYear_1970 : daysBeforeYear 1970 = 0 := by decide

theorem daysBeforeYear_succ (y : Int) : daysBeforeYear (y + 1) = daysBeforeYear y + yearLength y := by
  unfold daysBeforeYear leapYearsBefore yearLength
  simp only [isLeap_iff]
  split <;> omega

/-- The twelve month lengths of a year add up to its length. -/
theorem daysBeforeMonth_12 (y : Int) : daysBeforeMonth y 12 = yearLength y := by
  simp only [daysBeforeMonth, daysInMonth, yearLength]
  split <;> omega

/-! ### Rust's truncating division in terms omega understands -/

theorem tdiv_tmod_facts (a b : Int) (hb : 0 < b) :
    b * a.tdiv b + a.tmod b = a ∧ -b < a.tmod b ∧ a.tmod b < b ∧
    (0 ≤ a → 0 ≤ a.tmod b) ∧ (a ≤ 0 → a.tmod b ≤ 0) := by
  refine ⟨Int.mul_tdiv_add_tmod a b, Int.lt_tmod_of_pos a hb, Int.tmod_lt_of_pos a hb,
    Int.tmod_nonneg b, ?_⟩
  intro h
  have := Int.tmod_nonneg b (show 0 ≤ -a by omega)
  rw [Int.neg_tmod] at this
  omega

/-! ### The blocks of `from` -/

theorem DAY_eq : DAY = 86400 := by decide
theorem DAYS_400_YEARS_eq : DAYS_400_YEARS = 146097 := by decide
theorem DAYS_100_YEARS_eq : DAYS_100_YEARS = 36524 := by decide
theorem DAYS_4_YEARS_eq : DAYS_4_YEARS = 1461 := by decide

/-- The first block computes floor division by 86400. -/
theorem splitSeconds_spec (s : Int) :
    (splitSeconds s).1 * 86400 + (splitSeconds s).2 = s ∧
    0 ≤ (splitSeconds s).2 ∧ (splitSeconds s).2 < 86400 := by
  have h := tdiv_tmod_facts s 86400 (by decide)
  unfold splitSeconds
  simp only [DAY_eq]
  split <;> simp only <;> omega

theorem weekdayOf_spec (days : Int) : weekdayOf days = (days + 3) % 7 := by
  have h := tdiv_tmod_facts (days + 3) 7 (by decide)
  unfold weekdayOf
  simp only
  split <;> omega

theorem split400_spec (d : Int) :
    (split400 d).1 * 146097 + (split400 d).2 = d ∧ 0 ≤ (split400 d).2 ∧ (split400 d).2 < 146097 := by
  have h := tdiv_tmod_facts d 146097 (by decide)
  unfold split400
  simp only [DAYS_400_YEARS_eq]
  split <;> simp only <;> omega

theorem split100_spec (r : Int) (h0 : 0 ≤ r) (h1 : r < 146097) :
    (split100 r).1 * 36524 + (split100 r).2 = r ∧ 0 ≤ (split100 r).1 ∧ (split100 r).1 ≤ 3 ∧
    0 ≤ (split100 r).2 ∧ (split100 r).2 ≤ 36524 ∧ ((split100 r).1 < 3 → (split100 r).2 < 36524) := by
  have h := tdiv_tmod_facts r 36524 (by decide)
  unfold split100
  simp only [DAYS_100_YEARS_eq]
  split <;> omega

theorem split4_spec (r : Int) (h0 : 0 ≤ r) (h1 : r ≤ 36524) :
    (split4 r).1 * 1461 + (split4 r).2 = r ∧ 0 ≤ (split4 r).1 ∧ (split4 r).1 ≤ 24 ∧
    0 ≤ (split4 r).2 ∧ (split4 r).2 ≤ 1460 ∧
    (r < 36524 → (split4 r).1 = 24 → (split4 r).2 < 1460) := by
  have h := tdiv_tmod_facts r 1461 (by decide)
  unfold split4
  simp only [DAYS_4_YEARS_eq]
  split <;> omega

theorem split1_spec (r : Int) (h0 : 0 ≤ r) (h1 : r ≤ 1460) :
    (split1 r).1 * 365 + (split1 r).2 = r ∧ 0 ≤ (split1 r).1 ∧ (split1 r).1 ≤ 3 ∧
    0 ≤ (split1 r).2 ∧ (split1 r).2 ≤ 365 ∧ ((split1 r).1 < 3 → (split1 r).2 < 365) := by
  have h := tdiv_tmod_facts r 365 (by decide)
  unfold split1
  simp only
  split <;> omega

theorem monthLoop_go (dim : Int) (rest : List Int) (k rd : Int) (h : dim ≤ rd) :
    monthLoop (dim :: rest) k rd = monthLoop rest (k + 1) (rd - dim) := by
  simp only [monthLoop, h, if_true]

theorem monthLoop_stop (dim : Int) (rest : List Int) (k rd : Int) (h : rd < dim) :
    monthLoop (dim :: rest) k rd = some (k, rd) := by
  have : ¬ dim ≤ rd := by omega
  simp only [monthLoop, this, if_false]

/-- The month loop on a day-of-year of the March-based year: the explicit table. -/
theorem monthLoop_table (rd : Int) (h0 : 0 ≤ rd) (h1 : rd < 366) :
    ∃ k r, monthLoop DAYS_IN_MONTHS 0 rd = some (k, r) ∧
      ((k = 0 ∧ r = rd ∧ rd < 31) ∨
       (k = 1 ∧ r = rd - 31 ∧ 31 ≤ rd ∧ rd < 61) ∨
       (k = 2 ∧ r = rd - 61 ∧ 61 ≤ rd ∧ rd < 92) ∨
       (k = 3 ∧ r = rd - 92 ∧ 92 ≤ rd ∧ rd < 122) ∨
       (k = 4 ∧ r = rd - 122 ∧ 122 ≤ rd ∧ rd < 153) ∨
       (k = 5 ∧ r = rd - 153 ∧ 153 ≤ rd ∧ rd < 184) ∨
       (k = 6 ∧ r = rd - 184 ∧ 184 ≤ rd ∧ rd < 214) ∨
       (k = 7 ∧ r = rd - 214 ∧ 214 ≤ rd ∧ rd < 245) ∨
       (k = 8 ∧ r = rd - 245 ∧ 245 ≤ rd ∧ rd < 275) ∨
       (k = 9 ∧ r = rd - 275 ∧ 275 ≤ rd ∧ rd < 306) ∨
       (k = 10 ∧ r = rd - 306 ∧ 306 ≤ rd ∧ rd < 337) ∨
       (k = 11 ∧ r = rd - 337 ∧ 337 ≤ rd)) := by
  unfold DAYS_IN_MONTHS
  by_cases c0 : rd < 31
  · refine ⟨0, rd, ?_, ?_⟩
    · rw [monthLoop_stop _ _ _ _ (by omega)]
    · exact Or.inl ⟨rfl, rfl, by omega⟩
  by_cases c1 : rd < 61
  · refine ⟨0 + 1, rd - 31, ?_, ?_⟩
    · rw [monthLoop_go _ _ _ _ (by omega), monthLoop_stop _ _ _ _ (by omega)]
    · exact Or.inr (Or.inl ⟨by omega, by omega, by omega, by omega⟩)
  by_cases c2 : rd < 92
  · refine ⟨0 + 1 + 1, rd - 31 - 30, ?_, ?_⟩
    · rw [monthLoop_go _ _ _ _ (by omega), monthLoop_go _ _ _ _ (by omega), monthLoop_stop _ _ _ _ (by omega)]
    · exact Or.inr (Or.inr (Or.inl ⟨by omega, by omega, by omega, by omega⟩))
  by_cases c3 : rd < 122
  · refine ⟨0 + 1 + 1 + 1, rd - 31 - 30 - 31, ?_, ?_⟩
    · rw [monthLoop_go _ _ _ _ (by omega), monthLoop_go _ _ _ _ (by omega), monthLoop_go _ _ _ _ (by omega), monthLoop_stop _ _ _ _ (by omega)]
    · exact Or.inr (Or.inr (Or.inr (Or.inl ⟨by omega, by omega, by omega, by omega⟩)))
  by_cases c4 : rd < 153
  · refine ⟨0 + 1 + 1 + 1 + 1, rd - 31 - 30 - 31 - 30, ?_, ?_⟩
    · rw [monthLoop_go _ _ _ _ (by omega), monthLoop_go _ _ _ _ (by omega), monthLoop_go _ _ _ _ (by omega), monthLoop_go _ _ _ _ (by omega), monthLoop_stop _ _ _ _ (by omega)]
    · exact Or.inr (Or.inr (Or.inr (Or.inr (Or.inl ⟨by omega, by omega, by omega, by omega⟩))))
  by_cases c5 : rd < 184
  · refine ⟨0 + 1 + 1 + 1 + 1 + 1, rd - 31 - 30 - 31 - 30 - 31, ?_, ?_⟩
    · rw [monthLoop_go _ _ _ _ (by omega), monthLoop_go _ _ _ _ (by omega), monthLoop_go _ _ _ _ (by omega), monthLoop_go _ _ _ _ (by omega), monthLoop_go _ _ _ _ (by omega), monthLoop_stop _ _ _ _ (by omega)]
    · exact Or.inr (Or.inr (Or.inr (Or.inr (Or.inr (Or.inl ⟨by omega, by omega, by omega, by omega⟩)))))
  by_cases c6 : rd < 214
  · refine ⟨0 + 1 + 1 + 1 + 1 + 1 + 1, rd - 31 - 30 - 31 - 30 - 31 - 31, ?_, ?_⟩
    · rw [monthLoop_go _ _ _ _ (by omega), monthLoop_go _ _ _ _ (by omega), monthLoop_go _ _ _ _ (by omega), monthLoop_go _ _ _ _ (by omega), monthLoop_go _ _ _ _ (by omega), monthLoop_go _ _ _ _ (by omega), monthLoop_stop _ _ _ _ (by omega)]
    · exact Or.inr (Or.inr (Or.inr (Or.inr (Or.inr (Or.inr (Or.inl ⟨by omega, by omega, by omega, by omega⟩))))))
  by_cases c7 : rd < 245
  · refine ⟨0 + 1 + 1 + 1 + 1 + 1 + 1 + 1, rd - 31 - 30 - 31 - 30 - 31 - 31 - 30, ?_, ?_⟩
    · rw [monthLoop_go _ _ _ _ (by omega), monthLoop_go _ _ _ _ (by omega), monthLoop_go _ _ _ _ (by omega), monthLoop_go _ _ _ _ (by omega), monthLoop_go _ _ _ _ (by omega), monthLoop_go _ _ _ _ (by omega), monthLoop_go _ _ _ _ (by omega), monthLoop_stop _ _ _ _ (by omega)]
    · exact Or.inr (Or.inr (Or.inr (Or.inr (Or.inr (Or.inr (Or.inr (Or.inl ⟨by omega, by omega, by omega, by omega⟩)))))))
  by_cases c8 : rd < 275
  · refine ⟨0 + 1 + 1 + 1 + 1 + 1 + 1 + 1 + 1, rd - 31 - 30 - 31 - 30 - 31 - 31 - 30 - 31, ?_, ?_⟩
    · rw [monthLoop_go _ _ _ _ (by omega), monthLoop_go _ _ _ _ (by omega), monthLoop_go _ _ _ _ (by omega), monthLoop_go _ _ _ _ (by omega), monthLoop_go _ _ _ _ (by omega), monthLoop_go _ _ _ _ (by omega), monthLoop_go _ _ _ _ (by omega), monthLoop_go _ _ _ _ (by omega), monthLoop_stop _ _ _ _ (by omega)]
    · exact Or.inr (Or.inr (Or.inr (Or.inr (Or.inr (Or.inr (Or.inr (Or.inr (Or.inl ⟨by omega, by omega, by omega, by omega⟩))))))))
  by_cases c9 : rd < 306
  · refine ⟨0 + 1 + 1 + 1 + 1 + 1 + 1 + 1 + 1 + 1, rd - 31 - 30 - 31 - 30 - 31 - 31 - 30 - 31 - 30, ?_, ?_⟩
    · rw [monthLoop_go _ _ _ _ (by omega), monthLoop_go _ _ _ _ (by omega), monthLoop_go _ _ _ _ (by omega), monthLoop_go _ _ _ _ (by omega), monthLoop_go _ _ _ _ (by omega), monthLoop_go _ _ _ _ (by omega), monthLoop_go _ _ _ _ (by omega), monthLoop_go _ _ _ _ (by omega), monthLoop_go _ _ _ _ (by omega), monthLoop_stop _ _ _ _ (by omega)]
    · exact Or.inr (Or.inr (Or.inr (Or.inr (Or.inr (Or.inr (Or.inr (Or.inr (Or.inr (Or.inl ⟨by omega, by omega, by omega, by omega⟩)))))))))
  by_cases c10 : rd < 337
  · refine ⟨0 + 1 + 1 + 1 + 1 + 1 + 1 + 1 + 1 + 1 + 1, rd - 31 - 30 - 31 - 30 - 31 - 31 - 30 - 31 - 30 - 31, ?_, ?_⟩
    · rw [monthLoop_go _ _ _ _ (by omega), monthLoop_go _ _ _ _ (by omega), monthLoop_go _ _ _ _ (by omega), monthLoop_go _ _ _ _ (by omega), monthLoop_go _ _ _ _ (by omega), monthLoop_go _ _ _ _ (by omega), monthLoop_go _ _ _ _ (by omega), monthLoop_go _ _ _ _ (by omega), monthLoop_go _ _ _ _ (by omega), monthLoop_go _ _ _ _ (by omega), monthLoop_stop _ _ _ _ (by omega)]
    · exact Or.inr (Or.inr (Or.inr (Or.inr (Or.inr (Or.inr (Or.inr (Or.inr (Or.inr (Or.inr (Or.inl ⟨by omega, by omega, by omega, by omega⟩))))))))))
  refine ⟨0 + 1 + 1 + 1 + 1 + 1 + 1 + 1 + 1 + 1 + 1 + 1, rd - 31 - 30 - 31 - 30 - 31 - 31 - 30 - 31 - 30 - 31 - 31, ?_, ?_⟩
  · rw [monthLoop_go _ _ _ _ (by omega), monthLoop_go _ _ _ _ (by omega), monthLoop_go _ _ _ _ (by omega), monthLoop_go _ _ _ _ (by omega), monthLoop_go _ _ _ _ (by omega), monthLoop_go _ _ _ _ (by omega), monthLoop_go _ _ _ _ (by omega), monthLoop_go _ _ _ _ (by omega), monthLoop_go _ _ _ _ (by omega), monthLoop_go _ _ _ _ (by omega), monthLoop_go _ _ _ _ (by omega), monthLoop_stop _ _ _ _ (by omega)]
  · exact Or.inr (Or.inr (Or.inr (Or.inr (Or.inr (Or.inr (Or.inr (Or.inr (Or.inr (Or.inr (Or.inr (⟨by omega, by omega, by omega⟩)))))))))))

/-! ### From the March-based year to the civil date -/

/-- 1 in leap years, 0 otherwise. -/
def leapDay (y : Int) : Int := if isLeap y then 1 else 0

theorem leapDay_cases (y : Int) :
    (leapDay y = 1 ∧ ((y % 4 = 0 ∧ y % 100 ≠ 0) ∨ y % 400 = 0)) ∨
    (leapDay y = 0 ∧ ¬ ((y % 4 = 0 ∧ y % 100 ≠ 0) ∨ y % 400 = 0)) := by
  by_cases h : isLeap y = true
  · exact Or.inl ⟨by unfold leapDay; rw [if_pos h], (isLeap_iff y).mp h⟩
  · exact Or.inr ⟨by unfold leapDay; rw [if_neg h], fun h' => h ((isLeap_iff y).mpr h')⟩

theorem march_first (a b c q : Int) (ha : 0 ≤ a) (ha' : a ≤ 3) (hb : 0 ≤ b) (hb' : b ≤ 24)
    (hc : 0 ≤ c) (hc' : c ≤ 3) (y : Int) (hy : y = a + 4 * b + 100 * c + 400 * q + 2000) :
    daysBeforeYear y + 59 + leapDay y =
      11017 + 146097 * q + 36524 * c + 1461 * b + 365 * a := by
  unfold daysBeforeYear leapYearsBefore
  rcases leapDay_cases y with ⟨h, hl⟩ | ⟨h, hl⟩ <;> rw [h] <;> omega

theorem next_leap (a b c q : Int) (ha : 0 ≤ a) (ha' : a ≤ 3) (hb : 0 ≤ b) (hb' : b ≤ 24)
    (hc : 0 ≤ c) (hc' : c ≤ 3) (y : Int) (hy : y = a + 4 * b + 100 * c + 400 * q + 2000) :
    leapDay (y + 1) = 1 ↔ (a = 3 ∧ (b < 24 ∨ c = 3)) := by
  rcases leapDay_cases (y + 1) with ⟨h, hl⟩ | ⟨h, hl⟩ <;> rw [h] <;> omega

theorem feb_len (y : Int) : (if isLeap y = true then (29 : Int) else 28) = 28 + leapDay y := by
  unfold leapDay; split <;> rfl

theorem daysBeforeYear_succ' (y : Int) : daysBeforeYear (y + 1) = daysBeforeYear y + 365 + leapDay y := by
  rw [daysBeforeYear_succ]; unfold yearLength leapDay; split <;> omega

theorem leapDay_range (y : Int) : 0 ≤ leapDay y ∧ leapDay y ≤ 1 := by
  unfold leapDay; split <;> omega

theorem civil_of_march_based (y rd k r : Int) (hrd0 : 0 ≤ rd) (hrd : rd < 365 + leapDay (y + 1))
    (hk : (k = 0 ∧ r = rd ∧ rd < 31) ∨
       (k = 1 ∧ r = rd - 31 ∧ 31 ≤ rd ∧ rd < 61) ∨
       (k = 2 ∧ r = rd - 61 ∧ 61 ≤ rd ∧ rd < 92) ∨
       (k = 3 ∧ r = rd - 92 ∧ 92 ≤ rd ∧ rd < 122) ∨
       (k = 4 ∧ r = rd - 122 ∧ 122 ≤ rd ∧ rd < 153) ∨
       (k = 5 ∧ r = rd - 153 ∧ 153 ≤ rd ∧ rd < 184) ∨
       (k = 6 ∧ r = rd - 184 ∧ 184 ≤ rd ∧ rd < 214) ∨
       (k = 7 ∧ r = rd - 214 ∧ 214 ≤ rd ∧ rd < 245) ∨
       (k = 8 ∧ r = rd - 245 ∧ 245 ≤ rd ∧ rd < 275) ∨
       (k = 9 ∧ r = rd - 275 ∧ 275 ≤ rd ∧ rd < 306) ∨
       (k = 10 ∧ r = rd - 306 ∧ 306 ≤ rd ∧ rd < 337) ∨
       (k = 11 ∧ r = rd - 337 ∧ 337 ≤ rd)) :
    ∃ m : Nat, asU8 (shiftMonth k y).1 = m ∧ m < 12 ∧ 1 ≤ r + 1 ∧
      r + 1 ≤ daysInMonth (shiftMonth k y).2 m ∧ r ≤ 30 ∧
      daysFromCivil (shiftMonth k y).2 m (r + 1) = daysBeforeYear y + 59 + leapDay y + rd ∧
      daysBeforeMonth (shiftMonth k y).2 m + r ≤ 364 + leapDay (shiftMonth k y).2 := by
  have hl := leapDay_range y
  have hl' := leapDay_range (y + 1)
  rcases hk with hk | hk | hk | hk | hk | hk | hk | hk | hk | hk | hk | hk
  · obtain ⟨rfl, rfl, hk⟩ := hk
    refine ⟨2, by simp only [shiftMonth, Int.reduceAdd, Int.reduceSub, ge_iff_le, Int.reduceLE, ↓reduceIte]; decide, by decide, ?_⟩
    simp only [shiftMonth, Int.reduceAdd, Int.reduceSub, ge_iff_le, Int.reduceLE, ↓reduceIte]
    unfold daysFromCivil
    simp only [daysBeforeMonth, daysInMonth, feb_len, daysBeforeYear_succ', leapDay_range]
    omega
  · obtain ⟨rfl, rfl, hk1, hk2⟩ := hk
    refine ⟨3, by simp only [shiftMonth, Int.reduceAdd, Int.reduceSub, ge_iff_le, Int.reduceLE, ↓reduceIte]; decide, by decide, ?_⟩
    simp only [shiftMonth, Int.reduceAdd, Int.reduceSub, ge_iff_le, Int.reduceLE, ↓reduceIte]
    unfold daysFromCivil
    simp only [daysBeforeMonth, daysInMonth, feb_len, daysBeforeYear_succ', leapDay_range]
    omega
  · obtain ⟨rfl, rfl, hk1, hk2⟩ := hk
    refine ⟨4, by simp only [shiftMonth, Int.reduceAdd, Int.reduceSub, ge_iff_le, Int.reduceLE, ↓reduceIte]; decide, by decide, ?_⟩
    simp only [shiftMonth, Int.reduceAdd, Int.reduceSub, ge_iff_le, Int.reduceLE, ↓reduceIte]
    unfold daysFromCivil
    simp only [daysBeforeMonth, daysInMonth, feb_len, daysBeforeYear_succ', leapDay_range]
    omega
  · obtain ⟨rfl, rfl, hk1, hk2⟩ := hk
    refine ⟨5, by simp only [shiftMonth, Int.reduceAdd, Int.reduceSub, ge_iff_le, Int.reduceLE, ↓reduceIte]; decide, by decide, ?_⟩
    simp only [shiftMonth, Int.reduceAdd, Int.reduceSub, ge_iff_le, Int.reduceLE, ↓reduceIte]
    unfold daysFromCivil
    simp only [daysBeforeMonth, daysInMonth, feb_len, daysBeforeYear_succ', leapDay_range]
    omega
  · obtain ⟨rfl, rfl, hk1, hk2⟩ := hk
    refine ⟨6, by simp only [shiftMonth, Int.reduceAdd, Int.reduceSub, ge_iff_le, Int.reduceLE, ↓reduceIte]; decide, by decide, ?_⟩
    simp only [shiftMonth, Int.reduceAdd, Int.reduceSub, ge_iff_le, Int.reduceLE, ↓reduceIte]
    unfold daysFromCivil
    simp only [daysBeforeMonth, daysInMonth, feb_len, daysBeforeYear_succ', leapDay_range]
    omega
  · obtain ⟨rfl, rfl, hk1, hk2⟩ := hk
    refine ⟨7, by simp only [shiftMonth, Int.reduceAdd, Int.reduceSub, ge_iff_le, Int.reduceLE, ↓reduceIte]; decide, by decide, ?_⟩
    simp only [shiftMonth, Int.reduceAdd, Int.reduceSub, ge_iff_le, Int.reduceLE, ↓reduceIte]
    unfold daysFromCivil
    simp only [daysBeforeMonth, daysInMonth, feb_len, daysBeforeYear_succ', leapDay_range]
    omega
  · obtain ⟨rfl, rfl, hk1, hk2⟩ := hk
    refine ⟨8, by simp only [shiftMonth, Int.reduceAdd, Int.reduceSub, ge_iff_le, Int.reduceLE, ↓reduceIte]; decide, by decide, ?_⟩
    simp only [shiftMonth, Int.reduceAdd, Int.reduceSub, ge_iff_le, Int.reduceLE, ↓reduceIte]
    unfold daysFromCivil
    simp only [daysBeforeMonth, daysInMonth, feb_len, daysBeforeYear_succ', leapDay_range]
    omega
  · obtain ⟨rfl, rfl, hk1, hk2⟩ := hk
    refine ⟨9, by simp only [shiftMonth, Int.reduceAdd, Int.reduceSub, ge_iff_le, Int.reduceLE, ↓reduceIte]; decide, by decide, ?_⟩
    simp only [shiftMonth, Int.reduceAdd, Int.reduceSub, ge_iff_le, Int.reduceLE, ↓reduceIte]
    unfold daysFromCivil
    simp only [daysBeforeMonth, daysInMonth, feb_len, daysBeforeYear_succ', leapDay_range]
    omega
  · obtain ⟨rfl, rfl, hk1, hk2⟩ := hk
    refine ⟨10, by simp only [shiftMonth, Int.reduceAdd, Int.reduceSub, ge_iff_le, Int.reduceLE, ↓reduceIte]; decide, by decide, ?_⟩
    simp only [shiftMonth, Int.reduceAdd, Int.reduceSub, ge_iff_le, Int.reduceLE, ↓reduceIte]
    unfold daysFromCivil
    simp only [daysBeforeMonth, daysInMonth, feb_len, daysBeforeYear_succ', leapDay_range]
    omega
  · obtain ⟨rfl, rfl, hk1, hk2⟩ := hk
    refine ⟨11, by simp only [shiftMonth, Int.reduceAdd, Int.reduceSub, ge_iff_le, Int.reduceLE, ↓reduceIte]; decide, by decide, ?_⟩
    simp only [shiftMonth, Int.reduceAdd, Int.reduceSub, ge_iff_le, Int.reduceLE, ↓reduceIte]
    unfold daysFromCivil
    simp only [daysBeforeMonth, daysInMonth, feb_len, daysBeforeYear_succ', leapDay_range]
    omega
  · obtain ⟨rfl, rfl, hk1, hk2⟩ := hk
    refine ⟨0, by simp only [shiftMonth, Int.reduceAdd, Int.reduceSub, ge_iff_le, Int.reduceLE, ↓reduceIte]; decide, by decide, ?_⟩
    simp only [shiftMonth, Int.reduceAdd, Int.reduceSub, ge_iff_le, Int.reduceLE, ↓reduceIte]
    unfold daysFromCivil
    simp only [daysBeforeMonth, daysInMonth, feb_len, daysBeforeYear_succ', leapDay_range]
    omega
  · obtain ⟨rfl, rfl, hk⟩ := hk
    refine ⟨1, by simp only [shiftMonth, Int.reduceAdd, Int.reduceSub, ge_iff_le, Int.reduceLE, ↓reduceIte]; decide, by decide, ?_⟩
    simp only [shiftMonth, Int.reduceAdd, Int.reduceSub, ge_iff_le, Int.reduceLE, ↓reduceIte]
    unfold daysFromCivil
    simp only [daysBeforeMonth, daysInMonth, feb_len, daysBeforeYear_succ', leapDay_range]
    omega


theorem daysInMonth_nonneg (y : Int) (m : Nat) : 0 ≤ daysInMonth y m := by
  unfold daysInMonth; split <;> (try split) <;> omega

theorem daysInMonth_le_31 (y : Int) (m : Nat) : daysInMonth y m ≤ 31 := by
  unfold daysInMonth; split <;> (try split) <;> omega

theorem daysBeforeMonth_nonneg (y : Int) (m : Nat) : 0 ≤ daysBeforeMonth y m := by
  induction m with
  | zero => simp only [daysBeforeMonth]; omega
  | succ m ih => have := daysInMonth_nonneg y m; simp only [daysBeforeMonth]; omega

/-- A day number in 1970-01-01 … 9999-12-31 lies in a year 1970 … 9999. -/
theorem year_range (Y doy : Int) (h0 : 0 ≤ daysBeforeYear Y + doy) (h1 : daysBeforeYear Y + doy ≤ 2932896)
    (hd0 : 0 ≤ doy) (hd : doy ≤ 364 + leapDay Y) : 1970 ≤ Y ∧ Y ≤ 9999 := by
  unfold daysBeforeYear leapYearsBefore at h0 h1
  have hr := leapDay_range Y
  rcases (show Y ≤ 1968 ∨ Y = 1969 ∨ (1970 ≤ Y ∧ Y ≤ 9999) ∨ Y = 10000 ∨ 10001 ≤ Y by omega) with
    hY | hY | hY | hY | hY
  · omega
  · subst hY
    rcases leapDay_cases 1969 with ⟨h, hl⟩ | ⟨h, hl⟩ <;> rw [h] at hd <;> omega
  · exact hY
  · subst hY; omega
  · omega

theorem asU16_cast (x : Int) (h0 : 0 ≤ x) (h1 : x < 65536) : ((asU16 x : Nat) : Int) = x := by
  unfold asU16; omega

theorem asU8_cast (x : Int) (h0 : 0 ≤ x) (h1 : x < 256) : ((asU8 x : Nat) : Int) = x := by
  unfold asU8; omega

end Humphrey.Date
