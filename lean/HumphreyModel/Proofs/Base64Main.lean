import HumphreyModel.Proofs.Base64Decode

/-! Main lemmas for the Base64 decoder: group-wise shape, soundness and completeness. -/
namespace Humphrey.Base64

/-- Well-formedness read group by group (equivalent to `Spec.Shape`, `gshape_iff_shape`). -/
inductive GShape : Bytes → Prop
  | nil : GShape []
  | full {a b c d : UInt8} {rest : Bytes} : a ∈ Spec.table → b ∈ Spec.table → c ∈ Spec.table →
      d ∈ Spec.table → GShape rest → GShape (a :: b :: c :: d :: rest)
  | pad1 {a b c : UInt8} : a ∈ Spec.table → b ∈ Spec.table → c ∈ Spec.table → GShape [a, b, c, 61]
  | pad2 {a b : UInt8} : a ∈ Spec.table → b ∈ Spec.table → GShape [a, b, 61, 61]

theorem GShape.shape {s : Bytes} (h : GShape s) : Spec.Shape s := by
  induction h with
  | nil => exact ⟨[], 0, rfl, by simp, by omega, rfl⟩
  | @full a b c d rest ha hb hc hd _ ih =>
    obtain ⟨body, n, rfl, hall, hn, hlen⟩ := ih
    refine ⟨a :: b :: c :: d :: body, n, rfl, ?_, hn, ?_⟩
    · intro x hx
      simp only [List.mem_cons] at hx
      rcases hx with rfl | rfl | rfl | rfl | hx
      · exact ha
      · exact hb
      · exact hc
      · exact hd
      · exact hall x hx
    · simp only [List.length_cons] at hlen ⊢; omega
  | @pad1 a b c ha hb hc =>
    refine ⟨[a, b, c], 1, rfl, ?_, by omega, by simp⟩
    intro x hx
    simp only [List.mem_cons, List.not_mem_nil, or_false] at hx
    rcases hx with rfl | rfl | rfl <;> assumption
  | @pad2 a b ha hb =>
    refine ⟨[a, b], 2, rfl, ?_, by omega, by simp⟩
    intro x hx
    simp only [List.mem_cons, List.not_mem_nil, or_false] at hx
    rcases hx with rfl | rfl <;> assumption

theorem gshape_of_body : ∀ (k : Nat) (body : Bytes) (n : Nat), body.length ≤ k →
    (∀ c ∈ body, c ∈ Spec.table) → n ≤ 2 → (body.length + n) % 4 = 0 →
    GShape (body ++ List.replicate n Spec.pad) := by
  intro k
  induction k with
  | zero =>
    intro body n hk _ hn hlen
    have : body = [] := List.length_eq_zero_iff.mp (by omega)
    subst this
    have : n = 0 := by simp at hlen; omega
    subst this
    exact .nil
  | succ k ih =>
    intro body n hk hall hn hlen
    match body, hk, hall, hlen with
    | [], _, _, hlen =>
      have : n = 0 := by simp at hlen; omega
      subst this
      exact .nil
    | [a], _, _, hlen => simp at hlen; omega
    | [a, b], _, hall, hlen =>
      have : n = 2 := by simp at hlen; omega
      subst this
      exact .pad2 (hall a (by simp)) (hall b (by simp))
    | [a, b, c], _, hall, hlen =>
      have : n = 1 := by simp at hlen; omega
      subst this
      exact .pad1 (hall a (by simp)) (hall b (by simp)) (hall c (by simp))
    | a :: b :: c :: d :: body', hk, hall, hlen =>
      refine .full (hall a (by simp)) (hall b (by simp)) (hall c (by simp)) (hall d (by simp)) ?_
      apply ih body' n
      · simp at hk; omega
      · intro x hx; exact hall x (by simp [hx])
      · exact hn
      · simp at hlen; omega

theorem gshape_iff_shape (s : Bytes) : GShape s ↔ Spec.Shape s := by
  constructor
  · exact GShape.shape
  · rintro ⟨body, n, rfl, hall, hn, hlen⟩
    exact gshape_of_body body.length body n (Nat.le_refl _) hall hn (by simpa using hlen)

theorem GShape.length_mod {s : Bytes} (h : GShape s) : s.length % 4 = 0 := by
  obtain ⟨_, _, _, _, _, h4⟩ := h.shape
  exact h4

theorem mem_table_sextet {c : UInt8} (h : c ∈ Spec.table) : sextet c = some (Spec.table.idxOf c) :=
  sextet_some_iff.mpr ⟨h, rfl⟩

/-- Completeness: on well-shaped text the loop returns the bit-level decoding. -/
theorem decodeGroups_of_gshape {s : Bytes} (h : GShape s) : decodeGroups s = .ok (Spec.decode s) := by
  induction h with
  | nil => rfl
  | @full a b c d rest ha hb hc hd _ ih =>
    have sa := mem_table_sextet ha
    have sb := mem_table_sextet hb
    have sc := mem_table_sextet hc
    have sd := mem_table_sextet hd
    have hg : decodeGroup rest.isEmpty 0 [a, b, c, d] 0 =
        some (Spec.table.idxOf a * 262144 + Spec.table.idxOf b * 4096 + Spec.table.idxOf c * 64 +
          Spec.table.idxOf d, 4) := by
      rw [decodeGroup_sym _ _ _ _ (mem_table_ne_pad ha) sa,
        decodeGroup_sym _ _ _ _ (mem_table_ne_pad hb) sb,
        decodeGroup_sym _ _ _ _ (mem_table_ne_pad hc) sc,
        decodeGroup_sym _ _ _ _ (mem_table_ne_pad hd) sd]
      simp only [decodeGroup, Option.some.injEq, Prod.mk.injEq, and_true]
      omega
    simp only [decodeGroups, hg, slice1_four, ih, spec_decode_full sa sb sc sd]
  | @pad1 a b c ha hb hc =>
    have sa := mem_table_sextet ha
    have sb := mem_table_sextet hb
    have sc := mem_table_sextet hc
    have hg : decodeGroup true 0 [a, b, c, 61] 0 =
        some (Spec.table.idxOf a * 262144 + Spec.table.idxOf b * 4096 + Spec.table.idxOf c * 64, 3) := by
      rw [decodeGroup_sym _ _ _ _ (mem_table_ne_pad ha) sa,
        decodeGroup_sym _ _ _ _ (mem_table_ne_pad hb) sb,
        decodeGroup_sym _ _ _ _ (mem_table_ne_pad hc) sc, decodeGroup_pad]
      simp
    simp only [decodeGroups, List.isEmpty_nil, hg, slice1_three, spec_decode_pad1 sa sb sc,
      List.append_nil]
  | @pad2 a b ha hb =>
    have sa := mem_table_sextet ha
    have sb := mem_table_sextet hb
    have hg : decodeGroup true 0 [a, b, 61, 61] 0 =
        some (Spec.table.idxOf a * 262144 + Spec.table.idxOf b * 4096, 2) := by
      rw [decodeGroup_sym _ _ _ _ (mem_table_ne_pad ha) sa,
        decodeGroup_sym _ _ _ _ (mem_table_ne_pad hb) sb, decodeGroup_pad]
      simp
    simp only [decodeGroups, List.isEmpty_nil, hg, slice1_two, spec_decode_pad2 sa sb,
      List.append_nil]

theorem sextet_mem {c : UInt8} {v : Nat} (h : sextet c = some v) : c ∈ Spec.table :=
  (sextet_some_iff.mp h).1

/-- Soundness: whatever the loop accepts (on a length that is a multiple of 4) is well shaped and
decodes as the bit-level spec says. -/
theorem decodeGroups_sound (s : Bytes) : ∀ out, s.length % 4 = 0 → decodeGroups s = .ok out →
    GShape s ∧ out = Spec.decode s := by
  induction s using decodeGroups.induct with
  | case1 => intro out _ h; simp [decodeGroups] at h; subst h; exact ⟨.nil, rfl⟩
  | case2 a b c d rest hnone => intro out _ h; simp [decodeGroups, hnone] at h
  | case3 a b c d rest dec br hg hs => intro out _ h; simp [decodeGroups, hg, hs] at h
  | case4 a b c d rest dec br hg o hs r hr ih =>
    intro out hlen h
    simp only [decodeGroups, hg, hs, hr, Outcome.ok.injEq] at h
    subst h
    have hlen' : rest.length % 4 = 0 := by simp at hlen; omega
    obtain ⟨gr, rfl⟩ := ih r hlen' hr
    obtain ⟨va, vb, sa, sb, hcase⟩ := decodeGroup_four hg
    rcases hcase with ⟨vc, vd, sc, sd, rfl, rfl⟩ | ⟨vc, sc, rfl, hl, rfl, rfl⟩ |
      ⟨rfl, rfl, hl, rfl, rfl⟩
    · rw [slice1_four] at hs
      cases hs
      exact ⟨.full (sextet_mem sa) (sextet_mem sb) (sextet_mem sc) (sextet_mem sd) gr,
        (spec_decode_full sa sb sc sd rest).symm⟩
    · have : rest = [] := List.isEmpty_iff.mp hl
      subst this
      rw [slice1_three] at hs
      cases hs
      refine ⟨.pad1 (sextet_mem sa) (sextet_mem sb) (sextet_mem sc), ?_⟩
      rw [spec_decode_pad1 sa sb sc]; rfl
    · have : rest = [] := List.isEmpty_iff.mp hl
      subst this
      rw [slice1_two] at hs
      cases hs
      refine ⟨.pad2 (sextet_mem sa) (sextet_mem sb), ?_⟩
      rw [spec_decode_pad2 sa sb]; rfl
  | case5 a b c d rest dec br hg o hs hr ih =>
    intro out _ h
    simp only [decodeGroups, hg, hs] at h
    cases hr' : decodeGroups rest with
    | ok r => exact (hr r hr').elim
    | err => simp [hr'] at h
    | panic => simp [hr'] at h
  | case6 short hne h4 hnone =>
    intro out hlen h
    exfalso
    match short, hne, h4, hlen with
    | [], hne, _, _ => exact hne rfl
    | [_], _, _, hlen => simp at hlen
    | [_, _], _, _, hlen => simp at hlen
    | [_, _, _], _, _, hlen => simp at hlen
    | a :: b :: c :: d :: r, _, h4, _ => exact h4 a b c d r rfl
  | case7 short hne h4 dec br hg hs =>
    intro out hlen h
    exfalso
    match short, hne, h4, hlen with
    | [], hne, _, _ => exact hne rfl
    | [_], _, _, hlen => simp at hlen
    | [_, _], _, _, hlen => simp at hlen
    | [_, _, _], _, _, hlen => simp at hlen
    | a :: b :: c :: d :: r, _, h4, _ => exact h4 a b c d r rfl
  | case8 short hne h4 dec br hg o hs =>
    intro out hlen h
    exfalso
    match short, hne, h4, hlen with
    | [], hne, _, _ => exact hne rfl
    | [_], _, _, hlen => simp at hlen
    | [_, _], _, _, hlen => simp at hlen
    | [_, _, _], _, _, hlen => simp at hlen
    | a :: b :: c :: d :: r, _, h4, _ => exact h4 a b c d r rfl

theorem slice1_ne_none {d br : Nat} (h1 : 1 ≤ br) (h4 : br ≤ 4) : slice1 (beBytes d) br ≠ none := by
  simp [slice1, beBytes, h1, h4]

/-- The loop never reaches the out-of-order slice. -/
theorem decodeGroups_ne_panic (s : Bytes) : decodeGroups s ≠ .panic := by
  induction s using decodeGroups.induct with
  | case1 => simp [decodeGroups]
  | case2 a b c d rest hnone => simp [decodeGroups, hnone]
  | case3 a b c d rest dec br hg hs =>
    exfalso
    have := decodeGroup_broken _ _ _ _ _ _ hg
    simp at this
    exact slice1_ne_none (by omega) (by omega) hs
  | case4 a b c d rest dec br hg o hs r hr ih => simp [decodeGroups, hg, hs, hr]
  | case5 a b c d rest dec br hg o hs hr ih =>
    simp only [decodeGroups, hg, hs]
    cases hr' : decodeGroups rest with
    | ok r => exact (hr r hr').elim
    | err => simp
    | panic => exact (ih hr').elim
  | case6 short hne h4 hnone =>
    match short, hne, h4, hnone with
    | [], hne, _, _ => exact (hne rfl).elim
    | [_], _, _, hnone => simp [decodeGroups, hnone]
    | [_, _], _, _, hnone => simp [decodeGroups, hnone]
    | [_, _, _], _, _, hnone => simp [decodeGroups, hnone]
    | a :: b :: c :: d :: r, _, h4, _ => exact (h4 a b c d r rfl).elim
  | case7 short hne h4 dec br hg hs =>
    exfalso
    have hb := decodeGroup_broken _ _ _ _ _ _ hg
    have hl : short.length ≤ 3 := by
      match short, h4 with
      | [], _ => simp
      | [_], _ => simp
      | [_, _], _ => simp
      | [_, _, _], _ => simp
      | a :: b :: c :: d :: r, h4 => exact (h4 a b c d r rfl).elim
    exact slice1_ne_none (by omega) (by omega) hs
  | case8 short hne h4 dec br hg o hs =>
    match short, hne, h4, hg with
    | [], hne, _, _ => exact (hne rfl).elim
    | [_], _, _, hg => simp [decodeGroups, hg, hs]
    | [_, _], _, _, hg => simp [decodeGroups, hg, hs]
    | [_, _, _], _, _, hg => simp [decodeGroups, hg, hs]
    | a :: b :: c :: d :: r, _, h4, _ => exact (h4 a b c d r rfl).elim

theorem drop_takeWhile_length (p : UInt8 → Bool) (s : Bytes) :
    s.drop (s.takeWhile p).length = s.dropWhile p := by
  have h := List.takeWhile_append_dropWhile (p := p) (l := s)
  conv => lhs; arg 2; rw [← h]
  exact List.drop_left

/-- The executable shape test used by the driver decides `Spec.Shape`. -/
theorem shapeB_iff_shape' (s : Bytes) : Spec.shapeB s = true ↔ Spec.Shape s := by
  constructor
  · intro h
    simp only [Spec.shapeB, Bool.and_eq_true, beq_iff_eq, List.all_eq_true, decide_eq_true_eq,
      List.contains_iff_mem] at h
    obtain ⟨⟨⟨hlen, hbody⟩, hn⟩, htail⟩ := h
    refine ⟨s.takeWhile (· != Spec.pad), (s.drop (s.takeWhile (· != Spec.pad)).length).length, ?_,
      hbody, hn, hlen⟩
    have e : s.drop (s.takeWhile (· != Spec.pad)).length =
        List.replicate (s.drop (s.takeWhile (· != Spec.pad)).length).length Spec.pad :=
      List.eq_replicate_iff.mpr ⟨rfl, htail⟩
    rw [← e, drop_takeWhile_length, List.takeWhile_append_dropWhile]
  · rintro ⟨body, n, rfl, hall, hn, hlen⟩
    have htw : (body ++ List.replicate n Spec.pad).takeWhile (· != Spec.pad) = body := by
      rw [List.takeWhile_append_of_pos]
      · simp
      · intro c hc
        have := mem_table_ne_pad (hall c hc)
        simpa [Spec.pad] using this
    simp only [Spec.shapeB, htw, List.drop_left, Bool.and_eq_true, beq_iff_eq, List.all_eq_true,
      decide_eq_true_eq, List.contains_iff_mem, List.length_replicate]
    refine ⟨⟨⟨hlen, hall⟩, hn⟩, ?_⟩
    intro x hx
    exact List.eq_of_mem_replicate hx

end Humphrey.Base64
