import HumphreyModel.Proofs.FsComplete
import HumphreyModel.Proofs.PercentMain
import HumphreyModel.Proofs.Percent
/-!
C06: the server's `directory_handler` and the library's `serve_as_file_path` on proper paths, and
the canonical percent-encoded spelling of a path.
-/
namespace Humphrey.Fs
open Humphrey Humphrey.Fs.Spec

/-- `directory_handler`, file requested by a spelling of its path. -/
theorem directoryHandler_file {world : Node} {dir : Bytes} {pre rest tail : List Char} {d : Bytes}
    {dirPath : List Name} {dnode : Node} {init : List Name} {name : Name} {c : Bytes}
    (hpre : '*' ∉ pre)
    (hdec : Percent.decode (utf8 tail) = some d) (hutf : Bytes.utf8Valid d = true)
    (hdd : hasDotDot d = false) (hcol : 58 ∉ d)
    (hpath : trimStartSlash d = joinPath (init ++ [name]))
    (hplain : ∀ n ∈ init ++ [name], PlainName n)
    (hdir : canonicalDir world (trimEndSlash dir) = some dirPath)
    (hdn : lookup world dirPath = some dnode) (hobj : lookup dnode (init ++ [name]) = some (.file c)) :
    directoryHandler world dir (pre ++ tail) (pre ++ '*' :: rest) =
      .ok (some (mimeFromExtension ((nameExtension name).getD []))) c (dirPath ++ (init ++ [name])) := by
  have hfind := tryFindPath_plain (index := indexFiles) hdec hutf hdd hcol hpath (by simp) hplain hdir hdn hobj
  have hl : lookup world (dirPath ++ (init ++ [name])) = some (.file c) := by
    rw [lookup_append, hdn]; simpa using hobj
  unfold directoryHandler innerFileHandler
  simp only [stripMatched_append hpre, hfind, hl]
  rw [← List.append_assoc, canonExtension_snoc]

/-- `directory_handler`, directory requested without trailing slash. -/
theorem directoryHandler_redirect {world : Node} {dir : Bytes} {pre rest tail : List Char} {d : Bytes}
    {dirPath : List Name} {dnode : Node} {cs : List Name} {es : List (Name × Node)}
    (hpre : '*' ∉ pre)
    (hdec : Percent.decode (utf8 tail) = some d) (hutf : Bytes.utf8Valid d = true)
    (hdd : hasDotDot d = false) (hcol : 58 ∉ d)
    (hpath : trimStartSlash d = joinPath cs) (hne : cs ≠ []) (hplain : ∀ n ∈ cs, PlainName n)
    (hdir : canonicalDir world (trimEndSlash dir) = some dirPath)
    (hdn : lookup world dirPath = some dnode) (hobj : lookup dnode cs = some (.dir es)) :
    directoryHandler world dir (pre ++ tail) (pre ++ '*' :: rest) = .moved (utf8 (pre ++ tail) ++ [47]) := by
  have hfind := tryFindPath_plain (index := indexFiles) hdec hutf hdd hcol hpath hne hplain hdir hdn hobj
  unfold directoryHandler
  simp only [stripMatched_append hpre, hfind]

/-- `directory_handler`, directory requested in its slash form: the index rule. -/
theorem directoryHandler_index {world : Node} {dir : Bytes} {pre rest tail : List Char} {d : Bytes}
    {dirPath : List Name} {dnode : Node} {cs : List Name} {es : List (Name × Node)}
    (hpre : '*' ∉ pre)
    (hdec : Percent.decode (utf8 tail) = some d) (hutf : Bytes.utf8Valid d = true)
    (hdd : hasDotDot d = false) (hcol : 58 ∉ d)
    (hpath : trimStartSlash d = slashPath cs) (hplain : ∀ n ∈ cs, PlainName n)
    (hdir : canonicalDir world (trimEndSlash dir) = some dirPath)
    (hdn : lookup world dirPath = some dnode) (hobj : lookup dnode cs = some (.dir es)) :
    directoryHandler world dir (pre ++ tail) (pre ++ '*' :: rest) =
      match indexOf es with
      | some (n, c) => .ok (some [116, 101, 120, 116, 47, 104, 116, 109, 108]) c (dirPath ++ cs ++ [n])
      | none => .notFound := by
  have hfind := tryFindPath_index hdec hutf hdd hcol hpath hplain hdir hdn hobj
  unfold directoryHandler
  simp only [stripMatched_append hpre, hfind]
  cases hio : indexOf es with
  | none => simp
  | some nc =>
    obtain ⟨n, c⟩ := nc
    obtain ⟨hn, he⟩ := indexOf_mem hio
    have hl : lookup world (dirPath ++ cs ++ [n]) = some (.file c) := by
      rw [List.append_assoc, lookup_append, hdn]
      simp only [Option.bind_some]
      rw [lookup_append, hobj]
      simp [lookup_dir_cons, findEntry_eq_entryOf, he]
    unfold innerFileHandler
    simp only [Option.map_some, hl, canonExtension_snoc]
    have := textHtml_of_index hn
    cases hx : nameExtension n with
    | none => simp [hx] at this
    | some e => simp [hx] at this; simp [this]

/-! ### `serve_as_file_path` on the literal path -/

theorem rawFileName_join {d : Bytes} {init : List Name} {name : Name}
    (hplain : ∀ n ∈ init ++ [name], PlainName n) (hdd : name ≠ [46, 46]) :
    rawFileName (d ++ [47] ++ joinPath (init ++ [name])) = some name := by
  have h47 : ∀ n ∈ init ++ [name], 47 ∉ n := fun n hn => (hplain n hn).2.1
  obtain ⟨hne, -, -, hdot⟩ := hplain name (by simp)
  unfold rawFileName
  rw [components_join, components_joinPath (by simp) h47, ← List.append_assoc, List.filter_append]
  have hkeep : List.filter (fun c => !(c == [] || c == [46])) [name] = [name] := by
    have h1 : name.isEmpty = false := by simpa using hne
    have h2 : (name == [46]) = false := by simpa using hdot
    simp [List.filter, h1, h2]
  rw [hkeep, List.getLast?_concat]
  simp [hdd]

/-- `serve_as_file_path` (repaired), file requested by its literal path `/<path>`. -/
theorem serveAsFilePath_file {world : Node} {dir : Bytes} {chars : List Char}
    {dirPath : List Name} {dnode : Node} {init : List Name} {name : Name} {c : Bytes}
    (huri : utf8 chars = joinPath (init ++ [name]))
    (hdd : hasDotDot (joinPath (init ++ [name])) = false)
    (hplain : ∀ n ∈ init ++ [name], PlainName n)
    (hdir : canonicalDir world (stripOneEndSlash dir) = some dirPath)
    (hdn : lookup world dirPath = some dnode) (hobj : lookup dnode (init ++ [name]) = some (.file c)) :
    serveAsFilePath world dir ('/' :: chars) =
      .ok ((nameExtension name).map mimeFromExtension) c (dirPath ++ (init ++ [name])) := by
  have h47 : ∀ n ∈ init ++ [name], 47 ∉ n := fun n hn => (hplain n hn).2.1
  have hcomp := components_joinPath (cs := init ++ [name]) (by simp) h47
  have hp := names_not_dotdot hdd (fun n hn => by rw [hcomp]; exact hn) hplain
  have hmeta := metadata_down hdir hdn hp hobj hcomp
  have hraw := rawFileName_join (d := stripOneEndSlash dir) hplain (hp name (by simp)).2
  have hnodd : hasDotDot (utf8 ('/' :: chars)) = false := by
    rw [utf8_slash_cons, huri, hasDotDot_cons_ne (by decide)]; exact hdd
  unfold serveAsFilePath
  simp only [hnodd]
  unfold serveAsFilePathUnchecked rawExtension
  simp only [huri, hmeta, hraw]
  cases nameExtension name <;> simp

/-! ### The canonical percent-encoded spelling -/

set_option maxRecDepth 100000 in
theorem ascii_table : ∀ n : Fin 256, (UInt8.ofNat n.val) < 128 →
    String.utf8EncodeChar (Char.ofNat (UInt8.ofNat n.val).toNat) = [UInt8.ofNat n.val] := by
  decide

theorem utf8EncodeChar_ascii (b : UInt8) (h : b < 128) : String.utf8EncodeChar (Char.ofNat b.toNat) = [b] :=
  Percent.byte_cases (P := fun b => b < 128 → String.utf8EncodeChar (Char.ofNat b.toNat) = [b]) ascii_table b h

set_option maxRecDepth 100000 in
theorem escape_table : ∀ n : Fin 256, ∀ x ∈ Percent.escape (UInt8.ofNat n.val), x < 128 := by
  decide

theorem unreserved_ascii : ∀ x ∈ Percent.unreservedChars, x < 128 := by decide

/-- `percent_encode` produces ASCII only. -/
theorem encode_ascii (bs : Bytes) : ∀ x ∈ Percent.encode bs, x < 128 := by
  induction bs with
  | nil => simp [Percent.encode]
  | cons b rest ih =>
    intro x hx
    simp only [Percent.encode] at hx
    split at hx
    · rename_i hb
      simp only [List.mem_cons] at hx
      rcases hx with rfl | hx
      · exact unreserved_ascii _ (by simpa using hb)
      · exact ih x hx
    · rcases List.mem_append.mp hx with hx | hx
      · exact Percent.byte_cases (P := fun b => ∀ x ∈ Percent.escape b, x < 128) escape_table b x hx
      · exact ih x hx

theorem utf8_asciiChars {bs : Bytes} (h : ∀ x ∈ bs, x < 128) : utf8 (asciiChars bs) = bs := by
  induction bs with
  | nil => simp [asciiChars, utf8]
  | cons b rest ih =>
    have := ih (fun x hx => h x (List.mem_cons_of_mem _ hx))
    simp only [asciiChars, List.map_cons, utf8_cons] at this ⊢
    rw [utf8EncodeChar_ascii b (h b (by simp))]
    simp [this]

/-- The encoded spelling decodes (once) to the path. -/
theorem decode_encoded_spelling (path : Bytes) :
    Percent.decode (utf8 (asciiChars (Percent.encode path))) = some path := by
  rw [utf8_asciiChars (encode_ascii path)]
  exact Percent.decode_encode' path

/-- A path of plain names does not start with `/`. -/
theorem trimStartSlash_joinPath {cs : List Name} (h : ∀ n ∈ cs, PlainName n) :
    trimStartSlash (joinPath cs) = joinPath cs := by
  cases cs with
  | nil => simp [joinPath, trimStartSlash]
  | cons n rest =>
    obtain ⟨hne, h47, -, -⟩ := h n (by simp)
    cases n with
    | nil => exact absurd rfl hne
    | cons x n' =>
      have hx : x ≠ 47 := fun e => h47 (by simp [e])
      have hx' : (x == 47) = false := by simpa using hx
      cases rest <;> simp [joinPath, trimStartSlash, hx']

end Humphrey.Fs
