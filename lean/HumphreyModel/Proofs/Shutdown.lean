import HumphreyModel.Model.Shutdown
import HumphreyModel.Spec.Shutdown
import HumphreyModel.Proofs.PoolFinal

/-!
Helper material for C20: the step function of `Model/Shutdown.lean` as an inductive relation, what the
embedded pool steps do to the pool's lifecycle, the inductive invariant, the view into `Spec/Shutdown.lean`.
-/
namespace Humphrey.Shutdown
open Humphrey

/-- `step` spelled out: one constructor per way a label can fire. -/
inductive Step (c : Cfg) (s : State) : Label → State → Prop
  | arrive {e} : s.listenerOpen = true → e ≠ .wake → Step c s (.arrive e) { s with backlog := s.backlog ++ [e] }
  | signal : s.signalSent = false → Step c s .signal { s with signalSent := true }
  | recvSignal : s.caller = .waitSignal → s.signalSent = true → Step c s .recvSignal { s with caller := .storeFlag }
  | storeFlag : s.caller = .storeFlag → Step c s .storeFlag { s with caller := .selfConnect, flag := true }
  | selfConnectOk : s.caller = .selfConnect → s.listenerOpen = true →
      Step c s .selfConnect { s with caller := .joinAccept, backlog := s.backlog ++ [.wake] }
  | selfConnectRefused : s.caller = .selfConnect → s.listenerOpen = false →
      Step c s .selfConnect { s with caller := .joinAccept, wakeRefused := true }
  | joinAccept : s.caller = .joinAccept → s.acc = .exited → Step c s .joinAccept { s with caller := .returned }
  | accept {e b} : s.acc = .accepting → s.backlog = e :: b →
      Step c s .accept { s with acc := .checkFlag e, backlog := b, accepted := s.accepted ++ [e] }
  | break {e} : s.acc = .checkFlag e → s.flag = true →
      Step c s (.checkFlag true) { s with acc := .poolStop, brokeOn := some e }
  | skipErr {e} : s.acc = .checkFlag e → s.flag = false → e = .err →
      Step c s (.checkFlag false) { s with acc := .accepting, notServed := s.notServed ++ [e] }
  | toCond {e} : s.acc = .checkFlag e → s.flag = false → e ≠ .err →
      Step c s (.checkFlag false) { s with acc := .condition e }
  | letIn {e} : s.acc = .condition e → c.condHangs e = false →
      Step c s (.cond true) { s with acc := .execute e, admitted := s.admitted ++ [e] }
  | deny {e} : s.acc = .condition e → c.condHangs e = false →
      Step c s (.cond false) { s with acc := .accepting, notServed := s.notServed ++ [e] }
  | execute {e p} : s.acc = .execute e → Pool.step c.pool s.pool (.submit s.pool.submitted.length) = some p →
      Step c s .execute { s with acc := .accepting, pool := p,
                                 dispatched := s.dispatched ++ [(e, s.pool.submitted.length)] }
  | poolStop {p} : s.acc = .poolStop → Pool.step c.pool s.pool .stop = some p →
      Step c s .poolStop { s with acc := .dropListener, pool := p, stopDone := true }
  | dropListener : s.acc = .dropListener →
      Step c s .dropListener { s with acc := .dropPool, listenerOpen := false, lostBacklog := s.backlog, backlog := [] }
  | poolDrop {l p} : s.acc = .dropPool → isDropLabel l = true → Pool.step c.pool s.pool l = some p →
      Step c s (.poolDrop l) { s with pool := p }
  | exit : s.acc = .dropPool → s.pool.caller = .done → Step c s .exit { s with acc := .exited }
  | worker {l p} : isOwnerLabel l = false → Pool.step c.pool s.pool l = some p →
      Step c s (.worker l) { s with pool := p }

theorem Step.of_step {c : Cfg} {s s' : State} {l : Label} (h : step c s l = some s') : Step c s l s' := by
  cases l <;> simp only [step] at h
  case arrive e => simp at h; obtain ⟨⟨h1, h2⟩, rfl⟩ := h; exact .arrive h1 h2
  case signal => simp at h; obtain ⟨h1, rfl⟩ := h; exact .signal h1
  case recvSignal => simp at h; obtain ⟨⟨h1, h2⟩, rfl⟩ := h; exact .recvSignal h1 h2
  case storeFlag => simp at h; obtain ⟨h1, rfl⟩ := h; exact .storeFlag h1
  case selfConnect =>
    split at h
    · rename_i h1
      split at h
      · rename_i h2; simp at h; subst h; exact .selfConnectOk h1 h2
      · rename_i h2; simp at h; subst h; exact .selfConnectRefused h1 (by simpa using h2)
    · simp at h
  case joinAccept => simp at h; obtain ⟨⟨h1, h2⟩, rfl⟩ := h; exact .joinAccept h1 h2
  case accept =>
    split at h
    · rename_i h1
      split at h
      · rename_i e b hb; simp at h; subst h; exact .accept h1 hb
      · simp at h
    · simp at h
  case checkFlag v =>
    split at h
    · rename_i e he
      split at h
      · rename_i hv
        split at h
        · rename_i hv'; simp at h; subst h; subst hv'; exact .break he hv.symm
        · rename_i hv'
          have hv0 : v = false := by simpa using hv'
          subst hv0
          split at h
          · rename_i e1; simp at h; subst h; exact .skipErr he hv.symm e1
          · rename_i e1; simp at h; subst h; exact .toCond he hv.symm e1
      · simp at h
    · simp at h
  case cond b =>
    split at h
    · rename_i e he
      split at h
      · simp at h
      · rename_i hh
        have hh' : c.condHangs e = false := by simpa using hh
        split at h
        · rename_i hb; simp at h; subst h; subst hb; exact .letIn he hh'
        · rename_i hb
          have hb0 : b = false := by simpa using hb
          simp at h; subst h; subst hb0; exact .deny he hh'
    · simp at h
  case execute =>
    split at h
    · rename_i e he
      split at h
      · rename_i p hp; simp at h; subst h; exact .execute he hp
      · simp at h
    · simp at h
  case poolStop =>
    split at h
    · rename_i h1
      split at h
      · rename_i p hp; simp at h; subst h; exact .poolStop h1 hp
      · simp at h
    · simp at h
  case dropListener => simp at h; obtain ⟨h1, rfl⟩ := h; exact .dropListener h1
  case poolDrop l =>
    split at h
    · rename_i h1
      split at h
      · rename_i p hp; simp at h; subst h; exact .poolDrop h1.1 h1.2 hp
      · simp at h
    · simp at h
  case exit => simp at h; obtain ⟨⟨h1, h2⟩, rfl⟩ := h; exact .exit h1 h2
  case worker l =>
    split at h
    · rename_i h1
      split at h
      · rename_i p hp; simp at h; subst h; exact .worker h1 hp
      · simp at h
    · simp at h

/-! ### Replaying -/

theorem run_append {c : Cfg} : ∀ (ls₁ ls₂ : List Label) (s : State),
    run c s (ls₁ ++ ls₂) = (run c s ls₁).bind (fun s' => run c s' ls₂)
  | [], ls₂, s => by simp [run]
  | l :: ls₁, ls₂, s => by
    simp only [List.cons_append, run]
    cases step c s l with
    | none => simp
    | some s' => simp [run_append ls₁ ls₂ s']

theorem Reachable.init (c : Cfg) : Reachable c (init c) := ⟨[], rfl⟩

theorem Reachable.step {c : Cfg} {s s' : State} {l : Label} (hs : Reachable c s) (h : step c s l = some s') :
    Reachable c s' := by
  obtain ⟨ls, hls⟩ := hs
  refine ⟨ls ++ [l], ?_⟩
  rw [run_append, hls]
  simp [run, h]

theorem Reachable.run {c : Cfg} {s s' : State} {ls : List Label} (hs : Reachable c s) (h : run c s ls = some s') :
    Reachable c s' := by
  obtain ⟨ls0, hls⟩ := hs
  refine ⟨ls0 ++ ls, ?_⟩
  rw [run_append, hls]
  simpa using h

/-- Induction along a run. -/
theorem run_induct {c : Cfg} {P : State → Prop} (hstep : ∀ s l s', P s → Step c s l s' → P s') :
    ∀ (ls : List Label) (s s' : State), P s → run c s ls = some s' → P s'
  | [], s, s', hs, h => by simp [run] at h; subst h; exact hs
  | l :: ls, s, s', hs, h => by
    simp only [run] at h
    cases hl : Shutdown.step c s l with
    | none => simp [hl] at h
    | some s1 =>
      simp only [hl] at h
      exact run_induct hstep ls s1 s' (hstep s l s1 hs (Step.of_step hl)) h

theorem Reachable.induct {c : Cfg} {P : State → Prop} (h0 : P (Shutdown.init c))
    (hstep : ∀ s l s', P s → Step c s l s' → P s') : ∀ {s}, Reachable c s → P s := by
  intro s ⟨ls, hls⟩
  exact run_induct hstep ls _ s h0 hls

/-! ### What the embedded pool steps do to the pool's lifecycle -/

theorem startedPool_reachable (c : Pool.Cfg) : Pool.Reachable c (startedPool c) :=
  ⟨[.start], by simp [Pool.run, Pool.runWith, Pool.step, Pool.init, startedPool]⟩

theorem worker_keeps {c : Pool.Cfg} {p p' : Pool.State} {l : Pool.Label} (ho : isOwnerLabel l = false)
    (h : Pool.step c p l = some p') :
    p'.life = p.life ∧ p'.caller = p.caller ∧ p'.submitted = p.submitted := by
  cases Pool.Step.of_step h <;> simp_all [isOwnerLabel, Pool.setW]

theorem submit_keeps {c : Pool.Cfg} {p p' : Pool.State} {k : Nat} (h : Pool.step c p (.submit k) = some p') :
    p'.life = p.life ∧ p'.caller = p.caller ∧ p'.submitted = p.submitted ++ [p.submitted.length] ∧
      p.life = .started ∧ p.caller = .idle := by
  cases Pool.Step.of_step h; simp_all

theorem stop_effect {c : Pool.Cfg} {p p' : Pool.State} (h : Pool.step c p .stop = some p') :
    p'.life = .stopped ∧ p'.caller = p.caller ∧ p'.submitted = p.submitted := by
  cases Pool.Step.of_step h; simp_all

theorem drop_keeps {c : Pool.Cfg} {p p' : Pool.State} {l : Pool.Label} (hd : isDropLabel l = true)
    (h : Pool.step c p l = some p') :
    p'.submitted = p.submitted ∧ (p.life ≠ .started → p'.life ≠ .started) ∧ (p.life ≠ .created → p'.life ≠ .created) := by
  cases Pool.Step.of_step h <;> simp_all [isDropLabel, Pool.afterRecoveryHandle]

/-! ### The inductive invariant -/

structure Inv (c : Cfg) (s : State) : Prop where
  pool : Pool.Reachable c.pool s.pool
  flag : s.flag = true ↔ (s.caller = .selfConnect ∨ s.caller = .joinAccept ∨ s.caller = .returned)
  sig : s.caller ≠ .waitSignal → s.signalSent = true
  loop : s.acc.inLoop = true →
    s.listenerOpen = true ∧ s.pool.life = .started ∧ s.pool.caller = .idle ∧ s.brokeOn = none ∧ s.stopDone = false
  pStop : s.acc = .poolStop →
    s.flag = true ∧ s.listenerOpen = true ∧ s.pool.life = .started ∧ s.pool.caller = .idle
  pLis : s.acc = .dropListener →
    s.flag = true ∧ s.listenerOpen = true ∧ s.pool.life = .stopped ∧ s.pool.caller = .idle ∧ s.stopDone = true
  pDrop : s.acc = .dropPool →
    s.flag = true ∧ s.listenerOpen = false ∧ s.stopDone = true ∧ s.pool.life ≠ .started ∧ s.pool.life ≠ .created
  pExit : s.acc = .exited → s.flag = true ∧ s.listenerOpen = false ∧ s.stopDone = true ∧ s.pool.caller = .done
  ret : s.caller = .returned → s.acc = .exited
  wakeFlag : Entry.wake ∈ s.backlog → s.flag = true
  handWake : s.acc = .checkFlag .wake → s.flag = true
  condNot : ∀ e, s.acc = .condition e ∨ s.acc = .execute e → e ≠ .wake ∧ e ≠ .err
  wakeLive : s.caller = .joinAccept →
    (Entry.wake ∈ s.backlog ∨ (∃ e, s.acc = .checkFlag e) ∨ s.acc.inLoop = false)
  subm : s.dispatched.map Prod.snd = s.pool.submitted

theorem inv_init (c : Cfg) : Inv c (init c) := by
  constructor
  case pool => exact startedPool_reachable c.pool
  all_goals simp [init, Acc.inLoop, startedPool, Pool.init]

theorem inv_step {c : Cfg} {s s' : State} {l : Label} (h : Inv c s) (st : Step c s l s') : Inv c s' := by
  obtain ⟨hp, hf, hsig, hloop, hstop, hlis, hdrop, hexit, hret, hwf, hhw, hcn, hwl, hsub⟩ := h
  cases st with
  | arrive h1 h2 =>
    refine ⟨hp, hf, hsig, hloop, hstop, hlis, hdrop, hexit, hret, ?_, hhw, hcn, ?_, hsub⟩
    · intro hm; simp at hm
      rcases hm with hm | hm
      · exact hwf hm
      · exact absurd hm.symm h2
    · intro hc; rcases hwl hc with hw | hw | hw
      · left; simp [hw]
      · right; left; exact hw
      · right; right; exact hw
  | signal h1 => exact ⟨hp, hf, fun _ => rfl, hloop, hstop, hlis, hdrop, hexit, hret, hwf, hhw, hcn, hwl, hsub⟩
  | recvSignal h1 h2 =>
    refine ⟨hp, ?_, fun _ => h2, hloop, hstop, hlis, hdrop, hexit, ?_, hwf, hhw, hcn, ?_, hsub⟩
    · simp [h1] at hf; simp [hf]
    · simp
    · simp
  | storeFlag h1 =>
    refine ⟨hp, by simp, ?_, hloop, ?_, ?_, ?_, ?_, by simp, by simp, by simp, hcn, by simp, hsub⟩
    · intro _; exact hsig (by simp [h1])
    · intro ha; have := hstop ha; simp [h1] at hf; simp_all
    · intro ha; have := hlis ha; simp [h1] at hf; simp_all
    · intro ha; have := hdrop ha; simp [h1] at hf; simp_all
    · intro ha; have := hexit ha; simp [h1] at hf; simp_all
  | selfConnectOk h1 h2 =>
    have hfl : s.flag = true := hf.mpr (Or.inl h1)
    refine ⟨hp, by simp [hfl], ?_, hloop, hstop, hlis, hdrop, hexit, by simp, fun _ => hfl, hhw, hcn, ?_, hsub⟩
    · intro _; exact hsig (by simp [h1])
    · intro _; left; simp
  | selfConnectRefused h1 h2 =>
    have hfl : s.flag = true := hf.mpr (Or.inl h1)
    refine ⟨hp, by simp [hfl], ?_, hloop, hstop, hlis, hdrop, hexit, by simp, hwf, hhw, hcn, ?_, hsub⟩
    · intro _; exact hsig (by simp [h1])
    · intro _; right; right
      cases hl : s.acc.inLoop with
      | false => rfl
      | true => have := (hloop hl).1; simp [h2] at this
  | joinAccept h1 h2 =>
    have hfl : s.flag = true := hf.mpr (Or.inr (Or.inl h1))
    refine ⟨hp, by simp [hfl], ?_, hloop, hstop, hlis, hdrop, hexit, fun _ => h2, hwf, hhw, hcn, by simp, hsub⟩
    intro _; exact hsig (by simp [h1])
  | @accept e b h1 h2 =>
    have hl := hloop (by simp [h1, Acc.inLoop])
    refine ⟨hp, hf, hsig, ?_, by simp, by simp, by simp, by simp, ?_, ?_, ?_, by simp, ?_, hsub⟩
    · intro _; exact hl
    · intro hc; have := hret hc; simp [h1] at this
    · intro hm; exact hwf (by simp [h2, hm])
    · intro he; simp at he; subst he; exact hwf (by simp [h2])
    · intro _; right; left; exact ⟨e, rfl⟩
  | @«break» e h1 h2 =>
    have hl := hloop (by simp [h1, Acc.inLoop])
    refine ⟨hp, hf, hsig, by simp [Acc.inLoop], ?_, by simp, by simp, by simp, ?_, hwf, by simp, by simp, ?_, hsub⟩
    · intro _; exact ⟨h2, hl.1, hl.2.1, hl.2.2.1⟩
    · intro hc; have := hret hc; simp [h1] at this
    · intro _; right; right; simp [Acc.inLoop]
  | @skipErr e h1 h2 h3 =>
    have hl := hloop (by simp [h1, Acc.inLoop])
    refine ⟨hp, hf, hsig, fun _ => hl, by simp, by simp, by simp, by simp, ?_, hwf, by simp, by simp, ?_, hsub⟩
    · intro hc; have := hret hc; simp [h1] at this
    · intro hc
      have : s.flag = true := hf.mpr (Or.inr (Or.inl hc))
      simp [h2] at this
  | @toCond e h1 h2 h3 =>
    have hl := hloop (by simp [h1, Acc.inLoop])
    refine ⟨hp, hf, hsig, fun _ => hl, by simp, by simp, by simp, by simp, ?_, hwf, by simp, ?_, ?_, hsub⟩
    · intro hc; have := hret hc; simp [h1] at this
    · intro e' he'
      simp at he'; subst he'
      refine ⟨?_, h3⟩
      intro hw; subst hw
      have := hhw h1; simp [h2] at this
    · intro hc
      have : s.flag = true := hf.mpr (Or.inr (Or.inl hc))
      simp [h2] at this
  | @letIn e h1 h2 =>
    have hl := hloop (by simp [h1, Acc.inLoop])
    refine ⟨hp, hf, hsig, fun _ => hl, by simp, by simp, by simp, by simp, ?_, hwf, by simp, ?_, ?_, hsub⟩
    · intro hc; have := hret hc; simp [h1] at this
    · intro e' he'; simp at he'; subst he'; exact hcn _ (Or.inl h1)
    · intro hc; rcases hwl hc with hw | ⟨e', hw⟩ | hw
      · left; exact hw
      · simp [h1] at hw
      · simp [h1, Acc.inLoop] at hw
  | @deny e h1 h2 =>
    have hl := hloop (by simp [h1, Acc.inLoop])
    refine ⟨hp, hf, hsig, fun _ => hl, by simp, by simp, by simp, by simp, ?_, hwf, by simp, by simp, ?_, hsub⟩
    · intro hc; have := hret hc; simp [h1] at this
    · intro hc; rcases hwl hc with hw | ⟨e', hw⟩ | hw
      · left; exact hw
      · simp [h1] at hw
      · simp [h1, Acc.inLoop] at hw
  | @execute e p h1 h2 =>
    have hl := hloop (by simp [h1, Acc.inLoop])
    have hk := submit_keeps h2
    refine ⟨hp.step h2, hf, hsig, ?_, by simp, by simp, by simp, by simp, ?_, hwf, by simp, by simp, ?_, ?_⟩
    · intro _; exact ⟨hl.1, hk.1.trans hl.2.1, hk.2.1.trans hl.2.2.1, hl.2.2.2⟩
    · intro hc; have := hret hc; simp [h1] at this
    · intro hc; rcases hwl hc with hw | ⟨e', hw⟩ | hw
      · left; exact hw
      · simp [h1] at hw
      · simp [h1, Acc.inLoop] at hw
    · simp [hk.2.2.1, hsub]
  | @poolStop p h1 h2 =>
    have hl := hstop h1
    have hk := stop_effect h2
    refine ⟨hp.step h2, hf, hsig, by simp [Acc.inLoop], by simp, ?_, by simp, by simp, ?_, hwf, by simp, by simp, ?_, ?_⟩
    · intro _; exact ⟨hl.1, hl.2.1, hk.1, hk.2.1.trans hl.2.2.2, rfl⟩
    · intro hc; have := hret hc; simp [h1] at this
    · intro _; right; right; simp [Acc.inLoop]
    · simp [hk.2.2, hsub]
  | dropListener h1 =>
    have hl := hlis h1
    refine ⟨hp, hf, hsig, by simp [Acc.inLoop], by simp, by simp, ?_, by simp, ?_, by simp, by simp, by simp, ?_, hsub⟩
    · intro _; refine ⟨hl.1, rfl, hl.2.2.2.2, ?_, ?_⟩ <;> simp [hl.2.2.1]
    · intro hc; have := hret hc; simp [h1] at this
    · intro _; right; right; simp [Acc.inLoop]
  | @poolDrop l p h1 h2 h3 =>
    have hl := hdrop h1
    have hk := drop_keeps h2 h3
    refine ⟨hp.step h3, hf, hsig, by simp [h1, Acc.inLoop], by simp [h1], by simp [h1], ?_, by simp [h1], hret, hwf, hhw, hcn, hwl, ?_⟩
    · intro _; exact ⟨hl.1, hl.2.1, hl.2.2.1, hk.2.1 hl.2.2.2.1, hk.2.2 hl.2.2.2.2⟩
    · simp [hk.1, hsub]
  | exit h1 h2 =>
    have hl := hdrop h1
    refine ⟨hp, hf, hsig, by simp [Acc.inLoop], by simp, by simp, by simp, ?_, by simp, hwf, by simp, by simp, ?_, hsub⟩
    · intro _; exact ⟨hl.1, hl.2.1, hl.2.2.1, h2⟩
    · intro _; right; right; simp [Acc.inLoop]
  | @worker l p h1 h2 =>
    have hk := worker_keeps h1 h2
    refine ⟨hp.step h2, hf, hsig, ?_, ?_, ?_, ?_, ?_, hret, hwf, hhw, hcn, hwl, ?_⟩
    · intro ha; have := hloop ha; simp_all
    · intro ha; have := hstop ha; simp_all
    · intro ha; have := hlis ha; simp_all
    · intro ha; have := hdrop ha; simp_all
    · intro ha; have := hexit ha; simp_all
    · simp [hk.2.2, hsub]

theorem Inv.of_reachable {c : Cfg} {s : State} (h : Reachable c s) : Inv c s :=
  Reachable.induct (inv_init c) (fun _ _ _ hs st => inv_step hs st) h

/-! ### Accounting of accepted connections -/

def handC (a : Acc) (e : Entry) : Nat := if inHand a = some e then 1 else 0
def brokeC (b : Option Entry) (e : Entry) : Nat := if b = some e then 1 else 0
def execC (a : Acc) (e : Entry) : Nat := if a = .execute e then 1 else 0

structure InvCount (s : State) : Prop where
  acct : ∀ e, s.accepted.count e =
    (s.dispatched.map Prod.fst).count e + s.notServed.count e + handC s.acc e + brokeC s.brokeOn e
  adm : ∀ e, s.admitted.count e = (s.dispatched.map Prod.fst).count e + execC s.acc e
  brokeLoop : s.acc.inLoop = true → s.brokeOn = none

theorem invCount_init (c : Cfg) : InvCount (init c) := by
  constructor <;> simp [init, handC, brokeC, execC, inHand, Acc.inLoop]

theorem invCount_step {c : Cfg} {s s' : State} {l : Label} (h : InvCount s) (st : Step c s l s') : InvCount s' := by
  obtain ⟨ha, hd, hb⟩ := h
  cases st with
  | arrive => exact ⟨ha, hd, hb⟩
  | signal => exact ⟨ha, hd, hb⟩
  | recvSignal => exact ⟨ha, hd, hb⟩
  | storeFlag => exact ⟨ha, hd, hb⟩
  | selfConnectOk => exact ⟨ha, hd, hb⟩
  | selfConnectRefused => exact ⟨ha, hd, hb⟩
  | joinAccept => exact ⟨ha, hd, hb⟩
  | dropListener h1 =>
    refine ⟨?_, ?_, by simp [Acc.inLoop]⟩
    · intro e; have := ha e; simp [h1, handC, inHand] at this ⊢; omega
    · intro e; have := hd e; simp [h1, execC] at this ⊢; omega
  | exit h1 =>
    refine ⟨?_, ?_, by simp [Acc.inLoop]⟩
    · intro e; have := ha e; simp [h1, handC, inHand] at this ⊢; omega
    · intro e; have := hd e; simp [h1, execC] at this ⊢; omega
  | poolDrop => exact ⟨ha, hd, hb⟩
  | worker => exact ⟨ha, hd, hb⟩
  | poolStop h1 =>
    refine ⟨?_, ?_, by simp [Acc.inLoop]⟩
    · intro e; have := ha e; simp [h1, handC, inHand] at this ⊢; omega
    · intro e; have := hd e; simp [h1, execC] at this ⊢; omega
  | @accept e0 b h1 h2 =>
    have hbn := hb (by simp [h1, Acc.inLoop])
    refine ⟨?_, ?_, fun _ => hbn⟩
    · intro e; have := ha e
      simp only [h1, handC, inHand, List.count_append, List.count_singleton] at this ⊢
      by_cases he : e0 = e <;> simp [he] at this ⊢ <;> omega
    · intro e; have := hd e; simp [h1, execC] at this ⊢; omega
  | @«break» e0 h1 h2 =>
    have hbn := hb (by simp [h1, Acc.inLoop])
    refine ⟨?_, ?_, by simp [Acc.inLoop]⟩
    · intro e; have := ha e
      simp only [h1, hbn, handC, brokeC, inHand] at this ⊢
      by_cases he : e0 = e <;> simp [he] at this ⊢ <;> omega
    · intro e; have := hd e; simp [h1, execC] at this ⊢; omega
  | @skipErr e0 h1 h2 h3 =>
    have hbn := hb (by simp [h1, Acc.inLoop])
    refine ⟨?_, ?_, fun _ => hbn⟩
    · intro e; have := ha e
      simp only [h1, handC, inHand, List.count_append, List.count_singleton] at this ⊢
      by_cases he : e0 = e <;> simp [he] at this ⊢ <;> omega
    · intro e; have := hd e; simp [h1, execC] at this ⊢; omega
  | @toCond e0 h1 h2 h3 =>
    have hbn := hb (by simp [h1, Acc.inLoop])
    refine ⟨?_, ?_, fun _ => hbn⟩
    · intro e; have := ha e
      simp only [h1, handC, inHand] at this ⊢
      by_cases he : e0 = e <;> simp [he] at this ⊢ <;> omega
    · intro e; have := hd e; simp [h1, execC] at this ⊢; omega
  | @letIn e0 h1 h2 =>
    have hbn := hb (by simp [h1, Acc.inLoop])
    refine ⟨?_, ?_, fun _ => hbn⟩
    · intro e; have := ha e
      simp only [h1, handC, inHand] at this ⊢
      by_cases he : e0 = e <;> simp [he] at this ⊢ <;> omega
    · intro e; have := hd e
      simp only [h1, execC, List.count_append, List.count_singleton] at this ⊢
      by_cases he : e0 = e <;> simp [he] at this ⊢ <;> omega
  | @deny e0 h1 h2 =>
    have hbn := hb (by simp [h1, Acc.inLoop])
    refine ⟨?_, ?_, fun _ => hbn⟩
    · intro e; have := ha e
      simp only [h1, handC, inHand, List.count_append, List.count_singleton] at this ⊢
      by_cases he : e0 = e <;> simp [he] at this ⊢ <;> omega
    · intro e; have := hd e; simp [h1, execC] at this ⊢; omega
  | @execute e0 p h1 h2 =>
    have hbn := hb (by simp [h1, Acc.inLoop])
    refine ⟨?_, ?_, fun _ => hbn⟩
    · intro e; have := ha e
      simp only [h1, handC, inHand, List.map_append, List.map_cons, List.map_nil, List.count_append,
        List.count_singleton] at this ⊢
      by_cases he : e0 = e <;> simp [he] at this ⊢ <;> omega
    · intro e; have := hd e
      simp only [h1, execC, List.map_append, List.map_cons, List.map_nil, List.count_append,
        List.count_singleton] at this ⊢
      by_cases he : e0 = e <;> simp [he] at this ⊢ <;> omega

theorem InvCount.of_reachable {c : Cfg} {s : State} (h : Reachable c s) : InvCount s :=
  Reachable.induct (invCount_init c) (fun _ _ _ hs st => invCount_step hs st) h

/-! ### The view into `Spec/Shutdown.lean` -/

open ShutdownSpec in
/-- What an observer sees of a step. Connection ids are the client ids; the wake-up connection and accept
errors have none. -/
def evOf : Label → Ev
  | .recvSignal => .signalTaken
  | .storeFlag => .flagStored
  | .selfConnect => .wakeSent
  | .accept => .acceptReturned
  | .checkFlag true => .loopLeft
  | .poolStop => .poolStopped
  | .dropListener => .listenerDropped
  | .poolDrop l => if l = .dropSender then .poolDropped else .other
  | .joinAccept => .returned
  | _ => .other

def unfinished (s : State) : Nat :=
  (s.dispatched.filter fun (_, k) => !(s.pool.finished.contains k || s.pool.panicked.contains k)).length

open ShutdownSpec in
def endOf (s : State) : End where
  callerReturned := s.caller == .returned
  listenerOpen := s.listenerOpen
  poolStopped := s.stopDone
  poolDropped := s.pool.life == .dropped
  unfinished := unfinished s
  workersLeft := s.pool.workers.length - Pool.exitedCount s.pool.workers

end Humphrey.Shutdown
