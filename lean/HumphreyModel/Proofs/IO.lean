import HumphreyModel.Model.IO

namespace Humphrey.IO
open Humphrey

theorem takeThrough_append_some {d : UInt8} {a pre post : Bytes} (b : Bytes)
    (h : takeThrough d a = some (pre, post)) :
    takeThrough d (a ++ b) = some (pre, post ++ b) := by
  induction a generalizing pre post with
  | nil => simp [takeThrough] at h
  | cons x xs ih =>
    simp only [takeThrough, List.cons_append] at h ⊢
    by_cases hx : x = d
    · simp [hx] at h ⊢; obtain ⟨rfl, rfl⟩ := h; simp
    · simp only [hx, if_false] at h ⊢
      cases hr : takeThrough d xs with
      | none => simp [hr] at h
      | some p =>
        obtain ⟨p1, p2⟩ := p
        simp [hr] at h
        obtain ⟨rfl, rfl⟩ := h
        simp [ih hr]

theorem takeThrough_append_none {d : UInt8} {a : Bytes} (b : Bytes)
    (h : takeThrough d a = none) :
    takeThrough d (a ++ b) = (takeThrough d b).map (fun p => (a ++ p.1, p.2)) := by
  induction a with
  | nil => cases hb : takeThrough d b <;> simp [hb]
  | cons x xs ih =>
    simp only [takeThrough, List.cons_append] at h ⊢
    by_cases hx : x = d
    · simp [hx] at h
    · simp only [hx, if_false] at h ⊢
      cases hr : takeThrough d xs with
      | some p => simp [hr] at h
      | none =>
        rw [ih hr]
        cases takeThrough d b <;> simp

/-- `read_until` on a chunked reader = `read_until` on the concatenated stream. -/
theorem readUntilAux_flat (d : UInt8) (buf : Bytes) (chunks : List Bytes) :
    (readUntilAux d buf chunks).1 = (flatReadUntil d (buf ++ chunks.flatten)).1 ∧
    (readUntilAux d buf chunks).2.rest = (flatReadUntil d (buf ++ chunks.flatten)).2 := by
  induction chunks generalizing buf with
  | nil =>
    simp only [readUntilAux, flatReadUntil, List.flatten_nil, List.append_nil]
    cases takeThrough d buf with
    | none => simp [Reader.rest]
    | some p => simp [Reader.rest]
  | cons c cs ih =>
    simp only [readUntilAux, flatReadUntil, List.flatten_cons]
    cases hb : takeThrough d buf with
    | some p =>
      obtain ⟨pre, post⟩ := p
      simp [takeThrough_append_some _ hb, Reader.rest]
    | none =>
      have := ih c
      simp only [flatReadUntil] at this
      rw [takeThrough_append_none _ hb]
      cases hc : takeThrough d (c ++ cs.flatten) with
      | none => simp [hc] at this ⊢; simp [this]
      | some p => simp [hc] at this ⊢; simp [this]

theorem readExactAux_flat (n : Nat) (buf : Bytes) (chunks : List Bytes) :
    match readExactAux n buf chunks, flatReadExact n (buf ++ chunks.flatten) with
    | none, none => True
    | some (a, r), some (b, s) => a = b ∧ r.rest = s
    | _, _ => False := by
  induction chunks generalizing n buf with
  | nil =>
    simp only [readExactAux, flatReadExact, List.flatten_nil, List.append_nil]
    by_cases h : n ≤ buf.length <;> simp [h, Reader.rest]
  | cons c cs ih =>
    simp only [readExactAux, flatReadExact, List.flatten_cons]
    by_cases h : n ≤ buf.length
    · have h2 : n ≤ (buf ++ (c ++ cs.flatten)).length := by simp; omega
      simp only [h, h2, if_true]
      refine ⟨?_, ?_⟩
      · rw [List.take_append_of_le_length h]
      · simp [Reader.rest, List.drop_append_of_le_length h]
    · simp only [h, if_false]
      have := ih (n - buf.length) c
      simp only [flatReadExact] at this
      by_cases h2 : n - buf.length ≤ (c ++ cs.flatten).length
      · have h3 : n ≤ (buf ++ (c ++ cs.flatten)).length := by
          simp at h2 ⊢; omega
        simp only [h2, h3, if_true] at this ⊢
        cases hr : readExactAux (n - buf.length) c cs with
        | none => simp [hr] at this
        | some p =>
          obtain ⟨more, r⟩ := p
          simp only [hr] at this ⊢
          obtain ⟨h4, h5⟩ := this
          refine ⟨?_, ?_⟩
          · have : List.take n buf = buf := List.take_of_length_le (by omega)
            rw [h4, List.take_append (l₁ := buf), this]
          · have : List.drop n buf = [] := List.drop_of_length_le (by omega)
            rw [h5, List.drop_append (l₁ := buf), this]; simp
      · have h3 : ¬ n ≤ (buf ++ (c ++ cs.flatten)).length := by
          simp at h2 ⊢; omega
        simp only [h2, h3, if_false] at this ⊢
        cases hr : readExactAux (n - buf.length) c cs with
        | none => simp
        | some p => simp [hr] at this

end Humphrey.IO
