import HumphreyModel.Props.C03
/-
Size accounting for the parsers on the flat stream (C03, memory): what a parser returns (header
names and values, body, frame payload) plus what it leaves unread never exceeds what it was given.
Helper lemmas carry the prefix `bnd_`.
-/
namespace Humphrey.Http
open Humphrey Humphrey.IO Humphrey.Bytes

/-- Total size of the stored header names and values. -/
def headersSize (hs : Headers) : Nat :=
  (hs.map (fun h => h.name.lower.length + h.value.length)).sum

theorem headersSize_nil : headersSize [] = 0 := rfl

theorem headersSize_append (a b : Headers) : headersSize (a ++ b) = headersSize a + headersSize b := by
  simp [headersSize, List.sum_append]

theorem headersSize_single (h : Header) : headersSize [h] = h.name.lower.length + h.value.length := by
  simp [headersSize]

theorem headersSize_remove_le (hs : Headers) (n : HName) : headersSize (hs.remove n) ≤ headersSize hs := by
  induction hs with
  | nil => simp [Headers.remove]
  | cons x xs ih =>
    simp only [Headers.remove, List.filter_cons] at ih ⊢
    split
    · simp only [headersSize, List.map_cons, List.sum_cons] at ih ⊢; omega
    · simp only [headersSize, List.map_cons, List.sum_cons] at ih ⊢; omega

/-! ## Text primitives -/

theorem bnd_trimStartAux_le (fuel : Nat) (s : Bytes) : (trimStartAux fuel s).length ≤ s.length := by
  induction fuel generalizing s with
  | zero => simp [trimStartAux]
  | succ fuel ih =>
    simp only [trimStartAux]
    split
    · exact Nat.le_refl _
    · have := ih (s.drop (wsPrefixLen s))
      simp only [List.length_drop] at this
      omega

theorem bnd_trimStart_le (s : Bytes) : (trimStart s).length ≤ s.length :=
  bnd_trimStartAux_le _ _

theorem bnd_splitOnce_some (sep : UInt8) (s a b : Bytes) (h : splitOnce sep s = (a, some b)) :
    a.length + 1 + b.length = s.length := by
  induction s generalizing a b with
  | nil => simp [splitOnce] at h
  | cons x xs ih =>
    simp only [splitOnce] at h
    split at h
    · simp only [Prod.mk.injEq, Option.some.injEq] at h
      obtain ⟨rfl, rfl⟩ := h
      simp only [List.length_nil, List.length_cons]
      omega
    · cases hr : splitOnce sep xs with
      | mk a' r' =>
        simp only [hr, Prod.mk.injEq] at h
        obtain ⟨rfl, rfl⟩ := h
        have := ih a' b hr
        simp only [List.length_cons]
        omega

theorem bnd_stripCrlf_some (s b : Bytes) (h : stripCrlf s = some b) : b.length + 2 = s.length := by
  unfold stripCrlf at h
  split at h
  · rename_i hc
    simp only [Option.some.injEq] at h
    subst h
    simp only [List.length_take]
    omega
  · simp at h

theorem bnd_asciiLower_length (s : Bytes) : (asciiLower s).length = s.length := by
  simp [asciiLower]

/-! ## Header lines and the header loops -/

theorem bnd_respHeaderLine (line : Bytes) (h : Header) (hp : parseRespHeaderLine line = .ok h) :
    h.name.lower.length + h.value.length + 3 ≤ line.length := by
  unfold parseRespHeaderLine at hp
  split at hp
  · simp at hp
  · split at hp
    · simp at hp
    · rename_i body hb
      have e1 := bnd_stripCrlf_some _ _ hb
      split at hp
      · simp at hp
      · rename_i name value hs
        have e2 := bnd_splitOnce_some _ _ _ _ hs
        simp only [Outcome.ok.injEq] at hp
        subst hp
        have e3 := bnd_trimStart_le value
        simp only [HName.ofName, bnd_asciiLower_length]
        omega

theorem bnd_reqHeaderLine (line : Bytes) (h : Header) (hp : parseHeaderLine line = .ok h) :
    h.name.lower.length + h.value.length + 3 ≤ line.length := by
  unfold parseHeaderLine at hp
  split at hp
  · simp at hp
  · split at hp
    · simp at hp
    · rename_i body hb
      have e1 := bnd_stripCrlf_some _ _ hb
      split at hp
      · simp at hp
      · rename_i name value hs
        have e2 := bnd_splitOnce_some _ _ _ _ hs
        simp only [Outcome.ok.injEq] at hp
        subst hp
        have e3 := bnd_trimStart_le value
        simp only [HName.ofName, bnd_asciiLower_length]
        omega

/-- The response header loop: the parsed names and values, three bytes of syntax per field
(`:` and CRLF), the blank line and what is left unread fit in what was supplied. -/
theorem bnd_parseRespHeaders (fuel : Nat) (s : Bytes) (acc hs : Headers) (rest : Bytes)
    (h : parseRespHeaders flatSource fuel s acc = .ok (hs, rest)) :
    headersSize hs + 3 * hs.length + 2 + rest.length ≤ headersSize acc + 3 * acc.length + s.length := by
  induction fuel generalizing s acc with
  | zero => simp [parseRespHeaders] at h
  | succ fuel ih =>
    simp only [parseRespHeaders] at h
    have hl := flatReadUntil_length LF s
    simp only [flatSource] at h hl
    by_cases hc : (flatReadUntil LF s).1 = crlf
    · simp only [hc, if_true, Outcome.ok.injEq, Prod.mk.injEq] at h
      obtain ⟨rfl, rfl⟩ := h
      rw [hc] at hl
      simp only [crlf, List.length_cons, List.length_nil] at hl
      omega
    · simp only [hc, if_false] at h
      split at h
      · rename_i hd hline
        have e1 := bnd_respHeaderLine _ _ hline
        have := ih _ _ h
        rw [headersSize_append, headersSize_single] at this
        simp only [List.length_append, List.length_cons, List.length_nil] at this
        omega
      · simp at h
      · simp at h

/-- The request header loop, likewise. -/
theorem bnd_parseHeaders (fuel : Nat) (s : Bytes) (acc hs : Headers) (rest : Bytes)
    (h : parseHeaders flatSource fuel s acc = .ok (hs, rest)) :
    headersSize hs + 3 * hs.length + 2 + rest.length ≤ headersSize acc + 3 * acc.length + s.length := by
  induction fuel generalizing s acc with
  | zero => simp [parseHeaders] at h
  | succ fuel ih =>
    simp only [parseHeaders] at h
    have hl := flatReadUntil_length LF s
    simp only [flatSource] at h hl
    by_cases hc : (flatReadUntil LF s).1 = crlf
    · simp only [hc, if_true, Outcome.ok.injEq, Prod.mk.injEq] at h
      obtain ⟨rfl, rfl⟩ := h
      rw [hc] at hl
      simp only [crlf, List.length_cons, List.length_nil] at hl
      omega
    · simp only [hc, if_false] at h
      split at h
      · rename_i hd hline
        have e1 := bnd_reqHeaderLine _ _ hline
        have := ih _ _ h
        rw [headersSize_append, headersSize_single] at this
        simp only [List.length_append, List.length_cons, List.length_nil] at this
        omega
      · simp at h
      · simp at h

/-! ## Chunks, `read_to_end`, the body -/

theorem bnd_parseChunk (s : Bytes) (o : Option Bytes) (s' : Bytes)
    (h : parseChunk flatSource s = .ok (o, s')) :
    (o.getD []).length + s'.length + 3 ≤ s.length := by
  unfold parseChunk at h
  have hl := flatReadUntil_length LF s
  simp only [flatSource] at h hl
  by_cases hu : utf8Valid (flatReadUntil LF s).1
  · simp only [hu, Bool.not_true, Bool.false_eq_true, if_false] at h
    have h1 : 1 ≤ (flatReadUntil LF s).1.length := by
      cases hq : (flatReadUntil LF s).1 with
      | nil => rw [hq] at h; simp [trimEnd, trimEndAux, parseHexUsize] at h
      | cons _ _ => simp
    cases hp : parseHexUsize (trimEnd (flatReadUntil LF s).1) with
    | none => simp [hp] at h
    | some n =>
      cases n with
      | zero =>
        simp only [hp] at h
        split at h
        · simp at h
        · rename_i d s2 hx
          have e := flatReadExact_length _ _ _ _ hx
          simp only [Outcome.ok.injEq, Prod.mk.injEq] at h
          obtain ⟨rfl, rfl⟩ := h
          simp only [Option.getD_none, List.length_nil]
          omega
      | succ n =>
        simp only [hp] at h
        split at h
        · simp at h
        · rename_i data s2 hx
          have e := flatReadExact_length _ _ _ _ hx
          split at h
          · simp at h
          · rename_i d s3 hy
            have e' := flatReadExact_length _ _ _ _ hy
            simp only [Outcome.ok.injEq, Prod.mk.injEq] at h
            obtain ⟨rfl, rfl⟩ := h
            simp only [Option.getD_some]
            omega
  · simp [hu] at h

theorem bnd_parseChunks (fuel : Nat) (s acc body s' : Bytes)
    (h : parseChunks flatSource fuel s acc = .ok (body, s')) :
    body.length + s'.length + 3 ≤ acc.length + s.length := by
  induction fuel generalizing s acc with
  | zero => simp [parseChunks] at h
  | succ fuel ih =>
    simp only [parseChunks] at h
    split at h
    · rename_i s1 hc
      have := bnd_parseChunk _ _ _ hc
      simp only [Outcome.ok.injEq, Prod.mk.injEq] at h
      obtain ⟨rfl, rfl⟩ := h
      simp only [Option.getD_none, List.length_nil] at this
      omega
    · rename_i d s1 hc
      have e := bnd_parseChunk _ _ _ hc
      have := ih _ _ h
      simp only [Option.getD_some, List.length_append] at e this
      omega
    · simp at h
    · simp at h

theorem bnd_readRest (fuel : Nat) (s acc : Bytes) :
    (readRest flatSource fuel s acc).1.length + (readRest flatSource fuel s acc).2.length ≤
      acc.length + s.length := by
  induction fuel generalizing s acc with
  | zero => simp [readRest]
  | succ fuel ih =>
    simp only [readRest]
    have hl := flatReadUntil_length LF s
    simp only [flatSource] at hl ⊢
    by_cases he : (flatReadUntil LF s).1.isEmpty = true
    · simp only [he, if_true]; omega
    · have he' : (flatReadUntil LF s).1.isEmpty = false := by simpa using he
      simp only [he', Bool.false_eq_true, if_false]
      have := ih (flatReadUntil LF s).2 (acc ++ (flatReadUntil LF s).1)
      simp only [flatSource, List.length_append] at this
      omega

/-- The body in all three framings, and which header list comes back: the one given, or — for a
chunked message — the one given without `Transfer-Encoding` plus a synthesised `Content-Length`. -/
theorem bnd_parseBody (code : Nat) (hs hs' : Headers) (s body s' : Bytes)
    (h : parseBody flatSource code hs s = .ok ((hs', body), s')) :
    body.length + s'.length ≤ s.length ∧
    (hs' = hs ∨ hs' = hs.remove hTransferEncoding ++ [⟨hContentLength, natToBytes body.length⟩]) := by
  unfold parseBody at h
  split at h
  · split at h
    · simp at h
    · simp at h
    · rename_i b s1 hc
      have := bnd_parseChunks _ _ _ _ _ hc
      simp only [Outcome.ok.injEq, Prod.mk.injEq] at h
      obtain ⟨⟨rfl, rfl⟩, rfl⟩ := h
      simp only [List.length_nil] at this
      exact ⟨by omega, .inr rfl⟩
  · split at h
    · split at h
      · simp at h
      · split at h
        · simp at h
        · rename_i b s1 hx
          have e := flatReadExact_length _ _ _ _ hx
          simp only [Outcome.ok.injEq, Prod.mk.injEq] at h
          obtain ⟨⟨rfl, rfl⟩, rfl⟩ := h
          exact ⟨by omega, .inl rfl⟩
    · split at h
      · simp only [Outcome.ok.injEq, Prod.mk.injEq] at h
        obtain ⟨⟨rfl, rfl⟩, rfl⟩ := h
        exact ⟨by simp, .inl rfl⟩
      · simp only [Outcome.ok.injEq, Prod.mk.injEq] at h
        obtain ⟨⟨rfl, rfl⟩, rfl⟩ := h
        have := bnd_readRest (flatSource.remaining s + 1) s []
        simp only [List.length_nil] at this
        exact ⟨by omega, .inl rfl⟩

/-- The whole response parser: the header list `hs` the header loop built, the body and the unread
remainder fit in the input together. -/
theorem bnd_parseResponse (s : Bytes) (r : Response) (rest : Bytes)
    (h : parseResponse flatSource s = .ok (r, rest)) :
    ∃ hs : Headers,
      (r.headers = hs ∨
        r.headers = hs.remove hTransferEncoding ++ [⟨hContentLength, natToBytes r.body.length⟩]) ∧
      headersSize hs + 3 * hs.length + 2 + r.body.length + rest.length ≤ s.length := by
  unfold parseResponse at h
  have hl := flatReadUntil_length LF s
  simp only [flatSource] at h hl
  split at h
  · simp at h
  · split at h
    · simp at h
    · simp at h
    · rename_i hs s2 hh
      have e1 := bnd_parseRespHeaders _ _ _ _ _ hh
      simp only [headersSize_nil, List.length_nil] at e1
      split at h
      · simp at h
      · simp at h
      · rename_i hs' body s3 hb
        obtain ⟨e2, e3⟩ := bnd_parseBody _ _ _ _ _ _ hb
        simp only [Outcome.ok.injEq, Prod.mk.injEq] at h
        obtain ⟨rfl, rfl⟩ := h
        exact ⟨hs, e3, by simp only; omega⟩

/-- The whole request parser, likewise (the request's header list is the one the loop built). -/
theorem bnd_parseRequest (env : Env) (s : Bytes) (req : Request) (rest : Bytes)
    (h : parseRequest flatSource env s = .ok (req, rest)) :
    headersSize req.headers + 3 * req.headers.length + 2 + (req.content.getD []).length + rest.length ≤
      s.length := by
  unfold parseRequest at h
  simp only [flatSource] at h
  split at h
  · simp at h
  · rename_i first s1 h1
    have e1 := flatReadExact_length 1 s first s1 h1
    have e2 := flatReadUntil_length LF s1
    split at h
    · simp at h
    · split at h
      · simp at h
      · simp at h
      · rename_i hs s3 hh
        have e3 := bnd_parseHeaders _ _ _ _ _ hh
        simp only [headersSize_nil, List.length_nil] at e3
        split at h
        · simp only [Outcome.ok.injEq, Prod.mk.injEq] at h
          obtain ⟨rfl, rfl⟩ := h
          simp only [Option.getD_none, List.length_nil]
          omega
        · split at h
          · simp at h
          · split at h
            · simp at h
            · rename_i body s4 h4
              have e4 := flatReadExact_length _ _ _ _ h4
              simp only [Outcome.ok.injEq, Prod.mk.injEq] at h
              obtain ⟨rfl, rfl⟩ := h
              simp only [Option.getD_some]
              omega

end Humphrey.Http

namespace Humphrey.WsFrame

/-! ## WebSocket frames -/

/-- `read_exact` hands out exactly the next `n` bytes of the script (no assumption on the reads). -/
theorem bnd_readExact (n : Nat) (s : List Bytes) (bs : Bytes) (s' : List Bytes)
    (h : readExact n s = some (bs, s')) : bs.length = n ∧ bs ++ s'.flatten = s.flatten := by
  induction s generalizing n bs s' with
  | nil =>
    cases n with
    | zero => simp [readExact] at h; obtain ⟨rfl, rfl⟩ := h; simp
    | succ n => simp [readExact] at h
  | cons c cs ih =>
    cases n with
    | zero => simp [readExact] at h; obtain ⟨rfl, rfl⟩ := h; simp
    | succ n =>
      simp only [readExact] at h
      split at h
      · simp at h
      · rename_i hc0
        split at h
        · rename_i hle
          cases hr : readExact (n + 1 - c.length) cs with
          | none => simp [hr] at h
          | some p =>
            obtain ⟨bs1, s1⟩ := p
            simp only [hr, Option.some.injEq, Prod.mk.injEq] at h
            obtain ⟨rfl, rfl⟩ := h
            obtain ⟨e1, e2⟩ := ih _ _ _ hr
            refine ⟨by simp only [List.length_append]; omega, ?_⟩
            simp only [List.flatten_cons, List.append_assoc, e2]
        · rename_i hgt
          simp only [Option.some.injEq, Prod.mk.injEq] at h
          obtain ⟨rfl, rfl⟩ := h
          refine ⟨by simp only [List.length_take]; omega, ?_⟩
          simp only [List.flatten_cons, ← List.append_assoc, List.take_append_drop]

/-- The decoder over any stream whose `read_exact` consumes what it returns (`m` measures what is
left): the payload is exactly as long as the length field says, and header, payload and remainder fit
in what the stream held. -/
theorem bnd_decodeWith {σ : Type} (rd : Nat → σ → Option (Bytes × σ)) (m : σ → Nat)
    (hrd : ∀ n s bs s', rd n s = some (bs, s') → bs.length = n ∧ n + m s' = m s)
    (s : σ) (f : Frame) (rest : σ) (h : (decodeWith rd s).result = .ok (f, rest)) :
    f.payload.length = f.length ∧ 2 + f.payload.length + m rest ≤ m s := by
  unfold decodeWith at h
  split at h
  · rename_i h0 h1 s1 hr
    have e0 := (hrd _ _ _ _ hr).2
    unfold innerWith at h
    simp only at h
    split at h
    · simp at h
    · split at h
      · simp at h
      · rename_i len s2 hlen
        have e1 : m s2 ≤ m s1 := by
          unfold readLength at hlen
          split at hlen
          · split at hlen
            · simp at hlen
            · rename_i bs s' hx
              simp only [Option.some.injEq, Prod.mk.injEq] at hlen
              obtain ⟨_, rfl⟩ := hlen
              have := (hrd _ _ _ _ hx).2; omega
          · split at hlen
            · split at hlen
              · simp at hlen
              · rename_i bs s' hx
                simp only [Option.some.injEq, Prod.mk.injEq] at hlen
                obtain ⟨_, rfl⟩ := hlen
                have := (hrd _ _ _ _ hx).2; omega
            · simp only [Option.some.injEq, Prod.mk.injEq] at hlen
              obtain ⟨_, rfl⟩ := hlen
              exact Nat.le_refl _
        split at h
        · simp at h
        · rename_i key s3 hkey
          have e2 : m s3 ≤ m s2 := by
            unfold readKey at hkey
            split at hkey
            · split at hkey
              · rename_i a b c d s' hx
                simp only [Option.some.injEq, Prod.mk.injEq] at hkey
                obtain ⟨_, rfl⟩ := hkey
                have := (hrd _ _ _ _ hx).2; omega
              · simp at hkey
            · simp only [Option.some.injEq, Prod.mk.injEq] at hkey
              obtain ⟨_, rfl⟩ := hkey
              exact Nat.le_refl _
          split at h
          · simp at h
          · rename_i payload s4 hp
            obtain ⟨e3, e4⟩ := hrd _ _ _ _ hp
            simp only [Except.ok.injEq, Prod.mk.injEq] at h
            obtain ⟨rfl, rfl⟩ := h
            simp only [xorKey_length]
            exact ⟨e3, by omega⟩
  · simp at h

end Humphrey.WsFrame
