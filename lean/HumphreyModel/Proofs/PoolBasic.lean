import HumphreyModel.Model.Pool

/-!
Helper material for C08: the step function as an inductive relation (one constructor per way a
label can fire), sums over the worker table, replay lemmas.
-/
namespace Humphrey.Pool

/-- `step` spelled out: one constructor per enabled case, with its preconditions as hypotheses. -/
inductive Step (c : Cfg) (s : State) : Label → State → Prop
  | start : s.life = .created → s.caller = .idle →
      Step c s .start { s with life := .started, workers := List.replicate c.n .idle, recov := .waiting }
  | submit : s.life = .started → s.caller = .idle →
      Step c s (.submit s.submitted.length)
        { s with queue := s.queue ++ [.task s.submitted.length], submitted := s.submitted ++ [s.submitted.length] }
  | stop : s.life = .started → s.caller = .idle →
      Step c s .stop { s with life := .stopped, queue := s.queue ++ [.shutdown] }
  | reqLock {w} : s.workers[w]? = some .idle → Step c s (.reqLock w) (setW s w .waitingLock)
  | lock {w} : s.workers[w]? = some .waitingLock → s.rxLock = none →
      Step c s (.lock w) { setW s w .inRecv with rxLock := some w }
  | recvMsg {w m q} : s.workers[w]? = some .inRecv → s.queue = m :: q →
      Step c s (.recv w) { setW s w (.got (some m)) with queue := q, dequeued := s.dequeued ++ taskOf m }
  | recvErr {w} : s.workers[w]? = some .inRecv → s.queue = [] → s.senderAlive = false →
      Step c s (.recv w) (setW s w (.got none))
  | unlock {w r} : s.workers[w]? = some (.got r) → s.rxLock = some w →
      Step c s (.unlock w) { setW s w (.ready r) with rxLock := none }
  | run {w k} : s.workers[w]? = some (.ready (some (.task k))) →
      Step c s (.run w) { setW s w (.running k) with started := s.started ++ [k] }
  | exitErr {w} : s.workers[w]? = some (.ready none) → Step c s (.exit w) (setW s w .exited)
  | exitShutdown {w} : s.workers[w]? = some (.ready (some .shutdown)) → Step c s (.exit w) (setW s w .exited)
  | finish {w k} : s.workers[w]? = some (.running k) → c.panics k = false →
      Step c s (.finish w) { setW s w .idle with finished := s.finished ++ [k] }
  | panic {w k} : s.workers[w]? = some (.running k) → c.panics k = true →
      Step c s (.panic w) { setW s w .unwinding with panicked := s.panicked ++ [k] }
  | markerSend {w} : s.workers[w]? = some .unwinding →
      Step c s (.markerSend w) { setW s w .dead with recChan := s.recChan ++ [w] }
  | recRecv {w} : s.recov = .waiting → w ∈ s.recChan →
      Step c s (.recRecv w) { s with recov := .joining w, recChan := s.recChan.erase w }
  | recJoin {w} : s.recov = .joining w → s.workers[w]? = some .dead →
      Step c s .recJoin { s with recov := .respawning w }
  | recRespawn {w} : s.recov = .respawning w → s.workers[w]? = some .dead →
      Step c s .recRespawn { setW s w .idle with recov := .waiting }
  | dropBegin : s.caller = .idle → s.life ≠ .dropped → Step c s .dropBegin { s with caller := .dropRec }
  | dropDetachRecovery : s.caller = .dropRec → Step c s .dropDetachRecovery (afterRecoveryHandle s)
  | dropDetach : s.caller = .dropThreads → s.recov = .waiting → Step c s .dropDetach { s with caller := .dropTx }
  | dropSender : s.caller = .dropTx →
      Step c s .dropSender { s with caller := .done, life := .dropped, senderAlive := false }

theorem Step.of_step {c : Cfg} {s s' : State} {l : Label} (h : step c s l = some s') : Step c s l s' := by
  cases l <;> simp only [step] at h
  case start => simp at h; obtain ⟨⟨h1, h2⟩, rfl⟩ := h; exact .start h1 h2
  case submit k => simp at h; obtain ⟨⟨h1, h2, rfl⟩, rfl⟩ := h; exact .submit h1 h2
  case stop => simp at h; obtain ⟨⟨h1, h2⟩, rfl⟩ := h; exact .stop h1 h2
  case reqLock w => simp at h; obtain ⟨h1, rfl⟩ := h; exact .reqLock h1
  case lock w => simp at h; obtain ⟨⟨h1, h2⟩, rfl⟩ := h; exact .lock h1 h2
  case recv w =>
    split at h
    · rename_i hw
      split at h
      · rename_i m q hq; simp at h; subst h; exact .recvMsg hw hq
      · rename_i hq; simp at h; obtain ⟨h1, rfl⟩ := h; exact .recvErr hw hq h1
    · simp at h
  case unlock w =>
    split at h
    · rename_i r hw; simp at h; obtain ⟨h1, rfl⟩ := h; exact .unlock hw h1
    · simp at h
  case run w =>
    split at h
    · rename_i k hw; simp at h; subst h; exact .run hw
    · simp at h
  case exit w =>
    split at h
    · rename_i hw; simp at h; subst h; exact .exitErr hw
    · rename_i hw; simp at h; subst h; exact .exitShutdown hw
    · simp at h
  case finish w =>
    split at h
    · rename_i k hw; simp at h; obtain ⟨h1, rfl⟩ := h; exact .finish hw h1
    · simp at h
  case panic w =>
    split at h
    · rename_i k hw; simp at h; obtain ⟨h1, rfl⟩ := h; exact .panic hw h1
    · simp at h
  case markerSend w => simp at h; obtain ⟨h1, rfl⟩ := h; exact .markerSend h1
  case recRecv w => simp at h; obtain ⟨⟨h1, h2⟩, rfl⟩ := h; exact .recRecv h1 h2
  case recJoin =>
    split at h
    · rename_i w hr; simp at h; obtain ⟨h1, rfl⟩ := h; exact .recJoin hr h1
    · simp at h
  case recRespawn =>
    split at h
    · rename_i w hr; simp at h; obtain ⟨h1, rfl⟩ := h; exact .recRespawn hr h1
    · simp at h
  case dropBegin => simp at h; obtain ⟨⟨h1, h2⟩, rfl⟩ := h; exact .dropBegin h1 h2
  case dropJoinRecovery => simp at h
  case dropDetachRecovery => simp at h; obtain ⟨h1, rfl⟩ := h; exact .dropDetachRecovery h1
  case dropDetach => simp at h; obtain ⟨⟨h1, h2⟩, rfl⟩ := h; exact .dropDetach h1 h2
  case dropSender => simp at h; obtain ⟨h1, rfl⟩ := h; exact .dropSender h1

/-! ### Sums over the worker table -/

def sumBy (g : Phase → Nat) : List Phase → Nat
  | [] => 0
  | p :: ps => g p + sumBy g ps

theorem sumBy_set {g : Phase → Nat} : ∀ {ws : List Phase} {w : Nat} {p : Phase} (q : Phase),
    ws[w]? = some p → sumBy g (ws.set w q) + g p = sumBy g ws + g q
  | [], w, p, q, h => by simp at h
  | x :: xs, 0, p, q, h => by
    simp at h; subst h; simp [sumBy]; omega
  | x :: xs, w + 1, p, q, h => by
    simp at h
    have := sumBy_set (g := g) q h
    simp [sumBy]; omega

theorem sumBy_replicate (g : Phase → Nat) (p : Phase) : ∀ n, sumBy g (List.replicate n p) = n * g p
  | 0 => by simp [sumBy]
  | n + 1 => by simp [List.replicate_succ, sumBy, sumBy_replicate g p n, Nat.add_mul]; omega

theorem sumBy_le_length {g : Phase → Nat} (hg : ∀ p, g p ≤ 1) : ∀ ws, sumBy g ws ≤ ws.length
  | [] => by simp [sumBy]
  | p :: ps => by have := hg p; have := sumBy_le_length hg ps; simp [sumBy]; omega

theorem sumBy_eq_zero {g : Phase → Nat} : ∀ {ws : List Phase}, sumBy g ws = 0 →
    ∀ {w : Nat} {p : Phase}, ws[w]? = some p → g p = 0
  | [], _, w, p, h => by simp at h
  | x :: xs, h0, 0, p, h => by simp at h; subst h; simp [sumBy] at h0; omega
  | x :: xs, h0, w + 1, p, h => by
    simp at h; simp [sumBy] at h0
    exact sumBy_eq_zero (ws := xs) (by omega) h

theorem sumBy_pos_of_mem {g : Phase → Nat} : ∀ {ws : List Phase} {w : Nat} {p : Phase}, ws[w]? = some p → g p ≤ sumBy g ws
  | [], w, p, h => by simp at h
  | x :: xs, 0, p, h => by simp at h; subst h; simp [sumBy]
  | x :: xs, w + 1, p, h => by
    simp at h; have := sumBy_pos_of_mem (g := g) h; simp [sumBy]; omega

theorem count_flatMap (f : Phase → List Nat) (k : Nat) : ∀ ws : List Phase,
    (ws.flatMap f).count k = sumBy (fun p => (f p).count k) ws
  | [] => by simp [sumBy]
  | p :: ps => by simp [List.flatMap_cons, List.count_append, sumBy, count_flatMap f k ps]

theorem length_filter_eq_sumBy (f : Phase → Bool) : ∀ ws : List Phase,
    (ws.filter f).length = sumBy (fun p => if f p then 1 else 0) ws
  | [] => by simp [sumBy]
  | p :: ps => by
    by_cases h : f p <;> simp [h, sumBy, length_filter_eq_sumBy f ps]; omega

/-! ### Replaying -/

theorem runWith_append {f : State → Label → Option State} : ∀ (ls₁ ls₂ : List Label) (s : State),
    runWith f s (ls₁ ++ ls₂) = (runWith f s ls₁).bind (fun s' => runWith f s' ls₂)
  | [], ls₂, s => by simp [runWith]
  | l :: ls₁, ls₂, s => by
    simp only [List.cons_append, runWith]
    cases f s l with
    | none => simp
    | some s' => simp [runWith_append ls₁ ls₂ s']

/-- Induction principle for reachable states. -/
theorem Reachable.induct {c : Cfg} {P : State → Prop} (h0 : P init)
    (hstep : ∀ s l s', P s → Step c s l s' → P s') : ∀ {s}, Reachable c s → P s := by
  have key : ∀ (ls : List Label) (s s' : State), P s → run c s ls = some s' → P s' := by
    intro ls
    induction ls with
    | nil => intro s s' hs h; simp [run, runWith] at h; subst h; exact hs
    | cons l ls ih =>
      intro s s' hs h
      simp only [run, runWith] at h
      cases hl : step c s l with
      | none => simp [hl] at h
      | some s1 =>
        simp only [hl] at h
        exact ih s1 s' (hstep s l s1 hs (Step.of_step hl)) h
  intro s ⟨ls, hls⟩
  exact key ls init s h0 hls

theorem Reachable.init (c : Cfg) : Reachable c init := ⟨[], rfl⟩

theorem Reachable.step {c : Cfg} {s s' : State} {l : Label} (hs : Reachable c s) (h : step c s l = some s') :
    Reachable c s' := by
  obtain ⟨ls, hls⟩ := hs
  refine ⟨ls ++ [l], ?_⟩
  simp only [run] at hls ⊢
  rw [runWith_append, hls]
  simp [runWith, h]

theorem Reachable.run {c : Cfg} {s s' : State} {ls : List Label} (hs : Reachable c s) (h : run c s ls = some s') :
    Reachable c s' := by
  obtain ⟨ls0, hls⟩ := hs
  refine ⟨ls0 ++ ls, ?_⟩
  simp only [Pool.run] at hls h ⊢
  rw [runWith_append, hls]
  simpa using h

end Humphrey.Pool
