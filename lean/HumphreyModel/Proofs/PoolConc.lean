import HumphreyModel.Proofs.PoolFinal

/-!
C08: N tasks can run at the same time (the receiver's mutex is released before a task is called).
-/
namespace Humphrey.Pool

/-- One worker takes the next task out of the queue and starts running it. -/
theorem worker_takes_task {c : Cfg} {s : State} {j k : Nat} {q : List Msg}
    (hw : s.workers[j]? = some .idle) (hl : s.rxLock = none) (hq : s.queue = .task k :: q) :
    run c s [.reqLock j, .lock j, .recv j, .unlock j, .run j] =
      some { s with workers := s.workers.set j (.running k), queue := q, dequeued := s.dequeued ++ [k],
                    started := s.started ++ [k] } := by
  have e : ∀ {ws : List Phase} {p q : Phase}, ws[j]? = some p → (ws.set j q)[j]? = some q := by
    intro ws p q h; simp [getElem?_set_workers h]
  let s1 := setW s j .waitingLock
  have h1 : step c s (.reqLock j) = some s1 := by simp [step, hw, s1]
  have w1 : s1.workers[j]? = some .waitingLock := e hw
  let s2 : State := { setW s1 j .inRecv with rxLock := some j }
  have h2 : step c s1 (.lock j) = some s2 := by
    have : s1.rxLock = none := hl
    simp [step, w1, this, s2]
  have w2 : s2.workers[j]? = some .inRecv := e w1
  let s3 : State := { setW s2 j (.got (some (.task k))) with queue := q, dequeued := s2.dequeued ++ [k] }
  have h3 : step c s2 (.recv j) = some s3 := by
    have : s2.queue = .task k :: q := hq
    simp [step, w2, this, s3, taskOf]
  have w3 : s3.workers[j]? = some (.got (some (.task k))) := e w2
  let s4 : State := { setW s3 j (.ready (some (.task k))) with rxLock := none }
  have h4 : step c s3 (.unlock j) = some s4 := by
    have : s3.rxLock = some j := rfl
    simp [step, w3, this, s4]
  have w4 : s4.workers[j]? = some (.ready (some (.task k))) := e w3
  have h5 : step c s4 (.run j) = some { setW s4 j (.running k) with started := s4.started ++ [k] } := by
    simp [step, w4]
  simp only [run, runWith, h1, h2, h3, h4, h5]
  simp [s4, s3, s2, s1, setW, hl]

structure Primed (c : Cfg) (i : Nat) (s : State) : Prop where
  reach : Reachable c s
  life : s.life = .started
  caller : s.caller = .idle
  workers : s.workers = List.replicate c.n .idle
  lock : s.rxLock = none
  qlen : s.queue.length = i
  qtasks : ∀ m ∈ s.queue, ∃ k, m = Msg.task k

theorem primed (c : Cfg) : ∀ i, ∃ s, Primed c i s
  | 0 => by
    refine ⟨{ init with life := .started, workers := List.replicate c.n .idle, recov := .waiting }, ?_⟩
    refine ⟨⟨[.start], by simp [run, runWith, step, init]⟩, rfl, rfl, rfl, rfl, rfl, by simp [init]⟩
  | i + 1 => by
    obtain ⟨s, hs⟩ := primed c i
    refine ⟨{ s with queue := s.queue ++ [.task s.submitted.length], submitted := s.submitted ++ [s.submitted.length] }, ?_⟩
    refine ⟨hs.reach.step (l := .submit s.submitted.length) (by simp [step, hs.life, hs.caller]),
      hs.life, hs.caller, hs.workers, hs.lock, by simp [hs.qlen], ?_⟩
    intro m hm
    simp at hm
    rcases hm with hm | hm
    · exact hs.qtasks m hm
    · exact ⟨_, hm⟩

structure Busy (c : Cfg) (j : Nat) (s : State) : Prop where
  reach : Reachable c s
  len : s.workers.length = c.n
  running : ∀ w, w < j → ∃ k, s.workers[w]? = some (.running k)
  idle : ∀ w, j ≤ w → w < c.n → s.workers[w]? = some .idle
  lock : s.rxLock = none
  qlen : s.queue.length = c.n - j
  qtasks : ∀ m ∈ s.queue, ∃ k, m = Msg.task k

theorem busy (c : Cfg) : ∀ j, j ≤ c.n → ∃ s, Busy c j s
  | 0, _ => by
    obtain ⟨s, hs⟩ := primed c c.n
    refine ⟨s, hs.reach, by simp [hs.workers], by intro w hw; omega, ?_, hs.lock, by simp [hs.qlen], hs.qtasks⟩
    intro w _ hw; simp [hs.workers, List.getElem?_replicate, hw]
  | j + 1, hj => by
    obtain ⟨s, hs⟩ := busy c j (by omega)
    have hw := hs.idle j (Nat.le_refl j) (by omega)
    have hql : 0 < s.queue.length := by rw [hs.qlen]; omega
    obtain ⟨m, q, hq⟩ : ∃ m q, s.queue = m :: q := by
      cases hqq : s.queue with
      | nil => simp [hqq] at hql
      | cons m q => exact ⟨m, q, rfl⟩
    obtain ⟨k, rfl⟩ := hs.qtasks m (by simp [hq])
    have hrun := worker_takes_task (c := c) hw hs.lock hq
    refine ⟨_, hs.reach.run hrun, by simp [hs.len], ?_, ?_, hs.lock, ?_, ?_⟩
    · intro w hwj
      simp only [getElem?_set_workers hw]
      by_cases e : j = w
      · exact ⟨k, by simp [e]⟩
      · obtain ⟨k', hk'⟩ := hs.running w (by omega)
        exact ⟨k', by simp [e, hk']⟩
    · intro w hjw hwn
      simp only [getElem?_set_workers hw]
      have e : ¬ j = w := by omega
      simp [e]; exact hs.idle w (by omega) hwn
    · have := hs.qlen; simp [hq] at this; simp; omega
    · intro m hm; exact hs.qtasks m (by simp [hq, hm])

theorem runningCount_eq_length {ws : List Phase}
    (h : ∀ w, w < ws.length → ∃ k, ws[w]? = some (Phase.running k)) : runningCount ws = ws.length := by
  simp only [runningCount, length_filter_eq_sumBy]
  apply sumBy_eq_length_of_all
  intro w p hp
  have hlt : w < ws.length := by
    rcases Nat.lt_or_ge w ws.length with h | h
    · exact h
    · simp [List.getElem?_eq_none h] at hp
  obtain ⟨k, hk⟩ := h w hlt
  simp [hk] at hp; subst hp; rfl

end Humphrey.Pool
