import HumphreyModel.Proofs.HttpReqUtf8
/-
Inversion lemmas: what a successful `splitOn` / `splitOnce` / `stripCrlf` / `takeThrough` /
`trimStart` / `asciiLower` tells about its argument.
-/
namespace Humphrey.Bytes
open Humphrey

/-! ## lower-casing -/

theorem lowerByte_idem (b : UInt8) : lowerByte (lowerByte b) = lowerByte b := by
  by_cases h : 65 ≤ b ∧ b ≤ 90
  · have e : lowerByte b = b + 32 := by simp [lowerByte, h]
    rw [e]
    apply lowerByte_of_not_upper
    rw [UInt8.le_iff_toNat_le, UInt8.le_iff_toNat_le] at h
    rw [UInt8.le_iff_toNat_le, UInt8.le_iff_toNat_le, UInt8.toNat_add]
    simp at h ⊢; omega
  · rw [lowerByte_of_not_upper h]; exact lowerByte_of_not_upper h

theorem asciiLower_idem (s : Bytes) : asciiLower (asciiLower s) = asciiLower s := by
  simp [asciiLower, lowerByte_idem]

/-- Lower-casing never produces a byte below `A` that was not there. -/
theorem lowerByte_eq_low {b c : UInt8} (hc : c < 65) (h : lowerByte b = c) : b = c := by
  by_cases hb : 65 ≤ b ∧ b ≤ 90
  · have e : lowerByte b = b + 32 := by simp [lowerByte, hb]
    rw [e] at h
    have h' := congrArg UInt8.toNat h
    rw [UInt8.le_iff_toNat_le, UInt8.le_iff_toNat_le] at hb
    rw [UInt8.lt_iff_toNat_lt] at hc
    rw [UInt8.toNat_add] at h'
    simp at hb hc h'; omega
  · rw [lowerByte_of_not_upper hb] at h; exact h

theorem not_mem_asciiLower {s : Bytes} {c : UInt8} (hc : c < 65) (h : c ∉ s) : c ∉ asciiLower s := by
  intro hm
  simp only [asciiLower, List.mem_map] at hm
  obtain ⟨b, hb, e⟩ := hm
  rw [lowerByte_eq_low hc e] at hb
  exact h hb

/-! ## splitOn / splitOnce / stripCrlf -/

theorem splitOn_inv {sep : UInt8} : ∀ {s a : Bytes} {rest : List Bytes}, splitOn sep s = a :: rest →
    sep ∉ a ∧ (rest = [] → s = a) ∧ (rest ≠ [] → ∃ s', s = a ++ sep :: s' ∧ splitOn sep s' = rest)
  | [], a, rest, h => by
    simp only [splitOn, List.cons.injEq] at h
    obtain ⟨rfl, rfl⟩ := h
    simp
  | x :: xs, a, rest, h => by
    simp only [splitOn] at h
    by_cases hx : x = sep
    · simp only [hx, if_true, List.cons.injEq] at h
      obtain ⟨rfl, rfl⟩ := h
      refine ⟨by simp, ?_, ?_⟩
      · intro e; exact absurd e (splitOn_ne_nil _ _)
      · intro _; exact ⟨xs, by simp [hx], rfl⟩
    · simp only [hx, if_false] at h
      cases hxs : splitOn sep xs with
      | nil => exact absurd hxs (splitOn_ne_nil _ _)
      | cons p ps =>
        rw [hxs] at h
        simp only [List.cons.injEq] at h
        obtain ⟨rfl, rfl⟩ := h
        obtain ⟨h1, h2, h3⟩ := splitOn_inv hxs
        refine ⟨?_, ?_, ?_⟩
        · simp only [List.mem_cons, not_or]; exact ⟨fun e => hx e.symm, h1⟩
        · intro e; rw [h2 e]
        · intro e
          obtain ⟨s', hs', hr⟩ := h3 e
          exact ⟨s', by rw [hs']; simp, hr⟩

theorem splitOnce_inv {sep : UInt8} : ∀ {s a : Bytes} {r : Option Bytes}, splitOnce sep s = (a, r) →
    sep ∉ a ∧ (r = none → s = a) ∧ (∀ b, r = some b → s = a ++ sep :: b)
  | [], a, r, h => by
    simp only [splitOnce, Prod.mk.injEq] at h
    obtain ⟨rfl, rfl⟩ := h
    simp
  | x :: xs, a, r, h => by
    simp only [splitOnce] at h
    by_cases hx : x = sep
    · simp only [hx, if_true, Prod.mk.injEq] at h
      obtain ⟨rfl, rfl⟩ := h
      simp [hx]
    · simp only [hx, if_false] at h
      cases hxs : splitOnce sep xs with
      | mk a' r' =>
        rw [hxs] at h
        simp only [Prod.mk.injEq] at h
        obtain ⟨rfl, rfl⟩ := h
        obtain ⟨h1, h2, h3⟩ := splitOnce_inv hxs
        refine ⟨?_, ?_, ?_⟩
        · simp only [List.mem_cons, not_or]; exact ⟨fun e => hx e.symm, h1⟩
        · intro e; rw [h2 e]
        · intro b e; rw [h3 b e]; simp

theorem stripCrlf_inv {s v : Bytes} (h : stripCrlf s = some v) : s = v ++ crlf := by
  unfold stripCrlf at h
  split at h
  · rename_i hc
    injection h with h
    rw [← h, ← hc.2]
    exact (List.take_append_drop _ _).symm
  · cases h

/-! ## Lines -/

/-- `d` occurs in the string at most as its last byte. -/
def LineOf (d : UInt8) (line : Bytes) : Prop := ∃ l, d ∉ l ∧ (line = l ++ [d] ∨ line = l)

/-- In a line, no proper prefix contains the delimiter. -/
theorem LineOf.prefix {d : UInt8} {line x y : Bytes} (hl : LineOf d line) (e : line = x ++ y)
    (hy : y ≠ []) : d ∉ x := by
  obtain ⟨l, hd, h | h⟩ := hl
  · have h1 : (x ++ y).dropLast = x ++ y.dropLast := List.dropLast_append_of_ne_nil hy
    have h2 : (l ++ [d]).dropLast = l := by simp
    rw [← e, h, h2] at h1
    intro hm; exact hd (by rw [h1]; simp [hm])
  · intro hm; exact hd (by rw [← h, e]; simp [hm])

end Humphrey.Bytes

namespace Humphrey.IO
open Humphrey Humphrey.Bytes

theorem takeThrough_some_inv {d : UInt8} : ∀ {s pre post : Bytes}, takeThrough d s = some (pre, post) →
    ∃ l, d ∉ l ∧ pre = l ++ [d]
  | [], _, _, h => by simp [takeThrough] at h
  | x :: xs, pre, post, h => by
    simp only [takeThrough] at h
    by_cases hx : x = d
    · simp only [hx, if_true, Option.some.injEq, Prod.mk.injEq] at h
      exact ⟨[], by simp, by simp [← h.1]⟩
    · simp only [hx, if_false] at h
      cases hxs : takeThrough d xs with
      | none => simp [hxs] at h
      | some p =>
        obtain ⟨p1, p2⟩ := p
        simp only [hxs, Option.some.injEq, Prod.mk.injEq] at h
        obtain ⟨l, hl, e⟩ := takeThrough_some_inv hxs
        refine ⟨x :: l, ?_, ?_⟩
        · simp only [List.mem_cons, not_or]; exact ⟨fun e => hx e.symm, hl⟩
        · rw [← h.1, e]; rfl

theorem takeThrough_none_inv {d : UInt8} : ∀ {s : Bytes}, takeThrough d s = none → d ∉ s
  | [], _ => by simp
  | x :: xs, h => by
    simp only [takeThrough] at h
    by_cases hx : x = d
    · simp [hx] at h
    · simp only [hx, if_false] at h
      cases hxs : takeThrough d xs with
      | none =>
        simp only [List.mem_cons, not_or]
        exact ⟨fun e => hx e.symm, takeThrough_none_inv hxs⟩
      | some p => simp [hxs] at h

/-- What `read_until(d)` returns has `d` at most at its end. -/
theorem flatReadUntil_lineOf (d : UInt8) (s : Bytes) : LineOf d (flatReadUntil d s).1 := by
  unfold flatReadUntil
  cases h : takeThrough d s with
  | none => exact ⟨s, takeThrough_none_inv h, .inr rfl⟩
  | some p =>
    obtain ⟨pre, post⟩ := p
    obtain ⟨l, hl, e⟩ := takeThrough_some_inv h
    exact ⟨l, hl, .inl e⟩

end Humphrey.IO

/-! ## trim_start -/

namespace Humphrey.Bytes
open Humphrey

theorem wsSeqs_ok : ∀ w ∈ wsSeqs, utf8Valid w = true ∧ 0 < w.length := by decide

theorem wsPrefixLen_pos {s : Bytes} {k : Nat} (h : wsPrefixLen s = k + 1) :
    ∃ w, utf8Valid w = true ∧ s = w ++ s.drop (k + 1) := by
  unfold wsPrefixLen at h
  cases hf : wsSeqs.find? (fun w => w.isPrefixOf s) with
  | none => simp [hf] at h
  | some w =>
    simp only [hf] at h
    have hp := List.find?_some hf
    have hm := List.mem_of_find?_eq_some hf
    rw [List.isPrefixOf_iff_prefix] at hp
    obtain ⟨t, ht⟩ := hp
    refine ⟨w, (wsSeqs_ok w hm).1, ?_⟩
    rw [← ht, ← h]; simp

theorem wsPrefixLen_nil : wsPrefixLen [] = 0 := by decide

theorem trimStartAux_spec : ∀ (fuel : Nat) (s : Bytes), s.length ≤ fuel →
    wsPrefixLen (trimStartAux fuel s) = 0 ∧ (∃ k, trimStartAux fuel s = s.drop k) ∧
    (utf8Valid s = true → utf8Valid (trimStartAux fuel s) = true)
  | 0, s, h => by
    have : s = [] := List.eq_nil_of_length_eq_zero (by omega)
    subst this
    exact ⟨wsPrefixLen_nil, ⟨0, rfl⟩, fun h => h⟩
  | fuel + 1, s, h => by
    simp only [trimStartAux]
    cases hk : wsPrefixLen s with
    | zero => exact ⟨hk, ⟨0, rfl⟩, fun h => h⟩
    | succ k =>
      simp only []
      obtain ⟨w, hw, hs⟩ := wsPrefixLen_pos hk
      have hlen : (s.drop (k + 1)).length ≤ fuel := by simp; omega
      obtain ⟨h1, ⟨j, h2⟩, h3⟩ := trimStartAux_spec fuel (s.drop (k + 1)) hlen
      refine ⟨h1, ⟨k + 1 + j, by rw [h2, List.drop_drop]⟩, fun hv => h3 ?_⟩
      rw [hs, utf8Valid_append _ hw] at hv
      exact hv

theorem trimStart_of_wsPrefixLen_zero {t : Bytes} (h : wsPrefixLen t = 0) : trimStart t = t := by
  unfold trimStart
  cases t.length with
  | zero => rfl
  | succ n => simp [trimStartAux, h]

theorem trimStart_idem (s : Bytes) : trimStart (trimStart s) = trimStart s :=
  trimStart_of_wsPrefixLen_zero (trimStartAux_spec s.length s (Nat.le_refl _)).1

theorem trimStart_suffix (s : Bytes) : ∃ k, trimStart s = s.drop k :=
  (trimStartAux_spec s.length s (Nat.le_refl _)).2.1

theorem utf8Valid_trimStart {s : Bytes} (h : utf8Valid s = true) : utf8Valid (trimStart s) = true :=
  (trimStartAux_spec s.length s (Nat.le_refl _)).2.2 h

theorem not_mem_trimStart {s : Bytes} {c : UInt8} (h : c ∉ s) : c ∉ trimStart s := by
  obtain ⟨k, e⟩ := trimStart_suffix s
  rw [e]; exact fun hm => h (List.mem_of_mem_drop hm)

end Humphrey.Bytes
