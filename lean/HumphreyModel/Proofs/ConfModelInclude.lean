import HumphreyModel.Proofs.ConfClean
import HumphreyModel.Spec.ConfModel

/-!
C15: files whose `server` section uses `include` (one level): the included nodes are spliced in
place, in order.
-/
namespace Humphrey.Conf
open Humphrey.Glob

theorem cfgrt_includeKey : includeKey = "include".toList := by decide

theorem cfgrt_includeKey_chars : ∀ c ∈ includeKey, isWhitespace c = false ∧ c ≠ '#' ∧ c ≠ '\n' ∧ c ≠ ' ' := by
  decide

theorem cfgrt_include_content {d : Deco} (hd : d.ok) {path : Str} (hp : noHashNl path) :
    (∀ x ∈ kvContent d includeKey (quoted path), x ≠ '#') ∧ tight (kvContent d includeKey (quoted path)) ∧
    (∀ x ∈ kvContent d includeKey (quoted path), x ≠ '\n') := by
  have hsep := hd.2.2.1
  refine ⟨?_, ?_, ?_⟩
  · intro x hx
    simp only [kvContent, List.mem_append, List.mem_cons] at hx
    rcases hx with (hx | rfl | hx) | hx
    · exact (cfgrt_includeKey_chars x hx).2.1
    · decide
    · exact blank_ne_hash hsep x hx
    · exact (valueOk_quoted hp).noHash x hx
  · have := tight_append (a := includeKey) (b := quoted path) ⟨⟨'i', rfl, by decide⟩, ⟨'e', rfl, by decide⟩⟩
      (tight_quoted path) (' ' :: d.sep)
    simpa [kvContent] using this
  · intro x hx
    simp only [kvContent, List.mem_append, List.mem_cons] at hx
    rcases hx with (hx | rfl | hx) | hx
    · exact (cfgrt_includeKey_chars x hx).2.2.1
    · decide
    · exact (clean_blank (hsep x hx)).1
    · exact clean_quoted hp x hx

section
variable (inc : Str → Str → Nat → Nat → Res ConfError (List Node)) (file : Str) (base : Nat)

/-- One step of the loop on an `include "path"` line. -/
theorem cfgrt_go_include_raw {raw sep path : Str} {ns : List Node}
    (hc : cleanUp raw = includeKey ++ ' ' :: sep ++ quoted path)
    (hsep : ∀ x ∈ sep, isBlank x = true)
    (rest : List Str) (ln : Nat) (stack : List Frame) (cur : List Node)
    (hinc : inc path file (ln + 1) (base + stack.length + 1) = .ok ns) :
    goLines inc file base (raw :: rest) ln stack cur =
      goLines inc file base rest (ln + 1) stack (ns.reverse ++ cur) := by
  have hv := tight_quoted path
  have hvne := tight_ne_nil hv
  have hlast : (quoted path).getLast? = some '"' := by
    have e : quoted path = ('"' :: path) ++ ['"'] := by simp [quoted]
    rw [e, List.getLast?_append]; simp
  have e : includeKey ++ ' ' :: sep ++ quoted path = (includeKey ++ ' ' :: sep) ++ quoted path := by simp
  have h1 : stripSuffixChar '{' (includeKey ++ ' ' :: sep ++ quoted path) = none := by
    apply stripSuffixChar_none
    rw [e, getLast?_append_ne_nil hvne, hlast]; decide
  have h2 : (includeKey ++ ' ' :: sep ++ quoted path) ≠ ['}'] := by
    intro h
    have : ' ' ∈ (includeKey ++ ' ' :: sep ++ quoted path) := by simp
    rw [h] at this; simp at this
  have h3 : (includeKey ++ ' ' :: sep ++ quoted path).isEmpty = false := by simp [includeKey]
  have h4 : splitOnce ' ' (includeKey ++ ' ' :: sep ++ quoted path) = some (includeKey, sep ++ quoted path) := by
    have : includeKey ++ ' ' :: sep ++ quoted path = includeKey ++ ' ' :: (sep ++ quoted path) := by simp
    rw [this]
    exact splitOnce_append (fun x hx => (cfgrt_includeKey_chars x hx).2.2.2)
  have h5 : trim includeKey = includeKey :=
    trim_tight (Or.inr ⟨⟨'i', rfl, by decide⟩, ⟨'e', rfl, by decide⟩⟩)
  have h6 : trim (sep ++ quoted path) = quoted path := by
    have := trim_wrap (a := sep) (s := quoted path) (b := []) (fun x hx => isBlank_ws (hsep x hx)) (by simp)
      (Or.inr hv)
    simpa using this
  have h7 : ¬ (includeKey ≠ "include".toList) := by rw [cfgrt_includeKey]; simp
  conv => lhs; unfold goLines
  simp only [hc, h1, h2, h3, h4, h5, h6, h7, wildcard_quoted, innerSlice_quoted, hinc, if_false, if_true,
    Bool.false_eq_true]

/-- An `include` line with its decoration. -/
theorem cfgrt_go_include {d : Deco} (hd : d.ok) {path : Str} (hp : noHashNl path) {ns : List Node}
    (rest : List Str) (ln : Nat) (stack : List Frame) (cur : List Node)
    (hinc : inc path file (ln + d.pre.length + 1) (base + stack.length + 1) = .ok ns) :
    goLines inc file base (mkLines d (kvContent d includeKey (quoted path)) ++ rest) ln stack cur =
      goLines inc file base rest (ln + (mkLines d (kvContent d includeKey (quoted path))).length) stack
        (ns.reverse ++ cur) := by
  obtain ⟨hno, ht, _⟩ := cfgrt_include_content hd hp
  obtain ⟨raw, hc, hgo⟩ := go_mkLines inc file base hd hno ht rest ln stack cur
  rw [hgo, cfgrt_go_include_raw inc file base (by simpa [kvContent] using hc) hd.2.2.1 rest _ stack cur hinc,
    mkLines_length]
  congr 1

end

/-! ### the included file -/

theorem cfgrt_joinLines_snoc (ls : List Str) (hne : ls ≠ []) (x : Str) :
    joinLines (ls ++ [x]) = joinLines ls ++ '\n' :: x := by
  induction ls with
  | nil => exact absurd rfl hne
  | cons l rest ih =>
    cases rest with
    | nil => simp [joinLines]
    | cons r rest =>
      have := ih (by simp)
      simp only [List.cons_append] at this
      simp [joinLines, this]

theorem cfgrt_renderNodes_ne_nil (lay : Layout) (path : List Nat) (i : Nat) (n : Node) (ns : List Node) :
    renderNodes lay path i (n :: ns) ≠ [] := by
  cases n <;> simp [renderNodes, renderNode, mkLines]

/-- `lines()` of the included text followed by the `"\n}"` that `include` appends. -/
theorem cfgrt_included_lines (flay : Layout) (hl : flay.ok) (ns : List Node) (hwf : WFNodes ns) :
    ∃ blank : List Str, (blank = [] ∨ blank = [[]]) ∧
      splitLines (includedText flay ns ++ ['\n', '}']) = blank ++ renderNodes flay [] 0 ns ++ [['}']] := by
  cases ns with
  | nil =>
    refine ⟨[[]], Or.inr rfl, ?_⟩
    simp [includedText, renderNodes, joinLines, splitLines, splitLinesAux, stripCr, stripSuffixChar]
  | cons n ns =>
    refine ⟨[], Or.inl rfl, ?_⟩
    have hne := cfgrt_renderNodes_ne_nil flay [] 0 n ns
    unfold includedText
    rw [← cfgrt_joinLines_snoc _ hne, List.nil_append]
    apply splitLines_joinLines
    · simp
    · intro l hl'
      rcases List.mem_append.mp hl' with h | h
      · exact clean_renderNodes flay hl _ hwf [] 0 l h
      · simp only [List.mem_singleton] at h; subst h
        exact ⟨clean_brace.1, clean_brace.2⟩
    · simp

/-- `include` of a file that holds the rendering of well-formed nodes returns those nodes. -/
theorem cfgrt_parseFile_included (fs : FS) (fuel : Nat) (path cf : Str) (line depth : Nat)
    (flay : Layout) (ns : List Node) (hfs : fs path = .text (includedText flay ns)) (hl : flay.ok)
    (hwf : WFNodes ns) (hdepth : depth + nodesDepth ns ≤ maxDepth) :
    parseFile fs (fuel + 1) path cf line depth = .ok ns := by
  have hd : ¬ depth > maxDepth := by omega
  obtain ⟨blank, hb, hlines⟩ := cfgrt_included_lines flay hl ns hwf
  unfold parseFile
  simp only [hd, if_false, hfs, hlines]
  have hrest : ∀ ln, goLines (parseFile fs fuel) path depth (renderNodes flay [] 0 ns ++ [['}']]) ln [] [] =
      .ok ns := by
    intro ln
    rw [go_renderNodes _ path depth flay hl ns hwf [] 0 [['}']] ln [] [] (by simpa using hdepth)]
    have hc : cleanUp ['}'] = ['}'] := by
      have := cleanUp_line (ind := []) (content := ['}']) (tr := []) none (by simp) (by simp) (by decide)
        (Or.inr tight_brace)
      simpa [commentText] using this
    rw [go_close_done _ _ _ hc]
    simp
  rcases hb with rfl | rfl
  · simpa using hrest 0
  · have hc : cleanUp [] = [] := by
      have := cleanUp_line (ind := []) (content := []) (tr := []) none (by simp) (by simp) (by simp) (Or.inl rfl)
      simpa [commentText] using this
    simp only [List.cons_append, List.nil_append]
    rw [go_blank _ _ _ hc]
    exact hrest 1

/-! ### the pieces of the `server` section -/

theorem cfgrt_go_pieces (fs : FS) (file : Str) (lay : Layout) (hl : lay.ok) (ps : List Piece)
    (hwf : ∀ p ∈ ps, p.WF fs) (i : Nat) (rest : List Str) (ln : Nat) (cur : List Node) :
    goLines (parseFile fs (maxDepth + 2)) file 0 (renderPieces lay i ps ++ rest) ln [] cur =
      goLines (parseFile fs (maxDepth + 2)) file 0 rest (ln + (renderPieces lay i ps).length) []
        ((piecesDenote ps).reverse ++ cur) := by
  induction ps generalizing i ln cur with
  | nil => simp [renderPieces, piecesDenote]
  | cons p ps ih =>
    have ih' := ih (fun q hq => hwf q (by simp [hq]))
    have hp := hwf p (by simp)
    simp only [renderPieces, piecesDenote, List.append_assoc]
    cases p with
    | nodes ns =>
      obtain ⟨h1, h2⟩ := hp
      simp only [Piece.lines, Piece.denote]
      rw [go_renderNodes _ file 0 lay hl ns h1 [i] 0 _ ln [] cur (by simpa using h2), ih']
      simp only [List.length_append, List.reverse_append, List.append_assoc]
      congr 1
      omega
    | incl path flay ns =>
      obtain ⟨h1, h2, h3, h4, h5⟩ := hp
      simp only [Piece.lines, Piece.denote]
      rw [cfgrt_go_include _ file 0 (hl [i]).1 h1 (ns := ns) _ ln [] cur
        (cfgrt_parseFile_included fs (maxDepth + 1) path file _ _ flay ns h5 h2 h3 (by simpa using h4)), ih']
      simp only [List.length_append, List.reverse_append, List.append_assoc]
      congr 1
      omega

theorem cfgrt_parseConfLines_pieces (fs : FS) (file : Str) (lay : Layout) (hl : lay.ok) (ps : List Piece)
    (hwf : ∀ p ∈ ps, p.WF fs) :
    parseConfLines fs (piecesLines lay ps) file = .ok (.section "server".toList (piecesDenote ps)) := by
  unfold parseConfLines piecesLines
  have e : "server {".toList = serverLine := rfl
  rw [e, List.append_assoc, findServer_render (hl []).1]
  simp only
  have h1 := cfgrt_go_pieces fs file lay hl ps hwf 0 (mkLines (lay.close []) ['}']) ((lay.line []).pre.length + 1) []
  rw [h1]
  obtain ⟨raw, hc, hgo⟩ := go_mkLines (parseFile fs (maxDepth + 2)) file 0 (hl []).2 (content := ['}'])
    (by decide) tight_brace [] ((lay.line []).pre.length + 1 + (renderPieces lay 0 ps).length) []
    ((piecesDenote ps).reverse ++ [])
  simp only [List.append_nil] at hgo ⊢
  rw [hgo, go_close_done _ _ _ hc]
  simp

theorem cfgrt_clean_pieces (fs : FS) (lay : Layout) (hl : lay.ok) (ps : List Piece) (hwf : ∀ p ∈ ps, p.WF fs)
    (i : Nat) : ∀ l ∈ renderPieces lay i ps, lineClean l := by
  induction ps generalizing i with
  | nil => intro l h; simp [renderPieces] at h
  | cons p ps ih =>
    intro l h
    simp only [renderPieces, List.mem_append] at h
    rcases h with h | h
    · have hp := hwf p (by simp)
      cases p with
      | nodes ns => exact clean_renderNodes lay hl ns hp.1 [i] 0 l h
      | incl path flay ns =>
        obtain ⟨_, ht, hn⟩ := cfgrt_include_content (hl [i]).1 hp.1
        exact clean_mkLines (hl [i]).1 hn (clean_tight_last ht) l h
    · exact ih (fun q hq => hwf q (by simp [hq])) (i + 1) l h

/-- Text level: a main file made of pieces, with the included files in the file system. -/
theorem cfgrt_parseConf_pieces (fs : FS) (file : Str) (lay : Layout) (hl : lay.ok) (ps : List Piece)
    (hwf : ∀ p ∈ ps, p.WF fs) :
    parseConf fs (renderWithIncludes lay ps) file = .ok (.section "server".toList (piecesDenote ps)) := by
  unfold parseConf renderWithIncludes
  have hlast : (piecesLines lay ps).getLast? =
      some ((lay.close []).indent ++ ['}'] ++ (lay.close []).trail ++ commentText (lay.close []).comment) := by
    have e : piecesLines lay ps =
        (mkLines (lay.line []) "server {".toList ++ renderPieces lay 0 ps ++ (lay.close []).pre.map fillerLine) ++
          [(lay.close []).indent ++ ['}'] ++ (lay.close []).trail ++ commentText (lay.close []).comment] := by
      unfold piecesLines; simp [mkLines]
    rw [e, List.getLast?_append]; simp
  have hs : (∀ c ∈ serverLine, c ≠ '\n') ∧ serverLine.getLast? ≠ some '\r' := by
    have e : serverLine = ['s', 'e', 'r', 'v', 'e', 'r', ' ', '{'] := by decide
    rw [e]; constructor <;> decide
  have hclean : ∀ l ∈ piecesLines lay ps, lineClean l := by
    intro l h
    unfold piecesLines at h
    simp only [List.mem_append] at h
    rcases h with (h | h) | h
    · exact clean_mkLines (hl []).1 hs.1 hs.2 l h
    · exact cfgrt_clean_pieces fs lay hl ps hwf 0 l h
    · exact clean_mkLines (hl []).2 clean_brace.1 clean_brace.2 l h
  rw [splitLines_joinLines _ (by intro e; rw [e] at hlast; simp at hlast) hclean (by rw [hlast]; simp)]
  exact cfgrt_parseConfLines_pieces fs file lay hl ps hwf

end Humphrey.Conf
