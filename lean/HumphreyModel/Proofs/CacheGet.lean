import HumphreyModel.Proofs.Cache

/-!
Helper lemmas for C16, second part: the two readings of the abstract map, where stored times come
from, the bound on what lookups can return, and the handler-level composition `serve`.
-/
namespace Humphrey.Cache
open Humphrey.CacheSpec

/-! ## The abstract map -/

theorem lastSet_snoc (ops : List Op) (op : Op) (k : Key) :
    lastSet (ops ++ [op]) k = match storesAt k op with
      | some v => some v
      | none => lastSet ops k := by
  simp only [lastSet, List.reverse_append, List.reverse_cons, List.reverse_nil, List.nil_append,
    List.singleton_append, List.findSome?_cons]
  cases storesAt k op <;> rfl

theorem absStep_apply (m : AbsMap) (op : Op) (k : Key) :
    absStep m op k = match storesAt k op with
      | some v => some v
      | none => m k := by
  cases op with
  | set t r h b mi =>
    simp only [absStep, storesAt]
    by_cases hk : k = (r, h)
    · subst hk; simp
    · have : ¬ (r, h) = k := fun e => hk e.symm
      simp [hk, this]
  | get t r h => simp [absStep, storesAt]

theorem absRun_eq_lastSet_rev (ops : List Op) (k : Key) : absRun ops.reverse k = lastSet ops.reverse k := by
  induction ops with
  | nil => simp [absRun, lastSet, absEmpty]
  | cons op ops ih =>
    rw [List.reverse_cons, absRun_snoc, lastSet_snoc, absStep_apply, ih]

theorem foldl_time_mem (ops : List Op) (k : Key) (b : List UInt8) (mi t : Nat) :
    ∀ (m0 : AbsMap), ops.foldl absStep m0 k = some (b, mi, t) →
      m0 k = some (b, mi, t) ∨ ∃ op ∈ ops, op.time = t := by
  induction ops with
  | nil => intro m0 h0; exact Or.inl h0
  | cons op ops ih =>
    intro m0 h0
    rw [List.foldl_cons] at h0
    rcases ih (absStep m0 op) h0 with h1 | ⟨o, ho, hto⟩
    · cases op with
      | set t' r h' b' mi' =>
        simp only [absStep] at h1
        split at h1
        · cases h1
          exact Or.inr ⟨_, List.mem_cons_self, rfl⟩
        · exact Or.inl h1
      | get t' r h' => exact Or.inl h1
    · exact Or.inr ⟨o, List.mem_cons_of_mem _ ho, hto⟩

/-- Every time recorded in the abstract map is the clock value of some operation of the history. -/
theorem absRun_time_mem {ops : List Op} {k : Key} {b : List UInt8} {mi t : Nat}
    (h : absRun ops k = some (b, mi, t)) : ∃ op ∈ ops, op.time = t := by
  rcases foldl_time_mem ops k b mi t absEmpty h with h0 | h1
  · simp [absEmpty] at h0
  · exact h1

/-- In a reachable state every stored time is the clock value of some operation of the history. -/
theorem stored_time_mem {hist : List Op} {c : Cache} (hi : Inv hist c) {it : Item} (hit : it ∈ c.data) :
    ∃ op ∈ hist, op.time = it.time :=
  absRun_time_mem (hi.latest it hit)

/-! ## Total size of what lookups can return -/

/-- Sum of `g` over a list of keys. -/
def sumOver (g : Key → Nat) : List Key → Nat
  | [] => 0
  | k :: ks => g k + sumOver g ks

/-- Number of bytes a lookup of `k` at time `now` returns (0 when it returns nothing). -/
def answerLen (now : Nat) (c : Cache) (k : Key) : Nat :=
  match get now c k.1 k.2 with
  | .ok (some it) => it.data.length
  | _ => 0

theorem totalLen_erase {d : List Item} {it : Item} (hit : it ∈ d) :
    totalLen (d.erase it) + it.data.length = totalLen d := by
  induction d with
  | nil => cases hit
  | cons x d ih =>
    by_cases hx : x = it
    · subst hx; simp [totalLen, Nat.add_comm]
    · have hmem : it ∈ d := by
        rcases List.mem_cons.mp hit with e | e
        · exact absurd e.symm hx
        · exact e
      have := ih hmem
      rw [List.erase_cons_tail (by simpa using hx)]
      simp only [totalLen]
      omega

/-- If every key of a duplicate-free list is charged either nothing or the length of some stored entry
with that key, the total charge is at most the total stored length. -/
theorem sumOver_le_totalLen (g : Key → Nat) (ks : List Key) (hnd : ks.Nodup) (d : List Item)
    (hg : ∀ k ∈ ks, g k = 0 ∨ ∃ it ∈ d, key it = k ∧ g k = it.data.length) :
    sumOver g ks ≤ totalLen d := by
  induction ks generalizing d with
  | nil => simp [sumOver]
  | cons k ks ih =>
    have hnd' := List.nodup_cons.mp hnd
    simp only [sumOver]
    rcases hg k List.mem_cons_self with h0 | ⟨it, hit, hkey, hlen⟩
    · have := ih hnd'.2 d (fun k' hk' => hg k' (List.mem_cons_of_mem _ hk'))
      omega
    · have hrest : ∀ k' ∈ ks, g k' = 0 ∨ ∃ it' ∈ d.erase it, key it' = k' ∧ g k' = it'.data.length := by
        intro k' hk'
        rcases hg k' (List.mem_cons_of_mem _ hk') with h0 | ⟨it', hit', hkey', hlen'⟩
        · exact Or.inl h0
        · refine Or.inr ⟨it', ?_, hkey', hlen'⟩
          have hne : it' ≠ it := by
            intro e
            subst e
            exact hnd'.1 (by rw [← hkey, hkey']; exact hk')
          exact (List.mem_erase_of_ne hne).mpr hit'
      have h1 := ih hnd'.2 (d.erase it) hrest
      have h2 := totalLen_erase hit
      omega

/-! ## Handler level -/

/-- `serve` is a composition of cache operations: a hit is a successful `get` and leaves the cache
unchanged; a miss answers the file's current contents and stores them with `set` exactly when they fit
the limit. -/
theorem serve_cases {now : Nat} {c c' : Cache} {uri : String} {host : Nat} {contents : List UInt8}
    {mime : Nat} {s : Served} (hs : serve now c uri host contents mime = .ok (c', s)) :
    (s.hit = true ∧ c' = c ∧ 0 < c.limit ∧
        ∃ it, get now c uri host = .ok (some it) ∧ s.body = it.data ∧ s.mime = it.mime) ∨
    (s.hit = false ∧ s.body = contents ∧ s.mime = mime ∧
        ((c.limit < contents.length ∧ c' = c) ∨
         (contents.length ≤ c.limit ∧ set now c uri host contents mime = .ok c'))) := by
  have hmiss : ∀ {c' s}, (if c.limit ≥ contents.length then
        match set now c uri host contents mime with
        | .ok c' => Outcome.ok (c', (⟨false, contents, mime⟩ : Served))
        | .panic => .panic
      else .ok (c, ⟨false, contents, mime⟩)) = .ok (c', s) →
      (s.hit = false ∧ s.body = contents ∧ s.mime = mime ∧
        ((c.limit < contents.length ∧ c' = c) ∨
         (contents.length ≤ c.limit ∧ set now c uri host contents mime = .ok c'))) := by
    intro c' s h
    split at h
    · next hle =>
      split at h
      · next c₁ hset => cases h; exact ⟨rfl, rfl, rfl, Or.inr ⟨hle, hset⟩⟩
      · cases h
    · next hgt => cases h; exact ⟨rfl, rfl, rfl, Or.inl ⟨by omega, rfl⟩⟩
  unfold serve at hs
  simp only at hs
  split at hs
  · next hpos =>
    split at hs
    · cases hs
    · next it hget => cases hs; exact Or.inl ⟨rfl, rfl, hpos, it, hget, rfl, rfl⟩
    · exact Or.inr (hmiss hs)
  · exact Or.inr (hmiss hs)

end Humphrey.Cache
