import HumphreyModel.Proofs.Sha1Pad

/-!
Helper lemmas for C18 (SHA-1): the chunk loop of `sha1.rs` against RFC 3174 §6.1 —
words of a block, the 80-word schedule built in place against `W(t)`, the round loop against the
`A…E` recurrences, and the iteration over chunks.
-/
namespace Humphrey.Sha1
open Humphrey.Rfc3174

/-! ### Bits, bytes, words -/

theorem natOfBits_foldl (bs : List Bool) (acc : Nat) :
    bs.foldl (fun acc b => 2 * acc + b.toNat) acc = acc * 2 ^ bs.length + natOfBits bs := by
  induction bs generalizing acc with
  | nil => simp [natOfBits]
  | cons b bs ih =>
    simp only [List.foldl_cons, natOfBits, List.length_cons]
    rw [ih, ih (2 * 0 + b.toNat), Nat.pow_succ]
    simp only [Nat.mul_zero, Nat.zero_add, Nat.add_mul]
    rw [Nat.add_assoc]
    congr 1
    rw [Nat.mul_comm 2 acc, Nat.mul_assoc, Nat.mul_comm 2]

theorem natOfBits_append (xs ys : List Bool) :
    natOfBits (xs ++ ys) = natOfBits xs * 2 ^ ys.length + natOfBits ys := by
  unfold natOfBits
  rw [List.foldl_append, natOfBits_foldl ys]
  rfl

theorem natOfBits_bits8 : ∀ n, n < 256 →
    natOfBits [n.testBit 7, n.testBit 6, n.testBit 5, n.testBit 4, n.testBit 3, n.testBit 2, n.testBit 1,
      n.testBit 0] = n := by decide +kernel

theorem natOfBits_byteBits (b : UInt8) : natOfBits (byteBits b) = b.toNat :=
  natOfBits_bits8 b.toNat (UInt8.toNat_lt b)

/-- A big-endian 32-bit word read from the bit string is `u32::from_be_bytes` of the four bytes. -/
theorem word_of_bits (b0 b1 b2 b3 : UInt8) :
    UInt32.ofNat (natOfBits (byteBits b0 ++ (byteBits b1 ++ (byteBits b2 ++ byteBits b3)))) =
      fromBe b0 b1 b2 b3 := by
  rw [natOfBits_append, natOfBits_append, natOfBits_append]
  simp only [natOfBits_byteBits, List.length_append, byteBits_length]
  unfold fromBe
  apply congrArg UInt32.ofNat
  have e1 : (2 : Nat) ^ (8 + (8 + 8)) = 16777216 := by simp
  have e2 : (2 : Nat) ^ (8 + 8) = 65536 := by simp
  have e3 : (2 : Nat) ^ 8 = 256 := by simp
  rw [e1, e2, e3]
  omega

theorem bitsOfBytes_take (bs : List UInt8) (k : Nat) :
    bitsOfBytes (bs.take k) = (bitsOfBytes bs).take (8 * k) := by
  induction bs generalizing k with
  | nil => simp [bitsOfBytes]
  | cons x bs ih =>
    cases k with
    | zero => simp [bitsOfBytes]
    | succ k =>
      have h1 : List.take (8 * (k + 1)) (byteBits x) = byteBits x :=
        List.take_of_length_le (by rw [byteBits_length]; omega)
      have h2 : 8 * (k + 1) - 8 = 8 * k := by omega
      rw [List.take_succ_cons, bitsOfBytes, bitsOfBytes, ih, List.take_append, h1, byteBits_length, h2]

theorem bitsOfBytes_drop (bs : List UInt8) (k : Nat) :
    bitsOfBytes (bs.drop k) = (bitsOfBytes bs).drop (8 * k) := by
  induction bs generalizing k with
  | nil => simp [bitsOfBytes]
  | cons x bs ih =>
    cases k with
    | zero => simp [bitsOfBytes]
    | succ k =>
      have h1 : List.drop (8 * (k + 1)) (byteBits x) = [] :=
        List.drop_of_length_le (by rw [byteBits_length]; omega)
      have h2 : 8 * (k + 1) - 8 = 8 * k := by omega
      rw [List.drop_succ_cons, bitsOfBytes, ih, List.drop_append, h1, byteBits_length, h2, List.nil_append]

theorem M_zero (b0 b1 b2 b3 : UInt8) (rest : List UInt8) :
    M (bitsOfBytes (b0 :: b1 :: b2 :: b3 :: rest)) 0 = fromBe b0 b1 b2 b3 := by
  rw [← word_of_bits]
  unfold M
  simp only [bitsOfBytes, Nat.mul_zero, List.drop_zero, ← List.append_assoc]
  rw [List.take_append_of_le_length (by simp [byteBits_length])]
  rw [List.take_of_length_le (by simp [byteBits_length])]

theorem M_succ (b0 b1 b2 b3 : UInt8) (rest : List UInt8) (t : Nat) :
    M (bitsOfBytes (b0 :: b1 :: b2 :: b3 :: rest)) (t + 1) = M (bitsOfBytes rest) t := by
  unfold M
  have e : 32 * (t + 1) = 32 + 32 * t := by omega
  rw [e, ← List.drop_drop]
  congr 3

/-- Word `t` of a block as `sha1.rs` loads it is the RFC's `M(t)`. -/
theorem words_eq_M (t : Nat) (bs : List UInt8) (h : 4 * (t + 1) ≤ bs.length) :
    (wordsOfBytes bs)[t]? = some (M (bitsOfBytes bs) t) := by
  induction t generalizing bs with
  | zero =>
    match bs, h with
    | b0 :: b1 :: b2 :: b3 :: rest, _ => rw [M_zero]; rfl
    | [], h | [_], h | [_, _], h | [_, _, _], h => simp at h
  | succ t ih =>
    match bs, h with
    | b0 :: b1 :: b2 :: b3 :: rest, h =>
      rw [M_succ, wordsOfBytes, List.getElem?_cons_succ]
      exact ih rest (by simp only [List.length_cons] at h; omega)
    | [], h | [_], h | [_, _], h | [_, _, _], h => simp only [List.length_cons, List.length_nil] at h; omega

theorem wordsOfBytes_length (bs : List UInt8) : (wordsOfBytes bs).length = bs.length / 4 := by
  fun_induction wordsOfBytes bs with
  | case1 b0 b1 b2 b3 rest ih => simp only [List.length_cons, ih]; omega
  | case2 bs h =>
    match bs, h with
    | b0 :: b1 :: b2 :: b3 :: rest, h => exact (h _ _ _ _ _ rfl).elim
    | [], _ | [_], _ | [_, _], _ | [_, _, _], _ => simp

end Humphrey.Sha1
