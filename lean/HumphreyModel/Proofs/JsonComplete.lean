import HumphreyModel.Proofs.JsonStr

/-!
Helper lemmas for C13, part 4: completeness of the parser model for the RFC 8259 relation `J`.
-/
namespace Humphrey.Json
open Humphrey.JsonSpec

theorem char_eq_iff (c d : Char) : c = d ↔ c.toNat = d.toNat :=
  ⟨fun h => h ▸ rfl, fun h => by rw [← Char.ofNat_toNat c, ← Char.ofNat_toNat d, h]⟩

theorem isLiteral_iff (c : Char) : isLiteral c = true ↔
    c.toNat ≠ 32 ∧ c.toNat ≠ 9 ∧ c.toNat ≠ 10 ∧ c.toNat ≠ 13 ∧ c.toNat ≠ 44 ∧ c.toNat ≠ 125 ∧ c.toNat ≠ 93 := by
  have e1 : ' '.toNat = 32 := rfl
  have e2 : '\t'.toNat = 9 := rfl
  have e3 : '\n'.toNat = 10 := rfl
  have e4 : '\r'.toNat = 13 := rfl
  have e5 : ','.toNat = 44 := rfl
  have e6 : '}'.toNat = 125 := rfl
  have e7 : ']'.toNat = 93 := rfl
  simp only [isLiteral, isWhitespace, char_eq_iff, e1, e2, e3, e4, e5, e6, e7]
  simp [and_assoc, char_eq_iff, e5, e6, e7]

theorem isWhitespace_false_iff (c : Char) : isWhitespace c = false ↔
    c.toNat ≠ 32 ∧ c.toNat ≠ 9 ∧ c.toNat ≠ 10 ∧ c.toNat ≠ 13 := by
  have e1 : ' '.toNat = 32 := rfl
  have e2 : '\t'.toNat = 9 := rfl
  have e3 : '\n'.toNat = 10 := rfl
  have e4 : '\r'.toNat = 13 := rfl
  simp only [isWhitespace, char_eq_iff, e1, e2, e3, e4]
  simp [and_assoc]

theorem digit_toNat {c : Char} (h : Digit c) : 48 ≤ c.toNat ∧ c.toNat ≤ 57 := by
  unfold Digit at h
  simp only [char_le_iff] at h
  exact h

/-- characters a number lexeme is made of -/
def NumChar (c : Char) : Prop :=
  (48 ≤ c.toNat ∧ c.toNat ≤ 57) ∨ c.toNat = 45 ∨ c.toNat = 43 ∨ c.toNat = 46 ∨ c.toNat = 101 ∨ c.toNat = 69

theorem numChar_digit {c : Char} (h : Digit c) : NumChar c := Or.inl (digit_toNat h)

theorem numberLexeme_chars {l : List Char} (h : NumberLexeme l) : ∀ c ∈ l, NumChar c := by
  cases h with
  | @mk m i f e hm hi hf he =>
    intro c hc
    simp only [List.mem_append] at hc
    rcases hc with hc | hc | hc | hc
    · cases hm with
      | none => cases hc
      | minus => simp at hc; subst hc; exact Or.inr (Or.inl rfl)
    · cases hi with
      | zero => simp at hc; subst hc; exact Or.inl (by decide)
      | @nonzero c0 ds h0 hd =>
        rcases List.mem_cons.1 hc with rfl | hc
        · have := h0; unfold Digit19 at this; simp only [char_le_iff] at this
          have e1 : '1'.toNat = 49 := rfl
          have e9 : '9'.toNat = 57 := rfl
          rw [e1, e9] at this
          exact Or.inl (by omega)
        · exact numChar_digit (hd c hc)
    · cases hf with
      | none => cases hc
      | @frac ds hd =>
        rcases List.mem_cons.1 hc with rfl | hc
        · exact Or.inr (Or.inr (Or.inr (Or.inl rfl)))
        · exact numChar_digit (hd.2 c hc)
    · cases he with
      | none => cases hc
      | @exp c0 sg ds h0 hs hd =>
        rcases List.mem_cons.1 hc with rfl | hc
        · rcases h0 with rfl | rfl
          · exact Or.inr (Or.inr (Or.inr (Or.inr (Or.inl rfl))))
          · exact Or.inr (Or.inr (Or.inr (Or.inr (Or.inr rfl))))
        · rcases List.mem_append.1 hc with hc | hc
          · cases hs with
            | none => cases hc
            | minus => simp at hc; subst hc; exact Or.inr (Or.inl rfl)
            | plus => simp at hc; subst hc; exact Or.inr (Or.inr (Or.inl rfl))
          · exact numChar_digit (hd.2 c hc)

theorem numChar_literal {c : Char} (h : NumChar c) : isLiteral c = true := by
  rw [isLiteral_iff]; unfold NumChar at h; omega

theorem numberLexeme_head {l : List Char} (h : NumberLexeme l) :
    ∃ c r, l = c :: r ∧ ((48 ≤ c.toNat ∧ c.toNat ≤ 57) ∨ c.toNat = 45) := by
  cases h with
  | @mk m i f e hm hi hf he =>
    obtain ⟨c, r, hcr, hd⟩ := intPart_head hi
    cases hm with
    | none => exact ⟨c, r ++ (f ++ e), by simp [hcr], Or.inl (digit_toNat hd)⟩
    | minus => exact ⟨'-', i ++ (f ++ e), rfl, Or.inr rfl⟩

/-- `parse_value` on a number lexeme followed by a delimiter. -/
theorem parseValue_number {N : Type} (C : NumCodec N) {l : List Char} {n : N} (hl : NumberLexeme l)
    (hp : C.parse l = some n) (fuel depth : Nat) {rest : List Char} (hr : Delim rest) :
    parseValue C (fuel + 1) depth (l ++ rest) = some (.number n, rest) := by
  obtain ⟨c, t, hct, hc⟩ := numberLexeme_head hl
  have hchars := numberLexeme_chars hl
  have hB := isNumberLexeme_of_numberLexeme hl
  subst hct
  have hws : isWhitespace c = false := by rw [isWhitespace_false_iff]; omega
  have h1 : c ≠ '"' := by rw [Ne, char_eq_iff]; have : '"'.toNat = 34 := rfl; omega
  have h2 : c ≠ '[' := by rw [Ne, char_eq_iff]; have : '['.toNat = 91 := rfl; omega
  have h3 : c ≠ '{' := by rw [Ne, char_eq_iff]; have : '{'.toNat = 123 := rfl; omega
  have h4 : c ≠ 'n' := by rw [Ne, char_eq_iff]; have : 'n'.toNat = 110 := rfl; omega
  have h5 : c ≠ 't' := by rw [Ne, char_eq_iff]; have : 't'.toNat = 116 := rfl; omega
  have h6 : c ≠ 'f' := by rw [Ne, char_eq_iff]; have : 'f'.toNat = 102 := rfl; omega
  have htl := takeWhile_literal (t := t) (rest := rest)
    (fun x hx => numChar_literal (hchars x (by simp [hx]))) hr
  simp only [parseValue, List.cons_append, flush_nonws _ hws, h1, h2, h3, if_false, parseLiteral,
    htl.1, htl.2, List.cons.injEq, h4, h5, h6, false_and, hB, if_true, hp]

theorem parseValue_lit {N : Type} (C : NumCodec N) (fuel depth : Nat) {rest : List Char} (hr : Delim rest) :
    parseValue C (fuel + 1) depth (['n', 'u', 'l', 'l'] ++ rest) = some (.null, rest) ∧
    parseValue C (fuel + 1) depth (['t', 'r', 'u', 'e'] ++ rest) = some (.bool true, rest) ∧
    parseValue C (fuel + 1) depth (['f', 'a', 'l', 's', 'e'] ++ rest) = some (.bool false, rest) := by
  have a1 := takeWhile_literal (t := ['u', 'l', 'l']) (rest := rest) (by decide) hr
  have a2 := takeWhile_literal (t := ['r', 'u', 'e']) (rest := rest) (by decide) hr
  have a3 := takeWhile_literal (t := ['a', 'l', 's', 'e']) (rest := rest) (by decide) hr
  refine ⟨?_, ?_, ?_⟩
  · simp only [parseValue, List.cons_append, List.nil_append, flush_nonws _ (show isWhitespace 'n' = false by decide)]
    simp only [List.cons_append, List.nil_append] at a1
    simp [parseLiteral, a1.1, a1.2]
  · simp only [parseValue, List.cons_append, List.nil_append, flush_nonws _ (show isWhitespace 't' = false by decide)]
    simp only [List.cons_append, List.nil_append] at a2
    simp [parseLiteral, a2.1, a2.2]
  · simp only [parseValue, List.cons_append, List.nil_append, flush_nonws _ (show isWhitespace 'f' = false by decide)]
    simp only [List.cons_append, List.nil_append] at a3
    simp [parseLiteral, a3.1, a3.2]

/-- first character of a value: not whitespace, not `]`, `}`, `,` -/
theorem J_value_head {N : Type} {C : NumCodec N} {t : List Char} {v : Value N} {d : Nat}
    (h : J C .value t v d) :
    ∃ c r, t = c :: r ∧ isWhitespace c = false ∧ c ≠ ']' ∧ c ≠ '}' ∧ c ≠ ',' := by
  cases h with
  | null => exact ⟨'n', _, rfl, by decide⟩
  | true => exact ⟨'t', _, rfl, by decide⟩
  | false => exact ⟨'f', _, rfl, by decide⟩
  | number hl _ =>
    obtain ⟨c, r, hcr, hc⟩ := numberLexeme_head hl
    refine ⟨c, r, hcr, ?_, ?_, ?_, ?_⟩
    · rw [isWhitespace_false_iff]; omega
    · rw [Ne, char_eq_iff]; have : ']'.toNat = 93 := rfl; omega
    · rw [Ne, char_eq_iff]; have : '}'.toNat = 125 := rfl; omega
    · rw [Ne, char_eq_iff]; have : ','.toNat = 44 := rfl; omega
  | string _ => exact ⟨'"', _, rfl, by decide⟩
  | arrayEmpty _ => exact ⟨'[', _, rfl, by decide⟩
  | array _ => exact ⟨'[', _, rfl, by decide⟩
  | objectEmpty _ => exact ⟨'{', _, rfl, by decide⟩
  | object _ => exact ⟨'{', _, rfl, by decide⟩

/-- What completeness says for each syntactic category of `J`. The fuel bound is the one
`parse` supplies; `depth` is the parser's `self.depth` on entry. -/
def CompleteAt {N : Type} (C : NumCodec N) : Kind → List Char → Value N → Nat → Prop
  | .value, t, v, d => ∀ fuel depth rest, Delim rest → depth + d ≤ maxDepth →
      2 * (t ++ rest).length < fuel → parseValue C fuel depth (t ++ rest) = some (v, rest)
  | .elems, t, v, d => ∀ fuel depth first rest, depth + d ≤ maxDepth →
      2 * (t ++ ']' :: rest).length + 1 < fuel →
      ∃ vs, v = .array vs ∧ parseArrayLoop C fuel depth first (t ++ ']' :: rest) = some (vs, rest)
  | .members, t, v, d => ∀ fuel depth empty tc rest, (empty = true ∨ tc = true) → depth + d ≤ maxDepth →
      2 * (t ++ '}' :: rest).length + 1 < fuel →
      ∃ ms, v = .object ms ∧ parseObjectLoop C fuel depth empty tc (t ++ '}' :: rest) = some (ms, rest)

theorem delim_ws_then {w x : List Char} {c : Char} (hw : Ws w) (hc : isLiteral c = false) :
    Delim (w ++ c :: x) := delim_ws_append hw (delim_cons hc)

theorem complete_aux {N : Type} (C : NumCodec N) {k : Kind} {t : List Char} {v : Value N} {d : Nat}
    (h : J C k t v d) : CompleteAt C k t v d := by
  induction h with
  | null =>
    intro fuel depth rest hr hd hf
    obtain ⟨f, rfl⟩ : ∃ f, fuel = f + 1 := ⟨fuel - 1, by omega⟩
    exact (parseValue_lit C f depth hr).1
  | true =>
    intro fuel depth rest hr hd hf
    obtain ⟨f, rfl⟩ : ∃ f, fuel = f + 1 := ⟨fuel - 1, by omega⟩
    exact (parseValue_lit C f depth hr).2.1
  | false =>
    intro fuel depth rest hr hd hf
    obtain ⟨f, rfl⟩ : ∃ f, fuel = f + 1 := ⟨fuel - 1, by omega⟩
    exact (parseValue_lit C f depth hr).2.2
  | number hl hp =>
    intro fuel depth rest hr hd hf
    obtain ⟨f, rfl⟩ : ∃ f, fuel = f + 1 := ⟨fuel - 1, by omega⟩
    exact parseValue_number C hl hp f depth hr
  | @string tb s hb =>
    intro fuel depth rest hr hd hf
    obtain ⟨f, rfl⟩ : ∃ f, fuel = f + 1 := ⟨fuel - 1, by omega⟩
    have e : (tb ++ ['"']) ++ rest = tb ++ '"' :: rest := by simp
    simp only [parseValue, List.cons_append, flush_nonws _ (show isWhitespace '"' = false by decide),
      if_true, e, parseString_of_strBody hb]
  | @arrayEmpty w hw =>
    intro fuel depth rest hr hd hf
    simp only [List.cons_append, List.length_cons, List.length_append, List.length_nil] at hf
    obtain ⟨f, rfl⟩ : ∃ f, fuel = f + 2 := ⟨fuel - 2, by omega⟩
    have e : (w ++ [']']) ++ rest = w ++ ']' :: rest := by simp
    have hne : depth ≠ maxDepth := by omega
    simp only [parseValue, parseArrayLoop, List.cons_append, flush_nonws _ (show isWhitespace '[' = false by decide),
      e, flush_ws_append _ hw, flush_nonws _ (show isWhitespace ']' = false by decide), hne, if_true, if_false]
    simp
  | @array t' vs d' _ ih =>
    intro fuel depth rest hr hd hf
    simp only [List.cons_append, List.length_cons, List.length_append, List.length_nil] at hf
    obtain ⟨f, rfl⟩ : ∃ f, fuel = f + 1 := ⟨fuel - 1, by omega⟩
    have e : (t' ++ [']']) ++ rest = t' ++ ']' :: rest := by simp
    have hne : depth ≠ maxDepth := by omega
    obtain ⟨vs', hv, hp⟩ := ih f (depth + 1) true rest (by omega)
      (by simp only [List.length_append, List.length_cons]; omega)
    cases hv
    simp only [parseValue, List.cons_append, flush_nonws _ (show isWhitespace '[' = false by decide),
      e, hne, if_true, if_false, hp]
    simp
  | @elemsOne w1 t w2 v d' hw1 hv hw2 ih =>
    intro fuel depth first rest hd hf
    obtain ⟨c, r, rfl, hcws, hc1, hc2, hc3⟩ := J_value_head hv
    simp only [List.cons_append, List.length_cons, List.length_append] at hf
    obtain ⟨f, rfl⟩ : ∃ f, fuel = f + 1 := ⟨fuel - 1, by omega⟩
    refine ⟨[v], rfl, ?_⟩
    have e : (w1 ++ (c :: r ++ w2)) ++ ']' :: rest = w1 ++ (c :: (r ++ (w2 ++ ']' :: rest))) := by simp
    have hp := ih f depth (w2 ++ ']' :: rest) (delim_ws_then hw2 (by decide)) hd
      (by simp only [List.cons_append, List.length_append, List.length_cons]; omega)
    simp only [List.cons_append] at hp
    simp only [parseArrayLoop, e, flush_ws_append _ hw1, flush_nonws _ hcws, hc1, if_false, hp,
      flush_ws_append _ hw2, flush_nonws _ (show isWhitespace ']' = false by decide)]
    simp
  | @elemsCons w1 t w2 t' v vs d1 d2 hw1 hv hw2 _ ih ih' =>
    intro fuel depth first rest hd hf
    obtain ⟨c, r, rfl, hcws, hc1, hc2, hc3⟩ := J_value_head hv
    simp only [List.cons_append, List.length_cons, List.length_append] at hf
    obtain ⟨f, rfl⟩ : ∃ f, fuel = f + 1 := ⟨fuel - 1, by omega⟩
    have e : (w1 ++ (c :: r ++ (w2 ++ ',' :: t'))) ++ ']' :: rest =
        w1 ++ (c :: (r ++ (w2 ++ ',' :: (t' ++ ']' :: rest)))) := by simp
    have hp := ih f depth (w2 ++ ',' :: (t' ++ ']' :: rest)) (delim_ws_then hw2 (by decide))
      (by omega)
      (by simp only [List.cons_append, List.length_append, List.length_cons]; omega)
    simp only [List.cons_append] at hp
    obtain ⟨vs', hvs, hp'⟩ := ih' f depth false rest (by omega)
      (by simp only [List.length_append, List.length_cons]; omega)
    cases hvs
    refine ⟨v :: vs, rfl, ?_⟩
    simp only [parseArrayLoop, e, flush_ws_append _ hw1, flush_nonws _ hcws, hc1, if_false, hp,
      flush_ws_append _ hw2, flush_nonws _ (show isWhitespace ',' = false by decide), if_true, hp']
  | @objectEmpty w hw =>
    intro fuel depth rest hr hd hf
    simp only [List.cons_append, List.length_cons, List.length_append, List.length_nil] at hf
    obtain ⟨f, rfl⟩ : ∃ f, fuel = f + 2 := ⟨fuel - 2, by omega⟩
    have e : (w ++ ['}']) ++ rest = w ++ '}' :: rest := by simp
    have hne : depth ≠ maxDepth := by omega
    simp only [parseValue, parseObjectLoop, List.cons_append, flush_nonws _ (show isWhitespace '{' = false by decide),
      e, flush_ws_append _ hw, flush_nonws _ (show isWhitespace '}' = false by decide), hne, if_true, if_false]
    simp
  | @object t' ms d' _ ih =>
    intro fuel depth rest hr hd hf
    simp only [List.cons_append, List.length_cons, List.length_append, List.length_nil] at hf
    obtain ⟨f, rfl⟩ : ∃ f, fuel = f + 1 := ⟨fuel - 1, by omega⟩
    have e : (t' ++ ['}']) ++ rest = t' ++ '}' :: rest := by simp
    have hne : depth ≠ maxDepth := by omega
    obtain ⟨ms', hv, hp⟩ := ih f (depth + 1) true false rest (Or.inl rfl) (by omega)
      (by simp only [List.length_append, List.length_cons]; omega)
    cases hv
    simp only [parseValue, List.cons_append, flush_nonws _ (show isWhitespace '{' = false by decide),
      e, hne, if_true, if_false, hp]
    simp
  | @membersOne w1 k w2 w3 t w4 key v d' hw1 hk hw2 hw3 hv hw4 ih =>
    intro fuel depth empty tc rest hst hd hf
    obtain ⟨c, r, rfl, hcws, hc1, hc2, hc3⟩ := J_value_head hv
    simp only [List.cons_append, List.length_cons, List.length_append] at hf
    obtain ⟨f, rfl⟩ : ∃ f, fuel = f + 2 := ⟨fuel - 2, by omega⟩
    refine ⟨[(key, v)], rfl, ?_⟩
    have e : (w1 ++ '"' :: (k ++ '"' :: (w2 ++ ':' :: (w3 ++ (c :: r ++ w4))))) ++ '}' :: rest =
        w1 ++ ('"' :: (k ++ '"' :: (w2 ++ ':' :: (w3 ++ (c :: (r ++ (w4 ++ '}' :: rest))))))) := by simp
    have hp := ih (f + 1) depth (w4 ++ '}' :: rest) (delim_ws_then hw4 (by decide)) hd
      (by simp only [List.cons_append, List.length_append, List.length_cons]; omega)
    simp only [List.cons_append] at hp
    have hst' : (!empty && !tc) = false := by rcases hst with h | h <;> simp [h]
    simp only [parseObjectLoop, e, flush_ws_append _ hw1, flush_nonws _ (show isWhitespace '"' = false by decide),
      hst', parseString_of_strBody hk, flush_ws_append _ hw2,
      flush_nonws _ (show isWhitespace ':' = false by decide), flush_ws_append _ hw3, flush_nonws _ hcws, hp,
      flush_ws_append _ hw4, flush_nonws _ (show isWhitespace '}' = false by decide)]
    simp
  | @membersCons w1 k w2 w3 t w4 t' key v ms d1 d2 hw1 hk hw2 hw3 hv hw4 _ ih ih' =>
    intro fuel depth empty tc rest hst hd hf
    obtain ⟨c, r, rfl, hcws, hc1, hc2, hc3⟩ := J_value_head hv
    simp only [List.cons_append, List.length_cons, List.length_append] at hf
    obtain ⟨f, rfl⟩ : ∃ f, fuel = f + 2 := ⟨fuel - 2, by omega⟩
    have e : (w1 ++ '"' :: (k ++ '"' :: (w2 ++ ':' :: (w3 ++ (c :: r ++ (w4 ++ ',' :: t')))))) ++ '}' :: rest =
        w1 ++ ('"' :: (k ++ '"' :: (w2 ++ ':' :: (w3 ++ (c :: (r ++ (w4 ++ ',' :: (t' ++ '}' :: rest)))))))) := by
      simp
    have hp := ih (f + 1) depth (w4 ++ ',' :: (t' ++ '}' :: rest)) (delim_ws_then hw4 (by decide)) (by omega)
      (by simp only [List.cons_append, List.length_append, List.length_cons]; omega)
    simp only [List.cons_append] at hp
    obtain ⟨ms', hms, hp'⟩ := ih' f depth false true rest (Or.inr rfl) (by omega)
      (by simp only [List.length_append, List.length_cons]; omega)
    cases hms
    refine ⟨(key, v) :: ms, rfl, ?_⟩
    have hst' : (!empty && !tc) = false := by rcases hst with h | h <;> simp [h]
    simp only [parseObjectLoop, e, flush_ws_append _ hw1, flush_nonws _ (show isWhitespace '"' = false by decide),
      hst', parseString_of_strBody hk, flush_ws_append _ hw2,
      flush_nonws _ (show isWhitespace ':' = false by decide), flush_ws_append _ hw3, flush_nonws _ hcws, hp,
      flush_ws_append _ hw4, flush_nonws _ (show isWhitespace ',' = false by decide), hp']
    simp

theorem parseValue_ws_prefix {N : Type} (C : NumCodec N) (fuel depth : Nat) {w : List Char} (x : List Char)
    (hw : Ws w) : parseValue C fuel depth (w ++ x) = parseValue C fuel depth x := by
  cases fuel with
  | zero => simp [parseValue]
  | succ f => simp only [parseValue, flush_ws_append _ hw]

end Humphrey.Json
