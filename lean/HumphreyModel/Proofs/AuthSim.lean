import HumphreyModel.Proofs.AuthRefine
/-
One simulation lemma per `AuthProvider` operation: from related states the model and the abstract
specification produce the same output and related states.
-/
namespace Humphrey.Auth
set_option linter.unusedSectionVars false
set_option linter.unusedSimpArgs false
set_option linter.unusedVariables false

section
variable {U T H P S Pep : Type} [DecidableEq U] [DecidableEq T] [DecidableEq P]
variable {hs : HashScheme P S Pep H} {cfg : Config Pep} {db : Db U T H} {a : Spec.State U T P}

theorem sim_createUser (hr : Rel hs cfg db a) (dl rl now : Nat) (p : P) (salt : S) (u : U) :
    Rel hs cfg (createUser hs cfg db p salt u).1
      (Spec.step dl rl a (.createUser p salt u : Op U T P S) now).1 ∧
    (createUser hs cfg db p salt u).2 = (Spec.step dl rl a (.createUser p salt u : Op U T P S) now).2 := by
  cases ha : a.pw u with
  | some p0 =>
    obtain ⟨x, _, hx, _⟩ := hr.pwSome u p0 ha
    simp only [createUser, addUser, hx, Spec.step, ha, Option.isSome_some, if_true, and_true]
    exact hr.of_eq _ (fun _ => rfl) (fun _ => rfl) (fun _ h => h) (fun _ h => List.mem_cons_of_mem _ h)
  | none =>
    have hn := hr.pwNone u ha
    simp only [createUser, addUser, hn, Spec.step, ha, Option.isSome_none, Bool.false_eq_true, if_false,
      and_true]
    refine ⟨uidsDistinct_append hr.uids hn, ?_, ?_, ?_, hr.drawnT, ?_⟩
    · intro u' t e
      have : sessOf (db ++ [{ uid := u, pwHash := hs.hash p salt cfg.pepper, session := none }]) u' =
          sessOf db u' := by
        unfold sessOf
        rw [getUserByUid_append]
        cases getUserByUid db u' with
        | some y => rfl
        | none => by_cases h : u = u' <;> simp [h]
      rw [this]; exact hr.sess u' t e
    · intro u' h
      simp only [Spec.upd] at h
      by_cases hu : u' = u
      · simp [hu] at h
      · simp only [hu, if_false] at h
        rw [getUserByUid_append, hr.pwNone u' h]
        have : ¬ u = u' := fun h => hu h.symm
        simp [this]
    · intro u' q h
      simp only [Spec.upd] at h
      by_cases hu : u' = u
      · rw [hu] at h ⊢
        simp only [if_true, Option.some.injEq] at h
        refine ⟨{ uid := u, pwHash := hs.hash p salt cfg.pepper, session := none }, salt, ?_, by rw [h]⟩
        rw [getUserByUid_append, hn]; simp
      · simp only [hu, if_false] at h
        obtain ⟨x, s, hx, hh⟩ := hr.pwSome u' q h
        exact ⟨x, s, by rw [getUserByUid_append, hx], hh⟩
    · intro u' q h
      simp only [Spec.upd] at h
      by_cases hu : u' = u
      · subst hu; exact List.mem_cons_self
      · simp only [hu, if_false] at h
        exact List.mem_cons_of_mem _ (hr.drawnU u' q h)

theorem sim_removeUser (hr : Rel hs cfg db a) (dl rl now : Nat) (u : U) :
    Rel hs cfg (removeUserOp db u).1 (Spec.step dl rl a (.removeUser u : Op U T P S) now).1 ∧
    (removeUserOp db u).2 = (Spec.step dl rl a (.removeUser u : Op U T P S) now).2 := by
  cases ha : a.pw u with
  | none =>
    have hn := hr.pwNone u ha
    simp only [removeUserOp, removeUser, hn, Spec.step, ha, Option.isNone_none, if_true, and_true]
    exact hr
  | some p0 =>
    obtain ⟨x, _, hx, _⟩ := hr.pwSome u p0 ha
    simp only [removeUserOp, removeUser, hx, Spec.step, ha, Option.isNone_some, Bool.false_eq_true,
      if_false, and_true]
    have hsessOf : ∀ u', sessOf (db.filter (fun x => !decide (x.uid = u))) u' =
        if u' = u then none else sessOf db u' := by
      intro u'
      unfold sessOf
      rw [getUserByUid_filter]
      by_cases h : u' = u <;> simp [h]
    have hdrop : ∀ t u' e, Spec.dropSessionsOf a u t = some (u', e) ↔ (a.sess t = some (u', e) ∧ u' ≠ u) := by
      intro t u' e
      unfold Spec.dropSessionsOf
      cases hs' : a.sess t with
      | none => simp
      | some ue =>
        obtain ⟨u2, e2⟩ := ue
        by_cases h : u2 = u
        · simp [h]; intro h1 _; exact h1.symm
        · simp [h]; intro h1 _; subst h1; exact h
    refine ⟨uidsDistinct_filter hr.uids _, ?_, ?_, ?_, ?_, ?_⟩
    · intro u' t e
      rw [hsessOf u']
      show _ ↔ Spec.dropSessionsOf a u t = some (u', e)
      rw [hdrop]
      by_cases h : u' = u
      · simp [h]
      · simp [h]; exact hr.sess u' t e
    · intro u' h
      simp only [Spec.upd] at h
      rw [getUserByUid_filter]
      by_cases hu : u' = u
      · simp [hu]
      · simp only [hu, if_false] at h ⊢
        exact hr.pwNone u' h
    · intro u' q h
      simp only [Spec.upd] at h
      by_cases hu : u' = u
      · simp [hu] at h
      · simp only [hu, if_false] at h
        obtain ⟨y, s, hy, hh⟩ := hr.pwSome u' q h
        exact ⟨y, s, by rw [getUserByUid_filter]; simp [hu, hy], hh⟩
    · intro t u' e h
      have := (hdrop t u' e).mp h
      exact hr.drawnT t u' e this.1
    · intro u' q h
      simp only [Spec.upd] at h
      by_cases hu : u' = u
      · simp [hu] at h
      · simp only [hu, if_false] at h
        exact hr.drawnU u' q h

theorem sim_verify (hl : hs.Lawful) (hr : Rel hs cfg db a) (u : U) (p : P) :
    verifyPw hs cfg db u p = decide (a.pw u = some p) := by
  cases ha : a.pw u with
  | none => simp [verifyPw, hr.pwNone u ha]
  | some p0 =>
    obtain ⟨x, salt, hx, hh⟩ := hr.pwSome u p0 ha
    rw [Bool.eq_iff_iff]
    simp only [verifyPw, hx, hh, hl p0 salt cfg.pepper p cfg.pepper, and_true, decide_eq_true_eq,
      Option.some.injEq]

theorem sim_exists (hr : Rel hs cfg db a) (u : U) : userExists db u = (a.pw u).isSome :=
  hr.exists_iff u

theorem sim_getUidByToken (hr : Rel hs cfg db a) (t : T) (now : Nat) :
    getUidByToken db t now =
      (match Spec.live a now t with | some u => Out.uid u | none => Out.err .invalidToken) := by
  unfold getUidByToken Spec.live
  rcases hr.lookupTok t with ⟨h1, h2⟩ | ⟨x, e, h1, h2, h3, _⟩
  · simp [h1, h2]
  · simp only [h1, h2, h3, sessionValid]
    by_cases h : now < e <;> simp [h]

theorem sim_authRoute (hr : Rel hs cfg db a) (c : Option T) (now : Nat) :
    authRoute db c now =
      (match c.bind (Spec.live a now) with | some u => Out.http200 u | none => Out.http401) := by
  cases c with
  | none => simp [authRoute]
  | some t =>
    simp only [authRoute, sim_getUidByToken hr t now, Option.bind_some]
    cases Spec.live a now t <;> rfl

/-- `create_session` / `create_session_with_lifetime`; needs the drawn token to be fresh. -/
theorem sim_issue (hr : Rel hs cfg db a) (u : U) (l : Nat) (t : T) (now : Nat) (hf : t ∉ a.drawnToks) :
    Rel hs cfg (createSessionWith db u l t now).1 (Spec.issue a u l t now).1 ∧
    (createSessionWith db u l t now).2 = (Spec.issue a u l t now).2 := by
  have hr1 : Rel hs cfg db { a with drawnToks := t :: a.drawnToks } :=
    hr.of_eq _ (fun _ => rfl) (fun _ => rfl) (fun _ h => List.mem_cons_of_mem _ h) (fun _ h => h)
  cases ha : a.pw u with
  | none =>
    simp only [createSessionWith, hr.pwNone u ha, Spec.issue, ha, and_true]
    exact hr1
  | some p0 =>
    obtain ⟨x, _, hx, _⟩ := hr.pwSome u p0 ha
    have hlive := hr.hasLive_eq hx now
    simp only [createSessionWith, hx, Spec.issue, ha, hlive]
    cases hv : hasValidSession now x with
    | true => simp only [Bool.not_true, Bool.false_eq_true, if_false, if_true, and_true]; exact hr1
    | false =>
      simp only [Bool.not_false, if_true, Bool.false_eq_true, if_false]
      by_cases hov : now + l < u64Bound
      · simp only [hov, if_true]
        have hdrop : ∀ t' u' e, Spec.dropSessionsOf a u t' = some (u', e) ↔
            (a.sess t' = some (u', e) ∧ u' ≠ u) := by
          intro t' u' e
          unfold Spec.dropSessionsOf
          cases hs' : a.sess t' with
          | none => simp
          | some ue =>
            obtain ⟨u2, e2⟩ := ue
            by_cases h : u2 = u
            · simp [h]; intro h1 _; exact h1.symm
            · simp [h]; intro h1 _; subst h1; exact h
        obtain ⟨db', hup, hrel⟩ := hr.setSession hx (some (t, now + l))
          { a with drawnToks := t :: a.drawnToks,
                   sess := Spec.upd (Spec.dropSessionsOf a u) t (some (u, now + l)) }
          (fun _ => rfl)
          (by
            intro u' t' e
            show _ ↔ Spec.upd (Spec.dropSessionsOf a u) t (some (u, now + l)) t' = some (u', e)
            simp only [Spec.upd]
            by_cases hu : u' = u
            · subst hu
              by_cases ht : t' = t
              · subst ht; simp
              · simp only [if_true, ht, if_false, hdrop]
                constructor
                · intro h; simp at h; exact absurd h.1.symm ht
                · intro h; exact absurd rfl h.2
            · simp only [hu, if_false]
              by_cases ht : t' = t
              · subst ht
                simp only [if_true]
                constructor
                · intro h
                  exact absurd (hr.drawnT _ _ _ ((hr.sess u' t' e).mp h)) hf
                · intro h; simp at h; exact absurd h.1.symm hu
              · simp only [ht, if_false, hdrop]
                constructor
                · intro h; exact ⟨(hr.sess u' t' e).mp h, hu⟩
                · intro h; exact (hr.sess u' t' e).mpr h.1)
          (by
            intro t' u' e h
            change Spec.upd (Spec.dropSessionsOf a u) t (some (u, now + l)) t' = some (u', e) at h
            simp only [Spec.upd] at h
            by_cases ht : t' = t
            · subst ht; exact List.mem_cons_self
            · simp only [ht, if_false, hdrop] at h
              exact List.mem_cons_of_mem _ (hr.drawnT t' u' e h.1))
          (fun _ h => h)
        simp only [hup, and_true]
        exact hrel
      · simp only [hov, if_false, and_true]; exact hr1

theorem sim_refresh (hr : Rel hs cfg db a) (rl : Nat) (hrl : cfg.defaultRefreshLifetime = rl) (dl : Nat)
    (t : T) (now : Nat) :
    Rel hs cfg (refreshSession cfg db t now).1 (Spec.step dl rl a (.refreshSession t : Op U T P S) now).1 ∧
    (refreshSession cfg db t now).2 = (Spec.step dl rl a (.refreshSession t : Op U T P S) now).2 := by
  subst hrl
  rcases hr.lookupTok t with ⟨h1, h2⟩ | ⟨x, e, h1, h2, h3, h4⟩
  · simp only [refreshSession, h1, Spec.step, Spec.live, h2, and_true]; exact hr
  · simp only [refreshSession, h1, h2, Spec.step, Spec.live, h3, sessionValid]
    by_cases hlt : now < e
    · simp only [hlt, decide_true, if_true]
      by_cases hov : now + cfg.defaultRefreshLifetime < u64Bound
      · simp only [hov, if_true]
        have hso : sessOf db x.uid = some (t, e) := by rw [hr.sessOf_of_user h4, h2]
        obtain ⟨db', hup, hrel⟩ := hr.setSession h4 (some (t, now + cfg.defaultRefreshLifetime))
          { a with sess := Spec.upd a.sess t (some (x.uid, now + cfg.defaultRefreshLifetime)) }
          (fun _ => rfl)
          (by
            intro u' t' e'
            show _ ↔ Spec.upd a.sess t (some (x.uid, now + cfg.defaultRefreshLifetime)) t' = some (u', e')
            simp only [Spec.upd]
            by_cases hu : u' = x.uid
            · subst hu
              by_cases ht : t' = t
              · subst ht; simp
              · simp only [if_true, ht, if_false]
                constructor
                · intro h; simp at h; exact absurd h.1.symm ht
                · intro h
                  have := (hr.sess _ _ _).mpr h
                  rw [hso] at this
                  simp at this; exact absurd this.1.symm ht
            · simp only [hu, if_false]
              by_cases ht : t' = t
              · subst ht
                simp only [if_true]
                constructor
                · intro h
                  have := (hr.sess _ _ _).mp h
                  rw [h3] at this
                  simp at this; exact absurd this.1.symm hu
                · intro h; simp at h; exact absurd h.1.symm hu
              · simp only [ht, if_false]; exact hr.sess u' t' e')
          (by
            intro t' u' e' h
            change Spec.upd a.sess t (some (x.uid, now + cfg.defaultRefreshLifetime)) t' = some (u', e') at h
            simp only [Spec.upd] at h
            by_cases ht : t' = t
            · subst ht; exact hr.drawnT _ _ _ h3
            · simp only [ht, if_false] at h; exact hr.drawnT t' u' e' h)
          (fun _ h => h)
        simp only [hup, and_true]
        exact hrel
      · simp only [hov, if_false, and_true]; exact hr
    · simp only [hlt, decide_false, Bool.false_eq_true, if_false, and_true]; exact hr

theorem sim_invalidateSession (hr : Rel hs cfg db a) (dl rl : Nat) (t : T) (now : Nat) :
    Rel hs cfg (invalidateSession db t).1 (Spec.step dl rl a (.invalidateSession t : Op U T P S) now).1 ∧
    (invalidateSession db t).2 = (Spec.step dl rl a (.invalidateSession t : Op U T P S) now).2 := by
  rcases hr.lookupTok t with ⟨h1, h2⟩ | ⟨x, e, h1, h2, h3, h4⟩
  · simp only [invalidateSession, h1, Spec.step, and_true]
    refine hr.of_eq _ (fun _ => rfl) ?_ (fun _ h => h) (fun _ h => h)
    intro t'
    show Spec.upd a.sess t none t' = a.sess t'
    simp only [Spec.upd]
    by_cases ht : t' = t
    · subst ht; simp [h2]
    · simp [ht]
  · have hso : sessOf db x.uid = some (t, e) := by rw [hr.sessOf_of_user h4, h2]
    obtain ⟨db', hup, hrel⟩ := hr.setSession h4 none { a with sess := Spec.upd a.sess t none }
      (fun _ => rfl)
      (by
        intro u' t' e'
        show _ ↔ Spec.upd a.sess t none t' = some (u', e')
        simp only [Spec.upd]
        by_cases hu : u' = x.uid
        · subst hu
          simp only [if_true]
          constructor
          · intro h; cases h
          · intro h
            by_cases ht : t' = t
            · simp [ht] at h
            · simp only [ht, if_false] at h
              have := (hr.sess _ _ _).mpr h
              rw [hso] at this
              simp at this; exact absurd this.1.symm ht
        · simp only [hu, if_false]
          by_cases ht : t' = t
          · subst ht
            simp only [if_true]
            constructor
            · intro h
              have := (hr.sess _ _ _).mp h
              rw [h3] at this
              simp at this; exact absurd this.1.symm hu
            · intro h; cases h
          · simp only [ht, if_false]; exact hr.sess u' t' e')
      (by
        intro t' u' e' h
        change Spec.upd a.sess t none t' = some (u', e') at h
        simp only [Spec.upd] at h
        by_cases ht : t' = t
        · simp [ht] at h
        · simp only [ht, if_false] at h; exact hr.drawnT t' u' e' h)
      (fun _ h => h)
    simp only [invalidateSession, h1, hup, Spec.step, and_true]
    exact hrel

theorem sim_invalidateUserSession (hr : Rel hs cfg db a) (dl rl : Nat) (u : U) (now : Nat) :
    Rel hs cfg (invalidateUserSession db u).1
      (Spec.step dl rl a (.invalidateUserSession u : Op U T P S) now).1 ∧
    (invalidateUserSession db u).2 = (Spec.step dl rl a (.invalidateUserSession u : Op U T P S) now).2 := by
  have hdrop : ∀ t' u' e, Spec.dropSessionsOf a u t' = some (u', e) ↔
      (a.sess t' = some (u', e) ∧ u' ≠ u) := by
    intro t' u' e
    unfold Spec.dropSessionsOf
    cases hs' : a.sess t' with
    | none => simp
    | some ue =>
      obtain ⟨u2, e2⟩ := ue
      by_cases h : u2 = u
      · simp [h]; intro h1 _; exact h1.symm
      · simp [h]; intro h1 _; subst h1; exact h
  cases hx : getUserByUid db u with
  | none =>
    simp only [invalidateUserSession, hx, Spec.step, and_true]
    refine hr.of_eq _ (fun _ => rfl) ?_ (fun _ h => h) (fun _ h => h)
    intro t'
    show Spec.dropSessionsOf a u t' = a.sess t'
    unfold Spec.dropSessionsOf
    cases hs' : a.sess t' with
    | none => rfl
    | some ue =>
      obtain ⟨u2, e2⟩ := ue
      by_cases h : u2 = u
      · subst h
        have := (hr.sess _ _ _).mpr hs'
        simp [sessOf, hx] at this
      · simp [h]
  | some x =>
    obtain ⟨db', hup, hrel⟩ := hr.setSession hx none { a with sess := Spec.dropSessionsOf a u }
      (fun _ => rfl)
      (by
        intro u' t' e'
        show _ ↔ Spec.dropSessionsOf a u t' = some (u', e')
        rw [hdrop]
        by_cases hu : u' = u
        · simp [hu]
        · simp only [hu, if_false, ne_eq, not_false_eq_true, and_true]; exact hr.sess u' t' e')
      (by
        intro t' u' e' h
        change Spec.dropSessionsOf a u t' = some (u', e') at h
        exact hr.drawnT t' u' e' ((hdrop _ _ _).mp h).1)
      (fun _ h => h)
    simp only [invalidateUserSession, hx, hup, Spec.step, and_true]
    exact hrel

end
end Humphrey.Auth
