import HumphreyModel.Proofs.WsFrameEncode
import HumphreyModel.Proofs.WsFrameDecode

/-! Transfer from the flat decoder to the decoder over a script of reads. -/
namespace Humphrey.WsFrame

theorem decodeFrame_error_of_flat {s : List Bytes} (h : NonEmptyReads s) {e : WsErr}
    (hf : (decodeFlat s.flatten).result = .error e) : decodeFrame s = .error e := by
  obtain ⟨_, ⟨e', h1, h2⟩ | ⟨f, a, b, _, h2, _⟩⟩ := decodeFrameFull_flat s h
  · rw [hf] at h2; cases h2; exact h1
  · rw [hf] at h2; cases h2

theorem decodeFrame_ok_of_flat {s : List Bytes} (h : NonEmptyReads s) {f : Frame} {tl : Bytes}
    (hf : (decodeFlat s.flatten).result = .ok (f, tl)) :
    ∃ rest, decodeFrame s = .ok (f, rest) ∧ NonEmptyReads rest ∧ rest.flatten = tl := by
  obtain ⟨_, ⟨e', _, h2⟩ | ⟨f', a, b, h1, h2, hne, hfl⟩⟩ := decodeFrameFull_flat s h
  · rw [hf] at h2; cases h2
  · rw [hf] at h2; cases h2; exact ⟨a, h1, hne, hfl⟩

/-- What the caller can observe of a decode: the frame (or error) and the bytes not consumed. -/
def observe (r : Except WsErr (Frame × List Bytes)) : Except WsErr (Frame × Bytes) :=
  match r with
  | .error e => .error e
  | .ok (f, rest) => .ok (f, rest.flatten)

theorem observe_decodeFrame (s : List Bytes) (h : NonEmptyReads s) :
    observe (decodeFrame s) = (decodeFlat s.flatten).result ∧
    (decodeFrameFull s).alloc = (decodeFlat s.flatten).alloc := by
  obtain ⟨ha, ⟨e', h1, h2⟩ | ⟨f', a, b, h1, h2, _, hfl⟩⟩ := decodeFrameFull_flat s h
  · refine ⟨?_, ha⟩
    unfold decodeFrame; rw [h1, h2]; rfl
  · refine ⟨?_, ha⟩
    unfold decodeFrame; rw [h1, h2]; simp [observe, hfl]

theorem nonEmptyReads_flatten_nil {s : List Bytes} (h : NonEmptyReads s) (hf : s.flatten = []) :
    s = [] := by
  cases s with
  | nil => rfl
  | cons c cs =>
    exfalso
    have hc : c ≠ [] := h c (by simp)
    simp only [List.flatten_cons, List.append_eq_nil_iff] at hf
    exact hc hf.1

theorem ofNat?_reserved {n : Nat} (h : Spec.reservedOpcode n = true) : Opcode.ofNat? n = none := by
  simp only [Spec.reservedOpcode, Bool.or_eq_true, Bool.and_eq_true, decide_eq_true_eq] at h
  have : n = 3 ∨ n = 4 ∨ n = 5 ∨ n = 6 ∨ n = 7 ∨ n = 11 ∨ n = 12 ∨ n = 13 ∨ n = 14 ∨ n = 15 := by
    omega
  rcases this with rfl | rfl | rfl | rfl | rfl | rfl | rfl | rfl | rfl | rfl <;> rfl

theorem decodeFlat_reserved (b0 b1 : UInt8) (rest : Bytes)
    (h : Spec.reservedOpcode (b0 &&& 0xF).toNat = true) :
    decodeFlat (b0 :: b1 :: rest) = ⟨none, .error .invalidOpcode⟩ := by
  unfold decodeFlat decodeWith
  have : takeExact 2 (b0 :: b1 :: rest) = some ([b0, b1], rest) := by simp [takeExact]
  rw [this]
  simp only [innerWith, ofNat?_reserved h]

end Humphrey.WsFrame
