import HumphreyModel.Proofs.HttpMsgBytes
import HumphreyModel.Proofs.HttpMsgSort
import HumphreyModel.Props.C07
/-
The serialiser model against the independent strict recogniser `Spec.parseMsg`: well-formedness
(`Response.WF`, exactly the exclusions of property C07), the shape of `serializeResponse r`, and
`parseMsg (serializeResponse r)`. The table facts come from `Props/C07.lean` (`status_roundtrip`,
`reason_phrase_registered`, `status_codes_three_digits`, `header_display_roundtrip`).
-/
namespace Humphrey.Http
open Humphrey Humphrey.Bytes

/-! ## Well-formedness: the property's exclusions -/

/-- A header name that can go on the wire: its serialised spelling is a non-empty token and
lower-cases back to the stored key. -/
structure HName.WF (n : HName) : Prop where
  ne : n.display ≠ []
  tchar : ∀ b ∈ n.display, Spec.isTchar b = true
  lower : asciiLower n.display = n.lower

structure Header.WF (h : Header) : Prop where
  name : h.name.WF
  /-- no CR / LF in the value -/
  value_nocrlf : ∀ b ∈ h.value, b ≠ 13 ∧ b ≠ 10
  /-- no leading SP / TAB (a recipient strips optional white space) -/
  value_noows : ∀ b t, h.value = b :: t → b ≠ 32 ∧ b ≠ 9

/-- Exactly the exclusions of the property: a non-empty version without SP/CR/LF, a status the code
knows, token header names, header values without CR/LF and without leading white space. -/
structure Response.WF (r : Response) : Prop where
  version_ne : r.version ≠ []
  version_clean : ∀ b ∈ r.version, b ≠ 32 ∧ b ≠ 13 ∧ b ≠ 10
  status : statusKnown r.status = true
  headers : ∀ h ∈ r.headers, h.WF

/-! ## Table facts -/

theorem lookup_mem_m {l d : Bytes} {c : Nat} {t : List (Bytes × Bytes × Nat)}
    (h : lookup l t = some (d, c)) : (l, d, c) ∈ t := by
  induction t with
  | nil => simp [lookup] at h
  | cons row rest ih =>
    obtain ⟨k, d', c'⟩ := row
    simp only [lookup] at h
    by_cases hk : k = l
    · simp only [hk, if_true, Option.some.injEq, Prod.mk.injEq] at h
      obtain ⟨rfl, rfl⟩ := h
      simp [hk]
    · simp only [hk, if_false] at h
      exact List.mem_cons_of_mem _ (ih h)

theorem statusLookup_mem {c back : Nat} {p : Bytes} {t : List (Nat × Nat × Bytes)}
    (h : statusLookup c t = some (back, p)) : (c, back, p) ∈ t := by
  induction t with
  | nil => simp [statusLookup] at h
  | cons row rest ih =>
    obtain ⟨k, b', p'⟩ := row
    simp only [statusLookup] at h
    by_cases hk : k = c
    · simp only [hk, if_true, Option.some.injEq, Prod.mk.injEq] at h
      obtain ⟨rfl, rfl⟩ := h
      simp [hk]
    · simp only [hk, if_false] at h
      exact List.mem_cons_of_mem _ (ih h)

/-- Known header names are spelled as non-empty tokens. -/
theorem header_display_token :
    ∀ row ∈ Generated.headerTable, row.2.1 ≠ [] ∧ ∀ b ∈ row.2.1, Spec.isTchar b = true := by decide +kernel

/-- Reason phrases are printable ASCII without CR/LF. -/
theorem reason_phrase_clean :
    ∀ row ∈ Generated.statusTable, ∀ b ∈ row.2.2, b ≠ 13 ∧ b ≠ 10 ∧ b < 128 := by decide

/-- A name the header table knows is well-formed. -/
theorem HName.wf_known (n : HName) (h : lookup n.lower Generated.headerTable ≠ none) : n.WF := by
  cases hl : lookup n.lower Generated.headerTable with
  | none => exact absurd hl h
  | some p =>
    obtain ⟨d, c⟩ := p
    have hm := lookup_mem_m hl
    have h1 := header_display_token _ hm
    have h2 := header_display_roundtrip _ hm
    have hd : n.display = d := by simp [HName.display, hl]
    exact ⟨by rw [hd]; exact h1.1, by rw [hd]; exact h1.2, by rw [hd]; exact h2⟩

/-- A custom name is well-formed when its stored key is a non-empty lower-case token. -/
theorem HName.wf_of_lower (n : HName) (h1 : n.lower ≠ []) (h2 : ∀ b ∈ n.lower, Spec.isTchar b = true)
    (h3 : asciiLower n.lower = n.lower) : n.WF := by
  cases hl : lookup n.lower Generated.headerTable with
  | some p => exact HName.wf_known n (by simp [hl])
  | none =>
    have hd : n.display = n.lower := by simp [HName.display, hl]
    exact ⟨by rw [hd]; exact h1, by rw [hd]; exact h2, by rw [hd]; exact h3⟩

/-- What `HeaderType::from(name)` produces is well-formed whenever `name` is a non-empty token. -/
theorem HName.wf_ofName (s : Bytes) (h1 : s ≠ []) (h2 : ∀ b ∈ s, Spec.isTchar b = true) :
    (HName.ofName s).WF := by
  apply HName.wf_of_lower
  · cases s with
    | nil => exact absurd rfl h1
    | cons a as => simp [HName.ofName, asciiLower]
  · intro b hb
    simp only [HName.ofName, asciiLower, List.mem_map] at hb
    obtain ⟨a, ha, rfl⟩ := hb
    exact isTchar_lowerByte a (h2 a ha)
  · simp [HName.ofName, asciiLower_idem_m]

theorem statusKnown_facts (c : Nat) (h : statusKnown c = true) :
    statusCodeOut c = c ∧ 100 ≤ c ∧ c ≤ 599 ∧
    (Spec.phrasesFor c).contains (asciiLower (reasonPhrase c)) = true ∧
    ∀ b ∈ reasonPhrase c, b ≠ 13 ∧ b ≠ 10 ∧ b < 128 := by
  cases hl : statusLookup c Generated.statusTable with
  | none => simp [statusKnown, hl] at h
  | some p =>
    obtain ⟨back, ph⟩ := p
    have hm := statusLookup_mem hl
    have e1 : statusCodeOut c = back := by simp [statusCodeOut, hl]
    have e2 : reasonPhrase c = ph := by simp [reasonPhrase, hl]
    have t1 := status_roundtrip _ hm
    have t2 := status_codes_three_digits _ hm
    have t3 := reason_phrase_registered _ hm
    have t4 := reason_phrase_clean _ hm
    simp only at t1 t2 t3 t4
    rw [e1, e2]
    exact ⟨t1, t2.1, t2.2, t3, t4⟩

/-! ## Shape of the serialised message -/

/-- One field line without its CRLF. -/
def headerLine (h : Header) : Bytes := h.name.display ++ 58 :: 32 :: h.value

def statusLine (r : Response) : Bytes :=
  r.version ++ 32 :: (natToBytes (statusCodeOut r.status) ++ 32 :: reasonPhrase r.status)

/-- The CRLF pad the serialiser appends after a non-empty body. -/
def bodyPart (r : Response) : Bytes := if r.body = [] then [] else r.body ++ [13, 10]

theorem flatMap_shift (hs : Headers) (t : Bytes) :
    hs.flatMap (fun h => crlf ++ (h.name.display ++ ([58, SP] ++ h.value))) ++ (crlf ++ t) =
      crlf ++ (hs.flatMap (fun h => headerLine h ++ [13, 10]) ++ t) := by
  induction hs with
  | nil => rfl
  | cons h hs ih =>
    simp only [List.flatMap_cons, List.append_assoc]
    rw [ih]
    simp [crlf, headerLine, SP]

theorem serialize_shape (r : Response) :
    serializeResponse r = statusLine r ++ 13 :: 10 ::
      (r.headers.sorted.flatMap (fun h => headerLine h ++ [13, 10]) ++ 13 :: 10 :: bodyPart r) := by
  unfold serializeResponse
  simp only [List.append_assoc]
  rw [flatMap_shift]
  simp [statusLine, bodyPart, SP, crlf]

/-! ## The strict recogniser on the header section -/

theorem headerLine_facts (h : Header) (hw : h.WF) :
    (∀ b ∈ headerLine h, b ≠ 13 ∧ b ≠ 10) ∧ (∀ b ∈ h.name.display, b ≠ 58) := by
  refine ⟨?_, fun b hb => (isTchar_facts b (hw.name.tchar b hb)).1⟩
  intro b hb
  simp only [headerLine, List.mem_append, List.mem_cons] at hb
  rcases hb with hb | rfl | rfl | hb
  · have := isTchar_facts b (hw.name.tchar b hb); exact ⟨this.2.1, this.2.2.1⟩
  · decide
  · decide
  · exact hw.value_nocrlf b hb

theorem dropOws_value (h : Header) (hw : h.WF) : Spec.dropOws (32 :: h.value) = h.value := by
  simp only [Spec.dropOws, true_or, if_true]
  cases hv : h.value with
  | nil => rfl
  | cons b t =>
    have := hw.value_noows b t hv
    simp [Spec.dropOws, this.1, this.2]

theorem parseHeaderSection_lines (hs : Headers) (hw : ∀ h ∈ hs, h.WF) (body : Bytes)
    (fuel : Nat) (hf : hs.length < fuel) (acc : List (Bytes × Bytes)) :
    Spec.parseHeaderSection fuel (hs.flatMap (fun h => headerLine h ++ [13, 10]) ++ 13 :: 10 :: body) acc =
      some (acc.reverse ++ hs.map (fun h => (asciiLower h.name.display, h.value)), body) := by
  induction hs generalizing fuel acc with
  | nil =>
    cases fuel with
    | zero => simp at hf
    | succ fuel => simp [Spec.parseHeaderSection, Spec.splitLine]
  | cons h hs ih =>
    cases fuel with
    | zero => simp at hf
    | succ fuel =>
      have hwh := hw h (by simp)
      obtain ⟨f1, f2⟩ := headerLine_facts h hwh
      have hsl : Spec.splitLine ((h :: hs).flatMap (fun h => headerLine h ++ [13, 10]) ++ 13 :: 10 :: body) =
          some (headerLine h, hs.flatMap (fun h => headerLine h ++ [13, 10]) ++ 13 :: 10 :: body) := by
        simp only [List.flatMap_cons, List.append_assoc, List.cons_append, List.nil_append]
        exact splitLine_append _ _ (fun b hb => (f1 b hb).1)
      have hso : splitOnce 58 (headerLine h) = (h.name.display, some (32 :: h.value)) :=
        splitOnce_append 58 _ _ f2
      have hne : h.name.display.isEmpty = false := by
        cases hd : h.name.display with
        | nil => exact absurd hd hwh.name.ne
        | cons _ _ => rfl
      have hall : h.name.display.all Spec.isTchar = true := by
        rw [List.all_eq_true]; exact hwh.name.tchar
      have hany : (32 :: h.value).any (fun b => decide (b = 13 ∨ b = 10)) = false := by
        rw [List.any_eq_false]
        intro b hb
        simp only [List.mem_cons] at hb
        rcases hb with rfl | hb
        · decide
        · have := hwh.value_nocrlf b hb; simp [this.1, this.2]
      have hl : ∃ a as, headerLine h = a :: as := by
        cases hd : h.name.display with
        | nil => exact absurd hd hwh.name.ne
        | cons a as => exact ⟨a, as ++ 58 :: 32 :: h.value, by simp [headerLine, hd]⟩
      obtain ⟨a, as, hl⟩ := hl
      rw [Spec.parseHeaderSection, hsl]
      rw [hl] at hso ⊢
      simp only [hso, hne, hall, hany, Bool.not_true, Bool.or_self, Bool.false_eq_true, if_false]
      rw [dropOws_value h hwh, ih (fun x hx => hw x (by simp [hx])) fuel (by simpa using hf)]
      simp

/-! ## `parseMsg ∘ serializeResponse` -/

theorem statusLine_facts (r : Response) (h : r.WF) :
    (∀ b ∈ statusLine r, b ≠ 13 ∧ b ≠ 10) ∧
    (natToBytes (statusCodeOut r.status)).length = 3 ∧
    (∀ b ∈ natToBytes (statusCodeOut r.status), isDigit b = true) ∧
    digitsValue (natToBytes (statusCodeOut r.status)) 0 = statusCodeOut r.status := by
  obtain ⟨e, h1, h2, _, h4⟩ := statusKnown_facts r.status h.status
  obtain ⟨_, n2, n3, _, _⟩ := natToBytes_spec (statusCodeOut r.status)
  refine ⟨?_, natToBytes_length_three _ (by omega) (by omega), n2, n3⟩
  intro b hb
  simp only [statusLine, List.mem_append, List.mem_cons] at hb
  rcases hb with hb | rfl | hb | rfl | hb
  · have := h.version_clean b hb; exact ⟨this.2.1, this.2.2⟩
  · decide
  · have := isDigit_facts b (n2 b hb); exact ⟨this.2.2.1, this.2.2.2.1⟩
  · decide
  · have := h4 b hb; exact ⟨this.1, this.2.1⟩

/-- **The serialiser against the strict recogniser**: a well-formed response serialises to a
message the recogniser accepts, with exactly this version, code, phrase, fields (in sorted order,
names as they lower-case from the wire) and — because of the CRLF pad — this body. -/
theorem parseMsg_serialize (r : Response) (h : r.WF) :
    Spec.parseMsg (serializeResponse r) =
      some ⟨r.version, statusCodeOut r.status, reasonPhrase r.status,
        r.headers.sorted.map (fun h => (asciiLower h.name.display, h.value)),
        if r.body = [] then [] else r.body ++ [13, 10]⟩ := by
  obtain ⟨s1, s2, s3, s4⟩ := statusLine_facts r h
  obtain ⟨_, _, _, _, p4⟩ := statusKnown_facts r.status h.status
  have hws : ∀ x ∈ r.headers.sorted, x.WF := fun x hx => h.headers x ((mem_sorted_m _ _).mp hx)
  rw [serialize_shape, Spec.parseMsg, splitLine_append _ _ (fun b hb => (s1 b hb).1)]
  have e1 : splitOnce 32 (statusLine r) =
      (r.version, some (natToBytes (statusCodeOut r.status) ++ 32 :: reasonPhrase r.status)) :=
    splitOnce_append 32 _ _ (fun b hb => (h.version_clean b hb).1)
  have e2 : splitOnce 32 (natToBytes (statusCodeOut r.status) ++ 32 :: reasonPhrase r.status) =
      (natToBytes (statusCodeOut r.status), some (reasonPhrase r.status)) :=
    splitOnce_append 32 _ _ (fun b hb => (isDigit_facts b (s3 b hb)).2.1)
  have v1 : r.version.isEmpty = false := by
    cases hv : r.version with
    | nil => exact absurd hv h.version_ne
    | cons _ _ => rfl
  have v2 : r.version.any (fun b => decide (b = 13 ∨ b = 10)) = false := by
    rw [List.any_eq_false]; intro b hb
    have := h.version_clean b hb; simp [this.2.1, this.2.2]
  have c2 : (natToBytes (statusCodeOut r.status)).all isDigit = true := by
    rw [List.all_eq_true]; exact s3
  have ph : (reasonPhrase r.status).any (fun b => decide (b = 13 ∨ b = 10)) = false := by
    rw [List.any_eq_false]; intro b hb
    have := p4 b hb; simp [this.1, this.2.1]
  simp only [e1, e2, v1, v2, s2, c2, ph, ne_eq, not_true_eq_false, decide_false, Bool.not_true,
    Bool.or_self, Bool.false_eq_true, if_false]
  rw [parseHeaderSection_lines _ hws _ _ (by
    simp only [List.length_append, List.length_cons]
    have : r.headers.sorted.length ≤
        (r.headers.sorted.flatMap (fun h => headerLine h ++ [13, 10])).length := by
      generalize r.headers.sorted = l
      induction l with
      | nil => simp
      | cons x xs ih => simp only [List.flatMap_cons, List.length_append, List.length_cons]; omega
    omega)]
  simp [s4, bodyPart]

end Humphrey.Http

namespace Humphrey.Http
open Humphrey Humphrey.Bytes

/-! ## Fields: the sorted wire order against the response's own header list -/

theorem HName.eq_mk_iff (a : HName) (n : Bytes) : a = ⟨n⟩ ↔ a.lower = n := by
  cases a; simp

/-- The values of the fields named `n`, in order, are the `get_all` of the header list. -/
theorem fields_filter (l : Headers) (n : Bytes) :
    ((l.map (fun h => (h.name.lower, h.value))).filter (fun p => p.1 = n)).map (·.2) = l.getAll ⟨n⟩ := by
  induction l with
  | nil => rfl
  | cons h hs ih =>
    simp only [Headers.getAll] at ih ⊢
    by_cases hn : h.name.lower = n
    · have : h.name = ⟨n⟩ := (HName.eq_mk_iff _ _).mpr hn
      simp [List.filter_cons, hn, this, ih]
    · have : ¬ h.name = ⟨n⟩ := fun e => hn ((HName.eq_mk_iff _ _).mp e)
      simp [List.filter_cons, hn, this, ih]

theorem wire_fields_eq (hs : Headers) (hw : ∀ h ∈ hs, h.name.WF) :
    hs.sorted.map (fun h => (asciiLower h.name.display, h.value)) =
      hs.sorted.map (fun h => (h.name.lower, h.value)) := by
  apply List.map_congr_left
  intro h hh
  rw [(hw h ((mem_sorted_m _ _).mp hh)).lower]

/-- Same multiset of fields, same-named fields in the same relative order. -/
theorem sameFields_sorted (hs : Headers) (hw : ∀ h ∈ hs, h.name.WF) :
    Spec.sameFields (hs.sorted.map (fun h => (asciiLower h.name.display, h.value)))
      (hs.map (fun h => (h.name.lower, h.value))) = true := by
  rw [wire_fields_eq hs hw]
  simp only [Spec.sameFields, List.length_map, length_sorted, beq_self_eq_true, Bool.true_and,
    List.all_eq_true]
  intro p _
  obtain ⟨n, v⟩ := p
  simp only
  rw [fields_filter, fields_filter, sorted_getAll_m]
  simp

/-- A field of the parsed message, looked up by lower-case name, is `Headers::get`. -/
theorem fields_find (l : Headers) (n : Bytes) :
    ((l.map (fun h => (h.name.lower, h.value))).find? (fun p => p.1 = n)).map (·.2) = l.get ⟨n⟩ := by
  induction l with
  | nil => rfl
  | cons h hs ih =>
    simp only [Headers.get] at ih ⊢
    by_cases hn : h.name.lower = n
    · have : h.name = ⟨n⟩ := (HName.eq_mk_iff _ _).mpr hn
      simp [List.find?_cons, hn, this]
    · have : ¬ h.name = ⟨n⟩ := fun e => hn ((HName.eq_mk_iff _ _).mp e)
      simp only [List.map_cons, List.find?_cons, hn, this, decide_false]
      exact ih

/-- `Spec.checkSerialization` on the serialiser's output: everything holds except, for a non-empty
body, the CRLF pad. -/
theorem checkSerialization_serialize (r : Response) (h : r.WF) :
    Spec.checkSerialization r.version r.status (r.headers.map fun h => (h.name.lower, h.value)) r.body
      (serializeResponse r) = if r.body = [] then none else some "crlf-after-body" := by
  obtain ⟨e, _, _, p3, _⟩ := statusKnown_facts r.status h.status
  have sf := sameFields_sorted r.headers (fun x hx => (h.headers x hx).name)
  rw [Spec.checkSerialization, parseMsg_serialize r h]
  simp only [ne_eq, not_true_eq_false, if_false, e, p3, sf, Bool.not_true, Bool.false_eq_true]
  by_cases hb : r.body = []
  · simp [hb]
  · simp [hb]

end Humphrey.Http
