import HumphreyModel.Proofs.PoolMeasure

/-!
C08: lifecycle bookkeeping, the deadlock of the unrepaired `Drop`, and the shape of the queue.
-/
namespace Humphrey.Pool

/-! ### Caller / lifecycle bookkeeping -/

structure InvCaller (s : State) : Prop where
  dropped : s.life = .dropped ↔ s.caller = .done
  threads : s.caller = .dropThreads → s.life ≠ .created
  sender : s.senderAlive = false ↔ s.life = .dropped

theorem invCaller_init : InvCaller init := by constructor <;> simp [init]

theorem invCaller_step {c : Cfg} {s s' : State} {l : Label} (h : InvCaller s) (st : Step c s l s') : InvCaller s' := by
  obtain ⟨h1, h2, h3⟩ := h
  cases st <;> (try exact ⟨h1, h2, h3⟩) <;> constructor <;> simp_all [afterRecoveryHandle]
  all_goals (first | (split <;> simp_all) | skip)

theorem InvCaller.of_reachable {c : Cfg} {s : State} (h : Reachable c s) : InvCaller s :=
  Reachable.induct invCaller_init (fun _ _ _ hs st => invCaller_step hs st) h

/-! ### The code before the repair: `Drop` joins a thread that cannot end -/

/-- What the unrepaired step can do besides `step`. -/
theorem stepU_cases {c : Cfg} {s s' : State} {l : Label} (h : stepU c s l = some s') :
    (l = .dropJoinRecovery ∧ s.caller = .dropRec ∧ (s.life = .started → s.recov = .ended)) ∨
    (l ≠ .dropJoinRecovery ∧ l ≠ .dropDetachRecovery ∧ step c s l = some s') := by
  cases l <;> simp [stepU] at h ⊢ <;> first | exact h | exact h.1

/-- Blocked in `thread.join()` of the recovery thread: once there, always there. -/
theorem blocked_in_join_forever {c : Cfg} : ∀ (ls : List Label) (s s' : State),
    s.caller = .dropRec → s.life = .started → s.recov ≠ .ended → runU c s ls = some s' →
    s'.caller = .dropRec ∧ s'.life = .started ∧ s'.recov ≠ .ended
  | [], s, s', h1, h2, h3, h => by simp [runU, runWith] at h; subst h; exact ⟨h1, h2, h3⟩
  | l :: ls, s, s', h1, h2, h3, h => by
    simp only [runU, runWith] at h
    cases hl : stepU c s l with
    | none => simp [hl] at h
    | some s1 =>
      simp only [hl] at h
      have key : s1.caller = .dropRec ∧ s1.life = .started ∧ s1.recov ≠ .ended := by
        rcases stepU_cases hl with ⟨_, _, hx⟩ | ⟨_, _, hx⟩
        · exact absurd (hx h2) h3
        · cases Step.of_step hx <;> simp_all [setW]
      exact blocked_in_join_forever ls s1 s' key.1 key.2.1 key.2.2 h


/-! ### Shape of the queue: the single `Shutdown` is the last message; who has left has left an empty queue -/

def Phase.exitish : Phase → Bool
  | .got none | .ready none | .got (some .shutdown) | .ready (some .shutdown) | .exited => true
  | _ => false

structure InvQueue (s : State) : Prop where
  wf : ∀ pre post, s.queue = pre ++ Msg.shutdown :: post → post = []
  started : s.life = .started → Msg.shutdown ∉ s.queue ∧ ∀ (w : Nat) (p : Phase), s.workers[w]? = some p → p.exitish = false
  drained : ∀ (w : Nat) (p : Phase), s.workers[w]? = some p → p.exitish = true → s.queue = []

theorem invQueue_init : InvQueue init := by
  constructor <;> simp [init]

theorem snoc_shutdown_last {q pre post : List Msg} (hq : Msg.shutdown ∉ q)
    (h : q ++ [Msg.shutdown] = pre ++ Msg.shutdown :: post) : post = [] := by
  rcases List.append_eq_append_iff.mp h with ⟨a', _, h2⟩ | ⟨c', h1, h2⟩
  · cases a' with
    | nil => simpa using h2
    | cons x xs =>
      simp at h2
  · cases c' with
    | nil => simpa using h2
    | cons x xs =>
      simp at h2
      exact absurd (by rw [h1, h2.1]; simp) hq

theorem invQueue_setW {s : State} {w : Nat} {p q : Phase} (h : InvQueue s)
    (hw : s.workers[w]? = some p) (hq : q.exitish = true → p.exitish = true) : InvQueue (setW s w q) := by
  refine ⟨h.wf, ?_, ?_⟩
  · intro hl
    refine ⟨(h.started hl).1, ?_⟩
    intro v p' hv
    simp only [setW, getElem?_set_workers hw] at hv
    by_cases e : w = v
    · subst e; simp at hv; subst hv
      have := (h.started hl).2 w p hw
      cases hx : Phase.exitish q
      · rfl
      · simp [hq hx] at this
    · simp [e] at hv; exact (h.started hl).2 v p' hv
  · intro v p' hv hx
    simp only [setW, getElem?_set_workers hw] at hv
    by_cases e : w = v
    · subst e; simp at hv; subst hv; exact h.drained w p hw (hq hx)
    · simp [e] at hv; exact h.drained v p' hv hx

theorem invQueue_step {c : Cfg} {s s' : State} {l : Label} (hs : InvStruct c s) (hc : InvCaller s)
    (h : InvQueue s) (st : Step c s l s') : InvQueue s' := by
  cases st with
  | start h1 h2 =>
    have ns : NeverStarted s := by
      rcases hs.shape with h' | h'
      · exact absurd h1 h'.1
      · exact h'
    have hq := ns.2.2.1
    refine ⟨?_, ?_, ?_⟩
    · intro pre post hp; simp [hq] at hp
    · intro _; refine ⟨by simp [hq], ?_⟩
      intro v p hv; simp [List.getElem?_replicate] at hv; obtain ⟨_, rfl⟩ := hv; rfl
    · intro v p hv hx; simp [List.getElem?_replicate] at hv; obtain ⟨_, rfl⟩ := hv; simp [Phase.exitish] at hx
  | submit h1 h2 =>
    have hst := h.started h1
    refine ⟨?_, ?_, ?_⟩
    · intro pre post hp
      have hp' : s.queue ++ [Msg.task s.submitted.length] = pre ++ Msg.shutdown :: post := hp
      have : Msg.shutdown ∈ s.queue ++ [Msg.task s.submitted.length] := by rw [hp']; simp
      simp at this; exact absurd this hst.1
    · intro _; exact ⟨by simp [hst.1], hst.2⟩
    · intro v p hv hx; have := hst.2 v p hv; simp [hx] at this
  | stop h1 h2 =>
    have hst := h.started h1
    refine ⟨?_, ?_, ?_⟩
    · intro pre post hp; exact snoc_shutdown_last hst.1 hp
    · intro hl; simp at hl
    · intro v p hv hx; have := hst.2 v p hv; simp [hx] at this
  | reqLock hw => exact invQueue_setW h hw (by simp [Phase.exitish])
  | lock hw h2 =>
    have := invQueue_setW (q := .inRecv) h hw (by simp [Phase.exitish])
    exact ⟨this.wf, this.started, this.drained⟩
  | @recvMsg w m q hw hq =>
    refine ⟨?_, ?_, ?_⟩
    · intro pre post hp
      exact h.wf (m :: pre) post (by simp [hq]; exact hp)
    · intro hl
      have hst := h.started hl
      have hm : Msg.shutdown ∉ m :: q := by rw [← hq]; exact hst.1
      simp at hm
      refine ⟨hm.2, ?_⟩
      intro v p' hv
      simp only [setW, getElem?_set_workers hw] at hv
      by_cases e : w = v
      · subst e; simp at hv; subst hv
        cases m with
        | task k => rfl
        | shutdown => simp at hm
      · simp [e] at hv; exact hst.2 v p' hv
    · intro v p' hv hx
      simp only [setW, getElem?_set_workers hw] at hv
      by_cases e : w = v
      · subst e; simp at hv; subst hv
        cases m with
        | task k => simp [Phase.exitish] at hx
        | shutdown => exact h.wf [] q (by simp [hq])
      · simp [e] at hv; have := h.drained v p' hv hx; simp [hq] at this
  | recvErr hw hq h3 =>
    have hd := hc.sender.mp h3
    refine ⟨h.wf, ?_, ?_⟩
    · intro hl; simp [setW, hd] at hl
    · intro _ _ _ _; simpa [setW] using hq
  | @unlock w r hw h2 =>
    have := invQueue_setW (q := .ready r) h hw (by rcases r with _ | _ | _ <;> simp [Phase.exitish])
    exact ⟨this.wf, this.started, this.drained⟩
  | @run w k hw =>
    have := invQueue_setW (q := .running k) h hw (by simp [Phase.exitish])
    exact ⟨this.wf, this.started, this.drained⟩
  | exitErr hw => exact invQueue_setW h hw (by simp [Phase.exitish])
  | exitShutdown hw => exact invQueue_setW h hw (by simp [Phase.exitish])
  | finish hw h2 =>
    have := invQueue_setW (q := .idle) h hw (by simp [Phase.exitish])
    exact ⟨this.wf, this.started, this.drained⟩
  | panic hw h2 =>
    have := invQueue_setW (q := .unwinding) h hw (by simp [Phase.exitish])
    exact ⟨this.wf, this.started, this.drained⟩
  | markerSend hw =>
    have := invQueue_setW (q := .dead) h hw (by simp [Phase.exitish])
    exact ⟨this.wf, this.started, this.drained⟩
  | recRecv h1 h2 => exact ⟨h.wf, h.started, h.drained⟩
  | recJoin h1 h2 => exact ⟨h.wf, h.started, h.drained⟩
  | recRespawn h1 hw =>
    have := invQueue_setW (q := .idle) h hw (by simp [Phase.exitish])
    exact ⟨this.wf, this.started, this.drained⟩
  | dropBegin h1 h2 => exact ⟨h.wf, h.started, h.drained⟩
  | dropDetachRecovery h1 => exact ⟨h.wf, h.started, h.drained⟩
  | dropDetach h1 h2 => exact ⟨h.wf, h.started, h.drained⟩
  | dropSender h1 => exact ⟨h.wf, by simp, h.drained⟩

/-- All invariants together. -/
structure Inv (c : Cfg) (s : State) : Prop where
  count : InvCount s
  struct : InvStruct c s
  caller : InvCaller s
  queue : InvQueue s

theorem Inv.of_reachable {c : Cfg} {s : State} (h : Reachable c s) : Inv c s := by
  refine Reachable.induct (P := Inv c) ⟨invCount_init, invStruct_init c, invCaller_init, invQueue_init⟩ ?_ h
  intro s l s' hi st
  exact ⟨invCount_step hi.count st, invStruct_step hi.struct st, invCaller_step hi.caller st,
    invQueue_step hi.struct hi.caller hi.queue st⟩

end Humphrey.Pool
