import HumphreyModel.Proofs.JsonComplete

/-!
Helper lemmas for C13, part 5: what the serialiser emits is an RFC 8259 text denoting the value.
-/
namespace Humphrey.Json
open Humphrey.JsonSpec

theorem hexDigit_spec {k : Nat} (h : k < 16) : HexDigit (hexDigit k) k :=
  hexDigit_of_hexVal (hexVal_hexDigit' h)

theorem Hex4_hex4Digits {n : Nat} (h : n < 0x10000) : Hex4 (hex4Digits n) n := by
  have := Hex4.mk (hexDigit_spec (Nat.mod_lt (n / 4096) (by decide : 16 > 0)))
    (hexDigit_spec (Nat.mod_lt (n / 256) (by decide : 16 > 0)))
    (hexDigit_spec (Nat.mod_lt (n / 16) (by decide : 16 > 0)))
    (hexDigit_spec (Nat.mod_lt n (by decide : 16 > 0)))
  have e : ((n / 4096 % 16 * 16 + n / 256 % 16) * 16 + n / 16 % 16) * 16 + n % 16 = n := by omega
  rw [e] at this
  exact this

theorem strBody_escapeChar (c : Char) {t s : List Char} (h : StrBody t s) :
    StrBody (escapeChar c ++ t) (c :: s) := by
  unfold escapeChar
  simp only
  split
  · rename_i hc; have := char_eq_of_toNat hc; subst this; exact .esc .quote h
  split
  · rename_i hc; have := char_eq_of_toNat hc; subst this; exact .esc .backslash h
  split
  · rename_i hc; have := char_eq_of_toNat hc; subst this; exact .esc .slash h
  split
  · rename_i hc; have := char_eq_of_toNat hc; subst this; exact .esc .b h
  split
  · rename_i hc; have := char_eq_of_toNat hc; subst this; exact .esc .f h
  split
  · rename_i hc; have := char_eq_of_toNat hc; subst this; exact .esc .n h
  split
  · rename_i hc; have := char_eq_of_toNat hc; subst this; exact .esc .r h
  split
  · rename_i hc; have := char_eq_of_toNat hc; subst this; exact .esc .t h
  split
  · rename_i hu; exact .raw ((unescaped_iff c).1 hu) h
  · rename_i h1 h2 h3 h4 h5 h6 h7 h8 hu
    have hlt : c.toNat < 0x20 := by
      have := toNat_lt c
      rw [isUnescaped_iff] at hu
      omega
    have := StrBody.u (Hex4_hex4Digits (n := c.toNat) (by omega)) (Or.inl (by omega)) h
    rw [Char.ofNat_toNat] at this
    simpa using this

theorem strBody_escapeString (s : List Char) : StrBody (escapeString s) s := by
  induction s with
  | nil => exact .nil
  | cons c s ih => exact strBody_escapeChar c ih

theorem ws_nil : Ws [] := by intro c h; cases h

theorem J_string {N : Type} (C : NumCodec N) (s : List Char) : J C .value (stringToString s) (.string s) 0 :=
  .string (strBody_escapeString s)

mutual
theorem serialize_J {N : Type} {C : NumCodec N} {Fin : N → Prop} (hC : LawfulCodec C Fin) :
    ∀ v : Value N, FiniteNumbers Fin v → J C .value (serialize C v) v (depthOf v)
  | .null, _ => .null
  | .bool true, _ => .true
  | .bool false, _ => .false
  | .number n, h => .number (hC.show_lexeme n (by simpa [FiniteNumbers] using h)) (hC.parse_show n (by simpa [FiniteNumbers] using h))
  | .string s, _ => J_string C s
  | .array [], _ => by
    simp only [serialize, serializeItems, depthOf, depthList, List.nil_append]
    exact .arrayEmpty (w := []) ws_nil
  | .array (x :: xs), h => by
    simp only [serialize, depthOf]
    exact .array (serializeItems_J hC (x :: xs) (by simp) (by simpa [FiniteNumbers] using h))
  | .object [], _ => by
    simp only [serialize, serializeMembers, depthOf, depthMembers, List.nil_append]
    exact .objectEmpty (w := []) ws_nil
  | .object (m :: ms), h => by
    simp only [serialize, depthOf]
    exact .object (serializeMembers_J hC (m :: ms) (by simp) (by simpa [FiniteNumbers] using h))

theorem serializeItems_J {N : Type} {C : NumCodec N} {Fin : N → Prop} (hC : LawfulCodec C Fin) :
    ∀ xs : List (Value N), xs ≠ [] → FiniteList Fin xs → J C .elems (serializeItems C xs) (.array xs) (depthList xs)
  | [], h, _ => absurd rfl h
  | [x], _, hf => by
    have := J.elemsOne (w1 := []) (w2 := []) ws_nil (serialize_J hC x hf.1) ws_nil
    simpa [serializeItems, depthList] using this
  | x :: y :: ys, _, hf => by
    have := J.elemsCons (w1 := []) (w2 := []) ws_nil (serialize_J hC x hf.1) ws_nil
      (serializeItems_J hC (y :: ys) (by simp) hf.2)
    simpa [serializeItems, depthList] using this

theorem serializeMembers_J {N : Type} {C : NumCodec N} {Fin : N → Prop} (hC : LawfulCodec C Fin) :
    ∀ ms : List (List Char × Value N), ms ≠ [] → FiniteMembers Fin ms →
      J C .members (serializeMembers C ms) (.object ms) (depthMembers ms)
  | [], h, _ => absurd rfl h
  | [(k, v)], _, hf => by
    have := J.membersOne (w1 := []) (w2 := []) (w3 := []) (w4 := []) ws_nil (strBody_escapeString k) ws_nil ws_nil
      (serialize_J hC v hf.1) ws_nil
    simpa [serializeMembers, depthMembers, stringToString] using this
  | (k, v) :: m :: ms, _, hf => by
    have := J.membersCons (w1 := []) (w2 := []) (w3 := []) (w4 := []) ws_nil (strBody_escapeString k) ws_nil ws_nil
      (serialize_J hC v hf.1) ws_nil (serializeMembers_J hC (m :: ms) (by simp) hf.2)
    simpa [serializeMembers, depthMembers, stringToString] using this
end

/-! ### pretty printing -/

theorem ws_spaces (n : Nat) : Ws (spaces n) := by
  intro c hc
  have : c = ' ' := by
    unfold spaces at hc
    exact (List.mem_replicate.1 hc).2
  exact Or.inl this

theorem ws_nl_spaces (n : Nat) : Ws ('\n' :: spaces n) := by
  intro c hc
  rcases List.mem_cons.1 hc with rfl | hc
  · exact Or.inr (Or.inr (Or.inl rfl))
  · exact ws_spaces n c hc

theorem ws_space : Ws [' '] := by
  intro c hc
  simp at hc
  exact Or.inl hc

mutual
theorem pretty_J {N : Type} {C : NumCodec N} {Fin : N → Prop} (hC : LawfulCodec C Fin) (size : Nat) :
    ∀ (v : Value N) (indent : Nat), FiniteNumbers Fin v → J C .value (serializePrettyIndent C size v indent) v (depthOf v)
  | .null, _, _ => .null
  | .bool true, _, _ => .true
  | .bool false, _, _ => .false
  | .number n, _, h => .number (hC.show_lexeme n (by simpa [FiniteNumbers] using h)) (hC.parse_show n (by simpa [FiniteNumbers] using h))
  | .string s, _, _ => J_string C s
  | .array [], _, _ => by
    simp only [serializePrettyIndent, depthOf, depthList]
    exact .arrayEmpty (w := []) ws_nil
  | .array (x :: xs), indent, h => by
    simp only [serializePrettyIndent, depthOf]
    have := J.array (prettyItems_J hC size (x :: xs) (by simp) (by simpa [FiniteNumbers] using h) (indent + size) ('\n' :: spaces indent)
      (ws_nl_spaces indent))
    simpa using this
  | .object [], _, _ => by
    simp only [serializePrettyIndent, depthOf, depthMembers]
    exact .objectEmpty (w := []) ws_nil
  | .object (m :: ms), indent, h => by
    simp only [serializePrettyIndent, depthOf]
    have := J.object (prettyMembers_J hC size (m :: ms) (by simp) (by simpa [FiniteNumbers] using h) (indent + size) ('\n' :: spaces indent)
      (ws_nl_spaces indent))
    simpa using this

theorem prettyItems_J {N : Type} {C : NumCodec N} {Fin : N → Prop} (hC : LawfulCodec C Fin) (size : Nat) :
    ∀ xs : List (Value N), xs ≠ [] → FiniteList Fin xs → ∀ (ind : Nat) (w : List Char), Ws w →
      J C .elems (prettyItems C size xs ind ++ w) (.array xs) (depthList xs)
  | [], h, _, _, _, _ => absurd rfl h
  | [x], _, hf, ind, w, hw => by
    have := J.elemsOne (ws_nl_spaces ind) (pretty_J hC size x ind hf.1) hw
    simpa [prettyItems, depthList] using this
  | x :: y :: ys, _, hf, ind, w, hw => by
    have := J.elemsCons (w2 := []) (ws_nl_spaces ind) (pretty_J hC size x ind hf.1) ws_nil
      (prettyItems_J hC size (y :: ys) (by simp) hf.2 ind w hw)
    simpa [prettyItems, depthList] using this

theorem prettyMembers_J {N : Type} {C : NumCodec N} {Fin : N → Prop} (hC : LawfulCodec C Fin) (size : Nat) :
    ∀ ms : List (List Char × Value N), ms ≠ [] → FiniteMembers Fin ms → ∀ (ind : Nat) (w : List Char), Ws w →
      J C .members (prettyMembers C size ms ind ++ w) (.object ms) (depthMembers ms)
  | [], h, _, _, _, _ => absurd rfl h
  | [(k, v)], _, hf, ind, w, hw => by
    have := J.membersOne (w2 := []) (ws_nl_spaces ind) (strBody_escapeString k) ws_nil ws_space
      (pretty_J hC size v ind hf.1) hw
    simpa [prettyMembers, depthMembers, stringToString] using this
  | (k, v) :: m :: ms, _, hf, ind, w, hw => by
    have := J.membersCons (w2 := []) (w4 := []) (ws_nl_spaces ind) (strBody_escapeString k) ws_nil ws_space
      (pretty_J hC size v ind hf.1) ws_nil (prettyMembers_J hC size (m :: ms) (by simp) hf.2 ind w hw)
    simpa [prettyMembers, depthMembers, stringToString] using this
end

end Humphrey.Json
