import HumphreyModel.Proofs.JsonDecNum

/-!
Helper lemmas for `decCodec_lawful` (C13), part 2: the four shapes of text that `decShow` prints,
that each is an RFC 8259 number lexeme, and that `decParse` reads it back.
-/
namespace Humphrey.Json
open Humphrey.JsonSpec

/-! ### what `decShow` prints -/

theorem dec_show_cases (neg : Bool) (m : Nat) (e : Int) :
    (m = 0 ∧ 0 ≤ e ∧ decShow ⟨neg, m, e⟩ = dec_sign neg ++ ['0']) ∨
    (m ≠ 0 ∧ 0 ≤ e ∧ ∃ c r, natDigits m = c :: r ∧ Digit19 c ∧
      decShow ⟨neg, m, e⟩ = dec_sign neg ++ c :: (r ++ List.replicate e.toNat '0')) ∨
    (m ≠ 0 ∧ e < 0 ∧ ∃ c ip fp, natDigits m = c :: (ip ++ fp) ∧ Digit19 c ∧ fp.length = (-e).toNat ∧
      decShow ⟨neg, m, e⟩ = dec_sign neg ++ c :: (ip ++ '.' :: fp)) ∨
    (e < 0 ∧ (natDigits m).length ≤ (-e).toNat ∧
      decShow ⟨neg, m, e⟩ = dec_sign neg ++
        '0' :: ([] ++ '.' :: (List.replicate ((-e).toNat - (natDigits m).length) '0' ++ natDigits m))) := by
  have hsign : ∀ body : List Char, (if neg = true then '-' :: body else body) = dec_sign neg ++ body := by
    intro body; cases neg <;> rfl
  by_cases he : 0 ≤ e
  · by_cases hm : m = 0
    · subst hm
      refine Or.inl ⟨rfl, he, ?_⟩
      simp only [decShow, ge_iff_le, he, if_true, hsign, dec_natDigits_zero]
    · obtain ⟨c, r, hcr, hc⟩ := dec_natDigits_head (Nat.pos_of_ne_zero hm)
      refine Or.inr (Or.inl ⟨hm, he, c, r, hcr, hc, ?_⟩)
      simp only [decShow, ge_iff_le, he, if_true, hm, if_false, hsign, hcr, List.cons_append]
  · have he' : e < 0 := by omega
    by_cases hlen : (natDigits m).length > (-e).toNat
    · have hk : 1 ≤ (-e).toNat := by omega
      have hm : m ≠ 0 := by
        intro h; subst h; rw [dec_natDigits_zero] at hlen; simp at hlen; omega
      obtain ⟨c, r, hcr, hc⟩ := dec_natDigits_head (Nat.pos_of_ne_zero hm)
      refine Or.inr (Or.inr (Or.inl ⟨hm, he', c, r.take (r.length - (-e).toNat),
        r.drop (r.length - (-e).toNat), ?_, hc, ?_, ?_⟩))
      · rw [List.take_append_drop]; exact hcr
      · rw [hcr, List.length_cons] at hlen
        rw [List.length_drop]; omega
      · rw [hcr, List.length_cons] at hlen
        have e1 : (c :: r).length - (-e).toNat = (r.length - (-e).toNat) + 1 := by
          rw [List.length_cons]; omega
        simp only [decShow, ge_iff_le, he, if_false, hsign, hcr, gt_iff_lt]
        rw [if_pos (by rw [List.length_cons]; omega), e1, List.take_succ_cons, List.drop_succ_cons,
          List.cons_append]
    · refine Or.inr (Or.inr (Or.inr ⟨he', by omega, ?_⟩))
      simp only [decShow, ge_iff_le, he, if_false, hsign, hlen, List.nil_append]

/-! ### each shape is a number lexeme -/

theorem dec_optMinus (neg : Bool) : OptMinus (dec_sign neg) := by
  cases neg
  · exact .none
  · exact .minus

theorem dec_lexeme_int (neg : Bool) {i : List Char} (hi : IntPart i) : NumberLexeme (dec_sign neg ++ i) := by
  have := NumberLexeme.mk (dec_optMinus neg) hi .none .none
  simpa using this

theorem dec_lexeme_frac (neg : Bool) {i fp : List Char} (hi : IntPart i) (hfp : Digits1 fp) :
    NumberLexeme (dec_sign neg ++ (i ++ '.' :: fp)) := by
  have := NumberLexeme.mk (dec_optMinus neg) hi (.frac hfp) .none
  simpa using this

theorem dec_digits_tail {c : Char} {r : List Char} {m : Nat} (h : natDigits m = c :: r) :
    ∀ d ∈ r, Digit d := by
  intro d hd
  exact dec_natDigits_digits m d (by rw [h]; simp [hd])

theorem dec_digits_append {a b : List Char} (ha : ∀ d ∈ a, Digit d) (hb : ∀ d ∈ b, Digit d) :
    ∀ d ∈ a ++ b, Digit d := by
  intro d hd
  rcases List.mem_append.1 hd with h | h
  · exact ha d h
  · exact hb d h

/-- **`show_lexeme`, unconditionally**: whatever `decShow` prints is an RFC 8259 number lexeme. -/
theorem dec_show_lexeme (d : DecNum) : NumberLexeme (decShow d) := by
  obtain ⟨neg, m, e⟩ := d
  rcases dec_show_cases neg m e with ⟨_, _, hs⟩ | ⟨_, _, c, r, hcr, hc, hs⟩ |
    ⟨_, he, c, ip, fp, hcr, hc, hlen, hs⟩ | ⟨he, hlen, hs⟩
  · rw [hs]; exact dec_lexeme_int neg .zero
  · rw [hs]
    exact dec_lexeme_int neg (.nonzero hc (dec_digits_append (dec_digits_tail hcr) (dec_zeros_digits _)))
  · rw [hs]
    have htail := dec_digits_tail hcr
    have := dec_lexeme_frac neg (i := c :: ip) (fp := fp)
      (.nonzero hc (fun d hd => htail d (by simp [hd])))
      ⟨by intro h; rw [h] at hlen; simp at hlen; omega, fun d hd => htail d (by simp [hd])⟩
    simpa using this
  · rw [hs]
    have := dec_lexeme_frac neg (i := ['0'])
      (fp := List.replicate ((-e).toNat - (natDigits m).length) '0' ++ natDigits m) .zero
      ⟨by simp [natDigits], dec_digits_append (dec_zeros_digits _) (dec_natDigits_digits m)⟩
    simpa using this

/-! ### reading back -/

theorem dec_digit_zero : Digit '0' := by unfold Digit; decide

/-- **`parse_show`**: `decParse` inverts `decShow` on normal forms. -/
theorem dec_parse_show (d : DecNum) (hd : DecFin d) : decParse (decShow d) = some d := by
  have hlex := isNumberLexeme_of_numberLexeme (dec_show_lexeme d)
  obtain ⟨neg, m, e⟩ := d
  obtain ⟨hz, hnz⟩ := hd
  simp only at hz hnz
  rcases dec_show_cases neg m e with ⟨hm, _, hs⟩ | ⟨hm, he, c, r, hcr, hc, hs⟩ |
    ⟨hm, he, c, ip, fp, hcr, hc, hlen, hs⟩ | ⟨he, hlen, hs⟩
  · -- zero
    rw [hs] at hlex ⊢
    rw [dec_parse_int neg dec_digit_zero (by simp) hlex]
    have he := hz hm
    subst hm; subst he
    simp [DecNum.normalize, digitsVal]
  · -- integer with trailing zeros
    rw [hs] at hlex ⊢
    have htail := dec_digits_tail hcr
    rw [dec_parse_int neg (dec_digit19_digit hc) (dec_digits_append htail (dec_zeros_digits _)) hlex]
    have hv : digitsVal (c :: (r ++ List.replicate e.toNat '0')) = m * 10 ^ e.toNat := by
      rw [← List.cons_append, dec_digitsVal_append, ← hcr, dec_digitsVal_natDigits, dec_digitsVal_zeros,
        List.length_replicate, Nat.mul_comm]
      rfl
    rw [hv, dec_normalize_strip neg (hnz hm) e.toNat _ 0
      (by simp only [List.length_append, List.length_replicate]; omega)]
    congr 2
    omega
  · -- digits with a decimal point inside
    rw [hs] at hlex ⊢
    have htail := dec_digits_tail hcr
    rw [dec_parse_frac neg (dec_digit19_digit hc) (fun d hd => htail d (by simp [hd]))
      (fun d hd => htail d (by simp [hd])) hlex]
    rw [← hcr, dec_digitsVal_natDigits, dec_normalize_id neg (hnz hm)]
    congr 2
    omega
  · -- `0.000ddd`
    rw [hs] at hlex ⊢
    have hm : m ≠ 0 := by intro h; exact absurd (hz h) (by omega)
    rw [dec_parse_frac neg dec_digit_zero (by simp)
      (dec_digits_append (dec_zeros_digits _) (dec_natDigits_digits m)) hlex]
    have hv : digitsVal ('0' :: ([] ++ (List.replicate ((-e).toNat - (natDigits m).length) '0' ++ natDigits m))) = m := by
      have : '0' :: ([] ++ (List.replicate ((-e).toNat - (natDigits m).length) '0' ++ natDigits m)) =
          List.replicate ((-e).toNat - (natDigits m).length + 1) '0' ++ natDigits m := by
        simp [List.replicate_succ]
      rw [this, dec_digitsVal_append, dec_digitsVal_zeros, dec_digitsVal_natDigits]
      simp
    rw [hv, dec_normalize_id neg (hnz hm)]
    congr 2
    simp only [List.length_append, List.length_replicate]
    omega

/-! ### the range of `decParse` -/

/-- Everything `decParse` returns is in normal form, so `DecFin` is exactly the range of `decParse`
(the other inclusion is `dec_parse_show`). -/
theorem dec_parse_fin {s : List Char} {d : DecNum} (h : decParse s = some d) : DecFin d := by
  unfold decParse at h
  split at h
  · simp at h
  · simp only [Option.some.injEq] at h
    subst h
    apply dec_normalize_fin
    rw [← List.length_append]
    apply dec_digitsVal_bound
    apply dec_digits_append
    · exact dec_mem_takeWhile_digit
    · intro c hc
      split at hc
      · split at hc
        · exact dec_mem_takeWhile_digit c hc
        · simp at hc
      · simp at hc

end Humphrey.Json
